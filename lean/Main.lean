import OpcuaVerif.Registry
open OpcuaVerif

/-- Generic line loop.  After a `panic` result the rest of the case (up to the next `reset`)
is answered with `skip`, as the harness does on the implementation side. -/
partial def loop (d : Driver) (h : IO.FS.Stream) (out : IO.FS.Stream) (s : d.σ) (poisoned : Bool) : IO Unit := do
  let line ← h.getLine
  if line.isEmpty then return ()
  let l := line.trimAscii.toString
  if l.isEmpty || l.startsWith "#" then
    loop d h out s poisoned
  else
    let toks := l.splitOn " "
    let isReset := toks.head? == some "reset"
    if poisoned && !isReset then
      out.putStrLn "skip"
      loop d h out s poisoned
    else
      let s0 := if isReset then d.init else s
      let (s', o0) := d.step s0 toks
      -- optional arm tags: a driver may answer `result @@ arm1,arm2`; the tags go to stderr
      -- (one `ARM <tags>` line per op) and are counted by check.py, the result goes to stdout
      let o ← match o0.splitOn " @@ " with
        | [r, arms] => do (← IO.getStderr).putStrLn ("ARM " ++ arms); pure r
        | _ => pure o0
      out.putStrLn o
      loop d h out s' (o.startsWith "panic")

def main (args : List String) : IO UInt32 := do
  match args with
  | [p] =>
    match registry p with
    | some d =>
      let stdin ← IO.getStdin
      let stdout ← IO.getStdout
      loop d stdin stdout d.init false
      return 0
    | none => IO.eprintln s!"unknown property {p}"; return 2
  | _ => IO.eprintln "usage: opcua_model <Cxx> < ops > results"; return 2
