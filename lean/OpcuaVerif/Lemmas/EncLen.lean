import OpcuaVerif.Lemmas.EncLeaf

/-! `byte_len` equals the number of bytes `encode` writes (valid values). -/
namespace OpcuaVerif.Enc
set_option linter.unusedSimpArgs false

/-! `byte_len` = number of bytes written -/

theorem encNodeIdWith_length (hi : Nat) (n : NodeId) (o : Opts) (h : WFNodeId o n) :
    (encNodeIdWith hi n).length = lenNodeId n := by
  obtain ⟨ns, id⟩ := n
  cases id with
  | num v =>
    simp only [encNodeIdWith, lenNodeId]
    split
    · simp
    · split <;> simp [le16, le32]
  | str s => simp [encNodeIdWith, lenNodeId, le16, lenStr_eq]; omega
  | guid g =>
    have : g.length = 16 := h.2
    simp [encNodeIdWith, lenNodeId, le16, this]
  | bstr s => simp [encNodeIdWith, lenNodeId, le16, lenStr_eq]; omega

theorem encScalar_length (o : Opts) (d : Nat) (s : Scalar) (h : WFScalar o d s) :
    (encScalar s).length = lenScalar s := by
  cases s with
  | guid g => exact h
  | nodeId n => exact encNodeIdWith_length 0 n o h
  | expNodeId n =>
    obtain ⟨node, uri, server⟩ := n
    simp only [encScalar, lenScalar, encExpNodeId, lenExpNodeId, List.length_append,
      encNodeIdWith_length _ node o h.1]
    cases uri <;> by_cases hs : server = 0 <;> simp [hs, lenStr_eq, le32]
  | extObj e =>
    obtain ⟨node, body⟩ := e
    simp only [encScalar, lenScalar, encExtObj, lenExtObj, List.length_append, encNodeId,
      encNodeIdWith_length _ node o h.2.1]
    cases body <;> simp [lenStr_eq] <;> omega
  | ltext l t =>
    simp only [encScalar, lenScalar, encLText, lenLText]
    cases strEmpty l <;> cases strEmpty t <;> simp [lenStr_eq] <;> omega
  | qname ns name => simp [encScalar, lenScalar, le16, lenStr_eq]; omega
  | str s => simp [encScalar, lenScalar, lenStr_eq]
  | bstr s => simp [encScalar, lenScalar, lenStr_eq]
  | xml s => simp [encScalar, lenScalar, lenStr_eq]
  | dateTime t => simp [encScalar, lenScalar, encDateTime, le64]
  | _ => simp [encScalar, lenScalar, le16, le32, le64]

theorem encDVRest_length (r : DVRest) : (encDVRest r).length = lenDVRest r := by
  obtain ⟨status, srcTs, srcPs, srvTs, srvPs⟩ := r
  cases status <;> cases srcTs <;> cases srcPs <;> cases srvTs <;> cases srvPs <;>
    simp [encDVRest, lenDVRest, encOptWith, encDateTime, le64, le32, le16]

theorem encDIF_length (f : DIF) : (encDIF f).length = lenDIF f := by
  obtain ⟨symbolic, ns, locale, ltext, addInfo, innerStatus⟩ := f
  cases symbolic <;> cases ns <;> cases locale <;> cases ltext <;> cases addInfo <;>
    cases innerStatus <;>
    simp [encDIF, lenDIF, encOptWith, encI32, le32, lenStr_eq] <;> omega

theorem encDimList_length (ds : List Nat) : (encDimList ds).length = ds.length * 4 := by
  induction ds with
  | nil => simp [encDimList]
  | cons x xs ih => simp [encDimList, le32, ih]; omega

mutual
theorem lenV_eq (o : Opts) (x : V) : ∀ d, WFV o d x →
    (encV true x).length = lenV true x ∧ (encVal true x).length = lenVal true x := by
  cases x with
  | empty => intro d _; simp [encV, lenV, encVal, lenVal]
  | sc s =>
    intro d hw
    unfold WFV at hw
    simp [encV, lenV, encVal, lenVal, encScalar_length o d s hw]; omega
  | var v =>
    intro d hw
    unfold WFV at hw
    have := (lenV_eq o v (d + 1) hw.2).1
    simp [encV, lenV, encVal, lenVal, this]; omega
  | dv x =>
    intro d hw
    unfold WFV at hw
    have := lenDV_eq o x d hw
    simp [encV, lenV, encVal, lenVal, this]; omega
  | di x =>
    intro d hw
    unfold WFV at hw
    have := lenDI_eq o x d hw
    simp [encV, lenV, encVal, lenVal, this]; omega
  | arr ty elems dims =>
    intro d hw
    unfold WFV at hw
    have := lenVals_eq o elems d ty hw.2.2.2.2.1
    refine ⟨?_, by simp [encVal, lenVal]⟩
    simp only [encV, lenV, List.length_cons, List.length_append, this, le32_length]
    cases h : encodedDims true elems dims with
    | none => simp [encDimsOpt]; omega
    | some ds => simp [encDimsOpt, encDimList_length, le32]; omega
theorem lenVals_eq (o : Opts) (xs : List V) : ∀ d ty, WFElems o d ty xs →
    (encVals true xs).length = lenVals true xs := by
  cases xs with
  | nil => intro d ty _; simp [encVals, lenVals]
  | cons x xs =>
    intro d ty hw
    unfold WFElems at hw
    have h1 := (lenV_eq o x d hw.2.1).2
    have h2 := lenVals_eq o xs d ty hw.2.2
    simp [encVals, lenVals, h1, h2]
theorem lenDV_eq (o : Opts) (x : DV) : ∀ d, WFDV o d x → (encDV true x).length = lenDV true x := by
  cases x with
  | mk0 r => intro d _; simp [encDV, lenDV, encDVRest_length]; omega
  | mk1 v r =>
    intro d hw
    unfold WFDV at hw
    have := (lenV_eq o v (d + 1) hw.2.1).1
    simp [encDV, lenDV, encDVRest_length, this]; omega
theorem lenDI_eq (o : Opts) (x : DI) : ∀ d, WFDI o d x → (encDI true x).length = lenDI true x := by
  cases x with
  | leaf f => intro d _; simp [encDI, lenDI, encDIF_length]; omega
  | nest f i =>
    intro d hw
    unfold WFDI at hw
    have := lenDI_eq o i (d + 1) hw.2.2
    simp [encDI, lenDI, encDIF_length, this]; omega
end

end OpcuaVerif.Enc
