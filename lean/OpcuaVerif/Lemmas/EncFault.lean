import OpcuaVerif.Lemmas.EncSpec

/-! Which faults (stack / alloc / panic) a decoder can end in: none at all for the non-recursive
decoders when the allocation budget covers the limits (`Res.FaultIn` lifts a set of faults). -/
namespace OpcuaVerif.Enc
set_option linter.unusedSimpArgs false

/-- every fault a result can be is in `S` -/
def Res.FaultIn {α : Type} (S : Fault → Prop) : Res α → Prop
  | .fault f => S f
  | _ => True

theorem Res.faultIn_bind {α β : Type} {S : Fault → Prop} {x : Res α} {f : α → Bytes → Res β}
    (hx : x.FaultIn S) (hf : ∀ a r, (f a r).FaultIn S) : (x.bind f).FaultIn S := by
  cases x with
  | ok a r => exact hf a r
  | err => trivial
  | fault k => exact hx

theorem Res.faultIn_map {α β : Type} {S : Fault → Prop} {x : Res α} {f : α → β}
    (hx : x.FaultIn S) : (x.map f).FaultIn S := by
  cases x with
  | ok a r => trivial
  | err => trivial
  | fault k => exact hx

theorem Res.faultIn_ite {α : Type} {S : Fault → Prop} {c : Prop} [Decidable c] {x y : Res α}
    (hx : x.FaultIn S) (hy : y.FaultIn S) : (if c then x else y).FaultIn S := by
  split <;> assumption

theorem Res.faultIn_ofOpt {α : Type} {S : Fault → Prop} (x : Option (α × Bytes)) : (Res.ofOpt x).FaultIn S := by
  cases x with
  | none => trivial
  | some p => trivial

theorem Res.faultIn_mono {α : Type} {S T : Fault → Prop} {x : Res α} (hx : x.FaultIn S)
    (h : ∀ f, S f → T f) : x.FaultIn T := by
  cases x with
  | fault k => exact h k hx
  | ok a r => trivial
  | err => trivial

/-- no fault at all -/
abbrev Res.NoFault {α : Type} (x : Res α) : Prop := x.FaultIn (fun _ => False)

theorem decStr_noFault (o : Opts) (cap : Nat) (b : Bytes) (hc : o.maxStr ≤ cap) : (decStr o cap b).NoFault := by
  unfold decStr guardAlloc
  repeat' split
  all_goals (first | trivial | (simp only [Res.FaultIn]; omega))

theorem decBStr_noFault (o : Opts) (cap : Nat) (b : Bytes) (hc : o.maxBytes ≤ cap) : (decBStr o cap b).NoFault := by
  unfold decBStr guardAlloc
  repeat' split
  all_goals (first | trivial | (simp only [Res.FaultIn]; omega))

theorem decGuid_noFault (b : Bytes) : (decGuid b).NoFault := by
  unfold decGuid; split <;> trivial

theorem rd64_lt (b : Bytes) (n : Nat) (r : Bytes) (h : rd64 b = some (n, r)) : n < 18446744073709551616 := by
  unfold rd64 at h
  split at h
  · simp at h; omega
  · cases h

theorem dtFromTicks_i64 (t : Int) (h1 : -9223372036854775808 ≤ t) (h2 : t < 9223372036854775808) :
    ∃ t', dtFromTicks t = some t' := by
  unfold dtFromTicks
  by_cases e : t = i64Max
  · exact ⟨_, if_pos e⟩
  · rw [if_neg e, if_neg (by unfold chronoLimit; omega)]
    exact ⟨_, rfl⟩

theorem toS64_range (n : Nat) (h : n < 18446744073709551616) :
    -9223372036854775808 ≤ toS64 n ∧ toS64 n < 9223372036854775808 := by
  unfold toS64; split <;> omega

/-- the `chrono` addition in `DateTime::from(i64)` cannot overflow: every `i64` tick count is
inside chrono's date range -/
theorem decDateTime_noFault (b : Bytes) : (decDateTime b).NoFault := by
  unfold decDateTime
  split
  · trivial
  · rename_i n r h
    have hn := toS64_range n (rd64_lt b n r h)
    obtain ⟨t, ht⟩ := dtFromTicks_i64 (toS64 n) hn.1 hn.2
    rw [ht]; trivial

theorem decNodeIdBody_noFault (o : Opts) (cap k : Nat) (b : Bytes) (hc : CapOK o cap) :
    (decNodeIdBody o cap k b).NoFault := by
  unfold decNodeIdBody
  repeat' apply Res.faultIn_ite
  all_goals (first
    | exact Res.faultIn_map (Res.faultIn_ofOpt _)
    | exact Res.faultIn_bind (Res.faultIn_ofOpt _) (fun _ _ => Res.faultIn_map (Res.faultIn_ofOpt _))
    | exact Res.faultIn_bind (Res.faultIn_ofOpt _) (fun _ _ => Res.faultIn_map (decStr_noFault o cap _ hc.1))
    | exact Res.faultIn_bind (Res.faultIn_ofOpt _) (fun _ _ => Res.faultIn_map (decBStr_noFault o cap _ hc.2.1))
    | exact Res.faultIn_bind (Res.faultIn_ofOpt _) (fun _ _ => Res.faultIn_map (decGuid_noFault _))
    | trivial)

theorem decNodeId_noFault (o : Opts) (cap : Nat) (b : Bytes) (hc : CapOK o cap) : (decNodeId o cap b).NoFault :=
  Res.faultIn_bind (Res.faultIn_ofOpt _) (fun _ _ => decNodeIdBody_noFault o cap _ _ hc)

theorem decExpNodeId_noFault (o : Opts) (cap : Nat) (b : Bytes) (hc : CapOK o cap) :
    (decExpNodeId o cap b).NoFault := by
  unfold decExpNodeId
  refine Res.faultIn_bind (Res.faultIn_ofOpt _) (fun m b => ?_)
  refine Res.faultIn_bind (decNodeIdBody_noFault o cap _ _ hc) (fun node b => ?_)
  refine Res.faultIn_bind (Res.faultIn_ite (decStr_noFault o cap _ hc.1) trivial) (fun uri b => ?_)
  exact Res.faultIn_map (Res.faultIn_ite (Res.faultIn_ofOpt _) trivial)

theorem decExtObj_noFault (o : Opts) (cap d : Nat) (b : Bytes) (hc : CapOK o cap) :
    (decExtObj o cap d b).NoFault := by
  unfold decExtObj
  apply Res.faultIn_ite
  · trivial
  refine Res.faultIn_bind (decNodeId_noFault o cap _ hc) (fun node b => ?_)
  refine Res.faultIn_bind (Res.faultIn_ofOpt _) (fun t b => ?_)
  repeat' apply Res.faultIn_ite
  · trivial
  · exact Res.faultIn_map (decBStr_noFault o cap _ hc.2.1)
  · exact Res.faultIn_map (decStr_noFault o cap _ hc.1)
  · trivial

theorem decLText_noFault (o : Opts) (cap : Nat) (b : Bytes) (hc : CapOK o cap) : (decLText o cap b).NoFault := by
  unfold decLText
  refine Res.faultIn_bind (Res.faultIn_ofOpt _) (fun m b => ?_)
  refine Res.faultIn_bind (Res.faultIn_ite (decStr_noFault o cap _ hc.1) trivial) (fun l b => ?_)
  exact Res.faultIn_map (Res.faultIn_ite (decStr_noFault o cap _ hc.1) trivial)

theorem decScalar_noFault (o : Opts) (cap d em : Nat) (b : Bytes) (hc : CapOK o cap) :
    (decScalar o cap d em b).NoFault := by
  unfold decScalar
  repeat' apply Res.faultIn_ite
  all_goals (first
    | exact Res.faultIn_map (Res.faultIn_ofOpt _)
    | exact Res.faultIn_map (decStr_noFault o cap _ hc.1)
    | exact Res.faultIn_map (decBStr_noFault o cap _ hc.2.1)
    | exact Res.faultIn_map (decDateTime_noFault _)
    | exact Res.faultIn_map (decGuid_noFault _)
    | exact Res.faultIn_map (decNodeId_noFault o cap _ hc)
    | exact Res.faultIn_map (decExpNodeId_noFault o cap _ hc)
    | exact Res.faultIn_map (decLText_noFault o cap _ hc)
    | exact Res.faultIn_map (decExtObj_noFault o cap d _ hc)
    | exact Res.faultIn_bind (Res.faultIn_ofOpt _) (fun _ _ => Res.faultIn_map (decStr_noFault o cap _ hc.1))
    | trivial)

theorem optField_noFault {α : Type} (c : Prop) [Decidable c] (x : Res α) (b : Bytes) (hx : x.NoFault) :
    (if c then x.map some else .ok none b).NoFault :=
  Res.faultIn_ite (Res.faultIn_map hx) trivial

theorem decDVRest_noFault (m : Nat) (b : Bytes) : (decDVRest m b).NoFault := by
  unfold decDVRest
  refine Res.faultIn_bind (optField_noFault _ _ _ (Res.faultIn_ofOpt _)) (fun _ b => ?_)
  refine Res.faultIn_bind (optField_noFault _ _ _ (decDateTime_noFault _)) (fun _ b => ?_)
  refine Res.faultIn_bind (optField_noFault _ _ _ (Res.faultIn_ofOpt _)) (fun _ b => ?_)
  refine Res.faultIn_bind (optField_noFault _ _ _ (decDateTime_noFault _)) (fun _ b => ?_)
  exact Res.faultIn_map (optField_noFault _ _ _ (Res.faultIn_ofOpt _))

theorem rdI32_noFault (b : Bytes) : (rdI32 b).NoFault := Res.faultIn_map (Res.faultIn_ofOpt _)

theorem decDIF_noFault (o : Opts) (cap m : Nat) (b : Bytes) (hc : CapOK o cap) : (decDIF o cap m b).NoFault := by
  unfold decDIF
  refine Res.faultIn_bind (optField_noFault _ _ _ (rdI32_noFault _)) (fun _ b => ?_)
  refine Res.faultIn_bind (optField_noFault _ _ _ (rdI32_noFault _)) (fun _ b => ?_)
  refine Res.faultIn_bind (optField_noFault _ _ _ (rdI32_noFault _)) (fun _ b => ?_)
  refine Res.faultIn_bind (optField_noFault _ _ _ (rdI32_noFault _)) (fun _ b => ?_)
  refine Res.faultIn_bind (optField_noFault _ _ _ (decStr_noFault o cap _ hc.1)) (fun _ b => ?_)
  exact Res.faultIn_map (optField_noFault _ _ _ (Res.faultIn_ofOpt _))

theorem decList_faultIn {α : Type} (S : Fault → Prop) (g : Bytes → Res α) (hg : ∀ b, (g b).FaultIn S) :
    ∀ n b, (decList g n b).FaultIn S := by
  intro n
  induction n with
  | zero => intro b; trivial
  | succ n ih =>
    intro b
    unfold decList
    exact Res.faultIn_bind (hg b) (fun v b => Res.faultIn_map (ih b))

theorem decDimArray_noFault (o : Opts) (cap : Nat) (b : Bytes) (hc : o.maxArr ≤ cap) :
    (decDimArray o cap b).NoFault := by
  unfold decDimArray guardAlloc
  repeat' split
  all_goals (first | trivial | skip)
  · omega
  · exact Res.faultIn_map (decList_faultIn _ _ (fun _ => Res.faultIn_ofOpt _) _ _)

end OpcuaVerif.Enc
