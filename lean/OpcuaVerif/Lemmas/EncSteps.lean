import OpcuaVerif.Lemmas.EncLeaf

/-! Round trip of the recursive family (Variant / DataValue / DiagnosticInfo): step lemmas. -/
namespace OpcuaVerif.Enc
set_option linter.unusedSimpArgs false

theorem Scalar.tid_range (s : Scalar) : 1 ≤ s.tid ∧ s.tid ≤ 22 := by
  cases s <;> simp [Scalar.tid]

section steps
variable (o : Opts) (cap : Nat) (lk : Bool)

theorem decV_nonarr (f d m : Nat) (b : Bytes) (h : m < 64) :
    decV o cap lk (f + 1) d (m :: b) = decVal o cap lk f d m b := by
  have h1 : ¬ (m / 128 % 2 = 1) := by omega
  have h2 : ¬ (m / 64 % 2 = 1) := by omega
  have h3 : m % 64 = m := by omega
  simp [decV, h1, h2, h3]

theorem decVal_empty (f d : Nat) (b : Bytes) : decVal o cap lk (f + 1) d 0 b = .ok .empty b := by
  simp [decVal]

theorem decVal_sc (f d em : Nat) (b : Bytes) (h1 : 1 ≤ em) (h2 : em ≤ 22) :
    decVal o cap lk (f + 1) d em b = (decScalar o cap d em b).map .sc := by
  have : ¬ em = 0 := by omega
  simp [decVal, this, h2]

theorem decVal_var (f d : Nat) (b : Bytes) :
    decVal o cap lk (f + 1) d 24 b =
      if d ≥ o.maxDepth then .err else (decV o cap lk f (d + 1) b).map .var := by
  simp [decVal]

theorem decVal_dv (f d : Nat) (b : Bytes) :
    decVal o cap lk (f + 1) d 23 b = (decDV o cap lk f d b).map .dv := by
  simp [decVal]

theorem decVal_di (f d : Nat) (b : Bytes) :
    decVal o cap lk (f + 1) d 25 b = (decDI o cap lk f d b).map .di := by
  simp [decVal]

end steps
theorem decV_arr (o : Opts) (cap : Nat) (lk : Bool) (f d ty : Nat) (hasDims : Bool) (b : Bytes)
    (h1 : 1 ≤ ty) (h2 : ty ≤ 25) :
    decV o cap lk (f + 1) d ((ty + 128 + (if hasDims then 64 else 0)) :: b) =
      match rd32 b with
      | none => .err
      | some (n, b) =>
        if n ≥ 2147483648 ∧ n ≠ 4294967295 then .err
        else if n = 4294967295 ∨ n = 0 then .ok (.arr ty [] (some [])) b
        else if n > o.maxArr then .err
        else guardAlloc cap n
          ((decList (decVal o cap lk f d ty) n b).bind fun vals b =>
            if hasDims then
              (decDimArray o cap b).bind fun dims b =>
                if checkDims n dims then .ok (.arr ty vals dims) b else .err
            else .ok (.arr ty vals none) b) := by
  cases hasDims
  · have e1 : (ty + 128 + 0) / 128 % 2 = 1 := by omega
    have e2 : ¬ ((ty + 128 + 0) / 64 % 2 = 1) := by omega
    have e3 : (ty + 128 + 0) % 64 = ty := by omega
    have e4 : ¬ (ty = 0 ∨ ty > 25) := by omega
    have e5 : ¬ ty > 25 := by omega
    have e6 : ¬ ty = 0 := by omega
    simp only [decV, e1, e2, e3, e4, e5, e6, if_true, if_false, Bool.false_eq_true, or_self]
    cases rd32 b with
    | none => rfl
    | some p => rfl
  · have e1 : (ty + 128 + 64) / 128 % 2 = 1 := by omega
    have e2 : ((ty + 128 + 64) / 64 % 2 = 1) := by omega
    have e3 : (ty + 128 + 64) % 64 = ty := by omega
    have e4 : ¬ (ty = 0 ∨ ty > 25) := by omega
    have e5 : ¬ ty > 25 := by omega
    have e6 : ty ≠ 0 := by omega
    simp only [decV, e1, e2, e3, e4, e5, e6, if_true, if_false, and_true, ne_eq, not_false_eq_true, or_self]
    cases rd32 b with
    | none => rfl
    | some p => rfl

theorem decList_dims (ds : List Nat) (r : Bytes) (h : ∀ x ∈ ds, x < 4294967296) :
    decList (fun b => Res.ofOpt (rd32 b)) ds.length (encDimList ds ++ r) = .ok ds r := by
  induction ds with
  | nil => simp [decList, encDimList]
  | cons x xs ih =>
    have hx : x < 4294967296 := h x (by simp)
    have := ih (fun y hy => h y (by simp [hy]))
    simp [decList, encDimList, rd32_le32 _ _ hx, this]

theorem decDimArray_enc (o : Opts) (cap : Nat) (ds : List Nat) (r : Bytes) (h : ∀ x ∈ ds, x < 4294967296)
    (hl : ds.length ≤ o.maxArr) (hl2 : ds.length < 2147483648) (hc : o.maxArr ≤ cap) :
    decDimArray o cap (encDimsOpt (some ds) ++ r) = .ok (some ds) r := by
  have hlt : ds.length < 4294967296 := by omega
  simp only [decDimArray, encDimsOpt, List.append_assoc, rd32_le32 _ _ hlt]
  rw [if_neg (by omega), if_neg (by omega), if_neg (by omega)]
  simp only [guardAlloc]
  rw [if_neg (by omega), decList_dims ds r h]
  rfl

theorem le_dimsProd (ds : List Nat) (h : AllPos ds) : 1 ≤ dimsProd ds := by
  induction ds with
  | nil => simp [dimsProd]
  | cons x xs ih =>
    obtain ⟨hx, hxs⟩ := h
    have := ih hxs
    simp only [dimsProd]
    exact Nat.mul_le_mul hx this

theorem mem_le_dimsProd (ds : List Nat) (h : AllPos ds) : ∀ x ∈ ds, x ≤ dimsProd ds := by
  induction ds with
  | nil => simp
  | cons y ys ih =>
    obtain ⟨hy, hys⟩ := h
    intro x hx
    simp only [dimsProd]
    have h1 := le_dimsProd ys hys
    rcases List.mem_cons.mp hx with rfl | hx
    · exact Nat.le_mul_of_pos_right _ h1
    · exact Nat.le_trans (ih hys x hx) (Nat.le_mul_of_pos_left _ hy)

theorem dimProduct_ok (ds : List Nat) (acc : Nat) (h : AllPos ds) (hlt : acc * dimsProd ds < 4294967296) :
    dimProduct ds acc = some (acc * dimsProd ds) := by
  induction ds generalizing acc with
  | nil => simp [dimProduct, dimsProd]
  | cons x xs ih =>
    obtain ⟨hx, hxs⟩ := h
    have h1 := le_dimsProd xs hxs
    simp only [dimsProd] at hlt ⊢
    have e : acc * (x * dimsProd xs) = acc * x * dimsProd xs := by rw [Nat.mul_assoc]
    have h2 : acc * x ≤ acc * x * dimsProd xs := Nat.le_mul_of_pos_right _ h1
    simp only [dimProduct]
    rw [if_neg (by omega), ih (acc * x) hxs (by omega), e]

theorem any_zero_false (ds : List Nat) (h : AllPos ds) : ds.any (· == 0) = false := by
  induction ds with
  | nil => simp
  | cons x xs ih =>
    obtain ⟨hx, hxs⟩ := h
    have : ¬ x = 0 := by omega
    simp [this, ih hxs]

theorem checkDims_ok (n : Nat) (ds : List Nat) (h : AllPos ds) (hp : dimsProd ds = n) (hn : n < 4294967296) :
    checkDims n (some ds) = true := by
  have := dimProduct_ok ds 1 h (by omega)
  simp [checkDims, any_zero_false ds h, this, hp]

end OpcuaVerif.Enc
