import OpcuaVerif.Model.C09

/-!
Helper lemmas for C09 (and C08): stream-length facts of the header decoders and totality of the
parts of the receive path.
-/
namespace OpcuaVerif.C09


theorem rdField_len {max : Nat} {r r' : Bytes} {f : Fld} (h : rdField max r = some (f, r')) :
    r.length = r'.length + 4 + f.bytes.length := by
  unfold rdField at h
  split at h
  · rename_i a b c d r0
    simp only [] at h
    split at h
    · cases h; simp [Fld.bytes]
    · split at h
      · cases h
      · split at h
        · cases h
        · split at h
          · cases h
          · cases h
            simp [Fld.bytes, List.length_take, List.length_drop]; omega
  · cases h

theorem rdHeader_len {src rest : Bytes} {t : MType} {size : Nat}
    (h : rdHeader src = some (t, size, rest)) : src.length = rest.length + 12 := by
  unfold rdHeader at h
  split at h
  · simp only [] at h
    split at h
    · cases h
    · split at h
      · cases h; simp
      · cases h
  · cases h

theorem rdAsym_len {ch : Chan} {rest rest' : Bytes} {ah : AsymHdr}
    (h : rdAsym ch rest = some (ah, rest')) :
    rest.length = rest'.length + 12 + ah.uri.bytes.length + ah.cert.bytes.length + ah.thumb.bytes.length := by
  unfold rdAsym at h
  split at h
  · cases h
  · rename_i u r1 h1
    split at h
    · cases h
    · split at h
      · cases h
      · rename_i c r2 h2
        split at h
        · cases h
        · rename_i t r3 h3
          split at h
          · cases h
          · split at h
            · cases h
            · cases h
              have := rdField_len h1
              have := rdField_len h2
              have := rdField_len h3
              simp only []
              omega


theorem rsaLoop_total (C : Crypto) (laws : CryptoLaws C) (p : Policy) (k total : Nat) (hk : 0 < k) :
    ∀ (fuel i : Nat) (src acc : Bytes), src.length ≤ fuel → src.length % k = 0 →
      acc.length + src.length ≤ total →
      (rsaLoop C p k total fuel i src acc = .fail) ∨
      (∃ plain, rsaLoop C p k total fuel i src acc = .done plain ∧ plain.length ≤ acc.length + src.length) := by
  intro fuel
  induction fuel with
  | zero =>
    intro i src acc hf _ _
    have : src = [] := by cases src <;> simp_all
    subst this
    right; exact ⟨acc, by simp [rsaLoop], by simp⟩
  | succ f ih =>
    intro i src acc hf hm ht
    cases src with
    | nil => right; exact ⟨acc, by simp [rsaLoop], by simp⟩
    | cons x xs =>
      have hlen : k ≤ (x :: xs).length := by
        by_cases h : (x :: xs).length < k
        · rw [Nat.mod_eq_of_lt h] at hm; simp at hm
        · omega
      unfold rsaLoop
      rw [if_neg (by omega), if_neg (by omega)]
      cases hd : C.rsaDec p i ((x :: xs).take k) with
      | none => left; rfl
      | some out =>
        have hol : out.length ≤ k := by
          have := laws.rsaLen p i _ out hd
          simp only [List.length_take] at this; omega
        have hdl : ((x :: xs).drop k).length = (x :: xs).length - k := by simp
        have hm' : ((x :: xs).drop k).length % k = 0 := by
          rw [hdl, ← Nat.mod_eq_sub_mod hlen]; exact hm
        have := ih (i + 1) ((x :: xs).drop k) (acc ++ out) (by rw [hdl]; omega) hm'
          (by rw [hdl]; simp only [List.length_append]; omega)
        simp only []
        rcases this with h | ⟨plain, h1, h2⟩
        · left; exact h
        · right; refine ⟨plain, h1, ?_⟩
          rw [hdl] at h2; simp only [List.length_append] at h2; omega

theorem verifyPadding_total (F : Fixes) (hF : F.padding = true) (dst : Bytes) (keySize padEnd : Nat) :
    ∀ s, verifyPadding F dst keySize padEnd ≠ .inl (.panic s) ∧ verifyPadding F dst keySize padEnd ≠ .inl .fuel := by
  intro s
  unfold verifyPadding
  simp only [hF, true_and]
  (repeat' split) <;> simp



/-- the call came back: a chunk or a status code -/
def Outcome.returns : Outcome → Prop
  | .ok _ => True
  | .err _ => True
  | _ => False

theorem asym_total (C : Crypto) (laws : CryptoLaws C) (ch : Chan) (hwf : ch.wf) (p : Policy)
    (src : Bytes) (start : Nat) (cert thumb : Bytes) (vk : Nat)
    (hs : start ≤ src.length) (hvk : vk ≤ start) :
    (asymDecryptVerify Fixes.current C ch p src start cert thumb vk).returns := by
  unfold asymDecryptVerify
  split
  · simp [Fixes.current, Outcome.returns]
  · rename_i keySize hoc
    split
    · simp [Outcome.returns]
    · split
      · simp [Fixes.current, Outcome.returns]
      · rename_i k hok
        have hk := hwf k hok
        simp only [Fixes.current, true_and]
        split
        · simp [Outcome.returns]
        · rename_i hmod
          have hmod' : (src.drop start).length % k = 0 := by
            simpa using hmod
          rcases rsaLoop_total C laws p k (src.drop start).length hk (src.drop start).length 0
            (src.drop start) [] (Nat.le_refl _) hmod' (by simp) with h | ⟨plain, h, hl⟩
          · rw [h]; simp [Outcome.returns]
          · rw [h]
            simp only [List.length_nil, Nat.zero_add, List.length_drop] at hl
            simp only []
            rw [if_neg (by omega), if_neg (by omega)]
            split
            · simp [Outcome.returns]
            · simp [Outcome.returns]
            · have hp := verifyPadding_total Fixes.current rfl
                (src.take start ++ plain ++ List.replicate (src.length - start - plain.length) 0) keySize
                (start + plain.length - vk)
              split
              · rename_i o ho
                cases o with
                | ok d => simp [Outcome.returns]
                | err s => simp [Outcome.returns]
                | panic s => exact absurd ho (hp s).1
                | fuel => exact absurd ho (hp .nullCert).2
              · simp [Outcome.returns]

theorem sym_total (C : Crypto) (laws : CryptoLaws C) (ch : Chan) (src : Bytes) :
    (recvSym Fixes.current C ch src 16).returns := by
  unfold recvSym
  generalize hF : Fixes.current = F
  have f1 : F.symShort = true := by subst hF; rfl
  have f2 : F.keys = true := by subst hF; rfl
  have f3 : F.aesBlock = true := by subst hF; rfl
  have f4 : F.symPadding = true := by subst hF; rfl
  have f5 : F.padding = true := by subst hF; rfl
  simp only [f1, f2, f3, f4, true_and, if_true]
  split
  · split
    · simp [Outcome.returns]
    · rename_i hn
      rw [if_neg (by omega)]
      split
      · split
        · simp [Outcome.returns]
        · split <;> simp [Outcome.returns]
      · split
        · simp [Outcome.returns]
        · split
          · simp [Outcome.returns]
          · split
            · simp [Outcome.returns]
            · rename_i pt hpt
              have := laws.aesLen _ _ hpt
              simp only [List.length_drop] at this
              rw [if_neg (by omega), if_neg (by omega)]
              split
              · have hp := verifyPadding_total F f5
                  (src.take 16 ++ pt ++ List.replicate (src.length - (16 + pt.length)) 0) ch.policy.symSig
                  (16 + pt.length - ch.policy.symSig)
                split
                · rename_i o ho
                  cases o with
                  | ok d => simp [Outcome.returns]
                  | err s => simp [Outcome.returns]
                  | panic s => exact absurd ho (hp s).1
                  | fuel => exact absurd ho (hp .nullCert).2
                · simp [Outcome.returns]
              · simp [Outcome.returns]
  · simp [Outcome.returns]

/-- an early outcome of `verify_padding` is never a chunk -/
theorem verifyPadding_inl_not_ok (F : Fixes) (dst : Bytes) (keySize padEnd : Nat) (d : Bytes) :
    verifyPadding F dst keySize padEnd ≠ .inl (.ok d) := by
  unfold verifyPadding
  cases F.padding <;> simp only [Bool.false_eq_true, false_and, true_and, if_false] <;>
    (repeat' split) <;> simp

end OpcuaVerif.C09
