import OpcuaVerif.Model.C41Schema
/-! Canonical documents (`wf`) and the normalisation theorem for the C41 schema codec. -/
set_option linter.unusedSimpArgs false
namespace OpcuaVerif.C41
open OpcuaVerif.Text

def sortedStr : List Key → Bool
  | [] => true
  | [_] => true
  | a :: b :: r => keyLt a b && sortedStr (b :: r)

def sortedKV : List (Key × Doc) → Bool
  | [] => true
  | [_] => true
  | a :: b :: r => keyLt a.1 b.1 && sortedKV (b :: r)

def isNull : Doc → Bool
  | .null => true
  | _ => false

def names : Fields → List Key
  | .nil => []
  | .cons n _ _ _ r => n :: names r

mutual
  /-- canonical documents of a type = the typed configuration values -/
  def wf : Ty → Doc → Bool
    | .bool, .bool _ => true
    | .uint max, .int z => decide (0 ≤ z ∧ z ≤ max)
    | .sint lo hi, .int z => decide (lo ≤ z ∧ z ≤ hi)
    | .f64, .flt _ => true
    | .str, .str _ => true
    | .opt _, .null => true
    | .opt t, d => wf t d
    | .seq t, .seq l => wfList t l
    | .strSet, .seq l =>
      match allStr l with
      | some ks => sortedStr ks
      | none => false
    | .map t, .map kv => sortedKV kv && wfVals t kv
    | .duration, .map [(k1, .int s), (k2, .int n)] =>
      decide (k1 = kSecs ∧ k2 = kNanos ∧ 0 ≤ s ∧ s ≤ u64Max ∧ 0 ≤ n ∧ n < 1000000000)
    | .struct fs, .map kv => wfFields fs kv
    | _, _ => false
  def wfList : Ty → List Doc → Bool
    | _, [] => true
    | t, d :: r => wf t d && wfList t r
  def wfVals : Ty → List (Key × Doc) → Bool
    | _, [] => true
    | t, (_, d) :: r => wf t d && wfVals t r
  def wfFields : Fields → List (Key × Doc) → Bool
    | .nil, [] => true
    | .nil, _ :: _ => false
    | .cons _ t skipNone dflt rest, [] => skipNone && isOpt t && dflt.isNone && wfFields rest []
    | .cons name t skipNone dflt rest, (k, v) :: kv =>
      if k = name then wf t v && !(skipNone && isNull v) && wfFields rest kv
      else skipNone && isOpt t && dflt.isNone && wfFields rest ((k, v) :: kv)
end

mutual
  /-- schema sanity: no `Option<Option<_>>`, field names of a struct distinct -/
  def tyOk : Ty → Bool
    | .opt t => tyOk t && !isOpt t
    | .seq t => tyOk t
    | .map t => tyOk t
    | .struct fs => fieldsOk fs
    | _ => true
  def fieldsOk : Fields → Bool
    | .nil => true
    | .cons name t _ _ rest => tyOk t && !(names rest).contains name && fieldsOk rest
end

theorem insStr_sorted (k : Key) (r : List Key) (h : sortedStr (k :: r) = true) : insStr k r = k :: r := by
  cases r with
  | nil => rfl
  | cons b r => simp [sortedStr] at h; simp [insStr, h.1]

theorem sortStr_sorted : ∀ (l : List Key), sortedStr l = true → sortStr l = l
  | [], _ => rfl
  | [k], _ => rfl
  | a :: b :: r, h => by
    have h' : sortedStr (b :: r) = true := by simp [sortedStr] at h; exact h.2
    have e : sortStr (a :: b :: r) = insStr a (sortStr (b :: r)) := rfl
    rw [e, sortStr_sorted (b :: r) h']
    exact insStr_sorted a (b :: r) h

theorem insKV_sorted (k : Key) (v : Doc) (r : List (Key × Doc)) (h : sortedKV ((k, v) :: r) = true) :
    insKV k v r = (k, v) :: r := by
  cases r with
  | nil => rfl
  | cons b r => obtain ⟨k', v'⟩ := b; simp [sortedKV] at h; simp [insKV, h.1]

theorem sortKV_sorted : ∀ (l : List (Key × Doc)), sortedKV l = true → sortKV l = l
  | [], _ => rfl
  | [(k, v)], _ => rfl
  | (k, v) :: b :: r, h => by
    have h' : sortedKV (b :: r) = true := by simp [sortedKV] at h; exact h.2
    have e : sortKV ((k, v) :: b :: r) = insKV k v (sortKV (b :: r)) := rfl
    rw [e, sortKV_sorted (b :: r) h']
    exact insKV_sorted k v (b :: r) h

theorem allStr_map (ks : List Key) : allStr (ks.map Doc.str) = some ks := by
  induction ks with
  | nil => rfl
  | cons k r ih => simp [allStr, ih]

theorem allStr_eq (l : List Doc) (ks : List Key) (h : allStr l = some ks) : l = ks.map Doc.str := by
  induction l generalizing ks with
  | nil => simp [allStr] at h; subst h; rfl
  | cons d r ih =>
    cases d <;> simp [allStr] at h
    rename_i s
    obtain ⟨r', hr, rfl⟩ := h
    simp [ih r' hr]


def keysOf (kv : List (Key × Doc)) : List Key := kv.map (·.1)

theorem lookup_append_notin (k : Key) (pre kv : List (Key × Doc)) (h : k ∉ keysOf pre) :
    lookup k (pre ++ kv) = lookup k kv := by
  induction pre with
  | nil => rfl
  | cons p r ih =>
    obtain ⟨k', v⟩ := p
    simp only [keysOf, List.map_cons, List.mem_cons, not_or] at h
    have : ¬ k' = k := fun e => h.1 e.symm
    simp only [List.cons_append, lookup, this, if_false]
    exact ih h.2

theorem lookup_none_of_notin (k : Key) (kv : List (Key × Doc)) (h : k ∉ keysOf kv) : lookup k kv = none := by
  induction kv with
  | nil => rfl
  | cons p r ih =>
    obtain ⟨k', v⟩ := p
    simp only [keysOf, List.map_cons, List.mem_cons, not_or] at h
    have : ¬ k' = k := fun e => h.1 e.symm
    simp only [lookup, this, if_false]
    exact ih h.2

/-- the keys of a well-formed struct document are field names -/
theorem wfFields_keys : ∀ (fs : Fields) (kv : List (Key × Doc)), wfFields fs kv = true → ∀ k ∈ keysOf kv, k ∈ names fs
  | .nil, [], _ => by intro k hk; simp [keysOf] at hk
  | .nil, _ :: _, h => by simp [wfFields] at h
  | .cons _ _ _ _ rest, [], _ => by intro k hk; simp [keysOf] at hk
  | .cons name t skipNone dflt rest, (k, v) :: kv, h => by
    intro k' hk'
    simp only [wfFields] at h
    by_cases hk : k = name
    · simp only [hk, if_true, Bool.and_eq_true] at h
      simp only [keysOf, List.map_cons, List.mem_cons] at hk'
      rcases hk' with rfl | hk'
      · simp [names, hk]
      · have := wfFields_keys rest kv h.2 k' (by simpa [keysOf] using hk')
        simp [names, this]
    · simp only [hk, if_false, Bool.and_eq_true] at h
      have := wfFields_keys rest ((k, v) :: kv) h.2 k' hk'
      simp [names, this]

theorem isOpt_norm_null (t : Ty) (h : isOpt t = true) : norm t .null = some .null := by
  cases t <;> simp [isOpt] at h
  simp [norm]

theorem wf_duration (kv : List (Key × Doc)) (h : wf .duration (.map kv) = true) :
    ∃ s n, kv = [(kSecs, .int s), (kNanos, .int n)] ∧ 0 ≤ s ∧ s ≤ u64Max ∧ 0 ≤ n ∧ n < 1000000000 := by
  match kv, h with
  | [], h => simp [wf] at h
  | [(_, v1)], h => cases v1 <;> simp [wf] at h
  | [(k1, v1), (k2, v2)], h =>
    cases v1 <;> cases v2 <;> simp [wf] at h
    rename_i s n
    obtain ⟨rfl, rfl, h1, h2, h3, h4⟩ := h
    exact ⟨s, n, rfl, h1, h2, h3, h4⟩
  | (_, v1) :: (_, v2) :: _ :: _, h => cases v1 <;> cases v2 <;> simp [wf] at h

mutual
  theorem norm_wf : ∀ (t : Ty) (d : Doc), tyOk t = true → wf t d = true → norm t d = some d
    | .bool, .bool _, _, _ => by simp [norm]
    | .uint max, .int z, _, h => by simp [wf] at h; simp [norm, h]
    | .sint lo hi, .int z, _, h => by simp [wf] at h; simp [norm, h]
    | .f64, .flt _, _, _ => by simp [norm]
    | .str, .str _, _, _ => by simp [norm]
    | .opt _, .null, _, _ => by simp [norm]
    | .opt t, .bool b, ho, h => by
      simp only [tyOk, Bool.and_eq_true] at ho; simp only [wf] at h
      rw [norm]; exact norm_wf t _ ho.1 h
      all_goals simp
    | .opt t, .int z, ho, h => by
      simp only [tyOk, Bool.and_eq_true] at ho; simp only [wf] at h
      rw [norm]; exact norm_wf t _ ho.1 h
      all_goals simp
    | .opt t, .flt z, ho, h => by
      simp only [tyOk, Bool.and_eq_true] at ho; simp only [wf] at h
      rw [norm]; exact norm_wf t _ ho.1 h
      all_goals simp
    | .opt t, .str z, ho, h => by
      simp only [tyOk, Bool.and_eq_true] at ho; simp only [wf] at h
      rw [norm]; exact norm_wf t _ ho.1 h
      all_goals simp
    | .opt t, .seq z, ho, h => by
      simp only [tyOk, Bool.and_eq_true] at ho; simp only [wf] at h
      rw [norm]; exact norm_wf t _ ho.1 h
      all_goals simp
    | .opt t, .map z, ho, h => by
      simp only [tyOk, Bool.and_eq_true] at ho; simp only [wf] at h
      rw [norm]; exact norm_wf t _ ho.1 h
      all_goals simp
    | .seq t, .seq l, ho, h => by
      simp only [tyOk] at ho; simp only [wf] at h
      simp [norm, normList_wf t l ho h]
    | .strSet, .seq l, _, h => by
      simp only [wf] at h
      cases hs : allStr l with
      | none => simp [hs] at h
      | some ks =>
        simp only [hs] at h
        have := allStr_eq l ks hs
        subst this
        simp [norm, allStr_map, sortStr_sorted ks h]
    | .map t, .map kv, ho, h => by
      simp only [tyOk] at ho; simp only [wf, Bool.and_eq_true] at h
      simp [norm, normVals_wf t kv ho h.2, sortKV_sorted kv h.1]
    | .duration, .map kv, _, h => by
      obtain ⟨s, n, rfl, h1, h2, h3, h4⟩ := wf_duration kv h
      have e1 : n.toNat / 1000000000 = 0 := by omega
      have e2 : ((n.toNat % 1000000000 : Nat) : Int) = n := by omega
      have h5 : n ≤ 4294967295 := by omega
      simp only [u64Max] at h2
      simp [norm, normDuration, durKeysOk, lookup, kSecs, kNanos, u64Max, h1, h2, h3, h5, e1, e2]
      constructor <;> omega
    | .struct fs, .map kv, ho, h => by
      simp only [tyOk] at ho; simp only [wf] at h
      have := normFields_wf fs [] kv ho h (by intro k hk; simp [keysOf] at hk)
      simp only [List.nil_append] at this
      simp [norm, this]
    | .bool, .null, _, h | .bool, .int _, _, h | .bool, .flt _, _, h | .bool, .str _, _, h | .bool, .seq _, _, h
    | .bool, .map _, _, h => by simp [wf] at h
    | .uint _, .null, _, h | .uint _, .bool _, _, h | .uint _, .flt _, _, h | .uint _, .str _, _, h
    | .uint _, .seq _, _, h | .uint _, .map _, _, h => by simp [wf] at h
    | .sint _ _, .null, _, h | .sint _ _, .bool _, _, h | .sint _ _, .flt _, _, h | .sint _ _, .str _, _, h
    | .sint _ _, .seq _, _, h | .sint _ _, .map _, _, h => by simp [wf] at h
    | .f64, .null, _, h | .f64, .bool _, _, h | .f64, .int _, _, h | .f64, .str _, _, h | .f64, .seq _, _, h
    | .f64, .map _, _, h => by simp [wf] at h
    | .str, .null, _, h | .str, .bool _, _, h | .str, .int _, _, h | .str, .flt _, _, h | .str, .seq _, _, h
    | .str, .map _, _, h => by simp [wf] at h
    | .seq _, .null, _, h | .seq _, .bool _, _, h | .seq _, .int _, _, h | .seq _, .flt _, _, h | .seq _, .str _, _, h
    | .seq _, .map _, _, h => by simp [wf] at h
    | .strSet, .null, _, h | .strSet, .bool _, _, h | .strSet, .int _, _, h | .strSet, .flt _, _, h
    | .strSet, .str _, _, h | .strSet, .map _, _, h => by simp [wf] at h
    | .map _, .null, _, h | .map _, .bool _, _, h | .map _, .int _, _, h | .map _, .flt _, _, h | .map _, .str _, _, h
    | .map _, .seq _, _, h => by simp [wf] at h
    | .duration, .null, _, h | .duration, .bool _, _, h | .duration, .int _, _, h | .duration, .flt _, _, h
    | .duration, .str _, _, h | .duration, .seq _, _, h => by simp [wf] at h
    | .struct _, .null, _, h | .struct _, .bool _, _, h | .struct _, .int _, _, h | .struct _, .flt _, _, h
    | .struct _, .str _, _, h | .struct _, .seq _, _, h => by simp [wf] at h
  theorem normList_wf : ∀ (t : Ty) (l : List Doc), tyOk t = true → wfList t l = true → normList t l = some l
    | _, [], _, _ => by simp [normList]
    | t, d :: r, ho, h => by
      simp only [wfList, Bool.and_eq_true] at h
      simp [normList, norm_wf t d ho h.1, normList_wf t r ho h.2]
  theorem normVals_wf : ∀ (t : Ty) (kv : List (Key × Doc)), tyOk t = true → wfVals t kv = true →
      normVals t kv = some kv
    | _, [], _, _ => by simp [normVals]
    | t, (k, d) :: r, ho, h => by
      simp only [wfVals, Bool.and_eq_true] at h
      simp [normVals, norm_wf t d ho h.1, normVals_wf t r ho h.2]
  theorem normFields_wf : ∀ (fs : Fields) (pre kv : List (Key × Doc)), fieldsOk fs = true → wfFields fs kv = true →
      (∀ k ∈ keysOf pre, k ∉ names fs) → normFields fs (pre ++ kv) = some kv
    | .nil, _, [], _, _, _ => by simp [normFields]
    | .nil, _, _ :: _, _, h, _ => by simp [wfFields] at h
    | .cons name t skipNone dflt rest, pre, kv, ho, h, hpre => by
      simp only [fieldsOk, Bool.and_eq_true, Bool.not_eq_true', List.contains_eq_mem, decide_eq_false_iff_not] at ho
      obtain ⟨⟨hot, hname⟩, hor⟩ := ho
      have hnpre : name ∉ keysOf pre := fun hm => hpre name hm (by simp [names])
      have hpre' : ∀ k ∈ keysOf pre, k ∉ names rest := fun k hk hm => hpre k hk (by simp [names, hm])
      -- absent field: only for skipped `None`s
      have absent : ∀ (kv : List (Key × Doc)), skipNone = true → isOpt t = true → dflt = none →
          wfFields rest kv = true → name ∉ keysOf kv →
          normFields (.cons name t skipNone dflt rest) (pre ++ kv) = some kv := by
        intro kv hs hopt hd hw hnk
        have hl : lookup name (pre ++ kv) = none := by
          rw [lookup_append_notin name pre kv hnpre]; exact lookup_none_of_notin name kv hnk
        have ih := normFields_wf rest pre kv hor hw hpre'
        simp [normFields, hl, hd, hopt, ih, hs]
      match kv, h with
      | [], h =>
        simp only [wfFields, Bool.and_eq_true] at h
        have hd : dflt = none := by cases dflt <;> simp_all
        exact absent [] h.1.1.1 h.1.1.2 hd h.2 (by simp [keysOf])
      | (k, v) :: kv', h =>
        simp only [wfFields] at h
        by_cases hk : k = name
        · subst hk
          simp only [if_true, Bool.and_eq_true, Bool.not_eq_true', Bool.and_eq_false_iff] at h
          obtain ⟨⟨hwv, hnn⟩, hwr⟩ := h
          have hl : lookup k (pre ++ (k, v) :: kv') = some v := by
            rw [lookup_append_notin k pre _ hnpre]; simp [lookup]
          have hnv := norm_wf t v hot hwv
          have ih := normFields_wf rest (pre ++ [(k, v)]) kv' hor hwr (by
            intro k' hk' hm
            simp only [keysOf, List.map_append, List.map_cons, List.map_nil, List.mem_append, List.mem_singleton] at hk'
            rcases hk' with hk' | rfl
            · exact hpre' k' (by simpa [keysOf] using hk') hm
            · exact hname hm)
          have hre : pre ++ (k, v) :: kv' = (pre ++ [(k, v)]) ++ kv' := by simp
          have ih' : normFields rest (pre ++ (k, v) :: kv') = some kv' := by rw [hre]; exact ih
          clear absent hpre hpre' ih hre
          unfold normFields
          simp only [hl, hnv, ih']
          rcases hnn with hs | hn
          · subst hs
            cases v <;> simp
          · cases v <;> simp [isNull] at hn <;> simp
        · simp only [hk, if_false, Bool.and_eq_true] at h
          have hd : dflt = none := by cases dflt <;> simp_all
          have hnk : name ∉ keysOf ((k, v) :: kv') := fun hm => hname (wfFields_keys rest _ h.2 name hm)
          exact absent ((k, v) :: kv') h.1.1.1 h.1.1.2 hd h.2 hnk
end

end OpcuaVerif.C41
