import OpcuaVerif.Lemmas.EncSpec

/-! Round-trip lemmas for the non-recursive codecs (shared by C01 and C03). -/
namespace OpcuaVerif.Enc
set_option linter.unusedSimpArgs false

@[simp] theorem Res.bind_ok {α β : Type} (v : α) (r : Bytes) (f : α → Bytes → Res β) :
    (Res.ok v r).bind f = f v r := rfl
@[simp] theorem Res.bind_err {α β : Type} (f : α → Bytes → Res β) : (Res.err : Res α).bind f = .err := rfl
@[simp] theorem Res.bind_fault {α β : Type} (k : Fault) (f : α → Bytes → Res β) :
    (Res.fault k : Res α).bind f = .fault k := rfl
@[simp] theorem Res.map_ok {α β : Type} (v : α) (r : Bytes) (f : α → β) :
    (Res.ok v r).map f = .ok (f v) r := rfl
@[simp] theorem Res.map_err {α β : Type} (f : α → β) : (Res.err : Res α).map f = .err := rfl
@[simp] theorem Res.map_fault {α β : Type} (k : Fault) (f : α → β) :
    (Res.fault k : Res α).map f = .fault k := rfl
@[simp] theorem Res.ofOpt_some {α : Type} (v : α) (r : Bytes) : Res.ofOpt (some (v, r)) = .ok v r := rfl
@[simp] theorem Res.ofOpt_none {α : Type} : Res.ofOpt (none : Option (α × Bytes)) = .err := rfl

theorem rd8_cons (n : Nat) (r : Bytes) (h : n < 256) : rd8 (n :: r) = some (n, r) := by
  simp [rd8]; omega

theorem rd16_le16 (n : Nat) (r : Bytes) (h : n < 65536) : rd16 (le16 n ++ r) = some (n, r) := by
  simp [le16, rd16]; omega

theorem rd32_le32 (n : Nat) (r : Bytes) (h : n < 4294967296) : rd32 (le32 n ++ r) = some (n, r) := by
  simp [le32, rd32]; omega

theorem rd64_le64 (n : Nat) (r : Bytes) (h : n < 18446744073709551616) :
    rd64 (le64 n ++ r) = some (n, r) := by
  simp [le64, rd64]; omega

theorem le16_length (n : Nat) : (le16 n).length = 2 := rfl
theorem le32_length (n : Nat) : (le32 n).length = 4 := rfl
theorem le64_length (n : Nat) : (le64 n).length = 8 := rfl

theorem toS8_ofS8 (i : Int) (h : -128 ≤ i ∧ i < 128) : toS8 (ofS8 i) = i := by
  simp [toS8, ofS8]; omega
theorem toS16_ofS16 (i : Int) (h : -32768 ≤ i ∧ i < 32768) : toS16 (ofS16 i) = i := by
  simp [toS16, ofS16]; omega
theorem toS32_ofS32 (i : Int) (h : -2147483648 ≤ i ∧ i < 2147483648) : toS32 (ofS32 i) = i := by
  simp [toS32, ofS32]; omega
theorem toS64_ofS64 (i : Int) (h : -9223372036854775808 ≤ i ∧ i < 9223372036854775808) :
    toS64 (ofS64 i) = i := by
  simp [toS64, ofS64]; omega
theorem ofS8_lt (i : Int) : ofS8 i < 256 := by simp [ofS8]; omega
theorem ofS16_lt (i : Int) : ofS16 i < 65536 := by simp [ofS16]; omega
theorem ofS32_lt (i : Int) : ofS32 i < 4294967296 := by simp [ofS32]; omega
theorem ofS64_lt (i : Int) : ofS64 i < 18446744073709551616 := by simp [ofS64]; omega

/-! strings -/

theorem decStr_enc (o : Opts) (cap : Nat) (s : UAStr) (r : Bytes) (h : WFStr o s)
    (hc : o.maxStr ≤ cap) : decStr o cap (encStr s ++ r) = .ok s r := by
  cases s with
  | none => simp [decStr, encStr, rd32]
  | some s =>
    obtain ⟨h1, h2, h3⟩ := h
    have hlt : s.length < 4294967296 := by omega
    simp only [decStr, encStr, List.append_assoc, rd32_le32 _ _ hlt]
    simp [guardAlloc, h3]
    rw [if_neg (by omega), if_neg (by omega), if_neg (by omega), if_neg (by omega), if_neg (by omega)]

theorem decBStr_enc (o : Opts) (cap : Nat) (s : Option Bytes) (r : Bytes) (h : WFBStr o s)
    (hc : o.maxBytes ≤ cap) : decBStr o cap (encStr s ++ r) = .ok s r := by
  cases s with
  | none => simp [decBStr, encStr, rd32]
  | some s =>
    obtain ⟨h1, h2⟩ := h
    have hlt : s.length < 4294967296 := by omega
    simp only [decBStr, encStr, List.append_assoc, rd32_le32 _ _ hlt]
    simp [guardAlloc]
    rw [if_neg (by omega), if_neg (by omega), if_neg (by omega), if_neg (by omega), if_neg (by omega)]

theorem lenStr_eq (s : Option Bytes) : (encStr s).length = lenStr s := by
  cases s <;> simp [encStr, lenStr, le32] <;> omega

theorem decGuid_enc (g r : Bytes) (h : g.length = 16) : decGuid (g ++ r) = .ok g r := by
  unfold decGuid
  have h1 : ¬ (g ++ r).length < 16 := by simp; omega
  have h2 : (g ++ r).take 16 = g := by rw [← h]; simp
  have h3 : (g ++ r).drop 16 = r := by rw [← h]; simp
  rw [if_neg h1, h2, h3]

/-! node ids -/

theorem decNodeIdBody_enc (o : Opts) (cap hi : Nat) (n : NodeId) (h : WFNodeId o n) (hc : CapOK o cap) :
    ∃ k body, k ≤ 5 ∧ encNodeIdWith hi n = (hi + k) :: body ∧
      ∀ r, decNodeIdBody o cap k (body ++ r) = .ok n r := by
  obtain ⟨ns, id⟩ := n
  obtain ⟨hns, hid⟩ := h
  simp only at hns hid
  cases id with
  | num v =>
    simp only [WFIdent] at hid
    by_cases c1 : ns = 0 ∧ v ≤ 255
    · refine ⟨0, [v % 256], by omega, by simp [encNodeIdWith, c1], ?_⟩
      intro r
      obtain ⟨rfl, hv⟩ := c1
      have : v % 256 = v := by omega
      simp [decNodeIdBody, rd8, this]
    · by_cases c2 : ns ≤ 255 ∧ v ≤ 65535
      · refine ⟨1, ns % 256 :: le16 v, by omega, by simp [encNodeIdWith, c1, c2], ?_⟩
        intro r
        have h1 : ns % 256 = ns := by omega
        have hv : v < 65536 := by omega
        simp [decNodeIdBody, rd8, h1, rd16_le16 _ _ hv]
      · refine ⟨2, le16 ns ++ le32 v, by omega, by simp [encNodeIdWith, c1, c2], ?_⟩
        intro r
        simp [decNodeIdBody, rd16_le16 _ _ hns, rd32_le32 _ _ hid]
  | str s =>
    refine ⟨3, le16 ns ++ encStr s, by omega, by simp [encNodeIdWith], ?_⟩
    intro r
    simp [decNodeIdBody, rd16_le16 _ _ hns, decStr_enc o cap s r hid hc.1]
  | guid g =>
    refine ⟨4, le16 ns ++ g, by omega, by simp [encNodeIdWith], ?_⟩
    intro r
    simp [decNodeIdBody, rd16_le16 _ _ hns, decGuid_enc g r hid]
  | bstr s =>
    refine ⟨5, le16 ns ++ encStr s, by omega, by simp [encNodeIdWith], ?_⟩
    intro r
    simp [decNodeIdBody, rd16_le16 _ _ hns, decBStr_enc o cap s r hid hc.2.1]

theorem decNodeId_enc (o : Opts) (cap : Nat) (n : NodeId) (r : Bytes) (h : WFNodeId o n) (hc : CapOK o cap) :
    decNodeId o cap (encNodeId n ++ r) = .ok n r := by
  obtain ⟨k, body, hk, he, hd⟩ := decNodeIdBody_enc o cap 0 n h hc
  have hk' : k % 256 = k := by omega
  simp [decNodeId, encNodeId, he, rd8, hk', hd]


theorem decExpNodeId_enc (o : Opts) (cap : Nat) (x : ExpNodeId) (r : Bytes)
    (h : WFNodeId o x.node ∧ WFStr o x.uri ∧ x.server < 4294967296) (hc : CapOK o cap) :
    decExpNodeId o cap (encExpNodeId x ++ r) = .ok x r := by
  obtain ⟨node, uri, server⟩ := x
  obtain ⟨hn, hu, hs⟩ := h
  simp only at hn hu hs
  obtain ⟨k, body, hk, he, hd⟩ := decNodeIdBody_enc o cap
    ((if uri.isSome then 128 else 0) + (if server ≠ 0 then 64 else 0)) node hn hc
  generalize hm : ((if uri.isSome = true then 128 else 0) + (if server ≠ 0 then 64 else 0)) + k = m at he
  simp only [decExpNodeId, encExpNodeId, he, List.cons_append, List.append_assoc, rd8, Res.ofOpt_some, Res.bind_ok]
  cases uri with
  | none =>
    by_cases hs0 : server = 0
    · subst hs0
      simp at hm
      have e1 : m % 256 % 16 = k := by omega
      have e2 : ¬ (m % 256 / 128 % 2 = 1) := by omega
      have e3 : ¬ (m % 256 / 64 % 2 = 1) := by omega
      simp only [e1, e2, e3, if_true, if_false, hd]
      simp
    · simp [hs0] at hm
      have e1 : m % 256 % 16 = k := by omega
      have e2 : ¬ (m % 256 / 128 % 2 = 1) := by omega
      have e3 : (m % 256 / 64 % 2 = 1) := by omega
      simp only [e1, e2, e3, if_true, if_false, hd]
      simp [hs0, rd32_le32 _ _ hs]
  | some u =>
    by_cases hs0 : server = 0
    · subst hs0
      simp at hm
      have e1 : m % 256 % 16 = k := by omega
      have e2 : (m % 256 / 128 % 2 = 1) := by omega
      have e3 : ¬ (m % 256 / 64 % 2 = 1) := by omega
      simp only [e1, e2, e3, if_true, if_false, hd]
      simp [decStr_enc o cap (some u) _ hu hc.1]
    · simp [hs0] at hm
      have e1 : m % 256 % 16 = k := by omega
      have e2 : (m % 256 / 128 % 2 = 1) := by omega
      have e3 : (m % 256 / 64 % 2 = 1) := by omega
      simp only [e1, e2, e3, if_true, if_false, hd]
      simp [hs0, decStr_enc o cap (some u) _ hu hc.1, rd32_le32 _ _ hs]

theorem decExtObj_enc (o : Opts) (cap d : Nat) (x : ExtObj) (r : Bytes)
    (h : d < o.maxDepth ∧ WFNodeId o x.node ∧ WFBody o x.body) (hc : CapOK o cap) :
    decExtObj o cap d (encExtObj x ++ r) = .ok x r := by
  obtain ⟨node, body⟩ := x
  obtain ⟨hd, hn, hb⟩ := h
  simp only at hn hb
  have hd' : ¬ d ≥ o.maxDepth := by omega
  cases body with
  | none => simp [decExtObj, encExtObj, hd', decNodeId_enc o cap node _ hn hc, rd8]
  | bstr s =>
    simp [decExtObj, encExtObj, hd', decNodeId_enc o cap node _ hn hc, rd8,
      decBStr_enc o cap s r hb hc.2.1]
  | xml s =>
    simp [decExtObj, encExtObj, hd', decNodeId_enc o cap node _ hn hc, rd8,
      decStr_enc o cap s r hb hc.1]

theorem strEmpty_normStr (s : UAStr) : strEmpty s = true → normStr s = none := by
  cases s with
  | none => simp [normStr]
  | some s => simp [strEmpty, normStr]

theorem not_strEmpty_normStr (s : UAStr) : strEmpty s = false → normStr s = s := by
  cases s with
  | none => simp [strEmpty]
  | some s => simp [strEmpty, normStr]

theorem decLText_enc (o : Opts) (cap : Nat) (l t : UAStr) (r : Bytes)
    (hl : WFStr o l) (ht : WFStr o t) (hc : CapOK o cap) :
    decLText o cap (encLText l t ++ r) = .ok (normStr l, normStr t) r := by
  simp only [decLText, encLText, List.cons_append, List.append_assoc, rd8, Res.ofOpt_some, Res.bind_ok]
  cases hle : strEmpty l <;> cases hte : strEmpty t
  · simp [decStr_enc o cap l _ hl hc.1, decStr_enc o cap t _ ht hc.1, not_strEmpty_normStr _ hle, not_strEmpty_normStr _ hte]
  · simp [decStr_enc o cap l _ hl hc.1, not_strEmpty_normStr _ hle, strEmpty_normStr _ hte]
  · simp [decStr_enc o cap t _ ht hc.1, strEmpty_normStr _ hle, not_strEmpty_normStr _ hte]
  · simp [strEmpty_normStr _ hle, strEmpty_normStr _ hte]

theorem dtChecked_range (t : Int) : (0 ≤ dtChecked t ∧ dtChecked t ≤ endTicks) ∨ dtChecked t = i64Max := by
  unfold dtChecked; split
  · left; simp [endTicks]
  · split
    · right; rfl
    · left; omega

theorem decDateTime_enc (t : Int) (r : Bytes) : decDateTime (encDateTime t ++ r) = .ok (clampDt t) r := by
  have hlt := ofS64_lt (dtChecked t)
  have hr : -9223372036854775808 ≤ dtChecked t ∧ dtChecked t < 9223372036854775808 := by
    rcases dtChecked_range t with h | h
    · simp [endTicks] at h; omega
    · simp [h, i64Max]
  simp only [decDateTime, encDateTime, rd64_le64 _ _ hlt, toS64_ofS64 _ hr]
  unfold dtChecked clampDt dtFromTicks
  by_cases h1 : t < 0
  · simp [h1, i64Max, chronoLimit]
  · by_cases h2 : t > endTicks
    · simp [h1, h2]
    · simp only [h1, h2, if_false]
      have : ¬ t = i64Max := by simp [i64Max, endTicks] at *; omega
      have h3 : ¬ (t > chronoLimit ∨ t < -chronoLimit) := by simp [chronoLimit, endTicks] at *; omega
      simp [this, h3]

theorem decScalar_enc (o : Opts) (cap d : Nat) (s : Scalar) (r : Bytes) (h : WFScalar o d s)
    (hc : CapOK o cap) : decScalar o cap d s.tid (encScalar s ++ r) = .ok (normScalar s) r := by
  cases s with
  | bool b => cases b <;> simp [decScalar, Scalar.tid, encScalar, rd8, normScalar]
  | sbyte i =>
    have := ofS8_lt i
    simp [decScalar, Scalar.tid, encScalar, rd8_cons _ _ this, normScalar, toS8_ofS8 i h]
  | byte n =>
    have h' : n < 256 := h
    have : n % 256 = n := by omega
    simp [decScalar, Scalar.tid, encScalar, rd8, normScalar, this]
  | int16 i => simp [decScalar, Scalar.tid, encScalar, rd16_le16 _ _ (ofS16_lt i), normScalar, toS16_ofS16 i h]
  | uint16 n => simp [decScalar, Scalar.tid, encScalar, rd16_le16 _ _ h, normScalar]
  | int32 i => simp [decScalar, Scalar.tid, encScalar, rd32_le32 _ _ (ofS32_lt i), normScalar, toS32_ofS32 i h]
  | uint32 n => simp [decScalar, Scalar.tid, encScalar, rd32_le32 _ _ h, normScalar]
  | int64 i => simp [decScalar, Scalar.tid, encScalar, rd64_le64 _ _ (ofS64_lt i), normScalar, toS64_ofS64 i h]
  | uint64 n => simp [decScalar, Scalar.tid, encScalar, rd64_le64 _ _ h, normScalar]
  | float n => simp [decScalar, Scalar.tid, encScalar, rd32_le32 _ _ h, normScalar]
  | double n => simp [decScalar, Scalar.tid, encScalar, rd64_le64 _ _ h, normScalar]
  | str s => simp [decScalar, Scalar.tid, encScalar, decStr_enc o cap s r h hc.1, normScalar]
  | dateTime t => simp [decScalar, Scalar.tid, encScalar, decDateTime_enc, normScalar]
  | guid g => simp [decScalar, Scalar.tid, encScalar, decGuid_enc g r h, normScalar]
  | bstr s => simp [decScalar, Scalar.tid, encScalar, decBStr_enc o cap s r h hc.2.1, normScalar]
  | xml s => simp [decScalar, Scalar.tid, encScalar, decStr_enc o cap s r h hc.1, normScalar]
  | nodeId n => simp [decScalar, Scalar.tid, encScalar, decNodeId_enc o cap n r h hc, normScalar]
  | expNodeId n => simp [decScalar, Scalar.tid, encScalar, decExpNodeId_enc o cap n r h hc, normScalar]
  | status n => simp [decScalar, Scalar.tid, encScalar, rd32_le32 _ _ h, normScalar]
  | qname ns name =>
    simp [decScalar, Scalar.tid, encScalar, rd16_le16 _ _ h.1, decStr_enc o cap name r h.2 hc.1, normScalar]
  | ltext l t => simp [decScalar, Scalar.tid, encScalar, decLText_enc o cap l t r h.1 h.2 hc, normScalar]
  | extObj e => simp [decScalar, Scalar.tid, encScalar, decExtObj_enc o cap d e r h hc, normScalar]

theorem decDVRest_enc (hv : Bool) (x : DVRest) (r : Bytes) (h : WFDVRest x) :
    decDVRest (dvMask hv x) (encDVRest x ++ r) = .ok (normDVRest x) r := by
  obtain ⟨status, srcTs, srcPs, srvTs, srvPs⟩ := x
  obtain ⟨h1, h2, h3⟩ := h
  simp only at h1 h2 h3
  cases hv <;> cases status <;> cases srcTs <;> cases srcPs <;> cases srvTs <;> cases srvPs <;>
    simp [WFOpt] at h1 h2 h3 <;>
    simp [decDVRest, dvMask, encDVRest, encOptWith, normDVRest, decDateTime_enc, rd32_le32, rd16_le16, *]

theorem rdI32_enc (i : Int) (r : Bytes) (h : I32 i) : rdI32 (encI32 i ++ r) = .ok i r := by
  simp [rdI32, encI32, rd32_le32 _ _ (ofS32_lt i), toS32_ofS32 i h]

theorem decDIF_enc (o : Opts) (cap : Nat) (hi : Bool) (f : DIF) (r : Bytes) (h : WFDIF o f)
    (hc : CapOK o cap) : decDIF o cap (diMask hi f) (encDIF f ++ r) = .ok f r := by
  obtain ⟨symbolic, ns, locale, ltext, addInfo, innerStatus⟩ := f
  obtain ⟨h1, h2, h3, h4, h5, h6⟩ := h
  simp only at h1 h2 h3 h4 h5 h6
  cases hi <;> cases symbolic <;> cases ns <;> cases locale <;> cases ltext <;> cases addInfo <;>
    cases innerStatus <;>
    simp [WFOpt] at h1 h2 h3 h4 h5 h6 <;>
    simp [decDIF, diMask, encDIF, encOptWith, rdI32_enc, rd32_le32, decStr_enc _ _ _ _ _ hc.1, *]

theorem dvMask_value (hv : Bool) (x : DVRest) : (dvMask hv x % 2 = 1) = (hv = true) := by
  obtain ⟨status, srcTs, srcPs, srvTs, srvPs⟩ := x
  cases hv <;> cases status <;> cases srcTs <;> cases srcPs <;> cases srvTs <;> cases srvPs <;>
    simp [dvMask]

theorem diMask_inner (hi : Bool) (f : DIF) : (diMask hi f / 64 % 2 = 1) = (hi = true) := by
  obtain ⟨symbolic, ns, locale, ltext, addInfo, innerStatus⟩ := f
  cases hi <;> cases symbolic <;> cases ns <;> cases locale <;> cases ltext <;> cases addInfo <;>
    cases innerStatus <;> simp [diMask]


/-- clamping the saturated tick count is clamping the tick count: the model's `encDateTime` is the
fixed `checked_ticks` for every chrono value -/
theorem dtChecked_ticksSat (t : Int) : dtChecked (ticksSat t) = dtChecked t := by
  unfold dtChecked ticksSat i64Max endTicks
  split <;> split <;> (try split) <;> (try split) <;> omega

end OpcuaVerif.Enc
