import OpcuaVerif.Lemmas.C04
import OpcuaVerif.Model.C05
/-! Helper lemmas for C05: the escape folds. -/
set_option linter.unusedSimpArgs false
namespace OpcuaVerif.C05
open OpcuaVerif.Text OpcuaVerif.C04 OpcuaVerif.Generated.RefTypes

/-! Source pins. `tools/translate/reftypes.py` regenerates these constants from relative_path.rs on every check; the
hand-written matchers and loop of `Model/C05.lean` implement exactly these values, so a change of a regex, of a comparison
at a use site of the limits, of a delimiter, or of a flag row breaks the build here until the model is revisited. -/
theorem pin_reElem : reElem =
    "(?s)(?P<reftype>/|\\.|(<(?P<flags>#|!|#!)?((?P<nsidx>[0-9]+):)?(?P<name>(?:&.|[^&>#!])(?:&.|[^&>])*)>))(?P<target>.*)" := rfl
theorem pin_reTarget : reTarget = "(?s)((?P<nsidx>[0-9]+):)?(?P<name>.*)" := rfl
/-- `tokLoop`'s `check`: `utf8Len tok > maxTokenLen → failed` -/
theorem pin_tokenLenGuard : tokenLenGuard = (">", "return Err(())") := rfl
/-- `tokStep`: `elems.length = maxElements → broke`; `finishLoop`: `… → none` -/
theorem pin_elementsGuards : elementsGuards = [("==", "break"), ("==", "return Err(())")] := rfl
theorem pin_tokenizer : escapeChar = '&' ∧ delims = ['/', '.', '<'] := ⟨rfl, rfl⟩
theorem pin_shortForms :
    shortForms = [('/', hierarchicalReferences, true, false), ('.', aggregates, true, false)] := rfl
theorem pin_flags :
    flagRows = [(['#'], false, false), (['!'], true, true), (['#', '!'], false, true)] ∧ noFlags = (true, false) := ⟨rfl, rfl⟩
theorem pin_printer : alwaysUseNamespace = true := rfl
theorem pin_nsIndexTypes : nsIndexTypes = ("u16", "u16") := rfl

/-- escape unit of a char when the chars in `E` have been escaped so far -/
def enc (E : List Char) (c : Char) : List Char := if c ∈ E then ['&', c] else [c]

theorem enc_stage (E : List Char) (r : Char) (h : E = [] ∨ ('&' ≠ r ∧ r ∉ E)) (s : List Char) :
    (s.flatMap (enc E)).flatMap (fun c => if c = r then ['&', r] else [c]) = s.flatMap (enc (r :: E)) := by
  induction s with
  | nil => rfl
  | cons c cs ih =>
    simp only [List.flatMap_cons, List.flatMap_append, ih]
    congr 1
    by_cases hc : c ∈ E
    · rcases h with rfl | ⟨h1, h2⟩
      · simp at hc
      · have hcr : c ≠ r := fun e => h2 (e ▸ hc)
        have : ¬ '&' = r := h1
        simp [enc, hc, hcr, this]
    · by_cases hcr : c = r
      · subst hcr; simp [enc, hc]
      · simp [enc, hc, hcr]

theorem replace1 (r : Char) (s : List Char) :
    replace [r] ['&', r] s = s.flatMap (fun c => if c = r then ['&', r] else [c]) := by
  unfold replace; exact replace_single r _ s _ (by omega)

theorem escapeBN_eq (s : List Char) : escapeBN s = s.flatMap (enc reserved.reverse) := by
  have h0 : s = s.flatMap (enc []) := by
    induction s with
    | nil => rfl
    | cons c cs ih => simp only [List.flatMap_cons, enc, List.not_mem_nil, if_false, List.cons_append, List.nil_append, ← ih]
  simp only [escapeBN, reserved, List.foldl_cons, List.foldl_nil, replace1]
  conv => lhs; rw [h0]
  rw [enc_stage [] '&' (Or.inl rfl), enc_stage _ '/' (Or.inr (by decide)), enc_stage _ '.' (Or.inr (by decide)),
    enc_stage _ '<' (Or.inr (by decide)), enc_stage _ '>' (Or.inr (by decide)), enc_stage _ ':' (Or.inr (by decide)),
    enc_stage _ '#' (Or.inr (by decide)), enc_stage _ '!' (Or.inr (by decide))]
  rfl


/-- unit of a char when the reserved chars in `D` have already been unescaped -/
def dec (D : List Char) (c : Char) : List Char :=
  if c ∈ D then [c] else if c ∈ reserved then ['&', c] else [c]

theorem dec_head_ne (D : List Char) (r : Char) (hres : r ∈ reserved) (hnd : r ∉ D) (hamp : '&' ≠ r) (s : List Char) :
    ∀ x rest, s.flatMap (dec D) = x :: rest → x ≠ r := by
  intro x rest h
  cases s with
  | nil => simp at h
  | cons c cs =>
    simp only [List.flatMap_cons, dec] at h
    by_cases hc : c ∈ D
    · simp [hc] at h; rw [← h.1]; exact fun e => hnd (e ▸ hc)
    · by_cases hr : c ∈ reserved
      · simp [hc, hr] at h; rw [← h.1]; exact hamp
      · simp [hc, hr] at h; rw [← h.1]
        intro e; subst e; exact hr hres

theorem amp_reserved : '&' ∈ reserved := by decide

/-- one stage of `unescape_browse_name`: `replace("&r", "r")` decodes exactly the units of `r` -/
theorem dec_stage (D : List Char) (r : Char) (hres : r ∈ reserved) (hnd : r ∉ D) (hamp : r = '&' ∨ '&' ∈ D)
    (s : List Char) : ∀ fuel, (s.flatMap (dec D)).length < fuel →
    replaceFuel ['&', r] [r] fuel (s.flatMap (dec D)) = s.flatMap (dec (r :: D)) := by
  induction s with
  | nil => intro fuel h; cases fuel <;> simp [replaceFuel]
  | cons c cs ih =>
    intro fuel h
    simp only [List.flatMap_cons] at h ⊢
    generalize hw : cs.flatMap (dec D) = w at *
    by_cases hc : c ∈ D
    · -- already decoded: a single char, never the start of "&r" followed by r
      have hcr : c ≠ r := fun e => hnd (e ▸ hc)
      have e1 : dec D c = [c] := by simp [dec, hc]
      have e2 : dec (r :: D) c = [c] := by simp [dec, hc]
      rw [e1] at h ⊢; rw [e2]
      simp only [List.length_append, List.length_cons, List.length_nil, List.cons_append, List.nil_append] at h ⊢
      obtain ⟨f, rfl⟩ : ∃ f, fuel = f + 1 := ⟨fuel - 1, by omega⟩
      have hstrip : stripPrefix? ['&', r] (c :: w) = none := by
        by_cases hca : c = '&'
        · subst hca
          have hamp' : '&' ≠ r := hcr
          cases hw' : w with
          | nil => simp [stripPrefix?]
          | cons x rest =>
            have := dec_head_ne D r hres hnd hamp' cs x rest (by rw [hw, hw'])
            have : ¬ r = x := fun e => this e.symm
            simp [stripPrefix?, this]
        · have : ¬ '&' = c := fun e => hca e.symm
          simp [stripPrefix?, this]
      simp only [replaceFuel, hstrip]
      rw [ih f (by omega)]
    · by_cases hr : c ∈ reserved
      · by_cases hcr : c = r
        · subst hcr
          have e1 : dec D c = ['&', c] := by simp [dec, hc, hr]
          have e2 : dec (c :: D) c = [c] := by simp [dec]
          rw [e1] at h ⊢; rw [e2]
          simp only [List.length_append, List.length_cons, List.length_nil, List.cons_append, List.nil_append] at h ⊢
          obtain ⟨f, rfl⟩ : ∃ f, fuel = f + 1 := ⟨fuel - 1, by omega⟩
          simp [replaceFuel, stripPrefix?, ih f (by omega)]
        · have e1 : dec D c = ['&', c] := by simp [dec, hc, hr]
          have e2 : dec (r :: D) c = ['&', c] := by simp [dec, hc, hr, hcr]
          rw [e1] at h ⊢; rw [e2]
          simp only [List.length_append, List.length_cons, List.length_nil, List.cons_append, List.nil_append] at h ⊢
          obtain ⟨f, rfl⟩ : ∃ f, fuel = f + 2 := ⟨fuel - 2, by omega⟩
          have hca : c ≠ '&' := by
            rcases hamp with rfl | hD
            · exact hcr
            · exact fun e => hc (e ▸ hD)
          have h1 : ¬ r = c := fun e => hcr e.symm
          have h2 : ¬ '&' = c := fun e => hca e.symm
          simp [replaceFuel, stripPrefix?, h1, h2, ih f (by omega)]
      · have e1 : dec D c = [c] := by simp [dec, hc, hr]
        have hcr : c ≠ r := fun e => hr (e ▸ hres)
        have e2 : dec (r :: D) c = [c] := by simp [dec, hc, hr, hcr]
        rw [e1] at h ⊢; rw [e2]
        simp only [List.length_append, List.length_cons, List.length_nil, List.cons_append, List.nil_append] at h ⊢
        obtain ⟨f, rfl⟩ : ∃ f, fuel = f + 1 := ⟨fuel - 1, by omega⟩
        have hca : ¬ '&' = c := fun e => hr (e ▸ amp_reserved)
        simp [replaceFuel, stripPrefix?, hca, ih f (by omega)]

theorem dec_stage' (D : List Char) (r : Char) (hres : r ∈ reserved) (hnd : r ∉ D) (hamp : r = '&' ∨ '&' ∈ D)
    (s : List Char) : replace ['&', r] [r] (s.flatMap (dec D)) = s.flatMap (dec (r :: D)) := by
  unfold replace; exact dec_stage D r hres hnd hamp s _ (by omega)

theorem enc_eq_dec (s : List Char) : s.flatMap (enc reserved.reverse) = s.flatMap (dec []) := by
  congr 1; funext c
  simp [enc, dec]

theorem dec_all (s : List Char) : s.flatMap (dec reserved.reverse) = s := by
  induction s with
  | nil => rfl
  | cons c cs ih =>
    simp only [List.flatMap_cons, ih]
    by_cases h : c ∈ reserved
    · have : c ∈ reserved.reverse := by simpa using h
      simp [dec, this]
    · have : c ∉ reserved.reverse := by simpa using h
      simp [dec, this, h]

/-- `unescape_browse_name(escape_browse_name(s)) == s` for EVERY string -/
theorem unescape_escapeBN (s : List Char) : unescapeBN (escapeBN s) = s := by
  rw [escapeBN_eq, enc_eq_dec]
  simp only [unescapeBN, reserved, List.foldl_cons, List.foldl_nil]
  rw [dec_stage' [] '&' (by decide) (by decide) (Or.inl rfl),
    dec_stage' _ '/' (by decide) (by decide) (Or.inr (by decide)),
    dec_stage' _ '.' (by decide) (by decide) (Or.inr (by decide)),
    dec_stage' _ '<' (by decide) (by decide) (Or.inr (by decide)),
    dec_stage' _ '>' (by decide) (by decide) (Or.inr (by decide)),
    dec_stage' _ ':' (by decide) (by decide) (Or.inr (by decide)),
    dec_stage' _ '#' (by decide) (by decide) (Or.inr (by decide)),
    dec_stage' _ '!' (by decide) (by decide) (Or.inr (by decide))]
  exact dec_all s

/-! ### target names, bracketed reference types, one element -/

/-- a browse name without reserved characters, non-empty -/
def PlainName (n : List Char) : Prop := n ≠ [] ∧ ∀ c ∈ n, c ∉ reserved

theorem escapeBN_plain (n : List Char) (h : ∀ c ∈ n, c ∉ reserved) : escapeBN n = n := by
  rw [escapeBN_eq]
  induction n with
  | nil => rfl
  | cons c cs ih =>
    have hc : c ∉ reserved.reverse := by simpa using h c (by simp)
    simp only [List.flatMap_cons, enc, hc, if_false, List.cons_append, List.nil_append]
    rw [ih (fun x hx => h x (by simp [hx]))]

theorem escapeBN_ne_nil (n : List Char) (h : n ≠ []) : escapeBN n ≠ [] := by
  rw [escapeBN_eq]
  cases n with
  | nil => exact absurd rfl h
  | cons c cs => simp only [List.flatMap_cons, enc]; split <;> simp

/-- no unescaped `>` … in fact no `>` at all unless the name has one -/
theorem escapeBN_no_gt (n : List Char) (h : '>' ∉ n) : '>' ∉ escapeBN n := by
  rw [escapeBN_eq]
  intro hm
  simp only [List.mem_flatMap] at hm
  obtain ⟨c, hc, hx⟩ := hm
  simp only [enc] at hx
  split at hx
  · simp at hx; exact h (hx ▸ hc)
  · simp at hx; exact h (hx ▸ hc)

theorem toDec_no_gt (n : Nat) : '>' ∉ toDec n := by
  intro h
  have := toDec_all_digits n
  simp only [List.all_eq_true] at this
  exact absurd (this _ h) (by decide)

/-- target names that survive: namespace ≤ 65535, a null name only with namespace 0, never the empty string -/
def GoodTarget (q : QN) : Prop :=
  q.ns ≤ 65535 ∧ (q.name = none → q.ns = 0) ∧ q.name ≠ some []

theorem target_roundtrip (q : QN) (h : GoodTarget q) : targetName current (printTarget q) = some q := by
  obtain ⟨ns, name⟩ := q
  obtain ⟨h1, h2, h3⟩ := h
  cases name with
  | none =>
    have : ns = 0 := h2 rfl
    subst this
    simp [printTarget, targetName, current, spanP, takeLine]
  | some n =>
    have hn : n ≠ [] := fun e => h3 (by simp [e])
    simp only [printTarget, targetName, current, if_true]
    rw [spanP_append isDigit _ ':' _ (toDec_all_digits ns) (by decide)]
    have hne := escapeBN_ne_nil n hn
    simp [toDec_ne_nil, parseUnsigned_toDec h1, takeLine, hne, unescape_escapeBN]


/-! ### the bracketed reference type -/

theorem gt_reserved : '>' ∈ reserved := by decide
theorem colon_reserved : ':' ∈ reserved := by decide

/-- the escaped name is consumed exactly, whatever follows the closing `>` -/
theorem nameRest_esc (n t : List Char) : nameRest (escapeBN n ++ '>' :: t) = some (escapeBN n, t) := by
  rw [escapeBN_eq]
  induction n with
  | nil => simp [nameRest]
  | cons c cs ih =>
    simp only [List.flatMap_cons, enc, List.append_assoc]
    split
    · -- escaped pair
      simp only [List.cons_append, List.nil_append]
      rw [nameRest]
      simp [ih]
    · rename_i hc
      have hc' : c ∉ reserved := by simpa using hc
      have h1 : c ≠ '>' := fun e => hc' (e ▸ gt_reserved)
      have h2 : c ≠ '&' := fun e => hc' (e ▸ amp_reserved)
      simp only [List.cons_append, List.nil_append]
      rw [nameRest]
      · simp [ih]
      · intro e; exact h1 e
      · intro e _; exact h2 e
      · intro _ _ e _; exact h2 e


/-- first char of an escaped non-empty name is neither `#` nor `!` -/
theorem escapeBN_head (n : List Char) (h : n ≠ []) :
    ∃ c0 r, escapeBN n = c0 :: r ∧ c0 ≠ '#' ∧ c0 ≠ '!' := by
  rw [escapeBN_eq]
  cases n with
  | nil => exact absurd rfl h
  | cons c cs =>
    simp only [List.flatMap_cons, enc]
    split
    · exact ⟨'&', _, rfl, by decide, by decide⟩
    · rename_i hc
      refine ⟨c, _, rfl, ?_, ?_⟩
      · intro e; subst e; exact hc (by decide)
      · intro e; subst e; exact hc (by decide)

theorem bracketName_print (n t : List Char) (hn : n ≠ []) :
    bracketName current (escapeBN n ++ '>' :: t) = some (escapeBN n, t) := by
  have key := nameRest_esc
  rw [escapeBN_eq] at *
  cases n with
  | nil => exact absurd rfl hn
  | cons c cs =>
    have ih := key cs t
    rw [escapeBN_eq] at ih
    simp only [List.flatMap_cons, enc, List.append_assoc]
    split
    · simp [bracketName, current, ih]
    · rename_i hc
      have hc' : c ∉ reserved := by simpa using hc
      have h1 : c ≠ '>' := fun e => hc' (e ▸ gt_reserved)
      have h2 : c ≠ '&' := fun e => hc' (e ▸ amp_reserved)
      have h3 : c ≠ '#' := fun e => hc' (by rw [e]; decide)
      have h4 : c ≠ '!' := fun e => hc' (by rw [e]; decide)
      simp [bracketName, current, h1, h2, h3, h4, ih]

theorem toDec_eq_zero {n : Nat} (h : toDec n = ['0']) : n = 0 := by
  have := digitsVal_toDec n
  rw [h] at this
  simp [digitsVal, digitVal] at this
  omega


/-- in an escaped name a `:` only occurs after `&`, so a leading digit run is never followed by `:` -/
theorem span_esc_no_colon (n t : List Char) :
    ∀ d r, spanP isDigit (escapeBN n ++ '>' :: t) = (d, r) → ∀ r', r ≠ ':' :: r' := by
  rw [escapeBN_eq]
  induction n with
  | nil =>
    intro d r h r' e
    simp [spanP, show isDigit '>' = false by decide] at h
    rw [← h.2] at e; simp at e
  | cons c cs ih =>
    intro d r h r' e
    simp only [List.flatMap_cons, enc, List.append_assoc] at h
    split at h
    · simp [spanP, show isDigit '&' = false by decide] at h
      rw [← h.2] at e; simp at e
    · rename_i hc
      have hc' : c ∉ reserved := by simpa using hc
      simp only [List.cons_append, List.nil_append, spanP] at h
      split at h
      · simp only [Prod.mk.injEq] at h
        exact ih _ _ rfl r' (h.2 ▸ e)
      · simp only [Prod.mk.injEq] at h
        rw [← h.2] at e
        simp only [List.cons.injEq] at e
        exact hc' (e.1 ▸ colon_reserved)

theorem bracketNs_noNs (n t : List Char) (hn : n ≠ []) :
    bracketNs current (escapeBN n ++ '>' :: t) = some (none, escapeBN n, t) := by
  have hb := bracketName_print n t hn
  unfold bracketNs
  simp only [hb, Option.map_some]
  generalize hs : spanP isDigit (escapeBN n ++ '>' :: t) = sp
  obtain ⟨d, r⟩ := sp
  have := span_esc_no_colon n t d r hs
  cases r with
  | nil => rfl
  | cons x xs =>
    by_cases hx : x = ':'
    · exact absurd (by rw [hx]) (this xs)
    · split
      · rename_i heq; simp only [Prod.mk.injEq, List.cons.injEq] at heq; exact absurd heq.2.1 hx
      · rfl

theorem bracketNs_ns (ns : Nat) (n t : List Char) (hn : n ≠ []) :
    bracketNs current (toDec ns ++ ':' :: (escapeBN n ++ '>' :: t)) = some (some (toDec ns), escapeBN n, t) := by
  unfold bracketNs
  rw [spanP_append isDigit _ ':' _ (toDec_all_digits ns) (by decide)]
  simp [toDec_ne_nil, bracketName_print n t hn]

/-! ### one element -/

/-- regenerated obligation: the two name tables of relative_path.rs agree and hold plain names -/
theorem tables_consistent :
    (∀ p ∈ idToName, lookupId p.2 nameToId = some p.1) ∧ (∀ p ∈ nameToId, lookupName p.2 idToName = some p.1) ∧
    (∀ p ∈ idToName, p.2 ≠ [] ∧ ∀ c ∈ p.2, c ∉ reserved) := by decide

theorem lookupName_mem (i : Nat) (name : List Char) (l : List (Nat × List Char)) (h : lookupName i l = some name) :
    (i, name) ∈ l := by
  induction l with
  | nil => simp [lookupName] at h
  | cons p r ih =>
    obtain ⟨j, n⟩ := p
    simp only [lookupName] at h
    split at h
    · rename_i hj; cases h; simp [hj]
    · simp [ih h]


/-- reference types that can be printed and read back, together with their browse name: the standard
types by numeric id, or a string id with ANY non-empty name (reserved characters included) that, in
namespace 0, is not the name of a standard type -/
inductive GoodRef : NodeId → List Char → Prop where
  | std (i : Nat) (name : List Char) : lookupName i idToName = some name → GoodRef ⟨0, .numeric i⟩ name
  | str (ns : Nat) (name : List Char) : ns ≤ 65535 → name ≠ [] → (ns = 0 → lookupId name nameToId = none) →
      GoodRef ⟨ns, .str (some name)⟩ name

theorem GoodRef.ne_nil {r : NodeId} {bn : List Char} (h : GoodRef r bn) : bn ≠ [] := by
  cases h with
  | std i _ hl => exact (tables_consistent.2.2 _ (lookupName_mem i bn _ hl)).1
  | str ns _ _ hp _ => exact hp

theorem GoodRef.browse {r : NodeId} {bn : List Char} (h : GoodRef r bn) : browseName r = some bn := by
  cases h with
  | std i _ hl => simp [browseName, hl]
  | str ns _ _ _ _ => simp [browseName]

theorem GoodRef.resolve {r : NodeId} {bn : List Char} (h : GoodRef r bn) : resolveNode r.ns bn = r := by
  cases h with
  | std i _ hl =>
    have := tables_consistent.1 _ (lookupName_mem i bn _ hl)
    simp only at this
    simp [resolveNode, this]
  | str ns _ _ _ h0 =>
    by_cases hns : ns = 0
    · subst hns; simp [resolveNode, h0 rfl]
    · simp [resolveNode, hns]

theorem GoodRef.ns_le {r : NodeId} {bn : List Char} (h : GoodRef r bn) : r.ns ≤ 65535 := by
  cases h with
  | std => simp
  | str ns _ h1 _ _ => exact h1

def isSlash (e : Elem) : Prop := e.subtypes = true ∧ e.inverse = false ∧ e.ref = ⟨0, .numeric hierarchicalReferences⟩
def isDot (e : Elem) : Prop := e.subtypes = true ∧ e.inverse = false ∧ e.ref = ⟨0, .numeric aggregates⟩

/-- the text after `<flags` of a printed bracketed reference type + ANY following text parses to its parts -/
theorem bracketNs_print (r : NodeId) (bn t : List Char) (h : GoodRef r bn) :
    bracketNs current ((if r.ns ≠ 0 then toDec r.ns ++ [':'] else []) ++ escapeBN bn ++ ['>'] ++ t) =
      some (if r.ns ≠ 0 then some (toDec r.ns) else none, escapeBN bn, t) := by
  have hp := h.ne_nil
  by_cases hns : r.ns = 0
  · simp only [hns, ne_eq, not_true_eq_false, if_false, List.nil_append, List.append_assoc, List.cons_append]
    exact bracketNs_noNs bn t hp
  · simp only [hns, ne_eq, not_false_eq_true, if_true, List.append_assoc, List.cons_append, List.nil_append]
    exact bracketNs_ns r.ns bn t hp

theorem bracket_print (sub inv : Bool) (r : NodeId) (bn t : List Char) (h : GoodRef r bn) :
    (bracket current ((if sub then [] else ['#']) ++ (if inv then ['!'] else []) ++
      (if r.ns ≠ 0 then toDec r.ns ++ [':'] else []) ++ escapeBN bn ++ ['>'] ++ t)).map
        (fun b => (b.subtypes, b.inverse, b.nsidx, b.name, b.target)) =
      some (sub, inv, if r.ns ≠ 0 then some (toDec r.ns) else none, escapeBN bn, t) := by
  have hb := bracketNs_print r bn t h
  generalize hX : (if r.ns ≠ 0 then toDec r.ns ++ [':'] else []) ++ escapeBN bn ++ ['>'] ++ t = X at hb
  have hX' : (if sub then [] else ['#']) ++ (if inv then ['!'] else []) ++
      (if r.ns ≠ 0 then toDec r.ns ++ [':'] else []) ++ escapeBN bn ++ ['>'] ++ t =
      (if sub then [] else ['#']) ++ (if inv then ['!'] else []) ++ X := by
    rw [← hX]; simp only [List.append_assoc]
  rw [hX']
  -- X starts with a digit or with the first char of the (plain) name: never '#' or '!'
  have hXhead : ∀ r', X ≠ '#' :: r' ∧ X ≠ '!' :: r' := by
    intro r'
    have hp := h.ne_nil
    rw [← hX]
    by_cases hns : r.ns = 0
    · simp only [hns, ne_eq, not_true_eq_false, if_false, List.nil_append]
      obtain ⟨c0, rr, he, h1, h2⟩ := escapeBN_head bn hp
      rw [he]; simp [h1, h2]
    · simp only [hns, ne_eq, not_false_eq_true, if_true]
      cases htd : toDec r.ns with
      | nil => exact absurd htd (toDec_ne_nil _)
      | cons d ds =>
        have hd : isDigit d = true := by
          have := toDec_all_digits r.ns; rw [htd] at this; simp at this; exact this.1
        have h1 : d ≠ '#' := isDigit_ne hd (by decide)
        have h2 : d ≠ '!' := isDigit_ne hd (by decide)
        simp [h1, h2]
  have hbang : bracketNs current ('!' :: X) = none := by
    simp [bracketNs, spanP, show isDigit '!' = false by decide, bracketName]
  cases sub <;> cases inv <;> simp only [if_true, if_false, Bool.false_eq_true, List.nil_append, List.cons_append]
  · -- "#" X
    simp [bracket, hb]
  · -- "#!" X
    simp [bracket, hbang, hb]
  · -- X
    cases hXc : X with
    | nil => rw [hXc] at hb; simp [bracketNs, spanP, bracketName] at hb
    | cons x xs =>
      have h1 : x ≠ '#' := fun e => (hXhead xs).1 (by rw [hXc, e])
      have h2 : x ≠ '!' := fun e => (hXhead xs).2 (by rw [hXc, e])
      rw [hXc] at hb
      unfold bracket
      split
      · rename_i heq; simp only [List.cons.injEq] at heq; exact absurd heq.1 h1
      · rename_i heq; simp only [List.cons.injEq] at heq; exact absurd heq.1 h2
      · simp [hb]
  · -- "!" X
    simp [bracket, hb]



/-- elements whose text form is faithful: resolvable reference type (any non-empty name) and a good
target (any non-empty name, any alphabet) -/
structure GoodElem (e : Elem) (bn : List Char) : Prop where
  ref : GoodRef e.ref bn
  target : GoodTarget e.target

theorem elem_roundtrip (e : Elem) (bn : List Char) (h : GoodElem e bn) :
    ∃ text, printElem e = some text ∧ parseElem current text = some e := by
  obtain ⟨href, htgt⟩ := h
  have hbrowse := href.browse
  have htn := target_roundtrip e.target htgt
  obtain ⟨ref, inv, sub, tgt⟩ := e
  simp only at href htgt hbrowse htn
  by_cases hs : sub = true ∧ inv = false ∧ ref = ⟨0, .numeric hierarchicalReferences⟩
  · obtain ⟨rfl, rfl, rfl⟩ := hs
    refine ⟨'/' :: printTarget tgt, by simp [printElem, printRefType, hbrowse], ?_⟩
    simp [parseElem, elemRe, takeLine, current, htn] at htn ⊢
  · by_cases hd : sub = true ∧ inv = false ∧ ref = ⟨0, .numeric aggregates⟩
    · obtain ⟨rfl, rfl, rfl⟩ := hd
      have hb' : browseName { ns := 0, id := Ident.numeric 44 } = some bn := hbrowse
      refine ⟨'.' :: printTarget tgt, by simp [printElem, printRefType, hb', hierarchicalReferences, aggregates], ?_⟩
      simp [parseElem, elemRe, takeLine, current] at htn ⊢
      simp [htn]
    · have hb := bracket_print sub inv ref bn (printTarget tgt) href
      generalize hB : bracket current _ = B at hb
      cases B with
      | none => simp at hb
      | some b =>
        simp only [Option.map_some, Option.some.injEq, Prod.mk.injEq] at hb
        obtain ⟨b1, b2, b3, b4, b5⟩ := hb
        refine ⟨_, by simp only [printElem, printRefType, hbrowse]; rw [if_neg (by simpa using hs), if_neg (by simpa using hd)]; rfl, ?_⟩
        simp only [Option.map_some, List.cons_append, parseElem, elemRe, show ('<' : Char) ≠ '/' by decide,
          show ('<' : Char) ≠ '.' by decide, if_false, if_true]
        have hB' : bracket current ((if sub = true then [] else ['#']) ++ (if inv = true then ['!'] else []) ++
            (if ref.ns ≠ 0 then toDec ref.ns ++ [':'] else []) ++ escapeBN bn ++ ['>'] ++ printTarget tgt) = some b := hB
        simp only [List.append_assoc] at hB' ⊢
        rw [hB']
        have hun : (if current.unescRef = true then unescapeBN b.name else b.name) = bn := by
          simp [current, b4, unescape_escapeBN]
        simp only [b5, htn, b3, hun, b1, b2]
        have hres := href.resolve
        have hnr : current.noResolver = false := rfl
        by_cases hns : ref.ns = 0
        · simp [hns, hnr] at hres ⊢; simp [hres]
        · have hne0 : toDec ref.ns ≠ ['0'] := fun e => hns (toDec_eq_zero e)
          simp [hns, hnr, hne0, parseUnsigned_toDec href.ns_le, hres]

/-! ### the tokenizer loop -/

def isDelim (c : Char) : Prop := c = '/' ∨ c = '.' ∨ c = '<'

/-- text made of plain chars and `&x` pairs: the tokenizer never splits inside it -/
inductive Safe : List Char → Prop where
  | nil : Safe []
  | plain (x : Char) (r : List Char) : x ≠ '/' → x ≠ '.' → x ≠ '<' → x ≠ '&' → Safe r → Safe (x :: r)
  | esc (y : Char) (r : List Char) : Safe r → Safe ('&' :: y :: r)

theorem Safe.append {a b : List Char} (ha : Safe a) (hb : Safe b) : Safe (a ++ b) := by
  induction ha with
  | nil => exact hb
  | plain x r h1 h2 h3 h4 _ ih => exact Safe.plain x _ h1 h2 h3 h4 ih
  | esc y r _ ih => exact Safe.esc y _ ih

theorem Safe.digits (ds : List Char) (h : ds.all isDigit = true) : Safe ds := by
  induction ds with
  | nil => exact Safe.nil
  | cons d r ih =>
    simp at h
    have hd := h.1
    exact Safe.plain d r (isDigit_ne hd (by decide)) (isDigit_ne hd (by decide)) (isDigit_ne hd (by decide))
      (isDigit_ne hd (by decide)) (ih (by simpa using h.2))

theorem Safe.escapeBN (n : List Char) : Safe (escapeBN n) := by
  rw [escapeBN_eq]
  induction n with
  | nil => exact Safe.nil
  | cons c cs ih =>
    simp only [List.flatMap_cons, enc]
    split
    · exact Safe.esc c _ ih
    · rename_i hc
      have hc' : c ∉ reserved := by simpa using hc
      refine Safe.plain c _ ?_ ?_ ?_ ?_ ih <;> (intro e; subst e; exact hc' (by decide))

theorem Safe.single (x : Char) (h1 : x ≠ '/') (h2 : x ≠ '.') (h3 : x ≠ '<') (h4 : x ≠ '&') : Safe [x] :=
  Safe.plain x [] h1 h2 h3 h4 Safe.nil

theorem Safe.printTarget (q : QN) : Safe (printTarget q) := by
  obtain ⟨ns, name⟩ := q
  cases name with
  | none => exact Safe.nil
  | some n =>
    simp only [C05.printTarget]
    exact (Safe.digits _ (toDec_all_digits ns)).append
      (Safe.plain ':' _ (by decide) (by decide) (by decide) (by decide) (Safe.escapeBN n))

/-- shape of a printed element: a delimiter, then tokenizer-safe text -/
theorem printElem_shape (e : Elem) (text : List Char) (h : printElem e = some text) :
    ∃ d body, text = d :: body ∧ isDelim d ∧ Safe body := by
  simp only [printElem, printRefType] at h
  cases hb : browseName e.ref with
  | none => simp [hb] at h
  | some bn =>
    simp only [hb] at h
    split at h
    · simp at h; exact ⟨'/', _, h.symm, Or.inl rfl, Safe.printTarget _⟩
    · split at h
      · simp at h; exact ⟨'.', _, h.symm, Or.inr (Or.inl rfl), Safe.printTarget _⟩
      · simp only [Option.map_some, Option.some.injEq] at h
        refine ⟨'<', _, h.symm, Or.inr (Or.inr rfl), ?_⟩
        refine Safe.append (Safe.append (Safe.append (Safe.append (Safe.append ?_ ?_) ?_) (Safe.escapeBN bn)) ?_) (Safe.printTarget _)
        · split
          · exact Safe.nil
          · exact Safe.single '#' (by decide) (by decide) (by decide) (by decide)
        · split
          · exact Safe.single '!' (by decide) (by decide) (by decide) (by decide)
          · exact Safe.nil
        · split
          · exact (Safe.digits _ (toDec_all_digits _)).append (Safe.single ':' (by decide) (by decide) (by decide) (by decide))
          · exact Safe.nil
        · exact Safe.single '>' (by decide) (by decide) (by decide) (by decide)


theorem utf8Len_append (a b : List Char) : utf8Len (a ++ b) = utf8Len a + utf8Len b := by
  induction a with
  | nil => simp [utf8Len]
  | cons c cs ih => simp [utf8Len, ih]; omega

theorem tok_safe (cfg : Cfg) (w : List Char) (hw : Safe w) : ∀ (E : List Elem) (t0 rest : List Char),
    utf8Len (t0 ++ w) ≤ maxTokenLen →
    tokLoop cfg ⟨E, false, t0⟩ (w ++ rest) = tokLoop cfg ⟨E, false, t0 ++ w⟩ rest := by
  induction hw with
  | nil => intro E t0 rest _; simp
  | plain x r h1 h2 h3 h4 _ ih =>
    intro E t0 rest hl
    have hl1 : ¬ utf8Len (t0 ++ [x]) > maxTokenLen := by
      rw [utf8Len_append] at hl ⊢; simp only [utf8Len] at hl ⊢; omega
    have hstep : tokStep cfg ⟨E, false, t0⟩ x = .run ⟨E, false, t0 ++ [x]⟩ := by
      simp [tokStep, h1, h2, h3, h4, hl1]
    simp only [List.cons_append, tokLoop, hstep]
    rw [ih E (t0 ++ [x]) rest (by simpa using hl)]
    simp
  | esc y r _ ih =>
    intro E t0 rest hl
    have hl1 : ¬ utf8Len (t0 ++ ['&']) > maxTokenLen := by
      rw [utf8Len_append] at hl ⊢; simp only [utf8Len] at hl ⊢; omega
    have hl2 : ¬ utf8Len (t0 ++ ['&'] ++ [y]) > maxTokenLen := by
      rw [utf8Len_append] at hl; simp only [utf8Len_append, utf8Len] at hl ⊢; omega
    have hstep1 : tokStep cfg ⟨E, false, t0⟩ '&' = .run ⟨E, true, t0 ++ ['&']⟩ := by
      simp [tokStep, hl1]
    have hstep2 : tokStep cfg ⟨E, true, t0 ++ ['&']⟩ y = .run ⟨E, false, t0 ++ ['&'] ++ [y]⟩ := by
      have : utf8Len (t0 ++ ['&', y]) ≤ maxTokenLen := by
        have := hl2; simp only [List.append_assoc, List.cons_append, List.nil_append] at this; omega
      simp [tokStep, this]
    simp only [List.cons_append, tokLoop, hstep1, hstep2]
    rw [ih E (t0 ++ ['&'] ++ [y]) rest (by simpa using hl)]
    simp

/-- a printed element together with what the element parser makes of its text -/
structure Piece (cfg : Cfg) where
  elem : Elem
  d : Char
  body : List Char
  delim : isDelim d
  safe : Safe body
  fits : utf8Len (d :: body) ≤ maxTokenLen
  parses : parseElem cfg (d :: body) = some elem

def Piece.text {cfg : Cfg} (p : Piece cfg) : List Char := p.d :: p.body

def textOf {cfg : Cfg} : List (Piece cfg) → List Char
  | [] => []
  | p :: ps => p.text ++ textOf ps

/-- the loop over the texts of further elements, started inside a (complete) token -/
theorem tok_pieces (cfg : Cfg) : ∀ (ps : List (Piece cfg)) (E : List Elem) (e0 : Elem) (t0 : List Char),
    t0 ≠ [] → parseElem cfg t0 = some e0 → E.length + 1 + ps.length ≤ maxElements →
    finishLoop cfg (tokLoop cfg ⟨E, false, t0⟩ (textOf ps)) = some (E ++ e0 :: ps.map (·.elem)) := by
  intro ps
  induction ps with
  | nil =>
    intro E e0 t0 hne hp hlen
    have h1 : t0.isEmpty = false := by cases t0 <;> simp_all
    have h2 : ¬ E.length = maxElements := by simp at hlen; omega
    simp [textOf, tokLoop, finishLoop, h1, h2, hp]
  | cons p ps ih =>
    intro E e0 t0 hne hp hlen
    have h1 : t0.isEmpty = false := by cases t0 <;> simp_all
    have h2 : ¬ E.length = maxElements := by simp at hlen; omega
    have hd : p.d = '/' ∨ p.d = '.' ∨ p.d = '<' := p.delim
    have hamp : p.d ≠ '&' := by rcases hd with h | h | h <;> rw [h] <;> decide
    have h1len : ¬ utf8Len [p.d] > maxTokenLen := by
      have := p.fits; simp only [utf8Len] at this ⊢; omega
    have hstep : tokStep cfg ⟨E, false, t0⟩ p.d = .run ⟨E ++ [e0], false, [p.d]⟩ := by
      simp [tokStep, hamp, hd, h1, h2, hp, h1len]
    simp only [textOf, Piece.text, List.cons_append, tokLoop, hstep]
    rw [tok_safe cfg p.body p.safe _ [p.d] _ (by simpa using p.fits)]
    rw [ih (E ++ [e0]) p.elem ([p.d] ++ p.body) (by simp) (by simpa using p.parses) (by simp at hlen ⊢; omega)]
    simp

/-- the whole parser on the concatenated texts -/
theorem parse_pieces (cfg : Cfg) (ps : List (Piece cfg)) (hlen : ps.length ≤ maxElements) :
    parsePathWith cfg (textOf ps) = some (ps.map (·.elem)) := by
  unfold parsePathWith
  cases ps with
  | nil => simp [textOf, tokLoop, finishLoop]
  | cons p ps =>
    have hd : p.d = '/' ∨ p.d = '.' ∨ p.d = '<' := p.delim
    have hamp : p.d ≠ '&' := by rcases hd with h | h | h <;> rw [h] <;> decide
    have h1len : ¬ utf8Len [p.d] > maxTokenLen := by
      have := p.fits; simp only [utf8Len] at this ⊢; omega
    have hstep : tokStep cfg ⟨[], false, []⟩ p.d = .run ⟨[], false, [p.d]⟩ := by
      simp [tokStep, hamp, hd, h1len]
    simp only [textOf, Piece.text, List.cons_append, tokLoop, hstep]
    rw [tok_safe cfg p.body p.safe _ [p.d] _ (by simpa using p.fits)]
    have := tok_pieces cfg ps [] p.elem ([p.d] ++ p.body) (by simp) (by simpa using p.parses)
      (by simp at hlen ⊢; omega)
    simpa using this

end OpcuaVerif.C05
