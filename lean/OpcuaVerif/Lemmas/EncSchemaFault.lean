import OpcuaVerif.Model.EncSchema
import OpcuaVerif.Lemmas.EncFaultRec
/-! Totality of the schema-directed decoders (generated service structures), C02. -/
namespace OpcuaVerif.Enc
set_option linter.unusedSimpArgs false

mutual
/-- decoding ANY bytes as ANY schema (every generated structure) ends in a value or an error when
the stack covers `3·maxDepth + 3` frames for the embedded Variants and the allocation budget covers
the limits -/
theorem decS_noFault (o : Opts) (cap fuel : Nat) (hc : CapOK o cap) (hf : 3 * o.maxDepth + 3 ≤ fuel)
    (t : Ty) : ∀ d b, (decS o cap fuel t d b).NoFault := by
  cases t with
  | sc tid => intro d b; simp only [decS]; exact Res.faultIn_map (decScalar_noFault o cap d tid b hc)
  | variant =>
    intro d b; simp only [decS]
    exact Res.faultIn_map ((no_fault o cap hc fuel).1 d b (by omega))
  | dataValue =>
    intro d b; simp only [decS]
    exact Res.faultIn_map ((no_fault o cap hc fuel).2.2.1 d b (by omega))
  | diagInfo =>
    intro d b; simp only [decS]
    exact Res.faultIn_map ((no_fault o cap hc fuel).2.2.2 d b (by omega))
  | enm w vals fb =>
    intro d b; simp only [decS]
    refine Res.faultIn_bind (Res.faultIn_ofOpt _) (fun n b => ?_)
    apply Res.faultIn_ite
    · trivial
    · cases fb <;> trivial
  | flags w mask => intro d b; simp only [decS]; exact Res.faultIn_map (Res.faultIn_ofOpt _)
  | struct ts =>
    intro d b; simp only [decS]
    exact Res.faultIn_map (decFields_noFault o cap fuel hc hf ts d b)
  | arr t =>
    intro d b
    have ih := decS_noFault o cap fuel hc hf t
    simp only [decS]
    split
    · trivial
    · rename_i n r _
      split
      · trivial
      split
      · trivial
      split
      · trivial
      unfold guardAlloc
      split
      · have := hc.2.2; omega
      · exact Res.faultIn_map (decList_faultIn _ _ (ih d) n r)
theorem decFields_noFault (o : Opts) (cap fuel : Nat) (hc : CapOK o cap) (hf : 3 * o.maxDepth + 3 ≤ fuel)
    (ts : List Ty) : ∀ d b, (decFields o cap fuel ts d b).NoFault := by
  cases ts with
  | nil => intro d b; simp only [decFields]; trivial
  | cons t ts =>
    intro d b
    simp only [decFields]
    exact Res.faultIn_bind (decS_noFault o cap fuel hc hf t d b)
      (fun v b => Res.faultIn_map (decFields_noFault o cap fuel hc hf ts d b))
end

end OpcuaVerif.Enc
