import OpcuaVerif.Lemmas.C28
import OpcuaVerif.Model.C29
namespace OpcuaVerif.C29
open OpcuaVerif.C28

/-- every target of a reference is in `U` -/
def TgtIn (U : List Nat) (s : Refs) : Prop := ∀ a t b, R s a t b → b ∈ U

/-- how many candidates have not been visited yet -/
def remaining (U v : List Nat) : Nat := U.countP (fun x => !v.contains x)

theorem remaining_mono (U v v' : List Nat) (h : ∀ x ∈ v, x ∈ v') : remaining U v' ≤ remaining U v := by
  unfold remaining
  apply List.countP_mono_left
  intro x _ hx
  simp only [Bool.not_eq_true', List.contains_eq_mem, decide_eq_false_iff_not] at hx ⊢
  exact fun hv => hx (h x hv)

theorem remaining_cons_lt (U v : List Nat) (n : Nat) (hn : n ∈ U) (hv : n ∉ v) :
    remaining U (n :: v) < remaining U v := by
  unfold remaining
  induction U with
  | nil => cases hn
  | cons y U ih =>
    have hmono : List.countP (fun x => !(n :: v).contains x) U ≤ List.countP (fun x => !v.contains x) U :=
      remaining_mono U v (n :: v) (fun x hx => List.mem_cons_of_mem _ hx)
    by_cases hy : y = n
    · subst hy
      simp only [List.countP_cons]
      have h1 : (!(y :: v).contains y) = false := by simp
      have h2 : (!v.contains y) = true := by simpa using hv
      simp only [h1, h2, if_true, Bool.false_eq_true, if_false]
      omega
    · have hn' : n ∈ U := by
        cases hn with
        | head => exact absurd rfl hy
        | tail _ h => exact h
      have := ih hn'
      simp only [List.countP_cons]
      have e : (!(n :: v).contains y) = (!v.contains y) := by
        simp [hy]
      rw [e]
      split <;> omega

theorem mem_aggregatesOf (agg : Nat → Bool) (sp : Space) (n c : Nat) :
    c ∈ aggregatesOf agg sp n ↔ ∃ u, agg u = true ∧ R sp.refs n u c := by
  unfold aggregatesOf R fwdL
  cases sp.refs.fwd.get n with
  | none => simp
  | some l =>
    simp only [List.mem_map, List.mem_filter, Option.getD_some]
    constructor
    · rintro ⟨⟨u, c'⟩, ⟨hm, ha⟩, rfl⟩; exact ⟨u, ha, hm⟩
    · rintro ⟨u, ha, hm⟩; exact ⟨(u, c), ⟨hm, ha⟩, rfl⟩

theorem AMap.mem_of_get {V : Type} (m : AMap V) (k : Nat) (v : V) (h : m.get k = some v) : (k, v) ∈ m := by
  induction m with
  | nil => simp [AMap.get] at h
  | cons e r ih =>
    obtain ⟨k', v'⟩ := e
    unfold AMap.get at h
    split at h
    · rename_i hk; cases h; subst hk; exact List.mem_cons_self
    · exact List.mem_cons_of_mem _ (ih h)

theorem tgtIn_candidates (sp : Space) (n : Nat) : TgtIn (candidates sp n) sp.refs := by
  intro a t b hr
  unfold R fwdL at hr
  cases hg : sp.refs.fwd.get a with
  | none => rw [hg] at hr; simp at hr
  | some l =>
    rw [hg] at hr
    simp only [Option.getD_some] at hr
    unfold candidates
    apply List.mem_cons_of_mem
    rw [List.mem_flatMap]
    exact ⟨(a, l), AMap.mem_of_get _ _ _ hg, List.mem_map.2 ⟨(t, b), hr, rfl⟩⟩

/-- What a (possibly nested) `delete` call has done: `D` are the nodes it visited for the first
time.  They are gone from the node map; with `delete_target_references` exactly the references
mentioning them are gone, otherwise the references are untouched; and every node aggregated (in the
state the call started from) by a node of `D` has been visited. -/
structure PostD (agg : Nat → Bool) (dtr : Bool) (sp : Space) (v : List Nat) (sp' : Space)
    (v' : List Nat) (D : List Nat) : Prop where
  inv : Inv sp'.refs
  vis : v' = D ++ v
  fresh : ∀ x ∈ D, x ∉ v
  nodes : sp'.nodes = sp.nodes.filter (fun x => !D.contains x)
  refsT : dtr = true → ∀ x u y, R sp'.refs x u y ↔ (R sp.refs x u y ∧ x ∉ D ∧ y ∉ D)
  refsF : dtr = false → sp'.refs = sp.refs
  closed : ∀ x ∈ D, ∀ u c, agg u = true → R sp.refs x u c → c ∈ v'

theorem PostD.refl (agg : Nat → Bool) (dtr : Bool) (sp : Space) (v : List Nat) (hi : Inv sp.refs) :
    PostD agg dtr sp v sp v [] :=
  { inv := hi, vis := rfl, fresh := by simp, nodes := by simp only [List.contains_nil, Bool.not_false]; exact (List.filter_eq_self.2 (fun _ _ => rfl)).symm,
    refsT := by intro _ x u y; simp, refsF := fun _ => rfl, closed := by simp }

theorem PostD.sub {agg dtr sp v sp' v' D} (h : PostD agg dtr sp v sp' v' D) :
    ∀ x u y, R sp'.refs x u y → R sp.refs x u y := by
  intro x u y hr
  cases hd : dtr with
  | true => exact ((h.refsT hd x u y).1 hr).1
  | false => rw [h.refsF hd] at hr; exact hr

theorem PostD.tgtIn {agg dtr sp v sp' v' D} (h : PostD agg dtr sp v sp' v' D) (U : List Nat)
    (ht : TgtIn U sp.refs) : TgtIn U sp'.refs :=
  fun a t b hr => ht a t b (h.sub a t b hr)

theorem PostD.trans {agg dtr sp v sp1 v1 D1 sp2 v2 D2}
    (h1 : PostD agg dtr sp v sp1 v1 D1) (h2 : PostD agg dtr sp1 v1 sp2 v2 D2) :
    PostD agg dtr sp v sp2 v2 (D2 ++ D1) := by
  have hv2 : v2 = D2 ++ (D1 ++ v) := by rw [h2.vis, h1.vis]
  refine
    { inv := h2.inv, vis := by rw [hv2, List.append_assoc], fresh := ?_, nodes := ?_, refsT := ?_,
      refsF := ?_, closed := ?_ }
  · intro x hx
    rcases List.mem_append.1 hx with hx | hx
    · have := h2.fresh x hx; rw [h1.vis] at this
      exact fun hv => this (List.mem_append_right _ hv)
    · exact h1.fresh x hx
  · rw [h2.nodes, h1.nodes, List.filter_filter]
    congr 1
    funext x
    simp only [List.contains_eq_mem, List.mem_append, Bool.decide_or, Bool.not_or]
  · intro hd x u y
    rw [h2.refsT hd, h1.refsT hd]
    simp only [List.mem_append, not_or]
    constructor
    · rintro ⟨⟨hr, a1, b1⟩, a2, b2⟩; exact ⟨hr, ⟨a2, a1⟩, ⟨b2, b1⟩⟩
    · rintro ⟨hr, ⟨a2, a1⟩, ⟨b2, b1⟩⟩; exact ⟨⟨hr, a1, b1⟩, a2, b2⟩
  · intro hd; rw [h2.refsF hd, h1.refsF hd]
  · intro x hx u c ha hr
    rcases List.mem_append.1 hx with hx | hx
    · -- visited by the second call: `x` was not visited by the first one
      have hx1 : x ∉ D1 := by
        have := h2.fresh x hx; rw [h1.vis] at this
        exact fun hd => this (List.mem_append_left _ hd)
      by_cases hc : c ∈ D1
      · rw [hv2]; exact List.mem_append_right _ (List.mem_append_left _ hc)
      · have hr1 : R sp1.refs x u c := by
          cases hd : dtr with
          | true => exact (h1.refsT hd x u c).2 ⟨hr, hx1, hc⟩
          | false => rw [h1.refsF hd]; exact hr
        exact h2.closed x hx u c ha hr1
    · have := h1.closed x hx u c ha hr
      rw [h2.vis]; exact List.mem_append_right _ this

theorem removeNode_nodes (sp : Space) (n : Nat) (dtr : Bool) :
    (removeNode sp n dtr).1.nodes = sp.nodes.filter (fun x => x != n) := by
  unfold removeNode; cases dtr <;> rfl

theorem removeNode_refs_true (sp : Space) (n : Nat) :
    (removeNode sp n true).1.refs = (deleteNodeRefs sp.refs n).1 := rfl

theorem removeNode_refs_false (sp : Space) (n : Nat) : (removeNode sp n false).1.refs = sp.refs := rfl

/-- the node itself, after its children -/
theorem PostD.final {agg dtr sp v sp1 v1 Dc} {n : Nat}
    (h : PostD agg dtr sp (n :: v) sp1 v1 Dc) (hn : n ∉ v)
    (hc : ∀ c ∈ aggregatesOf agg sp n, c ∈ v1) :
    PostD agg dtr sp v (removeNode sp1 n dtr).1 v1 (Dc ++ [n]) := by
  refine { inv := ?_, vis := ?_, fresh := ?_, nodes := ?_, refsT := ?_, refsF := ?_, closed := ?_ }
  · cases dtr with
    | true => rw [removeNode_refs_true]; exact inv_deleteNodeRefs _ n h.inv
    | false => rw [removeNode_refs_false]; exact h.inv
  · rw [h.vis]; simp
  · intro x hx
    rcases List.mem_append.1 hx with hx | hx
    · exact fun hv => h.fresh x hx (List.mem_cons_of_mem _ hv)
    · simp at hx; subst hx; exact hn
  · rw [removeNode_nodes, h.nodes, List.filter_filter]
    apply List.filter_congr
    intro x _
    simp only [List.contains_eq_mem, List.mem_append, List.mem_singleton, Bool.decide_or,
      Bool.not_or, bne, Bool.and_comm]
    by_cases hx : x = n <;> simp [hx]
  · intro hd x u y
    subst hd
    rw [removeNode_refs_true, R_deleteNodeRefs _ _ _ _ _ h.inv, h.refsT rfl]
    simp only [List.mem_append, List.mem_singleton, not_or]
    constructor
    · rintro ⟨⟨hr, a1, b1⟩, a2, b2⟩; exact ⟨hr, ⟨a1, a2⟩, ⟨b1, b2⟩⟩
    · rintro ⟨hr, ⟨a1, a2⟩, ⟨b1, b2⟩⟩; exact ⟨⟨hr, a1, b1⟩, a2, b2⟩
  · intro hd; subst hd; rw [removeNode_refs_false]; exact h.refsF rfl
  · intro x hx u c ha hr
    rcases List.mem_append.1 hx with hx | hx
    · exact h.closed x hx u c ha hr
    · simp at hx; subst hx
      exact hc c ((mem_aggregatesOf agg sp x c).2 ⟨u, ha, hr⟩)


/-- `x` is `n` or is aggregated, directly or through other nodes, by `n` -/
inductive Reach (agg : Nat → Bool) (s : Refs) (n : Nat) : Nat → Prop
  | refl : Reach agg s n n
  | step {x u c : Nat} : Reach agg s n x → agg u = true → R s x u c → Reach agg s n c

theorem Reach.trans {agg : Nat → Bool} {s : Refs} {a b c : Nat} (h1 : Reach agg s a b)
    (h2 : Reach agg s b c) : Reach agg s a c := by
  induction h2 with
  | refl => exact h1
  | step _ ha hr ih => exact Reach.step ih ha hr

theorem Reach.mono {agg : Nat → Bool} {s s' : Refs} {a b : Nat}
    (hsub : ∀ x u y, R s' x u y → R s x u y) (h : Reach agg s' a b) : Reach agg s a b := by
  induction h with
  | refl => exact Reach.refl
  | step _ ha hr ih => exact Reach.step ih ha (hsub _ _ _ hr)

/-- **The recursion finishes and does what it should**, by induction on the fuel: whenever more
fuel is left than there are unvisited candidates, the call returns, and its effect is `PostD`. -/
theorem deleteV_spec_flag (agg : Nat → Bool) (dtr : Bool) (U : List Nat) :
    ∀ fuel sp n v, C28.Inv sp.refs → TgtIn U sp.refs → n ∈ U → remaining U v < fuel →
      ∃ sp' b v' D, deleteV agg dtr fuel sp n v = some (sp', b, v') ∧
        PostD agg dtr sp v sp' v' D ∧ n ∈ v' ∧ (∀ x ∈ D, Reach agg sp.refs n x) ∧
        (n ∉ v → n ∈ sp.nodes → b = true) := by
  intro fuel
  induction fuel with
  | zero => intro sp n v _ _ _ h; omega
  | succ fuel ih =>
    intro sp n v hi ht hn hr
    by_cases hv : n ∈ v
    · refine ⟨sp, false, v, [], ?_, PostD.refl agg dtr sp v hi, hv, by simp, fun h => absurd hv h⟩
      simp [deleteV, hv]
    · have hlt : remaining U (n :: v) < fuel := by
        have := remaining_cons_lt U v n hn hv; omega
      have hfold : ∀ cs sp0 v0, C28.Inv sp0.refs → TgtIn U sp0.refs → (∀ c ∈ cs, c ∈ U) →
          remaining U v0 < fuel →
          ∃ sp' v' D, foldChildren (fun sp c v => deleteV agg dtr fuel sp c v) sp0 cs v0 = some (sp', v') ∧
            PostD agg dtr sp0 v0 sp' v' D ∧ (∀ c ∈ cs, c ∈ v') ∧
            ∀ x ∈ D, ∃ c ∈ cs, Reach agg sp0.refs c x := by
        intro cs
        induction cs with
        | nil => intro sp0 v0 hi0 _ _ _; exact ⟨sp0, v0, [], rfl, PostD.refl agg dtr sp0 v0 hi0, by simp, by simp⟩
        | cons c cs ihc =>
          intro sp0 v0 hi0 ht0 hcs hr0
          obtain ⟨sp1, b1, v1, D1, e1, p1, hc1, hre1, -⟩ := ih sp0 c v0 hi0 ht0 (hcs c List.mem_cons_self) hr0
          have hsub : ∀ x ∈ v0, x ∈ v1 := by
            rw [p1.vis]; intro x hx; exact List.mem_append_right _ hx
          have hr1 : remaining U v1 < fuel := Nat.lt_of_le_of_lt (remaining_mono U v0 v1 hsub) hr0
          obtain ⟨sp2, v2, D2, e2, p2, hc2, hre2⟩ := ihc sp1 v1 p1.inv (p1.tgtIn U ht0)
            (fun c hc => hcs c (List.mem_cons_of_mem _ hc)) hr1
          refine ⟨sp2, v2, D2 ++ D1, ?_, p1.trans p2, ?_, ?_⟩
          · simp only [foldChildren, e1]; exact e2
          · intro x hx
            cases hx with
            | head => rw [p2.vis]; exact List.mem_append_right _ hc1
            | tail _ hx => exact hc2 x hx
          · intro x hx
            rcases List.mem_append.1 hx with hx | hx
            · obtain ⟨c', hc', hr'⟩ := hre2 x hx
              exact ⟨c', List.mem_cons_of_mem _ hc', Reach.mono p1.sub hr'⟩
            · exact ⟨c, List.mem_cons_self, hre1 x hx⟩
      have hcs : ∀ c ∈ aggregatesOf agg sp n, c ∈ U := by
        intro c hc
        obtain ⟨u, _, hr⟩ := (mem_aggregatesOf agg sp n c).1 hc
        exact ht n u c hr
      obtain ⟨sp1, v1, Dc, e, p, hc, hre⟩ := hfold _ sp (n :: v) hi ht hcs hlt
      have hn1 : n ∈ v1 := by rw [p.vis]; exact List.mem_append_right _ List.mem_cons_self
      refine ⟨(removeNode sp1 n dtr).1, (removeNode sp1 n dtr).2, v1, Dc ++ [n], ?_, p.final hv hc, hn1, ?_, ?_⟩
      · simp [deleteV, hv, e]
      rotate_left
      · intro _ hex
        have hnd : n ∉ Dc := fun hd => p.fresh n hd List.mem_cons_self
        have hc1 : n ∈ sp1.nodes := by
          rw [p.nodes]; simp [List.mem_filter, hex, hnd]
        unfold removeNode
        cases dtr <;> simp [hc1]
      · intro x hx
        rcases List.mem_append.1 hx with hx | hx
        · obtain ⟨c, hc', hr'⟩ := hre x hx
          obtain ⟨u, ha, hru⟩ := (mem_aggregatesOf agg sp n c).1 hc'
          exact (Reach.step Reach.refl ha hru).trans hr'
        · simp at hx; subst hx; exact Reach.refl

theorem deleteV_spec (agg : Nat → Bool) (dtr : Bool) (U : List Nat) :
    ∀ fuel sp n v, C28.Inv sp.refs → TgtIn U sp.refs → n ∈ U → remaining U v < fuel →
      ∃ sp' b v' D, deleteV agg dtr fuel sp n v = some (sp', b, v') ∧
        PostD agg dtr sp v sp' v' D ∧ n ∈ v' ∧ ∀ x ∈ D, Reach agg sp.refs n x := by
  intro fuel sp n v hi ht hn hr
  obtain ⟨sp', b, v', D, e, p, h1, h2, -⟩ := deleteV_spec_flag agg dtr U fuel sp n v hi ht hn hr
  exact ⟨sp', b, v', D, e, p, h1, h2⟩

end OpcuaVerif.C29
