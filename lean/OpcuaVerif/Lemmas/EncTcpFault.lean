import OpcuaVerif.Model.EncTcp
import OpcuaVerif.Lemmas.EncSchemaFault

/-! Totality of the UA-TCP message decoders and of the object-id dispatch (C02). -/
namespace OpcuaVerif.Enc
set_option linter.unusedSimpArgs false

theorem decMsgHeader_noFault (b : Bytes) : (decMsgHeader b).NoFault := by
  unfold decMsgHeader
  split
  · exact Res.faultIn_map (Res.faultIn_ofOpt _)
  · trivial

theorem rd5_noFault (b : Bytes) : (rd5 b).NoFault := by
  unfold rd5
  refine Res.faultIn_bind (Res.faultIn_ofOpt _) (fun _ _ => ?_)
  refine Res.faultIn_bind (Res.faultIn_ofOpt _) (fun _ _ => ?_)
  refine Res.faultIn_bind (Res.faultIn_ofOpt _) (fun _ _ => ?_)
  refine Res.faultIn_bind (Res.faultIn_ofOpt _) (fun _ _ => ?_)
  exact Res.faultIn_map (Res.faultIn_ofOpt _)

theorem decHello_noFault (o : Opts) (cap : Nat) (b : Bytes) (hc : o.maxStr ≤ cap) : (decHello o cap b).NoFault := by
  unfold decHello
  refine Res.faultIn_bind (decMsgHeader_noFault b) (fun _ b => ?_)
  refine Res.faultIn_bind (rd5_noFault b) (fun _ b => ?_)
  exact Res.faultIn_map (decStr_noFault o cap b hc)

theorem decAck_noFault (b : Bytes) : (decAck b).NoFault := by
  unfold decAck
  exact Res.faultIn_bind (decMsgHeader_noFault b) (fun _ b => Res.faultIn_map (rd5_noFault b))

theorem decErrorMsg_noFault (o : Opts) (cap : Nat) (b : Bytes) (hc : o.maxStr ≤ cap) :
    (decErrorMsg o cap b).NoFault := by
  unfold decErrorMsg
  refine Res.faultIn_bind (decMsgHeader_noFault b) (fun _ b => ?_)
  refine Res.faultIn_bind (Res.faultIn_ofOpt _) (fun _ b => ?_)
  exact Res.faultIn_map (decStr_noFault o cap b hc)

theorem decByObjectId_noFault (o : Opts) (cap fuel : Nat) (hc : CapOK o cap) (hf : 3 * o.maxDepth + 3 ≤ fuel)
    (table : List (Nat × Ty)) (id : Nat) (b : Bytes) : (decByObjectId o cap fuel table id b).NoFault := by
  unfold decByObjectId
  split
  · exact Res.faultIn_map (decS_noFault o cap fuel hc hf _ 0 b)
  · trivial


theorem rd32_lt' (b : Bytes) (n : Nat) (r : Bytes) (h : rd32 b = some (n, r)) : n < 4294967296 := by
  unfold rd32 at h
  split at h
  · simp at h; omega
  · cases h

/-- current `MessageHeader::read_bytes`: total, and with a configured `max_message_size` it never
asks for more than that -/
theorem readBytes_noFault (o : Opts) (cap : Nat) (b : Bytes)
    (h1 : o.maxMsg > 0 → o.maxMsg ≤ cap) (h2 : o.maxMsg = 0 → 4294967295 ≤ cap) :
    (readBytes true o cap b).NoFault := by
  unfold readBytes
  split
  · split
    · trivial
    · split
      · trivial
      · rename_i size r hrd
        have hs := rd32_lt' _ size r hrd
        split
        · trivial
        · rename_i hfix
          unfold guardAlloc
          split
          · exfalso
            by_cases hm : o.maxMsg = 0
            · have := h2 hm; omega
            · have := h1 (by omega)
              have : ¬ (size > o.maxMsg) := fun hh => hfix ⟨rfl, Or.inr ⟨by omega, hh⟩⟩
              omega
          · split
            · exfalso; exact hfix ⟨rfl, Or.inl (by assumption)⟩
            · split <;> trivial
  · trivial

end OpcuaVerif.Enc
