import OpcuaVerif.Model.C07

/-! Helper lemmas for C07: splitting, chunk construction, size arithmetic, the unsecured path. -/
namespace OpcuaVerif.C07
open OpcuaVerif.C09


theorem split_flatten (n : Nat) (hn : 0 < n) : ∀ (f : Nat) (d : Bytes), d.length ≤ f → (split n f d).flatten = d := by
  intro f
  induction f with
  | zero => intro d h; cases d <;> simp_all [split]
  | succ f ih =>
    intro d h
    cases d with
    | nil => simp [split]
    | cons x xs =>
      simp only [split, List.flatten_cons]
      rw [ih _ (by simp only [List.length_drop, List.length_cons] at *; omega)]
      exact List.take_append_drop _ _

theorem split_pieces (n : Nat) (hn : 0 < n) : ∀ (f : Nat) (d : Bytes), ∀ p ∈ split n f d, 0 < p.length ∧ p.length ≤ n := by
  intro f
  induction f with
  | zero => intro d p h; simp [split] at h
  | succ f ih =>
    intro d p h
    cases d with
    | nil => simp [split] at h
    | cons x xs =>
      simp only [split, List.mem_cons] at h
      rcases h with rfl | h
      · simp only [List.length_take, List.length_cons]; omega
      · exact ih _ p h

/-- number of chunks: ⌈len / n⌉ -/
theorem split_count (n : Nat) (hn : 0 < n) : ∀ (f : Nat) (d : Bytes), d.length ≤ f →
    (split n f d).length = (d.length + n - 1) / n := by
  intro f
  induction f with
  | zero =>
    intro d h
    have hd : d = [] := by cases d <;> simp_all
    subst hd
    have : (n - 1) / n = 0 := Nat.div_eq_of_lt (by omega)
    simp [split, this]
  | succ f ih =>
    intro d h
    cases d with
    | nil =>
      have : (n - 1) / n = 0 := Nat.div_eq_of_lt (by omega)
      simp [split, this]
    | cons x xs =>
      simp only [split, List.length_cons]
      rw [ih _ (by simp only [List.length_drop, List.length_cons] at *; omega)]
      simp only [List.length_drop, List.length_cons]
      by_cases hl : xs.length + 1 ≤ n
      · have : xs.length + 1 - n = 0 := by omega
        rw [this]
        have h1 : (0 + n - 1) / n = 0 := by
          apply Nat.div_eq_of_lt; omega
        have h2 : (xs.length + 1 + n - 1) / n = 1 := by
          apply Nat.div_eq_of_lt_le <;> omega
        omega
      · have : xs.length + 1 + n - 1 = (xs.length + 1 - n + n - 1) + n := by omega
        rw [this, Nat.add_div_right _ hn]

theorem mkChunks_length (s : Sender) (t : MType) (seq req : Nat) : ∀ (bs : List Bytes) (i : Nat),
    (mkChunks s t seq req i bs).length = bs.length := by
  intro bs
  induction bs with
  | nil => intro i; simp [mkChunks]
  | cons b bs ih =>
    intro i
    cases bs with
    | nil => simp [mkChunks]
    | cons c cs => simp only [mkChunks, List.length_cons]; rw [ih]; simp

/-- **chunk k carries sequence number seq+k, the one request id, body k, and the final flag exactly
when it is the last one** -/
theorem mkChunks_get (s : Sender) (t : MType) (seq req : Nat) : ∀ (bs : List Bytes) (i k : Nat) (b : Bytes),
    bs[k]? = some b →
    (mkChunks s t seq req i bs)[k]? =
      some (newChunk s t (if k + 1 = bs.length then .final else .intermediate) (seq + (i + k)) req b) := by
  intro bs
  induction bs with
  | nil => intro i k b h; simp at h
  | cons x xs ih =>
    intro i k b h
    cases xs with
    | nil =>
      cases k with
      | zero => simp at h; subst h; simp [mkChunks]
      | succ k => simp at h
    | cons c cs =>
      cases k with
      | zero => simp at h; subst h; simp [mkChunks]
      | succ k =>
        simp only [List.getElem?_cons_succ] at h
        simp only [mkChunks, List.getElem?_cons_succ]
        rw [ih (i + 1) k b h]
        simp only [List.length_cons]
        congr 2
        · have : (k + 1 = cs.length + 1) = (k + 1 + 1 = cs.length + 1 + 1) := by
            apply propext; constructor <;> intro h <;> omega
          simp only [this]
        · omega



/-- law of the sender's primitives used for sizes -/
structure SLaws (SC : SCrypto) : Prop where
  macLen : ∀ p d, (SC.mac p d).length = p.symSig
  aesLen : ∀ d, (SC.aesEnc d).length = d.length

theorem setSize_length (d : Bytes) (n : Nat) (h : 8 ≤ d.length) : (setSize d n).length = d.length := by
  simp [setSize, u32le, List.length_take, List.length_drop]; omega

/-- **Padding arithmetic (symmetric)**: sequence header + body + padding + signature is a whole
number of AES blocks, and the padding is 1..16 bytes. -/
theorem sym_block_aligned (s : Sender) (t : MType) (ht : t ≠ .opn) (hs : secured s) (body : Nat) :
    (8 + body + (paddingSize s t body).1 + sigSize s t) % 16 = 0 ∧
    1 ≤ (paddingSize s t body).1 ∧ (paddingSize s t body).1 ≤ 16 := by
  obtain ⟨hp, hm⟩ := hs
  have hm' : s.mode ≠ .none := by rcases hm with h | h <;> simp [h]
  have hk : minPadding s.policy.symSig = 1 := by
    unfold minPadding; cases s.policy <;> simp [Policy.symSig]
  cases t <;> simp_all [paddingSize, blockAndKey, sigSize] <;> (split <;> omega)

/-- **Padding arithmetic (asymmetric)**: what is RSA-encrypted is a whole number of plain-text blocks. -/
theorem asym_block_aligned (s : Sender) (hs : secured s) (body : Nat)
    (hk : s.policy.rsaOverhead < s.remoteKey) :
    (8 + body + (paddingSize s .opn body).1 + sigSize s .opn) % (s.remoteKey - s.policy.rsaOverhead) = 0 := by
  obtain ⟨hp, hm⟩ := hs
  have hm' : s.mode ≠ .none := by rcases hm with h | h <;> simp [h]
  simp only [paddingSize, hp, hm', ne_eq, not_false_eq_true, and_self, if_true, blockAndKey, sigSize, if_false]
  have hp0 : 0 < s.remoteKey - s.policy.rsaOverhead := by omega
  generalize s.remoteKey - s.policy.rsaOverhead = p at *
  generalize minPadding s.remoteKey = mp
  have key : ∀ a : Nat, (a + (if a % p ≠ 0 then p - a % p else 0)) % p = 0 := by
    intro a
    split
    · have h1 := Nat.mod_lt a hp0
      have h2 := Nat.div_add_mod a p
      have : a + (p - a % p) = p * (a / p + 1) := by
        rw [Nat.mul_add, Nat.mul_one]; omega
      rw [this]; exact Nat.mul_mod_right _ _
    · rename_i h; simpa using h
  have := key (8 + body + s.ownKey + mp)
  have e : 8 + body + (mp + if (8 + body + s.ownKey + mp) % p ≠ 0 then p - (8 + body + s.ownKey + mp) % p else 0) + s.ownKey
      = (8 + body + s.ownKey + mp) + (if (8 + body + s.ownKey + mp) % p ≠ 0 then p - (8 + body + s.ownKey + mp) % p else 0) := by omega
  rw [e]; exact this

/-- length of a secured symmetric chunk: plain chunk + padding + signature -/
theorem sym_secured_length (SC : SCrypto) (laws : SLaws SC) (s : Sender) (t : MType) (ht : t ≠ .opn)
    (hs : secured s) (chunk : Bytes) (hc : 24 ≤ chunk.length) :
    (applySecurity SC s t chunk).length =
      chunk.length + (paddingSize s t (chunk.length - 24)).1 + s.policy.symSig := by
  have hsh : (secHdr s t).length = 4 := by cases t <;> simp_all [secHdr, u32le]
  have hsig : sigSize s t = s.policy.symSig := by cases t <;> simp_all [sigSize]
  have hpl : ∀ ps mp, ps = 0 ∨ 1 ≤ ps → (padBytes ps mp).length = ps := by
    intro ps mp h
    unfold padBytes
    split
    · simp_all
    · split
      · simp
      · simp; omega
  have hpad := (sym_block_aligned s t ht hs (chunk.length - 24)).2.1
  simp only [applySecurity, hs, if_true]
  have hd : (addPadSig s t chunk).length = chunk.length + (paddingSize s t (chunk.length - 24)).1 + s.policy.symSig := by
    simp only [addPadSig, hsh, hsig]
    rw [setSize_length _ _ (by simp; omega)]
    simp only [List.length_append, List.length_replicate]
    rw [hpl _ _ (Or.inr hpad)]
  cases t with
  | opn => exact absurd rfl ht
  | msg =>
    (try simp only [])
    split
    · simp only [List.length_append, List.length_take, laws.aesLen, List.length_drop, laws.macLen]
      omega
    · simp only [List.length_append, List.length_take, laws.macLen]; omega
  | clo =>
    (try simp only [])
    split
    · simp only [List.length_append, List.length_take, laws.aesLen, List.length_drop, laws.macLen]
      omega
    · simp only [List.length_append, List.length_take, laws.macLen]; omega



theorem le32_u32le (n : Nat) (h : n < 4294967296) :
    le32 (n % 256) (n / 256 % 256) (n / 65536 % 256) (n / 16777216 % 256) = n := by
  unfold le32; omega

theorem newChunk_length (s : Sender) (t : MType) (f : Fin) (seq req : Nat) (body : Bytes) :
    (newChunk s t f seq req body).length = 12 + (secHdr s t).length + 8 + body.length := by
  cases t <;> simp [newChunk, MType.code, u32le] <;> omega

/-- an unsecured channel returns a MSG/CLO chunk made by `MessageChunk::new` unchanged -/
theorem recv_unsecured_id (F : Fixes) (C : Crypto) (ch : Chan) (hch : ¬ ch.secured) (s : Sender) (t : MType)
    (ht : t ≠ .opn) (f : Fin) (seq req : Nat) (body : Bytes) (hsz : 24 + body.length < 4294967296) :
    recvWith F C ch (newChunk s t f seq req body) = (ch, .ok (newChunk s t f seq req body)) := by
  have hl := newChunk_length s t f seq req body
  have hns : ¬(ch.policy ≠ Policy.none ∧ (ch.mode = Mode.sign ∨ ch.mode = Mode.signEncrypt)) := hch
  cases t with
  | opn => exact absurd rfl ht
  | msg =>
    have hsh : (secHdr s .msg).length = 4 := by simp [secHdr, u32le]
    cases f <;>
    · simp only [newChunk, MType.code, Fin.byte, secHdr, u32le, List.cons_append, List.nil_append,
        List.length_cons, List.length_nil] at hl ⊢
      simp only [recvWith, rdHeader, le32_u32le _ (by omega : 12 + (0 + 1 + 1 + 1 + 1) + 8 + body.length < 4294967296)]
      simp [recvSym, hns] <;> omega
  | clo =>
    have hsh : (secHdr s .clo).length = 4 := by simp [secHdr, u32le]
    cases f <;>
    · simp only [newChunk, MType.code, Fin.byte, secHdr, u32le, List.cons_append, List.nil_append,
        List.length_cons, List.length_nil] at hl ⊢
      simp only [recvWith, rdHeader, le32_u32le _ (by omega : 12 + (0 + 1 + 1 + 1 + 1) + 8 + body.length < 4294967296)]
      simp [recvSym, hns] <;> omega

/-- `ChunkInfo` finds the flag and exactly the body -/
theorem bodyOf_newChunk (ch : Chan) (s : Sender) (t : MType) (ht : t ≠ .opn) (f : Fin) (seq req : Nat)
    (body : Bytes) : bodyOf ch (newChunk s t f seq req body) = some (f.byte, body) := by
  cases t with
  | opn => exact absurd rfl ht
  | msg => cases f <;> simp [bodyOf, newChunk, MType.code, Fin.byte, secHdr, u32le, rdHeader]
  | clo => cases f <;> simp [bodyOf, newChunk, MType.code, Fin.byte, secHdr, u32le, rdHeader]

theorem reassemble_mkChunks (ch : Chan) (s : Sender) (t : MType) (ht : t ≠ .opn) (seq req : Nat) :
    ∀ (bs : List Bytes) (i : Nat), bs ≠ [] → reassemble ch (mkChunks s t seq req i bs) = some bs.flatten := by
  intro bs
  induction bs with
  | nil => intro i h; exact absurd rfl h
  | cons b bs ih =>
    intro i _
    cases bs with
    | nil => simp [mkChunks, reassemble, bodyOf_newChunk ch s t ht, Fin.byte]
    | cons c cs =>
      have := ih (i + 1) (by simp)
      simp only [mkChunks] at this ⊢
      cases hm : mkChunks s t seq req (i + 1) (c :: cs) with
      | nil =>
        have hlen := congrArg List.length hm
        cases cs <;> simp [mkChunks] at hlen
      | cons m ms =>
        rw [hm] at this
        simp only [reassemble, bodyOf_newChunk ch s t ht, Fin.byte, this]
        simp

end OpcuaVerif.C07
