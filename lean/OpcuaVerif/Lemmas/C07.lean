import OpcuaVerif.Model.C07
import OpcuaVerif.Proofs.C08

/-! Helper lemmas for C07: splitting, chunk construction, size arithmetic, the receive path on
chunks the sender made. -/
namespace OpcuaVerif.C07
open OpcuaVerif.C09


theorem split_flatten (n : Nat) (hn : 0 < n) : ∀ (f : Nat) (d : Bytes), d.length ≤ f → (split n f d).flatten = d := by
  intro f
  induction f with
  | zero => intro d h; cases d <;> simp_all [split]
  | succ f ih =>
    intro d h
    cases d with
    | nil => simp [split]
    | cons x xs =>
      simp only [split, List.flatten_cons]
      rw [ih _ (by simp only [List.length_drop, List.length_cons] at *; omega)]
      exact List.take_append_drop _ _

theorem split_pieces (n : Nat) (hn : 0 < n) : ∀ (f : Nat) (d : Bytes), ∀ p ∈ split n f d, 0 < p.length ∧ p.length ≤ n := by
  intro f
  induction f with
  | zero => intro d p h; simp [split] at h
  | succ f ih =>
    intro d p h
    cases d with
    | nil => simp [split] at h
    | cons x xs =>
      simp only [split, List.mem_cons] at h
      rcases h with rfl | h
      · simp only [List.length_take, List.length_cons]; omega
      · exact ih _ p h

/-- number of chunks: ⌈len / n⌉ -/
theorem split_count (n : Nat) (hn : 0 < n) : ∀ (f : Nat) (d : Bytes), d.length ≤ f →
    (split n f d).length = (d.length + n - 1) / n := by
  intro f
  induction f with
  | zero =>
    intro d h
    have hd : d = [] := by cases d <;> simp_all
    subst hd
    have : (n - 1) / n = 0 := Nat.div_eq_of_lt (by omega)
    simp [split, this]
  | succ f ih =>
    intro d h
    cases d with
    | nil =>
      have : (n - 1) / n = 0 := Nat.div_eq_of_lt (by omega)
      simp [split, this]
    | cons x xs =>
      simp only [split, List.length_cons]
      rw [ih _ (by simp only [List.length_drop, List.length_cons] at *; omega)]
      simp only [List.length_drop, List.length_cons]
      by_cases hl : xs.length + 1 ≤ n
      · have : xs.length + 1 - n = 0 := by omega
        rw [this]
        have h1 : (0 + n - 1) / n = 0 := by
          apply Nat.div_eq_of_lt; omega
        have h2 : (xs.length + 1 + n - 1) / n = 1 := by
          apply Nat.div_eq_of_lt_le <;> omega
        omega
      · have : xs.length + 1 + n - 1 = (xs.length + 1 - n + n - 1) + n := by omega
        rw [this, Nat.add_div_right _ hn]

theorem mkChunks_length (s : Sender) (t : MType) (seq req : Nat) : ∀ (bs : List Bytes) (i : Nat),
    (mkChunks s t seq req i bs).length = bs.length := by
  intro bs
  induction bs with
  | nil => intro i; simp [mkChunks]
  | cons b bs ih =>
    intro i
    cases bs with
    | nil => simp [mkChunks]
    | cons c cs => simp only [mkChunks, List.length_cons]; rw [ih]; simp

/-- **chunk k carries sequence number seq+k, the one request id, body k, and the final flag exactly
when it is the last one** -/
theorem mkChunks_get (s : Sender) (t : MType) (seq req : Nat) : ∀ (bs : List Bytes) (i k : Nat) (b : Bytes),
    bs[k]? = some b →
    (mkChunks s t seq req i bs)[k]? =
      some (newChunk s t (if k + 1 = bs.length then .final else .intermediate) (seq + (i + k)) req b) := by
  intro bs
  induction bs with
  | nil => intro i k b h; simp at h
  | cons x xs ih =>
    intro i k b h
    cases xs with
    | nil =>
      cases k with
      | zero => simp at h; subst h; simp [mkChunks]
      | succ k => simp at h
    | cons c cs =>
      cases k with
      | zero => simp at h; subst h; simp [mkChunks]
      | succ k =>
        simp only [List.getElem?_cons_succ] at h
        simp only [mkChunks, List.getElem?_cons_succ]
        rw [ih (i + 1) k b h]
        simp only [List.length_cons]
        congr 2
        · have : (k + 1 = cs.length + 1) = (k + 1 + 1 = cs.length + 1 + 1) := by
            apply propext; constructor <;> intro h <;> omega
          simp only [this]
        · omega


/-- laws of the sender's primitives used for sizes -/
structure SLaws (SC : SCrypto) : Prop where
  macLen : ∀ p d, (SC.mac p d).length = p.symSig
  aesLen : ∀ d, (SC.aesEnc d).length = d.length

theorem setSize_length (d : Bytes) (n : Nat) (h : 8 ≤ d.length) : (setSize d n).length = d.length := by
  simp [setSize, u32le, List.length_take, List.length_drop]; omega

theorem symSig_le (p : Policy) : p.symSig ≤ 32 := by cases p <;> simp [Policy.symSig]

/-- MSG/CLO chunks are not padded unless they are encrypted -/
theorem paddingSize_noenc (s : Sender) (t : MType) (ht : t ≠ .opn) (hm : s.mode ≠ .signEncrypt)
    (body : Nat) : paddingSize s t body = (0, 0) := by
  unfold paddingSize paddingSizeW
  split
  · simp [SFixes.current, ht, hm]
  · rfl

/-- **Padding arithmetic (symmetric, encrypted)**: sequence header + body + padding + signature is a
whole number of AES blocks; the padding is 1..16 bytes with a one-byte length. -/
theorem se_block_aligned (s : Sender) (t : MType) (ht : t ≠ .opn) (hp : s.policy ≠ .none)
    (hm : s.mode = .signEncrypt) (body : Nat) :
    (8 + body + (paddingSize s t body).1 + sigSize s t) % 16 = 0 ∧
    1 ≤ (paddingSize s t body).1 ∧ (paddingSize s t body).1 ≤ 16 ∧ (paddingSize s t body).2 = 1 := by
  have hk : minPadding s.policy.symSig = 1 := by
    unfold minPadding; cases s.policy <;> simp [Policy.symSig]
  cases t <;> simp_all [paddingSize, paddingSizeW, blockAndKey, sigSize, SFixes.current] <;> (split <;> omega)

/-- **Padding arithmetic (asymmetric)**: what is RSA-encrypted is a whole number of plain-text blocks. -/
theorem asym_block_aligned (s : Sender) (hs : secured s) (body : Nat)
    (hk : s.policy.rsaOverhead < s.remoteKey) :
    (8 + body + (paddingSize s .opn body).1 + sigSize s .opn) % (s.remoteKey - s.policy.rsaOverhead) = 0 := by
  obtain ⟨hp, hm⟩ := hs
  have hm' : s.mode ≠ .none := by rcases hm with h | h <;> simp [h]
  simp only [paddingSize, paddingSizeW, hp, hm', ne_eq, not_false_eq_true, and_self, if_true, blockAndKey,
    sigSize, if_false, not_true_eq_false, false_and, and_false]
  have hp0 : 0 < s.remoteKey - s.policy.rsaOverhead := by omega
  generalize s.remoteKey - s.policy.rsaOverhead = p at *
  generalize minPadding s.remoteKey = mp
  have key : ∀ a : Nat, (a + (if a % p ≠ 0 then p - a % p else 0)) % p = 0 := by
    intro a
    split
    · have h1 := Nat.mod_lt a hp0
      have h2 := Nat.div_add_mod a p
      have : a + (p - a % p) = p * (a / p + 1) := by
        rw [Nat.mul_add, Nat.mul_one]; omega
      rw [this]; exact Nat.mul_mod_right _ _
    · rename_i h; simpa using h
  have := key (8 + body + s.ownKey + mp)
  have e : 8 + body + (mp + if (8 + body + s.ownKey + mp) % p ≠ 0 then p - (8 + body + s.ownKey + mp) % p else 0) + s.ownKey
      = (8 + body + s.ownKey + mp) + (if (8 + body + s.ownKey + mp) % p ≠ 0 then p - (8 + body + s.ownKey + mp) % p else 0) := by omega
  rw [e]; exact this

/-- the padding of an encrypted MSG/CLO chunk, explicitly -/
theorem paddingSize_se (s : Sender) (t : MType) (ht : t ≠ .opn) (hp : s.policy ≠ .none)
    (hm : s.mode = .signEncrypt) (body : Nat) :
    (paddingSize s t body).1 = 1 + (if (8 + body + s.policy.symSig + 1) % 16 ≠ 0
      then 16 - (8 + body + s.policy.symSig + 1) % 16 else 0) := by
  have hk : minPadding s.policy.symSig = 1 := by
    unfold minPadding; cases s.policy <;> simp [Policy.symSig]
  cases t <;> simp_all [paddingSize, paddingSizeW, blockAndKey, sigSize, SFixes.current]

theorem padBytes_length (ps mp : Nat) : (padBytes ps mp).length = ps := by
  unfold padBytes
  split
  · simp_all
  · split
    · simp
    · simp; omega

theorem secHdr_sym_length (s : Sender) (t : MType) (ht : t ≠ .opn) : (secHdr s t).length = 4 := by
  cases t <;> simp_all [secHdr, u32le]

theorem sigSize_sym (s : Sender) (t : MType) (ht : t ≠ .opn) : sigSize s t = s.policy.symSig := by
  cases t <;> simp_all [sigSize]

/-- length of a secured MSG/CLO chunk: plain chunk + padding + signature -/
theorem sym_secured_length (SC : SCrypto) (laws : SLaws SC) (s : Sender) (t : MType) (ht : t ≠ .opn)
    (hs : secured s) (chunk : Bytes) (hc : 24 ≤ chunk.length) :
    (applySecurity SC s t chunk).length =
      chunk.length + (paddingSize s t (chunk.length - 24)).1 + s.policy.symSig := by
  have hsh := secHdr_sym_length s t ht
  have hsig := sigSize_sym s t ht
  have hd : (addPadSigW SFixes.current s t chunk).length =
      chunk.length + (paddingSize s t (chunk.length - 24)).1 + s.policy.symSig := by
    simp only [addPadSigW, hsh, hsig, paddingSize]
    rw [setSize_length _ _ (by simp; omega)]
    simp only [List.length_append, List.length_replicate, padBytes_length]
  simp only [applySecurity, applySecurityW, hs, if_true]
  cases t with
  | opn => exact absurd rfl ht
  | msg =>
    (try simp only [])
    split
    · simp only [List.length_append, List.length_take, laws.aesLen, List.length_drop, laws.macLen]
      omega
    · simp only [List.length_append, List.length_take, laws.macLen]; omega
  | clo =>
    (try simp only [])
    split
    · simp only [List.length_append, List.length_take, laws.aesLen, List.length_drop, laws.macLen]
      omega
    · simp only [List.length_append, List.length_take, laws.macLen]; omega

/-! ### the body budget -/

theorem shrink_le (fits : Nat → Bool) : ∀ b, shrink fits b ≤ b := by
  intro b
  induction b with
  | zero => simp [shrink]
  | succ b ih => unfold shrink; split <;> omega

theorem shrink_fits (fits : Nat → Bool) : ∀ b, shrink fits b ≠ 0 → fits (shrink fits b) = true := by
  intro b
  induction b with
  | zero => simp [shrink]
  | succ b ih =>
    unfold shrink
    split
    · rename_i h; intro _; exact h
    · exact ih

/-- headers + body + padding + signature grows with the body (MSG/CLO) -/
theorem paddedSize_mono (s : Sender) (t : MType) (ht : t ≠ .opn) (hs : secured s) (b b' : Nat)
    (h : b ≤ b') : paddedSizeW SFixes.current s t b ≤ paddedSizeW SFixes.current s t b' := by
  obtain ⟨hp, hm⟩ := hs
  have hsig := sigSize_sym s t ht
  unfold paddedSizeW
  rcases hm with hm | hm
  · have h1 := paddingSize_noenc s t ht (by simp [hm]) b
    have h2 := paddingSize_noenc s t ht (by simp [hm]) b'
    unfold paddingSize at h1 h2
    rw [h1, h2]; simp; omega
  · have e1 := paddingSize_se s t ht hp hm b
    have e2 := paddingSize_se s t ht hp hm b'
    unfold paddingSize at e1 e2
    rw [e1, e2, hsig]
    have hx : ∀ x y : Nat, x ≤ y →
        x + (if x % 16 ≠ 0 then 16 - x % 16 else 0) ≤ y + (if y % 16 ≠ 0 then 16 - y % 16 else 0) := by
      intro x y hxy; split <;> split <;> omega
    have := hx (8 + b + s.policy.symSig + 1) (8 + b' + s.policy.symSig + 1) (by omega)
    omega


theorem le32_u32le (n : Nat) (h : n < 4294967296) :
    le32 (n % 256) (n / 256 % 256) (n / 65536 % 256) (n / 16777216 % 256) = n := by
  unfold le32; omega

/-- the first 16 bytes of a MSG/CLO chunk: message header and symmetric security header -/
def hdr16 (s : Sender) (t : MType) (f : Fin) (n : Nat) : Bytes :=
  t.code ++ [f.byte] ++ u32le n ++ u32le s.chanId ++ u32le s.tokenId

theorem hdr16_length (s : Sender) (t : MType) (f : Fin) (n : Nat) : (hdr16 s t f n).length = 16 := by
  cases t <;> simp [hdr16, MType.code, u32le]

theorem chunkWith_eq (s : Sender) (t : MType) (ht : t ≠ .opn) (f : Fin) (n seq req : Nat) (body : Bytes) :
    chunkWith s t f n seq req body = hdr16 s t f n ++ (u32le seq ++ u32le req ++ body) := by
  cases t <;> simp_all [chunkWith, hdr16, secHdr]

theorem setSize_hdr16 (s : Sender) (t : MType) (f : Fin) (a b : Nat) (x : Bytes) :
    setSize (hdr16 s t f a ++ x) b = hdr16 s t f b ++ x := by
  cases t <;> simp [setSize, hdr16, MType.code, u32le]

theorem newChunk_length (s : Sender) (t : MType) (f : Fin) (seq req : Nat) (body : Bytes) :
    (newChunk s t f seq req body).length = 12 + (secHdr s t).length + 8 + body.length := by
  cases t <;> simp [newChunk, chunkWith, MType.code, u32le] <;> omega

/-- the receive path on anything that starts with a well-formed MSG/CLO header whose size field is right -/
theorem recvWith_hdr16 (F : Fixes) (C : Crypto) (ch : Chan) (s : Sender) (t : MType) (ht : t ≠ .opn)
    (f : Fin) (n : Nat) (x : Bytes) (hn : n < 4294967296) (hl : 16 + x.length = n) :
    recvWith F C ch (hdr16 s t f n ++ x) = (ch, recvSym F C ch (hdr16 s t f n ++ x) 16) := by
  cases t with
  | opn => exact absurd rfl ht
  | msg =>
    cases f <;>
    · simp only [hdr16, MType.code, Fin.byte, u32le, List.cons_append, List.nil_append]
      simp only [recvWith, rdHeader, le32_u32le _ hn]
      simp; omega
  | clo =>
    cases f <;>
    · simp only [hdr16, MType.code, Fin.byte, u32le, List.cons_append, List.nil_append]
      simp only [recvWith, rdHeader, le32_u32le _ hn]
      simp; omega

/-- `verify_padding` on a well-formed one-byte-length padding returns where the padding starts -/
theorem verifyPadding_good (F : Fixes) (a m : Bytes) (ps keySize : Nat) (hk : keySize ≤ 256)
    (h1 : 1 ≤ ps) (h2 : ps ≤ 256) :
    verifyPadding F (a ++ List.replicate ps (ps - 1) ++ m) keySize (a.length + ps) = .inr a.length := by
  unfold verifyPadding
  rw [if_neg (by omega)]
  have hd : (List.drop (a.length + ps - 1) (a ++ List.replicate ps (ps - 1) ++ m)).headD 0 = ps - 1 := by
    have : a.length + ps - 1 = a.length + (ps - 1) := by omega
    rw [this, List.append_assoc, List.drop_append]
    simp only [Nat.add_sub_cancel_left]
    have : List.drop (a.length + (ps - 1)) a = [] := List.drop_of_length_le (by omega)
    rw [this, List.nil_append, List.drop_append]
    simp only [List.drop_replicate, List.length_replicate]
    have : ps - (ps - 1) = 1 := by omega
    rw [this]; simp
  simp only [hd]
  have hlen : ¬ (a.length + ps < 1 ∨ a.length + ps > (a ++ List.replicate ps (ps - 1) ++ m).length) := by
    simp; omega
  have hlen2 : ¬ (ps - 1 + 1 > a.length + ps) := by omega
  simp only [hlen, hlen2, and_false, if_false]
  have e : a.length + ps - (ps - 1) - 1 = a.length := by omega
  have e2 : ps - 1 + 1 = ps := by omega
  rw [e, e2]
  have : List.take ps (List.drop a.length (a ++ List.replicate ps (ps - 1) ++ m)) = List.replicate ps (ps - 1) := by
    rw [List.append_assoc, List.drop_left', List.take_left'] <;> simp
  rw [this]
  simp

/-- laws tying the sender's primitives to the receiver's -/
structure RTLaws (SC : SCrypto) (C : Crypto) : Prop extends SLaws SC where
  macOk : ∀ p d, C.hmacOk p d (SC.mac p d) = true
  aesInv : ∀ d, C.aesDec (SC.aesEnc d) = some d

/-- what `apply_security` puts on the wire for a MSG/CLO chunk, in normal form -/
theorem applySecurity_sym (SC : SCrypto) (s : Sender) (t : MType) (ht : t ≠ .opn) (hs : secured s)
    (f : Fin) (seq req : Nat) (body : Bytes) :
    let ps := (paddingSize s t body.length).1
    let mp := (paddingSize s t body.length).2
    let n := 24 + body.length + ps + s.policy.symSig
    let signed := hdr16 s t f n ++ (u32le seq ++ u32le req ++ body ++ padBytes ps mp)
    applySecurity SC s t (newChunk s t f seq req body) =
      if s.mode = .signEncrypt then hdr16 s t f n ++ SC.aesEnc ((signed ++ SC.mac s.policy signed).drop 16)
      else signed ++ SC.mac s.policy signed := by
  intro ps mp n signed
  have hsh := secHdr_sym_length s t ht
  have hsig := sigSize_sym s t ht
  have hL : (newChunk s t f seq req body).length = 24 + body.length := by
    rw [newChunk_length, hsh]
  have hd : addPadSigW SFixes.current s t (newChunk s t f seq req body) =
      signed ++ List.replicate s.policy.symSig 0 := by
    simp only [addPadSigW, hsh, hsig, hL]
    have e : 24 + body.length - (12 + 4 + 8) = body.length := by omega
    rw [e]
    show setSize _ _ = _
    simp only [newChunk, chunkWith_eq s t ht, List.append_assoc]
    rw [setSize_hdr16]
    simp only [List.length_append, hdr16_length, List.length_replicate, padBytes_length, u32le,
      List.length_cons, List.length_nil]
    have : 16 + (0 + 1 + 1 + 1 + 1 + (0 + 1 + 1 + 1 + 1 + (body.length + ((paddingSizeW SFixes.current s t body.length).1 + s.policy.symSig)))) = n := by
      show _ = 24 + body.length + (paddingSize s t body.length).1 + s.policy.symSig
      unfold paddingSize; omega
    rw [this]
    simp [signed, ps, mp, paddingSize, u32le]
  have hsl : signed.length = n - s.policy.symSig := by
    simp [signed, hdr16_length, padBytes_length, u32le, n]; omega
  simp only [applySecurity, applySecurityW, hs, if_true, hd]
  have htake : (signed ++ List.replicate s.policy.symSig 0).take
      ((signed ++ List.replicate s.policy.symSig 0).length - s.policy.symSig) = signed := by
    rw [List.length_append, List.length_replicate, Nat.add_sub_cancel]
    exact List.take_left' rfl
  cases t with
  | opn => exact absurd rfl ht
  | msg =>
    simp only [htake]
    split
    · congr 1
    · rfl
  | clo =>
    simp only [htake]
    split
    · congr 1
    · rfl

/-- **One secured chunk survives**: what the sender secures, the matching receiver verifies,
decrypts, strips (signature and padding) and hands on as exactly the chunk the sender started from. -/
theorem recv_secured_id (SC : SCrypto) (C : Crypto) (laws : RTLaws SC C) (claws : CryptoLaws C)
    (s : Sender) (hs : secured s) (t : MType) (ht : t ≠ .opn) (ch : Chan) (hcp : ch.policy = s.policy)
    (hcm : ch.mode = s.mode) (hck : ch.keys = true) (f : Fin) (seq req : Nat) (body : Bytes)
    (hn : 24 + body.length + 16 + 32 < 4294967296) :
    recv C ch (applySecurity SC s t (newChunk s t f seq req body)) =
      (ch, .ok (newChunk s t f seq req body)) := by
  have hsec : ch.secured := by unfold Chan.secured; rw [hcp, hcm]; exact hs
  have hsig32 := symSig_le s.policy
  have hnew : newChunk s t f seq req body = hdr16 s t f (24 + body.length) ++ (u32le seq ++ u32le req ++ body) := by
    unfold newChunk; rw [secHdr_sym_length s t ht, chunkWith_eq s t ht]
  rw [applySecurity_sym SC s t ht hs f seq req body]
  by_cases hm : s.mode = .signEncrypt
  · -- SignAndEncrypt
    obtain ⟨hal, hp1, hp16, hmp⟩ := se_block_aligned s t ht hs.1 hm body.length
    rw [sigSize_sym s t ht] at hal
    simp only [hm, if_true, hmp]
    generalize hps : (paddingSize s t body.length).1 = ps at *
    have hpad : padBytes ps 1 = List.replicate ps (ps - 1) := by
      unfold padBytes
      rw [if_neg (by omega), if_pos rfl, Nat.mod_eq_of_lt (by omega)]
    rw [hpad]
    generalize hN : 24 + body.length + ps + s.policy.symSig = n
    let a := hdr16 s t f n ++ (u32le seq ++ u32le req ++ body)
    have hsigned : hdr16 s t f n ++ (u32le seq ++ u32le req ++ body ++ List.replicate ps (ps - 1))
        = a ++ List.replicate ps (ps - 1) := by simp [a]
    rw [hsigned]
    generalize hmac : SC.mac s.policy (a ++ List.replicate ps (ps - 1)) = mac
    have hmacl : mac.length = s.policy.symSig := by rw [← hmac]; exact laws.macLen _ _
    have hal16 : a.length = 24 + body.length := by simp [a, hdr16_length, u32le]; omega
    let full := a ++ List.replicate ps (ps - 1) ++ mac
    have hfl : full.length = n := by simp [full, hal16, hmacl]; omega
    have hdrop : full.drop 16 = (u32le seq ++ u32le req ++ body) ++ List.replicate ps (ps - 1) ++ mac := by
      simp only [full, a, List.append_assoc]
      rw [List.drop_left' (hdr16_length s t f n)]
    have htake : full.take 16 = hdr16 s t f n := by
      simp only [full, a, List.append_assoc]
      rw [List.take_left' (hdr16_length s t f n)]
    show recv C ch (hdr16 s t f n ++ SC.aesEnc (full.drop 16)) = _
    have hwl : 16 + (SC.aesEnc (full.drop 16)).length = n := by
      rw [laws.aesLen, List.length_drop, hfl]; omega
    unfold recv
    rw [recvWith_hdr16 _ C ch s t ht f n _ (by omega) hwl]
    congr 1
    have hsrc16 : (hdr16 s t f n ++ SC.aesEnc (full.drop 16)).drop 16 = SC.aesEnc (full.drop 16) :=
      List.drop_left' (hdr16_length s t f n)
    have himg : C08.image (hdr16 s t f n ++ SC.aesEnc (full.drop 16)) (full.drop 16) = full := by
      unfold C08.image
      rw [List.take_left' (hdr16_length s t f n), ← htake, List.take_append_drop]
    have hsl : (hdr16 s t f n ++ SC.aesEnc (full.drop 16)).length = n := by
      rw [List.length_append, hdr16_length]; exact hwl
    rw [(C08.se_accept_iff C claws ch _ _ hsec (by rw [hcm, hm])).mpr]
    refine ⟨by rw [hsl, hcp]; omega, hck, ?_, full.drop 16, ?_, ?_, 24 + body.length, ?_, ?_⟩
    · rw [hsl]
      have : n - 16 = 8 + body.length + ps + s.policy.symSig := by omega
      rw [this]; exact hal
    · rw [hsrc16]; exact laws.aesInv _
    · rw [himg, hsl, hcp]
      have e : n - s.policy.symSig = (a ++ List.replicate ps (ps - 1)).length := by
        simp [hal16]; omega
      rw [e]
      simp only [full]
      rw [List.take_left' rfl, List.drop_left' rfl, ← hmac]
      exact laws.macOk _ _
    · rw [himg, hsl, hcp]
      have e : n - s.policy.symSig = a.length + ps := by omega
      rw [e]
      rw [← hal16]
      exact verifyPadding_good _ a mac ps s.policy.symSig (by omega) hp1 (by omega)
    · rw [himg, hnew]
      unfold setSizeTrunc
      simp only [full, a, List.append_assoc]
      rw [setSize_hdr16]
      have e : hdr16 s t f (24 + body.length) ++ (u32le seq ++ (u32le req ++ (body ++ (List.replicate ps (ps - 1) ++ mac))))
          = (hdr16 s t f (24 + body.length) ++ (u32le seq ++ u32le req ++ body)) ++ (List.replicate ps (ps - 1) ++ mac) := by
        simp only [List.append_assoc]
      rw [e]
      exact (List.take_left' (by simp [hdr16_length, u32le]; omega)).symm
  · -- Sign
    have hmode : s.mode = .sign := by rcases hs.2 with h | h; exact h; exact absurd h hm
    have hpz := paddingSize_noenc s t ht hm body.length
    simp only [hm, if_false, hpz, padBytes, if_true, List.append_nil, Nat.add_zero]
    generalize hN : 24 + body.length + s.policy.symSig = n
    let a := hdr16 s t f n ++ (u32le seq ++ u32le req ++ body)
    show recv C ch (a ++ SC.mac s.policy a) = _
    generalize hmac : SC.mac s.policy a = mac
    have hmacl : mac.length = s.policy.symSig := by rw [← hmac]; exact laws.macLen _ _
    have hal16 : a.length = 24 + body.length := by simp [a, hdr16_length, u32le]; omega
    have hwire : a ++ mac = hdr16 s t f n ++ ((u32le seq ++ u32le req ++ body) ++ mac) := by
      show (hdr16 s t f n ++ _) ++ mac = _
      rw [List.append_assoc]
    have hwl : (a ++ mac).length = n := by simp [hal16, hmacl]; omega
    unfold recv
    rw [hwire, recvWith_hdr16 _ C ch s t ht f n _ (by omega) (by
      have := hwl; rw [hwire, List.length_append, hdr16_length] at this; exact this)]
    congr 1
    rw [← hwire]
    rw [(C08.sign_accept_iff C ch _ _ hsec (by rw [hcm, hmode])).mpr]
    refine ⟨by rw [hwl, hcp]; omega, hck, ?_, ?_⟩
    · rw [hwl, hcp]
      have e : n - s.policy.symSig = a.length := by omega
      rw [e, List.take_left' rfl, List.drop_left' rfl, ← hmac]
      exact laws.macOk _ _
    · rw [hwl, hcp, hnew]
      have e : n - s.policy.symSig = 24 + body.length := by omega
      rw [e]
      unfold setSizeTrunc
      rw [hwire, setSize_hdr16]
      have e2 : hdr16 s t f (24 + body.length) ++ ((u32le seq ++ u32le req ++ body) ++ mac)
          = (hdr16 s t f (24 + body.length) ++ (u32le seq ++ u32le req ++ body)) ++ mac := by
        simp only [List.append_assoc]
      rw [e2]
      refine (List.take_left' ?_).symm
      rw [List.length_append, hdr16_length]
      simp only [u32le, List.length_append, List.length_cons, List.length_nil]
      omega


/-- an unsecured channel returns a MSG/CLO chunk made by `MessageChunk::new` unchanged -/
theorem recv_unsecured_id (F : Fixes) (C : Crypto) (ch : Chan) (hch : ¬ ch.secured) (s : Sender) (t : MType)
    (ht : t ≠ .opn) (f : Fin) (seq req : Nat) (body : Bytes) (hsz : 24 + body.length < 4294967296) :
    recvWith F C ch (newChunk s t f seq req body) = (ch, .ok (newChunk s t f seq req body)) := by
  have hl := newChunk_length s t f seq req body
  have hns : ¬(ch.policy ≠ Policy.none ∧ (ch.mode = Mode.sign ∨ ch.mode = Mode.signEncrypt)) := hch
  cases t with
  | opn => exact absurd rfl ht
  | msg =>
    have hsh : (secHdr s .msg).length = 4 := by simp [secHdr, u32le]
    cases f <;>
    · simp only [newChunk, chunkWith, MType.code, Fin.byte, secHdr, u32le, List.cons_append, List.nil_append,
        List.length_cons, List.length_nil] at hl ⊢
      simp only [recvWith, rdHeader, le32_u32le _ (by omega : 12 + (0 + 1 + 1 + 1 + 1) + 8 + body.length < 4294967296)]
      simp [recvSym, hns] <;> omega
  | clo =>
    have hsh : (secHdr s .clo).length = 4 := by simp [secHdr, u32le]
    cases f <;>
    · simp only [newChunk, chunkWith, MType.code, Fin.byte, secHdr, u32le, List.cons_append, List.nil_append,
        List.length_cons, List.length_nil] at hl ⊢
      simp only [recvWith, rdHeader, le32_u32le _ (by omega : 12 + (0 + 1 + 1 + 1 + 1) + 8 + body.length < 4294967296)]
      simp [recvSym, hns] <;> omega

/-- `ChunkInfo` finds the flag and exactly the body -/
theorem bodyOf_newChunk (ch : Chan) (s : Sender) (t : MType) (ht : t ≠ .opn) (f : Fin) (seq req : Nat)
    (body : Bytes) : bodyOf ch (newChunk s t f seq req body) = some (f.byte, body) := by
  cases t with
  | opn => exact absurd rfl ht
  | msg => cases f <;> simp [bodyOf, newChunk, chunkWith, MType.code, Fin.byte, secHdr, u32le, rdHeader]
  | clo => cases f <;> simp [bodyOf, newChunk, chunkWith, MType.code, Fin.byte, secHdr, u32le, rdHeader]

theorem reassemble_mkChunks (ch : Chan) (s : Sender) (t : MType) (ht : t ≠ .opn) (seq req : Nat) :
    ∀ (bs : List Bytes) (i : Nat), bs ≠ [] → reassemble ch (mkChunks s t seq req i bs) = some bs.flatten := by
  intro bs
  induction bs with
  | nil => intro i h; exact absurd rfl h
  | cons b bs ih =>
    intro i _
    cases bs with
    | nil => simp [mkChunks, reassemble, bodyOf_newChunk ch s t ht, Fin.byte]
    | cons c cs =>
      have := ih (i + 1) (by simp)
      simp only [mkChunks] at this ⊢
      cases hm : mkChunks s t seq req (i + 1) (c :: cs) with
      | nil =>
        have hlen := congrArg List.length hm
        cases cs <;> simp [mkChunks] at hlen
      | cons m ms =>
        rw [hm] at this
        simp only [reassemble, bodyOf_newChunk ch s t ht, Fin.byte, this]
        simp


end OpcuaVerif.C07
