import OpcuaVerif.Model.Text
/-! Lemmas about the shared text model (decimal numbers, UTF-8 of ASCII, hex, base64). -/
namespace OpcuaVerif.Text

/-! ### digits -/

theorem digitChar_fin : ∀ d : Fin 10, digitVal (digitChar d) = d ∧ isDigit (digitChar d) = true ∧
    (digitChar d).toNat = 48 + d := by decide

theorem digitVal_digitChar {d : Nat} (h : d < 10) : digitVal (digitChar d) = d :=
  (digitChar_fin ⟨d, h⟩).1

theorem isDigit_digitChar {d : Nat} (h : d < 10) : isDigit (digitChar d) = true :=
  (digitChar_fin ⟨d, h⟩).2.1

theorem toNat_digitChar {d : Nat} (h : d < 10) : (digitChar d).toNat = 48 + d :=
  (digitChar_fin ⟨d, h⟩).2.2

theorem digitsVal_append_single (xs : List Char) (c : Char) :
    digitsVal (xs ++ [c]) = 10 * digitsVal xs + digitVal c := by
  simp [digitsVal, List.foldl_append]

theorem toDecFuel_irrel : ∀ f g n, n ≤ f → n ≤ g → toDecFuel f n = toDecFuel g n := by
  intro f
  induction f with
  | zero =>
    intro g n hf _
    have : n = 0 := by omega
    subst this
    cases g <;> simp [toDecFuel]
  | succ f ih =>
    intro g n hf hg
    cases g with
    | zero =>
      have : n = 0 := by omega
      subst this
      simp [toDecFuel]
    | succ g =>
      simp only [toDecFuel]
      by_cases h : n < 10
      · simp [h]
      · simp only [h, if_false]
        rw [ih g (n / 10) (by omega) (by omega)]

theorem toDec_lt {n : Nat} (h : n < 10) : toDec n = [digitChar n] := by
  unfold toDec
  cases n with
  | zero => simp [toDecFuel]
  | succ k => simp [toDecFuel, h]

theorem toDec_ge {n : Nat} (h : ¬ n < 10) : toDec n = toDec (n / 10) ++ [digitChar (n % 10)] := by
  unfold toDec
  cases n with
  | zero => omega
  | succ k =>
    simp only [toDecFuel, h, if_false]
    rw [toDecFuel_irrel k ((k + 1) / 10) ((k + 1) / 10) (by omega) (by omega)]

theorem digitsVal_toDec (n : Nat) : digitsVal (toDec n) = n := by
  induction n using Nat.strongRecOn with
  | _ n ih =>
    by_cases h : n < 10
    · rw [toDec_lt h]; simp [digitsVal, digitVal_digitChar h]
    · rw [toDec_ge h, digitsVal_append_single, ih (n / 10) (by omega), digitVal_digitChar (by omega)]
      omega

theorem toDec_all_digits (n : Nat) : (toDec n).all isDigit = true := by
  induction n using Nat.strongRecOn with
  | _ n ih =>
    by_cases h : n < 10
    · rw [toDec_lt h]; simp [isDigit_digitChar h]
    · rw [toDec_ge h]; simp [List.all_append, ih (n / 10) (by omega), isDigit_digitChar (show n % 10 < 10 by omega)]

theorem toDec_ne_nil (n : Nat) : toDec n ≠ [] := by
  by_cases h : n < 10
  · rw [toDec_lt h]; simp
  · rw [toDec_ge h]; simp

theorem isDigit_iff (c : Char) : isDigit c = true ↔ 48 ≤ c.toNat ∧ c.toNat ≤ 57 := by
  simp [isDigit]

theorem isDigit_ne {c d : Char} (h : isDigit c = true) (hd : isDigit d = false) : c ≠ d := by
  intro e; subst e; simp [h] at hd

/-- a digit string does not start with `+` -/
theorem parseUnsigned_digits (max : Nat) (ds : List Char) (hne : ds ≠ []) (hall : ds.all isDigit = true) :
    parseUnsigned max ds = if digitsVal ds ≤ max then some (digitsVal ds) else none := by
  unfold parseUnsigned
  cases ds with
  | nil => exact absurd rfl hne
  | cons c r =>
    have hc : isDigit c = true := by simp at hall; exact hall.1
    have hplus : c ≠ '+' := isDigit_ne hc (by decide)
    have : stripPlus (c :: r) = c :: r := by
      unfold stripPlus
      split
      · rename_i heq; simp at heq; exact absurd heq.1 hplus
      · rfl
    simp only [this]
    simp [hall]

theorem parseUnsigned_toDec {max n : Nat} (h : n ≤ max) : parseUnsigned max (toDec n) = some n := by
  rw [parseUnsigned_digits max _ (toDec_ne_nil n) (toDec_all_digits n), digitsVal_toDec]
  simp [h]

/-! ### UTF-8 of ASCII text, hex -/

theorem utf8Enc_ascii {c : Char} (h : c.toNat < 128) : utf8Enc c = [c.toNat] := by
  simp [utf8Enc, h]

theorem utf8_ascii (cs : List Char) (h : ∀ c ∈ cs, c.toNat < 128) : utf8 cs = cs.map Char.toNat := by
  induction cs with
  | nil => rfl
  | cons c cs ih =>
    simp only [utf8, List.flatMap_cons, List.map_cons] at *
    rw [utf8Enc_ascii (h c (by simp)), ih (fun c hc => h c (by simp [hc]))]
    rfl

theorem nibble_fin : ∀ n : Fin 16, (nibbleChar n).toNat < 128 ∧ hexVal (nibbleChar n).toNat = some n.val := by decide

theorem nibble_lt {n : Nat} (h : n < 16) : (nibbleChar n).toNat < 128 := (nibble_fin ⟨n, h⟩).1
theorem hexVal_nibble {n : Nat} (h : n < 16) : hexVal (nibbleChar n).toNat = some n := (nibble_fin ⟨n, h⟩).2

theorem hexPairs_hex (bs : List Nat) (h : ∀ b ∈ bs, b < 256) :
    hexPairs ((bs.flatMap hex2).map Char.toNat) = some bs := by
  induction bs with
  | nil => rfl
  | cons b bs ih =>
    have hb : b < 256 := h b (by simp)
    simp only [List.flatMap_cons, hex2, List.map_cons, List.cons_append, List.nil_append]
    rw [hexPairs, hexVal_nibble (by omega), hexVal_nibble (by omega), ih (fun b hb => h b (by simp [hb]))]
    simp; omega

/-! ### base64 -/

theorem b64_fin : ∀ n : Fin 64, (b64Char n).toNat < 128 ∧ b64Val (b64Char n).toNat = some n.val ∧ (b64Char n).toNat ≠ 61 := by decide

theorem b64Char_lt {n : Nat} (h : n < 64) : (b64Char n).toNat < 128 := (b64_fin ⟨n, h⟩).1
theorem b64Val_char {n : Nat} (h : n < 64) : b64Val (b64Char n).toNat = some n := (b64_fin ⟨n, h⟩).2.1
theorem b64Char_ne_pad {n : Nat} (h : n < 64) : (b64Char n).toNat ≠ 61 := (b64_fin ⟨n, h⟩).2.2

theorem three_ind {P : List Nat → Prop} (h0 : P []) (h1 : ∀ a, P [a]) (h2 : ∀ a b, P [a, b])
    (h3 : ∀ a b c r, P r → P (a :: b :: c :: r)) : ∀ l, P l
  | [] => h0
  | [a] => h1 a
  | [a, b] => h2 a b
  | a :: b :: c :: r => h3 a b c r (three_ind h0 h1 h2 h3 r)

theorem b64Decode_quad (a b c d : Nat) (rest : List Nat) (_hc : c ≠ 61 ∨ rest ≠ []) (hd : d ≠ 61 ∨ rest ≠ []) :
    b64Decode (a :: b :: c :: d :: rest) =
    match b64Val a, b64Val b, b64Val c, b64Val d, b64Decode rest with
    | some x, some y, some z, some w, some r =>
      some ((x * 4 + y / 16) :: (y % 16 * 16 + z / 4) :: (z % 4 * 64 + w) :: r)
    | _, _, _, _, _ => none := by
  rw [b64Decode]
  · rfl
  · intro h1 h2 h3; rcases hd with h | h <;> contradiction
  · intro h2 h3; rcases hd with h | h <;> contradiction

theorem b64Encode_ascii (bs : List Nat) (h : ∀ b ∈ bs, b < 256) : ∀ c ∈ b64Encode bs, c.toNat < 128 := by
  induction bs using three_ind with
  | h0 => simp [b64Encode]
  | h1 a =>
    have := h a (by simp)
    intro c hc; simp [b64Encode] at hc
    rcases hc with rfl | rfl | rfl <;> first | exact b64Char_lt (by omega) | decide
  | h2 a b =>
    have := h a (by simp); have := h b (by simp)
    intro c hc; simp [b64Encode] at hc
    rcases hc with rfl | rfl | rfl | rfl <;> first | exact b64Char_lt (by omega) | decide
  | h3 a b c r ih =>
    have := h a (by simp); have := h b (by simp); have := h c (by simp)
    intro x hx; simp only [b64Encode, List.mem_cons] at hx
    rcases hx with rfl | rfl | rfl | rfl | hx
    · exact b64Char_lt (by omega)
    · exact b64Char_lt (by omega)
    · exact b64Char_lt (by omega)
    · exact b64Char_lt (by omega)
    · exact ih (fun b hb => h b (by simp [hb])) x hx

theorem b64_roundtrip_bytes (bs : List Nat) (h : ∀ b ∈ bs, b < 256) :
    b64Decode ((b64Encode bs).map Char.toNat) = some bs := by
  induction bs using three_ind with
  | h0 => simp [b64Encode, b64Decode]
  | h1 a =>
    have := h a (by simp)
    simp only [b64Encode, List.map_cons, List.map_nil]
    rw [show ('='.toNat) = 61 from rfl, b64Decode, b64Val_char (by omega), b64Val_char (by omega)]
    simp; omega
  | h2 a b =>
    have := h a (by simp); have := h b (by simp)
    simp only [b64Encode, List.map_cons, List.map_nil]
    rw [show ('='.toNat) = 61 from rfl, b64Decode, b64Val_char (by omega), b64Val_char (by omega), b64Val_char (by omega)]
    · simp; omega
    · exact b64Char_ne_pad (by omega)
  | h3 a b c r ih =>
    have := h a (by simp); have := h b (by simp); have := h c (by simp)
    simp only [b64Encode, List.map_cons]
    rw [b64Decode_quad _ _ _ _ _ (Or.inl (b64Char_ne_pad (by omega))) (Or.inl (b64Char_ne_pad (by omega))),
      b64Val_char (by omega), b64Val_char (by omega), b64Val_char (by omega), b64Val_char (by omega),
      ih (fun b hb => h b (by simp [hb]))]
    simp; omega

theorem b64Encode_ne_nil {bs : List Nat} (h : bs ≠ []) : b64Encode bs ≠ [] := by
  match bs, h with
  | [_], _ => simp [b64Encode]
  | [_, _], _ => simp [b64Encode]
  | _ :: _ :: _ :: _, _ => simp [b64Encode]

end OpcuaVerif.Text
