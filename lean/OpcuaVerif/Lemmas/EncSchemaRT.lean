import OpcuaVerif.Model.EncSchema
import OpcuaVerif.Lemmas.EncRT
import OpcuaVerif.Lemmas.EncLen
/-!
Generic schema-directed round trip (translator T1): for EVERY schema `t` and every valid value `v`
of it, `decS t (encS t v ++ r) = (normS v, r)`.  Mutual structural induction on the value (value /
field list / element list); mismatching (schema, value) pairs are excluded by `WFS`.
-/
namespace OpcuaVerif.Enc
set_option linter.unusedSimpArgs false
set_option linter.unusedSectionVars false

/-- value `n` fits the wire width `w` ∈ {1, 2, 4} -/
def FitsW (w n : Nat) : Prop := (w = 1 ∧ n < 256) ∨ (w = 2 ∧ n < 65536) ∨ (w = 4 ∧ n < 4294967296)

mutual
/-- `v` is a valid value of schema `t` within the limits `o`, decoded with `d` locks held -/
def WFS (o : Opts) : Nat → Ty → SVal → Prop
  | d, .sc tid, .sc s => s.tid = tid ∧ WFScalar o d s
  | d, .variant, .v x => WFV o d x
  | d, .dataValue, .dv x => WFDV o d x
  | d, .diagInfo, .di x => WFDI o d x
  | _, .enm w vals _, .num n => FitsW w n ∧ vals.contains n = true
  | _, .flags w mask, .num n => FitsW w n ∧ n &&& mask = n
  | d, .struct ts, .struct fs => WFFields o d ts fs
  | _, .arr _, .nullArr => True
  | d, .arr t, .arr xs => xs.length ≤ o.maxArr ∧ xs.length < 2147483648 ∧ WFSElems o d t xs
  | _, _, _ => False
def WFFields (o : Opts) : Nat → List Ty → List SVal → Prop
  | _, [], [] => True
  | d, t :: ts, f :: fs => WFS o d t f ∧ WFFields o d ts fs
  | _, _, _ => False
def WFSElems (o : Opts) : Nat → Ty → List SVal → Prop
  | _, _, [] => True
  | d, t, x :: xs => WFS o d t x ∧ WFSElems o d t xs
end

mutual
def normS : SVal → SVal
  | .sc s => .sc (normScalar s)
  | .v x => .v (normV x)
  | .dv x => .dv (normDV x)
  | .di x => .di x
  | .num n => .num n
  | .struct fs => .struct (normSs fs)
  | .nullArr => .nullArr
  | .arr xs => .arr (normSs xs)
def normSs : List SVal → List SVal
  | [] => []
  | x :: xs => normS x :: normSs xs
end

mutual
/-- stack needed by the embedded Variant / DataValue / DiagnosticInfo values -/
def frS : SVal → Nat
  | .v x => frV x
  | .dv x => frDV x
  | .di x => frDI x
  | .struct fs => frSs fs
  | .arr xs => frSs xs
  | _ => 0
def frSs : List SVal → Nat
  | [] => 0
  | x :: xs => frS x + frSs xs
end

theorem rdW_leW (w n : Nat) (r : Bytes) (h : FitsW w n) : rdW w (leW w n ++ r) = some (n, r) := by
  rcases h with ⟨rfl, h⟩ | ⟨rfl, h⟩ | ⟨rfl, h⟩
  · simp [rdW, leW, rd8]; omega
  · simp [rdW, leW, rd16_le16 _ _ h]
  · simp [rdW, leW, rd32_le32 _ _ h]

theorem normSs_length (xs : List SVal) : (normSs xs).length = xs.length := by
  induction xs with
  | nil => simp [normSs]
  | cons x xs ih => simp [normSs, ih]

section rt
variable (o : Opts) (cap fuel : Nat) (hc : CapOK o cap)
include hc

mutual
theorem rtS (v : SVal) : ∀ t d r, WFS o d t v → frS v ≤ fuel →
    decS o cap fuel t d (encS t v ++ r) = .ok (normS v) r := by
  cases v with
  | sc s =>
    intro t d r hw hf
    cases t <;> simp only [WFS] at hw
    obtain ⟨rfl, hs⟩ := hw
    simp [decS, encS, normS, decScalar_enc o cap d s r hs hc]
  | v x =>
    intro t d r hw hf
    cases t <;> simp only [WFS] at hw
    simp only [frS] at hf
    simp [decS, encS, normS, (rtV o cap hc x).2 fuel d r hw hf]
  | dv x =>
    intro t d r hw hf
    cases t <;> simp only [WFS] at hw
    simp only [frS] at hf
    simp [decS, encS, normS, rtDV o cap hc x fuel d r hw hf]
  | di x =>
    intro t d r hw hf
    cases t <;> simp only [WFS] at hw
    simp only [frS] at hf
    simp [decS, encS, normS, rtDI o cap hc x fuel d r hw hf]
  | num n =>
    intro t d r hw hf
    cases t <;> simp only [WFS] at hw
    · rename_i w vals fb
      have hm : n ∈ vals := by simpa using hw.2
      simp [decS, encS, normS, rdW_leW _ _ r hw.1, hm]
    · simp [decS, encS, normS, rdW_leW _ _ r hw.1, hw.2]
  | struct fs =>
    have ih := rtFields fs
    intro t d r hw hf
    cases t <;> simp only [WFS] at hw
    simp only [frS] at hf
    simp [decS, encS, normS, ih _ d r hw hf]
  | nullArr =>
    intro t d r hw hf
    cases t <;> simp only [WFS] at hw
    simp [decS, encS, normS, rd32]
  | arr xs =>
    have ih := rtElems xs
    intro t d r hw hf
    cases t <;> simp only [WFS] at hw
    rename_i elem
    obtain ⟨h1, h2, h3⟩ := hw
    simp only [frS] at hf
    have hlt : xs.length < 4294967296 := by omega
    simp only [decS, encS, List.append_assoc, rd32_le32 _ _ hlt]
    rw [if_neg (by omega), if_neg (by omega), if_neg (by omega)]
    simp only [guardAlloc]
    rw [if_neg (by have := hc.2.2; omega), ih elem d r h3 hf]
    simp [normS]
theorem rtFields (fs : List SVal) : ∀ ts d r, WFFields o d ts fs → frSs fs ≤ fuel →
    decFields o cap fuel ts d (encFields ts fs ++ r) = .ok (normSs fs) r := by
  cases fs with
  | nil =>
    intro ts d r hw hf
    cases ts <;> simp only [WFFields] at hw
    simp [decFields, encFields, normSs]
  | cons f fs =>
    have ih1 := rtS f
    have ih2 := rtFields fs
    intro ts d r hw hf
    cases ts <;> simp only [WFFields] at hw
    rename_i t ts
    simp only [frSs] at hf
    have e1 := ih1 t d (encFields ts fs ++ r) hw.1 (by omega)
    have e2 := ih2 ts d r hw.2 (by omega)
    simp [decFields, encFields, normSs, e1, e2]
theorem rtElems (xs : List SVal) : ∀ t d r, WFSElems o d t xs → frSs xs ≤ fuel →
    decList (decS o cap fuel t d) xs.length (encElems t xs ++ r) = .ok (normSs xs) r := by
  cases xs with
  | nil => intro t d r _ _; simp [decList, encElems, normSs]
  | cons x xs =>
    have ih1 := rtS x
    have ih2 := rtElems xs
    intro t d r hw hf
    simp only [WFSElems] at hw
    simp only [frSs] at hf
    have e1 := ih1 t d (encElems t xs ++ r) hw.1 (by omega)
    have e2 := ih2 t d r hw.2 (by omega)
    simp [decList, encElems, normSs, e1, e2]
end
end rt


/-! `byte_len` = bytes written, for every schema -/
mutual
theorem lenS_eq (o : Opts) (v : SVal) : ∀ t d, WFS o d t v → (encS t v).length = lenS t v := by
  cases v with
  | sc s =>
    intro t d hw
    cases t <;> simp only [WFS] at hw
    simp [encS, lenS, encScalar_length o d s hw.2]
  | v x =>
    intro t d hw
    cases t <;> simp only [WFS] at hw
    simp [encS, lenS, (lenV_eq o x d hw).1]
  | dv x =>
    intro t d hw
    cases t <;> simp only [WFS] at hw
    simp [encS, lenS, lenDV_eq o x d hw]
  | di x =>
    intro t d hw
    cases t <;> simp only [WFS] at hw
    simp [encS, lenS, lenDI_eq o x d hw]
  | num n =>
    intro t d hw
    cases t <;> simp only [WFS] at hw
    · rcases hw.1 with ⟨rfl, _⟩ | ⟨rfl, _⟩ | ⟨rfl, _⟩ <;> simp [encS, lenS, leW, le16, le32]
    · rcases hw.1 with ⟨rfl, _⟩ | ⟨rfl, _⟩ | ⟨rfl, _⟩ <;> simp [encS, lenS, leW, le16, le32]
  | struct fs =>
    have ih := lenFields_eq o fs
    intro t d hw
    cases t <;> simp only [WFS] at hw
    simp [encS, lenS, ih _ d hw]
  | nullArr =>
    intro t d hw
    cases t <;> simp only [WFS] at hw
    simp [encS, lenS]
  | arr xs =>
    have ih := lenElems_eq o xs
    intro t d hw
    cases t <;> simp only [WFS] at hw
    simp [encS, lenS, le32, ih _ d hw.2.2]
    omega
theorem lenFields_eq (o : Opts) (fs : List SVal) : ∀ ts d, WFFields o d ts fs →
    (encFields ts fs).length = lenFields ts fs := by
  cases fs with
  | nil =>
    intro ts d hw
    cases ts <;> simp only [WFFields] at hw
    simp [encFields, lenFields]
  | cons f fs =>
    have ih1 := lenS_eq o f
    have ih2 := lenFields_eq o fs
    intro ts d hw
    cases ts <;> simp only [WFFields] at hw
    rename_i t ts
    simp [encFields, lenFields, ih1 t d hw.1, ih2 ts d hw.2]
theorem lenElems_eq (o : Opts) (xs : List SVal) : ∀ t d, WFSElems o d t xs →
    (encElems t xs).length = lenElems t xs := by
  cases xs with
  | nil => intro t d _; simp [encElems, lenElems]
  | cons x xs =>
    have ih1 := lenS_eq o x
    have ih2 := lenElems_eq o xs
    intro t d hw
    simp only [WFSElems] at hw
    simp [encElems, lenElems, ih1 t d hw.1, ih2 t d hw.2]
end

/-- translator obligation: the five extracted orders of a structure (declaration, `byte_len`,
`encode`, `decode`, constructor) coincide and are the declaration order with the declared kinds -/
def regular (p : String × List (List Nat)) : Bool :=
  match p.2 with
  | [decl, ln, en, de, ct] =>
    ln == decl && en == decl && de == decl && ct == decl
      && (decl.zipIdx.all fun (c, i) => c / 2 == i)
  | _ => false


mutual
/-- every built-in scalar a schema mentions has a type id 1..22 (so `decScalar`'s final arm is dead) -/
def Ty.scOk : Ty → Bool
  | .sc tid => 1 ≤ tid && tid ≤ 22
  | .struct ts => Ty.scOkL ts
  | .arr t => t.scOk
  | _ => true
def Ty.scOkL : List Ty → Bool
  | [] => true
  | t :: ts => t.scOk && Ty.scOkL ts
end

end OpcuaVerif.Enc
