import OpcuaVerif.Model.C18

/-!
C18 — table lemmas.  Every statement quantifies over ALL rows of the decision table
(2^6 · 4 · 3 · 3 · 3 · 3 = 20 736).  `c18_table` is the exhaustive case split: it splits on the
variables the early exits test, simplifies, and splits the survivors on the remaining variables —
i.e. it enumerates the table, pruned.  (`decide`/`decide +kernel` on the same statements also
succeed but need 20–50 s EACH in the kernel, which is why they are not used.)
-/
namespace OpcuaVerif.C18

/-- exhaustive case analysis over the eleven table variables -/
macro "c18_table" : tactic => `(tactic| (
  intro tu sv ct rd ir td tf k tm ho ur
  cases rd <;> cases ir <;> cases td <;> cases tf <;> cases k <;> cases sv <;>
    simp [validateOrReject, validate, Res.ret] <;>
    (cases tu <;> cases ct <;> cases tm <;> cases ho <;> cases ur <;> simp)))

/-- exactly the "certificate is bad for a reason an administrator can fix" verdicts are stored in
`rejected/`; BadUnexpectedError and BadSecurityChecksFailed never are -/
theorem stored_rejected_iff : ∀ (tu sv ct rd ir td : Bool) (tf : TrustedFile) (k : KeyCheck) (tm : TimeV)
    (ho : HostV) (ur : UriV),
    (validateOrReject ⟨tu, sv, ct, rd, ir, td, tf, k, tm, ho, ur⟩).storedRejected = true ↔
      (validateOrReject ⟨tu, sv, ct, rd, ir, td, tf, k, tm, ho, ur⟩).status ∈
        [some .badCertificateUntrusted, some .badCertificateTimeInvalid,
         some .badCertificateHostNameInvalid, some .badCertificateUriInvalid] := by c18_table

/-- the trusted store grows exactly when an unknown certificate arrives and unknown certificates
are configured to be trusted -/
theorem stored_trusted_iff : ∀ (tu sv ct rd ir td : Bool) (tf : TrustedFile) (k : KeyCheck) (tm : TimeV)
    (ho : HostV) (ur : UriV),
    (validateOrReject ⟨tu, sv, ct, rd, ir, td, tf, k, tm, ho, ur⟩).storedTrusted = true ↔
      (rd = true ∧ ir = false ∧ td = true ∧ tf = .absent ∧ tu = true) := by c18_table

/-- no panic unless the policy has no key lengths (`None`/`Unknown`, excluded by the callers) -/
theorem panic_iff : ∀ (tu sv ct rd ir td : Bool) (tf : TrustedFile) (k : KeyCheck) (tm : TimeV) (ho : HostV)
    (ur : UriV),
    (validateOrReject ⟨tu, sv, ct, rd, ir, td, tf, k, tm, ho, ur⟩).status = none ↔
      (rd = true ∧ ir = false ∧ td = true ∧ (tf = .same ∨ (tf = .absent ∧ tu = true)) ∧ k = .panics) := by
  c18_table

end OpcuaVerif.C18
