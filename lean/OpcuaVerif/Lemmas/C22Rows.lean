import OpcuaVerif.Generated.C22Rows

/-!
C22 — the table regenerated from `Subscription::update_state` (Generated/C22Rows.lean), interpreted,
equals the hand-written model.  One lemma per state keeps each case analysis small.
-/
namespace OpcuaVerif.C22

macro "rows_simp" : tactic =>
  `(tactic| simp [List.find?, interpRows, generatedRows, evalCond, evalCmp, updateState, updateStateWith,
      applyEffs, applyEff, startTimer, resetLife, resetKa, cond15, act15, current, *])

set_option hygiene false in
macro "rows_arith" : tactic =>
  `(tactic| (
    have hk3 : ka = 0 ∨ ka = 1 ∨ (1 < ka ∧ ka ≠ 0 ∧ ka ≠ 1) := by omega
    rcases hk3 with hk | hk | ⟨hkg, hk0, hk1⟩ <;>
      by_cases h0 : life = 0 <;> by_cases hm : maxLife = 0 <;>
      (try simp [applyEffs, applyEff, startTimer, resetLife, resetKa, *]) <;> (try omega)))

set_option hygiene false in
macro "rows_state" : tactic =>
  `(tactic| (
    obtain ⟨na, more, req, expired⟩ := p
    by_cases hl1 : life = 1
    · subst hl1
      cases t <;> cases expired <;> rows_simp
    · cases t <;> cases expired <;> cases enabled <;> cases sent <;> cases na <;> cases more <;> cases req <;>
        rows_simp <;> rows_arith))

/-- the session state with explicit fields -/
abbrev mkS (state : SState) (maxLife maxKa life ka : Nat) (sent enabled : Bool)
    (notifs : List (Msg × Nat)) (seq lastSeq : Nat) (hasItem pending : Bool) : Subn :=
  { state := state, maxLife := maxLife, maxKa := maxKa, life := life, ka := ka, sent := sent,
    enabled := enabled, notifs := notifs, seq := seq, lastSeq := lastSeq, hasItem := hasItem,
    pending := pending }

set_option maxRecDepth 2000 in
set_option maxHeartbeats 1000000 in
theorem rows_eq_normal (maxLife maxKa life ka : Nat) (sent enabled : Bool)
    (notifs : List (Msg × Nat)) (seq lastSeq : Nat) (hasItem pending : Bool) (t : Bool) (p : Params) :
    interpRows generatedRows (mkS .normal maxLife maxKa life ka sent enabled notifs seq lastSeq hasItem pending) t p =
      updateState (mkS .normal maxLife maxKa life ka sent enabled notifs seq lastSeq hasItem pending) t p := by
  rows_state

set_option maxRecDepth 2000 in
set_option maxHeartbeats 1000000 in
theorem rows_eq_late (maxLife maxKa life ka : Nat) (sent enabled : Bool)
    (notifs : List (Msg × Nat)) (seq lastSeq : Nat) (hasItem pending : Bool) (t : Bool) (p : Params) :
    interpRows generatedRows (mkS .late maxLife maxKa life ka sent enabled notifs seq lastSeq hasItem pending) t p =
      updateState (mkS .late maxLife maxKa life ka sent enabled notifs seq lastSeq hasItem pending) t p := by
  rows_state

set_option maxRecDepth 2000 in
set_option maxHeartbeats 1000000 in
theorem rows_eq_keepAlive (maxLife maxKa life ka : Nat) (sent enabled : Bool)
    (notifs : List (Msg × Nat)) (seq lastSeq : Nat) (hasItem pending : Bool) (t : Bool) (p : Params) :
    interpRows generatedRows (mkS .keepAlive maxLife maxKa life ka sent enabled notifs seq lastSeq hasItem pending) t p =
      updateState (mkS .keepAlive maxLife maxKa life ka sent enabled notifs seq lastSeq hasItem pending) t p := by
  rows_state

set_option maxRecDepth 2000 in
theorem rows_eq_other (state : SState) (hs : state = .closed ∨ state = .creating)
    (maxLife maxKa life ka : Nat) (sent enabled : Bool)
    (notifs : List (Msg × Nat)) (seq lastSeq : Nat) (hasItem pending : Bool) (t : Bool) (p : Params) :
    interpRows generatedRows (mkS state maxLife maxKa life ka sent enabled notifs seq lastSeq hasItem pending) t p =
      updateState (mkS state maxLife maxKa life ka sent enabled notifs seq lastSeq hasItem pending) t p := by
  obtain ⟨na, more, req, expired⟩ := p
  rcases hs with rfl | rfl <;> cases t <;> cases expired <;> rows_simp

theorem rows_table_eq (s : Subn) (t : Bool) (p : Params) :
    interpRows generatedRows s t p = updateState s t p := by
  obtain ⟨state, maxLife, maxKa, life, ka, sent, enabled, notifs, seq, lastSeq, hasItem, pending⟩ := s
  cases state
  · exact rows_eq_other .closed (Or.inl rfl) maxLife maxKa life ka sent enabled notifs seq lastSeq hasItem pending t p
  · exact rows_eq_other .creating (Or.inr rfl) maxLife maxKa life ka sent enabled notifs seq lastSeq hasItem pending t p
  · exact rows_eq_normal maxLife maxKa life ka sent enabled notifs seq lastSeq hasItem pending t p
  · exact rows_eq_late maxLife maxKa life ka sent enabled notifs seq lastSeq hasItem pending t p
  · exact rows_eq_keepAlive maxLife maxKa life ka sent enabled notifs seq lastSeq hasItem pending t p

end OpcuaVerif.C22
