import OpcuaVerif.Lemmas.EncSteps

/-!
Round trip with suffix for the recursive family, current source (`lk = true`, `ed = true`):
decoding `enc x ++ r` yields `norm x` and leaves exactly `r`.  Mutual structural induction on the
value; for a Variant both the `decode_variant_value` and the `decode` statements are proved together.
-/
namespace OpcuaVerif.Enc
set_option linter.unusedSimpArgs false
set_option linter.unusedSectionVars false

section rt
variable (o : Opts) (cap : Nat) (hc : CapOK o cap)
include hc

mutual
theorem rtV (x : V) :
    (∀ fuel d r, WFV o d x → x.tid ≤ 25 → frV x ≤ fuel + 1 →
        decVal o cap true fuel d x.tid (encVal true x ++ r) = .ok (normV x) r)
    ∧ (∀ fuel d r, WFV o d x → frV x ≤ fuel →
        decV o cap true fuel d (encV true x ++ r) = .ok (normV x) r) := by
  cases x with
  | empty =>
    have hval : ∀ fuel d r, frV .empty ≤ fuel + 1 →
        decVal o cap true fuel d 0 (encVal true .empty ++ r) = .ok (normV .empty) r := by
      intro fuel d r hf
      cases fuel with
      | zero => unfold frV at hf; omega
      | succ f => simp [decVal_empty, encVal, normV]
    refine ⟨fun fuel d r _ _ hf => hval fuel d r hf, ?_⟩
    intro fuel d r _ hf
    cases fuel with
    | zero => unfold frV at hf; omega
    | succ f =>
      have := hval f d r (by unfold frV at hf ⊢; omega)
      simpa [encV, encVal, decV_nonarr] using this
  | sc s =>
    have hr := Scalar.tid_range s
    have hval : ∀ fuel d r, WFV o d (.sc s) → frV (.sc s) ≤ fuel + 1 →
        decVal o cap true fuel d s.tid (encVal true (.sc s) ++ r) = .ok (normV (.sc s)) r := by
      intro fuel d r hw hf
      cases fuel with
      | zero => unfold frV at hf; omega
      | succ f =>
        unfold WFV at hw
        simp [decVal_sc o cap true f d s.tid _ hr.1 hr.2, encVal, normV, decScalar_enc o cap d s r hw hc]
    refine ⟨fun fuel d r hw _ hf => hval fuel d r hw hf, ?_⟩
    intro fuel d r hw hf
    cases fuel with
    | zero => unfold frV at hf; omega
    | succ f =>
      have := hval f d r hw (by unfold frV at hf ⊢; omega)
      have hlt : s.tid < 64 := by omega
      simpa [encV, encVal, decV_nonarr o cap true f d s.tid _ hlt] using this
  | var v =>
    have ih := (rtV v).2
    have hval : ∀ fuel d r, WFV o d (.var v) → frV (.var v) ≤ fuel + 1 →
        decVal o cap true fuel d 24 (encVal true (.var v) ++ r) = .ok (normV (.var v)) r := by
      intro fuel d r hw hf
      cases fuel with
      | zero => unfold frV at hf; omega
      | succ f =>
        unfold WFV at hw
        have hd : ¬ d ≥ o.maxDepth := by omega
        have := ih f (d + 1) r hw.2 (by unfold frV at hf; omega)
        simp [decVal_var, hd, encVal, normV, this]
    refine ⟨fun fuel d r hw _ hf => hval fuel d r hw hf, ?_⟩
    intro fuel d r hw hf
    cases fuel with
    | zero => unfold frV at hf; omega
    | succ f =>
      have := hval f d r hw (by unfold frV at hf ⊢; omega)
      simpa [encV, encVal, decV_nonarr] using this
  | dv x =>
    have ih := rtDV x
    have hval : ∀ fuel d r, WFV o d (.dv x) → frV (.dv x) ≤ fuel + 1 →
        decVal o cap true fuel d 23 (encVal true (.dv x) ++ r) = .ok (normV (.dv x)) r := by
      intro fuel d r hw hf
      cases fuel with
      | zero => unfold frV at hf; omega
      | succ f =>
        unfold WFV at hw
        have := ih f d r hw (by unfold frV at hf; omega)
        simp [decVal_dv, encVal, normV, this]
    refine ⟨fun fuel d r hw _ hf => hval fuel d r hw hf, ?_⟩
    intro fuel d r hw hf
    cases fuel with
    | zero => unfold frV at hf; omega
    | succ f =>
      have := hval f d r hw (by unfold frV at hf ⊢; omega)
      simpa [encV, encVal, decV_nonarr] using this
  | di x =>
    have ih := rtDI x
    have hval : ∀ fuel d r, WFV o d (.di x) → frV (.di x) ≤ fuel + 1 →
        decVal o cap true fuel d 25 (encVal true (.di x) ++ r) = .ok (normV (.di x)) r := by
      intro fuel d r hw hf
      cases fuel with
      | zero => unfold frV at hf; omega
      | succ f =>
        unfold WFV at hw
        have := ih f d r hw (by unfold frV at hf; omega)
        simp [decVal_di, encVal, normV, this]
    refine ⟨fun fuel d r hw _ hf => hval fuel d r hw hf, ?_⟩
    intro fuel d r hw hf
    cases fuel with
    | zero => unfold frV at hf; omega
    | succ f =>
      have := hval f d r hw (by unfold frV at hf ⊢; omega)
      simpa [encV, encVal, decV_nonarr] using this
  | arr ty elems dims =>
    have ih := rtVals elems
    refine ⟨fun fuel d r _ ht _ => by simp [V.tid] at ht, ?_⟩
    intro fuel d r hw hf
    cases fuel with
    | zero => unfold frV at hf; omega
    | succ f =>
      unfold WFV at hw
      obtain ⟨h1, h2, h3, h4, h5, h6⟩ := hw
      unfold frV at hf
      cases elems with
      | nil =>
        have key : encV true (.arr ty [] dims) ++ r
            = (ty + 128 + (if false then 64 else 0)) :: (le32 0 ++ r) := by
          simp [encV, arrMask, encodedDims, encVals, encDimsOpt]
        rw [key, decV_arr o cap true f d ty false _ h1 h2, rd32_le32 _ _ (by omega)]
        simp [normV, normVs]
      | cons x xs =>
        have key : encV true (.arr ty (x :: xs) dims) ++ r
            = (ty + 128 + (if dims.isSome then 64 else 0)) ::
                (le32 (x :: xs).length ++ (encVals true (x :: xs) ++ (encDimsOpt dims ++ r))) := by
          simp [encV, arrMask, encodedDims]
        have hn : (x :: xs).length < 4294967296 := by omega
        have hpos : 0 < (x :: xs).length := by simp
        have e := ih f d ty (encDimsOpt dims ++ r) h5 h2 (by omega)
        rw [key, decV_arr o cap true f d ty dims.isSome _ h1 h2, rd32_le32 _ _ hn]
        simp only []
        rw [if_neg (by omega), if_neg (by omega), if_neg (by omega)]
        simp only [guardAlloc]
        rw [if_neg (by have := hc.2.2; omega), e]
        cases dims with
        | none => simp [normV, encDimsOpt]
        | some ds =>
          simp only [WFDims] at h6
          rcases h6 with h6 | ⟨g1, g2, g3, g4⟩
          · omega
          · have hmem : ∀ y ∈ ds, y < 4294967296 := by
              intro y hy
              have := mem_le_dimsProd ds g3 y hy
              omega
            have e2 := decDimArray_enc o cap ds r hmem g1 g2 hc.2.2
            have e3 := checkDims_ok (x :: xs).length ds g3 g4 hn
            have e3' : checkDims (xs.length + 1) (some ds) = true := by simpa using e3
            simp [e2, e3', normV]
theorem rtVals (xs : List V) :
    ∀ fuel d ty r, WFElems o d ty xs → ty ≤ 25 → frVals xs ≤ fuel →
      decList (decVal o cap true fuel d ty) xs.length (encVals true xs ++ r) = .ok (normVs xs) r := by
  cases xs with
  | nil => intro fuel d ty r _ _ _; simp [decList, encVals, normVs]
  | cons x xs =>
    have ih1 := (rtV x).1
    have ih2 := rtVals xs
    intro fuel d ty r hw ht hf
    unfold WFElems at hw
    obtain ⟨hw1, hw2, hw3⟩ := hw
    unfold frVals at hf
    have e1 := ih1 fuel d (encVals true xs ++ r) hw2 (by omega) (by omega)
    have e2 := ih2 fuel d ty r hw3 ht (by omega)
    rw [hw1] at e1
    simp [decList, encVals, normVs, e1, e2]
theorem rtDV (x : DV) :
    ∀ fuel d r, WFDV o d x → frDV x ≤ fuel →
      decDV o cap true fuel d (encDV true x ++ r) = .ok (normDV x) r := by
  cases x with
  | mk0 rest =>
    intro fuel d r hw hf
    cases fuel with
    | zero => unfold frDV at hf; omega
    | succ f =>
      unfold WFDV at hw
      have hd : ¬ d ≥ o.maxDepth := by omega
      have hb : ¬ (dvMask false rest % 2 = 1) := by simp [dvMask_value]
      simp [decDV, encDV, hd, hb, normDV, decDVRest_enc false rest r hw.2]
  | mk1 v rest =>
    have ih := (rtV v).2
    intro fuel d r hw hf
    cases fuel with
    | zero => unfold frDV at hf; omega
    | succ f =>
      unfold WFDV at hw
      have hd : ¬ d ≥ o.maxDepth := by omega
      have hb : (dvMask true rest % 2 = 1) := by simp [dvMask_value]
      have := ih f (d + 1) (encDVRest rest ++ r) hw.2.1 (by unfold frDV at hf; omega)
      simp [decDV, encDV, hd, hb, normDV, this, decDVRest_enc true rest r hw.2.2]
theorem rtDI (x : DI) :
    ∀ fuel d r, WFDI o d x → frDI x ≤ fuel →
      decDI o cap true fuel d (encDI true x ++ r) = .ok x r := by
  cases x with
  | leaf f =>
    intro fuel d r hw hf
    cases fuel with
    | zero => unfold frDI at hf; omega
    | succ fu =>
      unfold WFDI at hw
      have hd : ¬ d ≥ o.maxDepth := by omega
      have hb : ¬ (diMask false f / 64 % 2 = 1) := by simp [diMask_inner]
      simp [decDI, encDI, hd, hb, decDIF_enc o cap false f r hw.2 hc]
  | nest f i =>
    have ih := rtDI i
    intro fuel d r hw hf
    cases fuel with
    | zero => unfold frDI at hf; omega
    | succ fu =>
      unfold WFDI at hw
      have hd : ¬ d ≥ o.maxDepth := by omega
      have hb : (diMask true f / 64 % 2 = 1) := by simp [diMask_inner]
      have := ih fu (d + 1) r hw.2.2 (by unfold frDI at hf; omega)
      simp [decDI, encDI, hd, hb, decDIF_enc o cap true f _ hw.2.1 hc, this]
end
end rt
end OpcuaVerif.Enc
