import OpcuaVerif.Lemmas.C41
/-! Soundness of the loader model: every document that loads yields a canonical (typed) document. -/
set_option linter.unusedSimpArgs false
namespace OpcuaVerif.C41
open OpcuaVerif.Text

/-! ### soundness of the loader: whatever loads is a typed value (hence saving it again is stable) -/

theorem keyLt_trichotomy : ∀ (a b : Key), keyLt a b = false → a ≠ b → keyLt b a = true
  | [], [], _, h => absurd rfl h
  | [], _ :: _, h, _ => by simp [keyLt] at h
  | _ :: _, [], _, _ => by simp [keyLt]
  | x :: xs, y :: ys, h, hne => by
    simp only [keyLt] at h ⊢
    by_cases h1 : x.toNat < y.toNat
    · simp [h1] at h
    · by_cases h2 : x = y
      · subst h2
        simp only [h1, if_false, if_true] at h
        have := keyLt_trichotomy xs ys h (fun e => hne (by rw [e]))
        simp [this]
      · have h3 : y.toNat < x.toNat := by
          have : x.toNat ≠ y.toNat := fun e => h2 (Char.ext (by
            have := congrArg UInt32.ofNat e
            simpa [Char.toNat] using (by exact UInt32.toNat_inj.mp e)))
          omega
        simp [h3]


theorem insStr_head (k : Key) (l : List Key) :
    ∃ r, insStr k l = k :: r ∨ (∃ a l', l = a :: l' ∧ keyLt k a = false ∧ insStr k l = a :: r) := by
  cases l with
  | nil => exact ⟨[], Or.inl rfl⟩
  | cons a l' =>
    simp only [insStr]
    by_cases h1 : keyLt k a = true
    · exact ⟨a :: l', Or.inl (by simp [h1])⟩
    · have h1' : keyLt k a = false := by simpa using h1
      by_cases h2 : k = a
      · subst h2; exact ⟨l', Or.inl (by simp [h1'])⟩
      · exact ⟨insStr k l', Or.inr ⟨a, l', rfl, h1', by simp [h1', h2]⟩⟩

theorem insStr_keeps_sorted (k : Key) : ∀ (l : List Key), sortedStr l = true → sortedStr (insStr k l) = true
  | [], _ => rfl
  | [a], _ => by
    simp only [insStr]
    by_cases h1 : keyLt k a = true
    · simp [h1, sortedStr]
    · have h1' : keyLt k a = false := by simpa using h1
      by_cases h2 : k = a
      · subst h2; simp [h1', sortedStr]
      · simp [h1', h2, sortedStr, keyLt_trichotomy k a h1' h2]
  | a :: b :: r, h => by
    have hab : keyLt a b = true ∧ sortedStr (b :: r) = true := by simpa [sortedStr] using h
    have ih := insStr_keeps_sorted k (b :: r) hab.2
    by_cases h1 : keyLt k a = true
    · simp [insStr, h1, sortedStr, hab.1, hab.2]
    · have h1' : keyLt k a = false := by simpa using h1
      by_cases h2 : k = a
      · subst h2; simp [insStr, h1', sortedStr, hab.1, hab.2]
      · have hak := keyLt_trichotomy k a h1' h2
        have e : insStr k (a :: b :: r) = a :: insStr k (b :: r) := by simp [insStr, h1', h2]
        rw [e]
        obtain ⟨t, ht⟩ := insStr_head k (b :: r)
        rcases ht with ht | ⟨a', l', hl, _, ht⟩
        · rw [ht] at ih ⊢; simp [sortedStr, hak, ih]
        · cases hl; rw [ht] at ih ⊢; simp [sortedStr, hab.1, ih]

theorem sortStr_is_sorted : ∀ (l : List Key), sortedStr (sortStr l) = true
  | [] => rfl
  | k :: r => insStr_keeps_sorted k _ (sortStr_is_sorted r)

theorem insKV_head (k : Key) (v : Doc) (l : List (Key × Doc)) :
    ∃ r, insKV k v l = (k, v) :: r ∨ (∃ a l', l = a :: l' ∧ insKV k v l = a :: r) := by
  cases l with
  | nil => exact ⟨[], Or.inl rfl⟩
  | cons a l' =>
    obtain ⟨k', v'⟩ := a
    simp only [insKV]
    by_cases h1 : keyLt k k' = true
    · exact ⟨(k', v') :: l', Or.inl (by simp [h1])⟩
    · have h1' : keyLt k k' = false := by simpa using h1
      by_cases h2 : k = k'
      · subst h2; exact ⟨l', Or.inl (by simp [h1'])⟩
      · exact ⟨insKV k v l', Or.inr ⟨(k', v'), l', rfl, by simp [h1', h2]⟩⟩

theorem insKV_keeps_sorted (k : Key) (v : Doc) : ∀ (l : List (Key × Doc)), sortedKV l = true →
    sortedKV (insKV k v l) = true
  | [], _ => rfl
  | [(a, va)], _ => by
    simp only [insKV]
    by_cases h1 : keyLt k a = true
    · simp [h1, sortedKV]
    · have h1' : keyLt k a = false := by simpa using h1
      by_cases h2 : k = a
      · subst h2; simp [h1', sortedKV]
      · simp [h1', h2, sortedKV, keyLt_trichotomy k a h1' h2]
  | (a, va) :: (b, vb) :: r, h => by
    have hab : keyLt a b = true ∧ sortedKV ((b, vb) :: r) = true := by simpa [sortedKV] using h
    have ih := insKV_keeps_sorted k v ((b, vb) :: r) hab.2
    by_cases h1 : keyLt k a = true
    · simp [insKV, h1, sortedKV, hab.1, hab.2]
    · have h1' : keyLt k a = false := by simpa using h1
      by_cases h2 : k = a
      · subst h2
        have e : insKV k v ((k, va) :: (b, vb) :: r) = (k, v) :: (b, vb) :: r := by simp [insKV, h1']
        rw [e]; simp [sortedKV, hab.1, hab.2]
      · have hak := keyLt_trichotomy k a h1' h2
        have e : insKV k v ((a, va) :: (b, vb) :: r) = (a, va) :: insKV k v ((b, vb) :: r) := by
          simp [insKV, h1', h2]
        rw [e]
        obtain ⟨t, ht⟩ := insKV_head k v ((b, vb) :: r)
        rcases ht with ht | ⟨a', l', hl, ht⟩
        · rw [ht] at ih ⊢; simp [sortedKV, hak, ih]
        · cases hl; rw [ht] at ih ⊢; simp [sortedKV, hab.1, ih]

theorem sortKV_is_sorted : ∀ (l : List (Key × Doc)), sortedKV (sortKV l) = true
  | [] => rfl
  | (k, v) :: r => insKV_keeps_sorted k v _ (sortKV_is_sorted r)

theorem insKV_wfVals (t : Ty) (k : Key) (v : Doc) (hv : wf t v = true) :
    ∀ (l : List (Key × Doc)), wfVals t l = true → wfVals t (insKV k v l) = true
  | [], _ => by simp [insKV, wfVals, hv]
  | (a, va) :: r, h => by
    simp only [wfVals, Bool.and_eq_true] at h
    simp only [insKV]
    split
    · simp [wfVals, hv, h.1, h.2]
    · split
      · simp [wfVals, hv, h.2]
      · simp [wfVals, h.1, insKV_wfVals t k v hv r h.2]

theorem sortKV_wfVals (t : Ty) : ∀ (l : List (Key × Doc)), wfVals t l = true → wfVals t (sortKV l) = true
  | [], _ => by simp [sortKV, wfVals]
  | (k, v) :: r, h => by
    simp only [wfVals, Bool.and_eq_true] at h
    exact insKV_wfVals t k v h.1 _ (sortKV_wfVals t r h.2)


def isStrTy : Ty → Bool
  | .str => true
  | _ => false

mutual
  /-- schema sanity incl. the attribute rules: `skip_serializing_if = "Option::is_none"` only on `Option`
  fields, a string default only on `String` fields -/
  def tyOk' : Ty → Bool
    | .opt t => tyOk' t && !isOpt t
    | .seq t => tyOk' t
    | .map t => tyOk' t
    | .struct fs => fieldsOk' fs
    | _ => true
  def fieldsOk' : Fields → Bool
    | .nil => true
    | .cons name t skipNone dflt rest =>
      tyOk' t && !(names rest).contains name && (!skipNone || isOpt t) && (dflt.isNone || isStrTy t) && fieldsOk' rest
end

theorem normFields_keys : ∀ (fs : Fields) (kv r : List (Key × Doc)), normFields fs kv = some r →
    ∀ k ∈ keysOf r, k ∈ names fs
  | .nil, _, r, h => by simp [normFields] at h; subst h; intro k hk; simp [keysOf] at hk
  | .cons name t skipNone dflt rest, kv, r, h => by
    unfold normFields at h
    simp only at h
    split at h
    · rename_i r' hv hr
      have ih := normFields_keys rest kv r' hr
      split at h
      · cases h; intro k hk; simp [names, ih k hk]
      · cases h; intro k hk
        simp only [keysOf, List.map_cons, List.mem_cons] at hk
        rcases hk with rfl | hk
        · simp [names]
        · simp [names, ih k (by simpa [keysOf] using hk)]
    · rename_i d r' _ hv hr
      have ih := normFields_keys rest kv r' hr
      cases h; intro k hk
      simp only [keysOf, List.map_cons, List.mem_cons] at hk
      rcases hk with rfl | hk
      · simp [names]
      · simp [names, ih k (by simpa [keysOf] using hk)]
    · cases h


theorem normDuration_shape (kv : List (Key × Doc)) (d' : Doc) (h : normDuration kv = some d') :
    ∃ s n : Int, d' = .map [(kSecs, .int s), (kNanos, .int n)] ∧ 0 ≤ s ∧ s ≤ u64Max ∧ 0 ≤ n ∧ n < 1000000000 := by
  unfold normDuration at h
  split at h
  · cases h
  · split at h
    · split at h
      · simp only at h
        split at h
        · cases h
          rename_i s n _ _ hr ht
          refine ⟨_, _, rfl, by omega, by simp only [u64Max] at ht ⊢; omega, by omega, by omega⟩
        · cases h
      · cases h
    · cases h

/-- a non-`Option` type never loads to `null` -/
theorem norm_ne_null (t : Ty) (d d' : Doc) (ht : isOpt t = false) (h : norm t d = some d') : d' ≠ .null := by
  cases t <;> simp [isOpt] at ht <;> cases d <;> simp [norm] at h <;> (try (subst h; simp))
  all_goals first
    | (obtain ⟨_, _, rfl⟩ := h; simp)
    | (obtain ⟨_, rfl⟩ := h; simp)
    | skip
  obtain ⟨s, n, rfl, _⟩ := normDuration_shape _ _ h
  simp

theorem fieldValue_wf (name : Key) (t : Ty) (dflt : Option (List Char)) (kv : List (Key × Doc))
    (hsound : ∀ d0 d', norm t d0 = some d' → wf t d' = true) :
    ∀ d', (match lookup name kv with
          | some d => norm t d
          | none => match dflt with
            | some s => some (Doc.str s)
            | none => if isOpt t then some Doc.null else none) = some d' →
      (dflt.isNone = true ∨ isStrTy t = true) → wf t d' = true := by
  intro d' hv hdf
  cases hl : lookup name kv with
  | some d0 => rw [hl] at hv; exact hsound d0 d' hv
  | none =>
    rw [hl] at hv
    cases dflt with
    | some s =>
      simp only [Option.some.injEq] at hv; subst hv
      have : isStrTy t = true := by simpa using hdf
      cases t <;> simp [isStrTy] at this
      simp [wf]
    | none =>
      simp only at hv
      split at hv
      · rename_i hopt; cases hv
        cases t <;> simp [isOpt] at hopt
        simp [wf]
      · cases hv

mutual
  theorem norm_sound : ∀ (t : Ty) (d d' : Doc), tyOk' t = true → norm t d = some d' → wf t d' = true
    | .bool, d, d', _, h => by cases d <;> simp [norm] at h; subst h; simp [wf]
    | .uint max, d, d', _, h => by
      cases d <;> simp [norm] at h
      obtain ⟨h1, rfl⟩ := h; simp [wf, h1]
    | .sint lo hi, d, d', _, h => by
      cases d <;> simp [norm] at h
      obtain ⟨h1, rfl⟩ := h; simp [wf, h1]
    | .f64, d, d', _, h => by cases d <;> simp [norm] at h <;> (subst h; simp [wf])
    | .str, d, d', _, h => by cases d <;> simp [norm] at h; subst h; simp [wf]
    | .opt t, d, d', ho, h => by
      simp only [tyOk', Bool.and_eq_true, Bool.not_eq_true'] at ho
      by_cases hd : d = .null
      · subst hd; simp [norm] at h; subst h; simp [wf]
      · have h' : norm t d = some d' := by
          rw [norm] at h; exact h
          intro e; exact hd e
        have ih := norm_sound t d d' ho.1 h'
        have hn := norm_ne_null t d d' ho.2 h'
        rw [wf]; exact ih
        intro e; exact hn e
    | .seq t, d, d', ho, h => by
      simp only [tyOk'] at ho
      cases d <;> simp [norm] at h
      · subst h; simp [wf, wfList]
      · obtain ⟨l', hl, rfl⟩ := h
        simp [wf, normList_sound t _ l' ho hl]
    | .strSet, d, d', _, h => by
      cases d <;> simp [norm] at h
      · subst h; simp [wf, allStr, sortedStr]
      · obtain ⟨ks, _, rfl⟩ := h
        simp [wf, allStr_map, sortStr_is_sorted]
    | .map t, d, d', ho, h => by
      simp only [tyOk'] at ho
      cases d <;> simp [norm] at h
      · subst h; simp [wf, sortedKV, wfVals]
      · obtain ⟨r, hr, rfl⟩ := h
        simp [wf, sortKV_is_sorted, sortKV_wfVals t r (normVals_sound t _ r ho hr)]
    | .duration, d, d', _, h => by
      cases d <;> simp [norm] at h
      obtain ⟨s, n, rfl, h1, h2, h3, h4⟩ := normDuration_shape _ _ h
      simp [wf, h1, h2, h3, h4]
    | .struct fs, d, d', ho, h => by
      simp only [tyOk'] at ho
      cases d <;> simp [norm] at h
      · obtain ⟨r, hr, rfl⟩ := h
        simp [wf, normFields_sound fs [] r ho hr]
      · obtain ⟨r, hr, rfl⟩ := h
        simp [wf, normFields_sound fs _ r ho hr]
  theorem normList_sound : ∀ (t : Ty) (l l' : List Doc), tyOk' t = true → normList t l = some l' → wfList t l' = true
    | _, [], l', _, h => by simp [normList] at h; subst h; simp [wfList]
    | t, d :: r, l', ho, h => by
      unfold normList at h
      split at h
      · rename_i d' r' hd hr
        cases h
        simp [wfList, norm_sound t d d' ho hd, normList_sound t r r' ho hr]
      · cases h
  theorem normVals_sound : ∀ (t : Ty) (kv r : List (Key × Doc)), tyOk' t = true → normVals t kv = some r →
      wfVals t r = true
    | _, [], r, _, h => by simp [normVals] at h; subst h; simp [wfVals]
    | t, (k, d) :: kv, r, ho, h => by
      unfold normVals at h
      split at h
      · rename_i d' r' hd hr
        cases h
        simp [wfVals, norm_sound t d d' ho hd, normVals_sound t kv r' ho hr]
      · cases h
  theorem normFields_sound : ∀ (fs : Fields) (kv r : List (Key × Doc)), fieldsOk' fs = true →
      normFields fs kv = some r → wfFields fs r = true
    | .nil, _, r, _, h => by simp [normFields] at h; subst h; simp [wfFields]
    | .cons name t skipNone dflt rest, kv, r, ho, h => by
      simp only [fieldsOk', Bool.and_eq_true, Bool.not_eq_true', List.contains_eq_mem, decide_eq_false_iff_not,
        Bool.or_eq_true] at ho
      obtain ⟨⟨⟨⟨hot, hname⟩, hskip⟩, hdf⟩, hor⟩ := ho
      have hval := fun d' hv => fieldValue_wf name t dflt kv (fun d0 d' hh => norm_sound t d0 d' hot hh) d' hv hdf
      unfold normFields at h
      simp only at h
      split at h
      · -- value is null
        rename_i r' hv hr
        have ih := normFields_sound rest kv r' hor hr
        have hwv := hval _ hv
        split at h
        · -- skipped
          rename_i hs
          cases h
          have hopt : isOpt t = true := by rcases hskip with h1 | h1 <;> simp_all
          have hdn : dflt.isNone = true := by
            rcases hdf with h1 | h1
            · exact h1
            · cases t <;> simp [isOpt] at hopt <;> simp [isStrTy] at h1
          cases r with
          | nil => simp [wfFields, hs, hopt, hdn, ih]
          | cons p r2 =>
            obtain ⟨k, v⟩ := p
            have hk : k ≠ name := by
              intro e
              have := normFields_keys rest kv _ hr k (by simp [keysOf])
              exact hname (e ▸ this)
            simp [wfFields, hk, hs, hopt, hdn, ih]
        · rename_i hs
          cases h
          have hs' : skipNone = false := by simpa using hs
          simp [wfFields, hwv, hs', ih]
      · rename_i d r' hnn hv hr
        have ih := normFields_sound rest kv r' hor hr
        have hwv := hval _ hv
        cases h
        have hnull : isNull d = false := by
          cases d <;> simp [isNull]
          exact hnn rfl
        simp [wfFields, hwv, hnull, ih]
      · cases h
end

end OpcuaVerif.C41
