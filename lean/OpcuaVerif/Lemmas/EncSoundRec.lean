import OpcuaVerif.Lemmas.EncSound

/-! Soundness of the limits for the recursive family, by induction on the fuel, for every
`cap`, both lock variants and every input. -/
namespace OpcuaVerif.Enc
set_option linter.unusedSimpArgs false

theorem InVs_of_forall (o : Opts) (vs : List V) (h : ∀ v ∈ vs, InV o v) : InVs o vs := by
  induction vs with
  | nil => simp [InVs]
  | cons v vs ih =>
    unfold InVs
    exact ⟨h v (by simp), ih (fun w hw => h w (by simp [hw]))⟩

theorem sound_all (o : Opts) (cap : Nat) (lk : Bool) : ∀ fuel,
    (∀ d b, (decV o cap lk fuel d b).All (InV o))
    ∧ (∀ d em b, (decVal o cap lk fuel d em b).All (InV o))
    ∧ (∀ d b, (decDV o cap lk fuel d b).All (InDV o))
    ∧ (∀ d b, (decDI o cap lk fuel d b).All (InDI o)) := by
  intro fuel
  induction fuel with
  | zero => simp [decV, decVal, decDV, decDI, Res.All]
  | succ f ih =>
    obtain ⟨ihV, ihVal, ihDV, ihDI⟩ := ih
    refine ⟨?_, ?_, ?_, ?_⟩
    · intro d b
      cases b with
      | nil => simp [decV, Res.All]
      | cons m0 b =>
        simp only [decV]
        split
        · -- array
          split
          · trivial
          · rename_i n b' _
            split
            · trivial
            split
            · apply Res.all_ite
              · trivial
              · simp [Res.All, InV, InVs, InDims]
            split
            · trivial
            rename_i hmax
            unfold guardAlloc
            split
            · trivial
            refine Res.all_bind (decList_all (InV o) _ (ihVal d _) n b') (fun vals b'' hv => ?_)
            have hIn : vals.length ≤ o.maxArr ∧ InVs o vals := ⟨by omega, InVs_of_forall o vals hv.2⟩
            split
            · trivial
            split
            · refine Res.all_bind (decDimArray_all o cap b'') (fun dims b3 hd => ?_)
              split
              · exact ⟨hIn.1, hIn.2, hd⟩
              · trivial
            split
            · trivial
            · exact ⟨hIn.1, hIn.2, trivial⟩
        · split
          · trivial
          · exact ihVal d _ b
    · intro d em b
      simp only [decVal]
      repeat' apply Res.all_ite
      · trivial
      · exact Res.all_map (decScalar_all o cap d em b) (fun _ h => h)
      · trivial
      · exact Res.all_map (ihV (d + 1) b) (fun _ h => h)
      · exact Res.all_map (ihDV d b) (fun _ h => h)
      · exact Res.all_map (ihDI d b) (fun _ h => h)
      · trivial
    · intro d b
      simp only [decDV]
      apply Res.all_ite
      · trivial
      cases b with
      | nil => trivial
      | cons m b =>
        simp only []
        apply Res.all_ite
        · exact Res.all_bind (ihV _ b) (fun v b hv => Res.all_map (Res.all_true _) (fun _ _ => hv))
        · exact Res.all_map (Res.all_true _) (fun _ _ => trivial)
    · intro d b
      simp only [decDI]
      apply Res.all_ite
      · trivial
      cases b with
      | nil => trivial
      | cons m b =>
        simp only []
        refine Res.all_bind (decDIF_all o cap m b) (fun fl b hf => ?_)
        apply Res.all_ite
        · exact Res.all_map (ihDI _ b) (fun i hi => ⟨hf, hi⟩)
        · exact hf

end OpcuaVerif.Enc
