import OpcuaVerif.Model.Enc

/-!
Specification-side definitions for the codec properties (C01, C02, C03): which values are
*valid* under given decoding options (`WF…`), the documented normalisations (`norm…`), the
"within the limits" predicate (`Within…`) and the native stack a value needs (`fr…`).
None of this is executed by the driver.
-/
namespace OpcuaVerif.Enc

/-- the allocation budget covers every request the limits allow -/
def CapOK (o : Opts) (cap : Nat) : Prop := o.maxStr ≤ cap ∧ o.maxBytes ≤ cap ∧ o.maxArr ≤ cap

/-! ### valid values -/

def WFStr (o : Opts) : UAStr → Prop
  | none => True
  | some s => s.length ≤ o.maxStr ∧ s.length < 2147483648 ∧ utf8Valid s = true

def WFBStr (o : Opts) : Option Bytes → Prop
  | none => True
  | some s => s.length ≤ o.maxBytes ∧ s.length < 2147483648

def WFIdent (o : Opts) : NodeIdent → Prop
  | .num v => v < 4294967296
  | .str s => WFStr o s
  | .guid g => g.length = 16
  | .bstr s => WFBStr o s

def WFNodeId (o : Opts) (n : NodeId) : Prop := n.ns < 65536 ∧ WFIdent o n.id

def WFBody (o : Opts) : EoBody → Prop
  | .none => True
  | .bstr s => WFBStr o s
  | .xml s => WFStr o s

/-- `d` = number of depth locks held where the scalar is decoded -/
def WFScalar (o : Opts) (d : Nat) : Scalar → Prop
  | .bool _ => True
  | .sbyte i => -128 ≤ i ∧ i < 128
  | .byte n => n < 256
  | .int16 i => -32768 ≤ i ∧ i < 32768
  | .uint16 n => n < 65536
  | .int32 i => -2147483648 ≤ i ∧ i < 2147483648
  | .uint32 n => n < 4294967296
  | .int64 i => -9223372036854775808 ≤ i ∧ i < 9223372036854775808
  | .uint64 n => n < 18446744073709551616
  | .float n => n < 4294967296
  | .double n => n < 18446744073709551616
  | .str s => WFStr o s
  | .dateTime _ => True
  | .guid g => g.length = 16
  | .bstr s => WFBStr o s
  | .xml s => WFStr o s
  | .nodeId n => WFNodeId o n
  | .expNodeId n => WFNodeId o n.node ∧ WFStr o n.uri ∧ n.server < 4294967296
  | .status n => n < 4294967296
  | .qname ns name => ns < 65536 ∧ WFStr o name
  | .ltext l t => WFStr o l ∧ WFStr o t
  | .extObj e => d < o.maxDepth ∧ WFNodeId o e.node ∧ WFBody o e.body

def WFOpt {α : Type} (p : α → Prop) : Option α → Prop
  | none => True
  | some x => p x

def WFDVRest (r : DVRest) : Prop :=
  WFOpt (· < 4294967296) r.status ∧ WFOpt (· < 65536) r.srcPs ∧ WFOpt (· < 65536) r.srvPs

def I32 (i : Int) : Prop := -2147483648 ≤ i ∧ i < 2147483648

def WFDIF (o : Opts) (f : DIF) : Prop :=
  WFOpt I32 f.symbolic ∧ WFOpt I32 f.ns ∧ WFOpt I32 f.locale ∧ WFOpt I32 f.ltext
  ∧ WFOpt (WFStr o) f.addInfo ∧ WFOpt (· < 4294967296) f.innerStatus

def dimsProd : List Nat → Nat
  | [] => 1
  | x :: xs => x * dimsProd xs

def AllPos : List Nat → Prop
  | [] => True
  | x :: xs => 1 ≤ x ∧ AllPos xs

/-- dimensions of an array of `n > 0` values: at most `maxArr` of them, none zero, their product
is the number of values (and fewer than 2^31 of them, the length is an `i32`).  (An array without values may carry any dimensions: they are not
encoded.) -/
def WFDims (o : Opts) (n : Nat) : Option (List Nat) → Prop
  | none => True
  | some ds => n = 0 ∨ (ds.length ≤ o.maxArr ∧ ds.length < 2147483648 ∧ AllPos ds ∧ dimsProd ds = n)

mutual
/-- `WFV o d v`: `v` is a valid Variant that the decoder accepts under `o` with `d` locks held:
ranges, lengths within the limits, nesting within the depth limit, arrays homogeneous, of a
built-in element type, without nested arrays, dimensions consistent. -/
def WFV (o : Opts) : Nat → V → Prop
  | _, .empty => True
  | d, .sc s => WFScalar o d s
  | d, .var v => d < o.maxDepth ∧ WFV o (d + 1) v
  | d, .dv x => WFDV o d x
  | d, .di x => WFDI o d x
  | d, .arr ty elems dims =>
    1 ≤ ty ∧ ty ≤ 25 ∧ elems.length ≤ o.maxArr ∧ elems.length < 2147483648
      ∧ WFElems o d ty elems ∧ WFDims o elems.length dims
def WFElems (o : Opts) : Nat → Nat → List V → Prop
  | _, _, [] => True
  | d, ty, v :: vs => v.tid = ty ∧ WFV o d v ∧ WFElems o d ty vs
def WFDV (o : Opts) : Nat → DV → Prop
  | d, .mk0 r => d < o.maxDepth ∧ WFDVRest r
  | d, .mk1 v r => d < o.maxDepth ∧ WFV o (d + 1) v ∧ WFDVRest r
def WFDI (o : Opts) : Nat → DI → Prop
  | d, .leaf f => d < o.maxDepth ∧ WFDIF o f
  | d, .nest f i => d < o.maxDepth ∧ WFDIF o f ∧ WFDI o (d + 1) i
end

/-! ### documented normalisations -/

/-- null vs empty LocalizedText part -/
def normStr : UAStr → UAStr
  | none => none
  | some s => if s.isEmpty then none else some s

/-- DateTime clamped to 1601-01-01 .. 9999-12-31T23:59:59 -/
def clampDt (t : Int) : Int := if t < 0 then 0 else if t > endTicks then endTicks else t

def normScalar : Scalar → Scalar
  | .dateTime t => .dateTime (clampDt t)
  | .ltext l t => .ltext (normStr l) (normStr t)
  | s => s

/-- picoseconds dropped without their timestamp; timestamps clamped -/
def normDVRest (r : DVRest) : DVRest :=
  { status := r.status, srcTs := r.srcTs.map clampDt, srcPs := if r.srcTs.isSome then r.srcPs else none,
    srvTs := r.srvTs.map clampDt, srvPs := if r.srvTs.isSome then r.srvPs else none }

mutual
def normV : V → V
  | .empty => .empty
  | .sc s => .sc (normScalar s)
  | .var v => .var (normV v)
  | .dv d => .dv (normDV d)
  | .di d => .di d
  /- an array without values comes back with empty dimensions -/
  | .arr ty elems dims => .arr ty (normVs elems) (if elems.isEmpty then some [] else dims)
def normVs : List V → List V
  | [] => []
  | v :: vs => normV v :: normVs vs
def normDV : DV → DV
  | .mk0 r => .mk0 (normDVRest r)
  | .mk1 v r => .mk1 (normV v) (normDVRest r)
end

/-! ### native stack a value needs (frames of the recursive decoder family) -/

mutual
def frV : V → Nat
  | .empty => 2
  | .sc _ => 2
  | .var v => 2 + frV v
  | .dv d => 2 + frDV d
  | .di d => 2 + frDI d
  | .arr _ elems _ => 2 + frVals elems
def frVals : List V → Nat
  | [] => 0
  | v :: vs => frV v + frVals vs
def frDV : DV → Nat
  | .mk0 _ => 1
  | .mk1 v _ => 1 + frV v
def frDI : DI → Nat
  | .leaf _ => 1
  | .nest _ i => 1 + frDI i
end

/-! ### "within the limits": what a decoder may hand out -/

def InStr (o : Opts) : UAStr → Prop
  | none => True
  | some s => s.length ≤ o.maxStr

def InBStr (o : Opts) : Option Bytes → Prop
  | none => True
  | some s => s.length ≤ o.maxBytes

def InIdent (o : Opts) : NodeIdent → Prop
  | .str s => InStr o s
  | .bstr s => InBStr o s
  | _ => True

def InBody (o : Opts) : EoBody → Prop
  | .none => True
  | .bstr s => InBStr o s
  | .xml s => InStr o s

def InScalar (o : Opts) : Scalar → Prop
  | .str s => InStr o s
  | .bstr s => InBStr o s
  | .xml s => InStr o s
  | .nodeId n => InIdent o n.id
  | .expNodeId n => InIdent o n.node.id ∧ InStr o n.uri
  | .qname _ name => InStr o name
  | .ltext l t => InStr o l ∧ InStr o t
  | .extObj e => InIdent o e.node.id ∧ InBody o e.body
  | _ => True

def InDims (o : Opts) : Option (List Nat) → Prop
  | none => True
  | some ds => ds.length ≤ o.maxArr

mutual
/-- every string, byte string, array and dimension array anywhere in the value is within its limit -/
def InV (o : Opts) : V → Prop
  | .empty => True
  | .sc s => InScalar o s
  | .var v => InV o v
  | .dv d => InDV o d
  | .di d => InDI o d
  | .arr _ elems dims => elems.length ≤ o.maxArr ∧ InVs o elems ∧ InDims o dims
def InVs (o : Opts) : List V → Prop
  | [] => True
  | v :: vs => InV o v ∧ InVs o vs
def InDV (o : Opts) : DV → Prop
  | .mk0 _ => True
  | .mk1 v _ => InV o v
def InDI (o : Opts) : DI → Prop
  | .leaf f => WFOpt (InStr o) f.addInfo
  | .nest f i => WFOpt (InStr o) f.addInfo ∧ InDI o i
end

end OpcuaVerif.Enc
