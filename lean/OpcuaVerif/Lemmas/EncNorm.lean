import OpcuaVerif.Lemmas.EncSpec

/-! The normalisation is idempotent and keeps values valid. -/
namespace OpcuaVerif.Enc
set_option linter.unusedSimpArgs false

theorem normStr_idem (s : UAStr) : normStr (normStr s) = normStr s := by
  cases s with
  | none => rfl
  | some s =>
    by_cases h : s.isEmpty
    · simp [normStr, h]
    · simp [normStr, h]

theorem clampDt_idem (t : Int) : clampDt (clampDt t) = clampDt t := by
  unfold clampDt endTicks
  split
  · simp
  · split
    · simp
    · rename_i h1 h2; simp [h1, h2]

theorem normScalar_idem (s : Scalar) : normScalar (normScalar s) = normScalar s := by
  cases s <;> simp [normScalar, normStr_idem, clampDt_idem]

theorem normDVRest_idem (r : DVRest) : normDVRest (normDVRest r) = normDVRest r := by
  obtain ⟨status, srcTs, srcPs, srvTs, srvPs⟩ := r
  cases srcTs <;> cases srvTs <;> simp [normDVRest, clampDt_idem]

theorem normVs_isEmpty (xs : List V) : (normVs xs).isEmpty = xs.isEmpty := by
  cases xs <;> simp [normVs]

theorem normVs_length (xs : List V) : (normVs xs).length = xs.length := by
  induction xs with
  | nil => simp [normVs]
  | cons x xs ih => simp [normVs, ih]

mutual
theorem normV_idem (x : V) : normV (normV x) = normV x := by
  cases x with
  | empty => simp [normV]
  | sc s => simp [normV, normScalar_idem]
  | var v => simp [normV, normV_idem v]
  | dv d => simp [normV, normDV_idem d]
  | di d => simp [normV]
  | arr ty elems dims =>
    simp only [normV, normVs_idem elems, normVs_isEmpty]
    cases elems <;> simp
theorem normVs_idem (xs : List V) : normVs (normVs xs) = normVs xs := by
  cases xs with
  | nil => simp [normVs]
  | cons x xs => simp [normVs, normV_idem x, normVs_idem xs]
theorem normDV_idem (x : DV) : normDV (normDV x) = normDV x := by
  cases x with
  | mk0 r => simp [normDV, normDVRest_idem]
  | mk1 v r => simp [normDV, normDVRest_idem, normV_idem v]
end

/-! a normalised value is still valid -/

theorem WFStr_norm (o : Opts) (s : UAStr) (h : WFStr o s) : WFStr o (normStr s) := by
  cases s with
  | none => trivial
  | some s =>
    by_cases he : s.isEmpty
    · simp [normStr, he, WFStr]
    · simpa [normStr, he] using h

theorem WFScalar_norm (o : Opts) (d : Nat) (s : Scalar) (h : WFScalar o d s) : WFScalar o d (normScalar s) := by
  cases s with
  | ltext l t => exact ⟨WFStr_norm o l h.1, WFStr_norm o t h.2⟩
  | dateTime t => trivial
  | _ => exact h

theorem WFDVRest_norm (r : DVRest) (h : WFDVRest r) : WFDVRest (normDVRest r) := by
  obtain ⟨status, srcTs, srcPs, srvTs, srvPs⟩ := r
  obtain ⟨h1, h2, h3⟩ := h
  cases srcTs <;> cases srvTs <;> simp_all [normDVRest, WFDVRest, WFOpt]

theorem normV_tid (x : V) : (normV x).tid = x.tid := by
  cases x with
  | sc s => cases s <;> simp [normV, V.tid, normScalar, Scalar.tid]
  | _ => simp [normV, V.tid]

mutual
theorem WFV_norm (o : Opts) (x : V) : ∀ d, WFV o d x → WFV o d (normV x) := by
  cases x with
  | empty => intro d _; simp [normV, WFV]
  | sc s => intro d h; unfold WFV at h; simp only [normV, WFV]; exact WFScalar_norm o d s h
  | var v => intro d h; unfold WFV at h; simp only [normV, WFV]; exact ⟨h.1, WFV_norm o v (d + 1) h.2⟩
  | dv x => intro d h; unfold WFV at h; simp only [normV, WFV]; exact WFDV_norm o x d h
  | di x => intro d h; simpa [normV] using h
  | arr ty elems dims =>
    intro d h
    unfold WFV at h
    obtain ⟨h1, h2, h3, h4, h5, h6⟩ := h
    simp only [normV, WFV, normVs_length]
    refine ⟨h1, h2, h3, h4, WFElems_norm o elems d ty h5, ?_⟩
    cases elems with
    | nil => simp [WFDims]
    | cons x xs => simpa using h6
theorem WFElems_norm (o : Opts) (xs : List V) : ∀ d ty, WFElems o d ty xs → WFElems o d ty (normVs xs) := by
  cases xs with
  | nil => intro d ty _; simp [normVs, WFElems]
  | cons x xs =>
    intro d ty h
    unfold WFElems at h
    simp only [normVs, WFElems]
    exact ⟨by rw [normV_tid]; exact h.1, WFV_norm o x d h.2.1, WFElems_norm o xs d ty h.2.2⟩
theorem WFDV_norm (o : Opts) (x : DV) : ∀ d, WFDV o d x → WFDV o d (normDV x) := by
  cases x with
  | mk0 r => intro d h; unfold WFDV at h; simp only [normDV, WFDV]; exact ⟨h.1, WFDVRest_norm r h.2⟩
  | mk1 v r =>
    intro d h; unfold WFDV at h; simp only [normDV, WFDV]
    exact ⟨h.1, WFV_norm o v (d + 1) h.2.1, WFDVRest_norm r h.2.2⟩
end

end OpcuaVerif.Enc
