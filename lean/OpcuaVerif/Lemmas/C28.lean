import OpcuaVerif.Model.C28
namespace OpcuaVerif.C28

namespace AMap
variable {V : Type}

theorem get_del (m : AMap V) (k x : Nat) : (del m k).get x = if x = k then none else m.get x := by
  induction m with
  | nil => simp [del, get]
  | cons e r ih =>
    obtain ⟨k', v⟩ := e
    unfold del at ih ⊢
    by_cases h : k' = k
    · subst h
      simp only [List.filter, bne_self_eq_false, get]
      rw [ih]; split
      · rfl
      · rename_i hx; rw [if_neg (fun h => hx h.symm)]
    · have : (k' != k) = true := by simp [h]
      simp only [List.filter, this, get]
      rw [ih]
      by_cases hx : k' = x
      · subst hx; simp [h]
      · simp [hx]

theorem get_set (m : AMap V) (k x : Nat) (v : V) :
    (set m k v).get x = if x = k then some v else m.get x := by
  unfold set
  simp only [get, get_del]
  by_cases h : k = x
  · subst h; simp
  · have : ¬ x = k := fun e => h e.symm
    simp [h, this]

end AMap

/-! ### The functional view of the two maps -/

/-- the references held by `a` (empty when `a` has no entry) -/
def fwdL (s : Refs) (a : Nat) : List (Nat × Nat) := (s.fwd.get a).getD []
/-- the nodes recorded as referring to `b` -/
def invL (s : Refs) (b : Nat) : List Nat := (s.inv.get b).getD []

/-- no map entry holds an empty collection (the real code removes such entries) -/
def NoEmpty (s : Refs) : Prop :=
  (∀ a l, s.fwd.get a = some l → l ≠ []) ∧ (∀ b l, s.inv.get b = some l → l ≠ [])

theorem mem_dedup (x : Nat) (l : List Nat) : x ∈ dedup l ↔ x ∈ l := by
  induction l with
  | nil => simp [dedup]
  | cons y r ih =>
    unfold dedup
    split
    · rename_i h
      have hy : y ∈ r := by simpa using h
      rw [ih]; constructor
      · intro h; exact List.mem_cons_of_mem _ h
      · intro h; cases h with
        | head => exact hy
        | tail _ h => exact h
    · simp [ih]

theorem fwdL_unrefOne (s : Refs) (c n x : Nat) :
    fwdL (unrefOne s c n) x = if x = c then (fwdL s c).filter (fun r => r.2 != n) else fwdL s x := by
  unfold unrefOne fwdL
  split
  · rename_i l hl
    simp only []
    split
    · rename_i he
      simp only [AMap.get_del, hl, Option.getD_some]
      split
      · simp at he ⊢; exact he
      · rfl
    · simp only [AMap.get_set, hl, Option.getD_some]
      split <;> rfl
  · rename_i hn
    split
    · rename_i hx; subst hx; simp [hn]
    · rfl

theorem inv_unrefOne (s : Refs) (c n : Nat) : (unrefOne s c n).inv = s.inv := by
  unfold unrefOne; split
  · simp only []; split <;> rfl
  · rfl

theorem invL_unlinkOne (s : Refs) (c n x : Nat) :
    invL (unlinkOne s c n) x = if x = c then (invL s c).filter (fun y => y != n) else invL s x := by
  unfold unlinkOne invL
  split
  · rename_i l hl
    simp only []
    split
    · rename_i he
      simp only [AMap.get_del, hl, Option.getD_some]
      split
      · simp at he ⊢; exact he
      · rfl
    · simp only [AMap.get_set, hl, Option.getD_some]
      split <;> rfl
  · rename_i hn
    split
    · rename_i hx; subst hx; simp [hn]
    · rfl

theorem fwd_unlinkOne (s : Refs) (c n : Nat) : (unlinkOne s c n).fwd = s.fwd := by
  unfold unlinkOne; split
  · simp only []; split <;> rfl
  · rfl


theorem noEmpty_unrefOne (s : Refs) (c n : Nat) (h : NoEmpty s) : NoEmpty (unrefOne s c n) := by
  refine ⟨?_, by rw [inv_unrefOne]; exact h.2⟩
  intro a l
  unfold unrefOne
  split
  · rename_i l0 hl
    simp only []
    split
    · simp only [AMap.get_del]; split
      · intro h'; cases h'
      · exact h.1 a l
    · rename_i hne
      simp only [AMap.get_set]; split
      · intro h'; cases h'; intro h0; rw [h0] at hne; simp at hne
      · exact h.1 a l
  · exact h.1 a l

theorem noEmpty_unlinkOne (s : Refs) (c n : Nat) (h : NoEmpty s) : NoEmpty (unlinkOne s c n) := by
  refine ⟨by rw [fwd_unlinkOne]; exact h.1, ?_⟩
  intro a l
  unfold unlinkOne
  split
  · rename_i l0 hl
    simp only []
    split
    · simp only [AMap.get_del]; split
      · intro h'; cases h'
      · exact h.2 a l
    · rename_i hne
      simp only [AMap.get_set]; split
      · intro h'; cases h'; intro h0; rw [h0] at hne; simp at hne
      · exact h.2 a l
  · exact h.2 a l

theorem fwdL_unlinkOne (s : Refs) (c n x : Nat) : fwdL (unlinkOne s c n) x = fwdL s x := by
  unfold fwdL; rw [fwd_unlinkOne]

theorem invL_unrefOne (s : Refs) (c n x : Nat) : invL (unrefOne s c n) x = invL s x := by
  unfold invL; rw [inv_unrefOne]

/-! ### `remove_node_from_referenced_nodes` and the lookup-only loop -/

theorem fwdL_removeFrom (cs : List Nat) (s : Refs) (n x : Nat) :
    fwdL (removeFrom s cs n) x =
      if x ∈ cs then (fwdL s x).filter (fun r => r.2 != n) else fwdL s x := by
  induction cs generalizing s with
  | nil => simp [removeFrom]
  | cons c cs ih =>
    have : removeFrom s (c :: cs) n = removeFrom (unlinkOne (unrefOne s c n) c n) cs n := rfl
    rw [this, ih]; simp only [fwdL_unlinkOne, fwdL_unrefOne]
    by_cases hx : x = c
    · subst hx; simp
    · simp [hx]

theorem invL_removeFrom (cs : List Nat) (s : Refs) (n x : Nat) :
    invL (removeFrom s cs n) x =
      if x ∈ cs then (invL s x).filter (fun y => y != n) else invL s x := by
  induction cs generalizing s with
  | nil => simp [removeFrom]
  | cons c cs ih =>
    have : removeFrom s (c :: cs) n = removeFrom (unlinkOne (unrefOne s c n) c n) cs n := rfl
    rw [this, ih, invL_unlinkOne]; simp only [invL_unrefOne]
    by_cases hx : x = c
    · subst hx; simp
    · simp [hx]

theorem noEmpty_removeFrom (cs : List Nat) (s : Refs) (n : Nat) (h : NoEmpty s) :
    NoEmpty (removeFrom s cs n) := by
  induction cs generalizing s with
  | nil => exact h
  | cons c cs ih => exact ih _ (noEmpty_unlinkOne _ c n (noEmpty_unrefOne s c n h))

theorem fwd_unlinkFrom (cs : List Nat) (s : Refs) (n : Nat) : (unlinkFrom s cs n).fwd = s.fwd := by
  induction cs generalizing s with
  | nil => rfl
  | cons c cs ih =>
    have : unlinkFrom s (c :: cs) n = unlinkFrom (unlinkOne s c n) cs n := rfl
    rw [this, ih, fwd_unlinkOne]

theorem invL_unlinkFrom (cs : List Nat) (s : Refs) (n x : Nat) :
    invL (unlinkFrom s cs n) x =
      if x ∈ cs then (invL s x).filter (fun y => y != n) else invL s x := by
  induction cs generalizing s with
  | nil => simp [unlinkFrom]
  | cons c cs ih =>
    have : unlinkFrom s (c :: cs) n = unlinkFrom (unlinkOne s c n) cs n := rfl
    rw [this, ih, invL_unlinkOne]
    by_cases hx : x = c
    · subst hx; simp
    · simp [hx]

theorem noEmpty_unlinkFrom (cs : List Nat) (s : Refs) (n : Nat) (h : NoEmpty s) :
    NoEmpty (unlinkFrom s cs n) := by
  induction cs generalizing s with
  | nil => exact h
  | cons c cs ih => exact ih _ (noEmpty_unlinkOne s c n h)

/-! ### The abstract state and the invariant -/

/-- the abstract state: the set of references (source, type, target) -/
def R (s : Refs) (a t b : Nat) : Prop := (t, b) ∈ fwdL s a

instance (s : Refs) (a t b : Nat) : Decidable (R s a t b) := by unfold R; infer_instance

/-- the reverse lookup is exactly the set of nodes holding a reference to the key, and no entry is
empty -/
structure Inv (s : Refs) : Prop where
  ne : NoEmpty s
  complete : ∀ a t b, R s a t b → a ∈ invL s b
  exact : ∀ a b, a ∈ invL s b → ∃ t, R s a t b

theorem fwdL_insertRef {s s' : Refs} {a b t : Nat} (h : insertRef s a b t = some s') (x : Nat) :
    fwdL s' x = if x = a then (if (t, b) ∈ fwdL s a then fwdL s a else fwdL s a ++ [(t, b)])
      else fwdL s x := by
  unfold insertRef at h
  split at h
  · cases h
  · cases h
    unfold fwdL
    simp only []
    cases hg : s.fwd.get a with
    | none =>
      simp only [AMap.get_set, Option.getD_none]
      split <;> simp
    | some l =>
      simp only [Option.getD_some, List.contains_iff_mem]
      by_cases hm : (t, b) ∈ l
      · simp only [hm, if_true]
        split
        · rename_i hx; subst hx; simp [hg]
        · rfl
      · simp only [hm, if_false, AMap.get_set]
        split <;> simp

theorem invL_insertRef {s s' : Refs} {a b t : Nat} (h : insertRef s a b t = some s') (x : Nat) :
    invL s' x = if x = b then (if a ∈ invL s b then invL s b else invL s b ++ [a])
      else invL s x := by
  unfold insertRef at h
  split at h
  · cases h
  · cases h
    unfold invL
    simp only []
    cases hg : s.inv.get b with
    | none =>
      simp only [AMap.get_set, Option.getD_none]
      split <;> simp
    | some l =>
      simp only [Option.getD_some, List.contains_iff_mem]
      by_cases hm : a ∈ l
      · simp only [hm, if_true]
        split
        · rename_i hx; subst hx; simp [hg]
        · rfl
      · simp only [hm, if_false, AMap.get_set]
        split <;> simp

theorem insertRef_isSome (s : Refs) (a b t : Nat) : (insertRef s a b t).isSome = true ↔ a ≠ b := by
  unfold insertRef; split <;> simp [*]

/-- `insert_reference` adds exactly the one reference -/
theorem R_insertRef {s s' : Refs} {a b t : Nat} (h : insertRef s a b t = some s') (x u y : Nat) :
    R s' x u y ↔ R s x u y ∨ (x = a ∧ u = t ∧ y = b) := by
  unfold R
  rw [fwdL_insertRef h]
  by_cases hx : x = a
  · subst hx
    simp only [if_true]
    split
    · rename_i hm
      constructor
      · intro h; exact Or.inl h
      · rintro (h | ⟨-, rfl, rfl⟩)
        · exact h
        · exact hm
    · simp
  · simp [hx]


theorem noEmpty_insertRef {s s' : Refs} {a b t : Nat} (h : insertRef s a b t = some s')
    (hn : NoEmpty s) : NoEmpty s' := by
  unfold insertRef at h
  split at h
  · cases h
  · cases h
    constructor
    · intro x l
      simp only []
      cases hg : s.fwd.get a with
      | none =>
        simp only [AMap.get_set]; split
        · intro h; cases h; simp
        · exact hn.1 x l
      | some l0 =>
        simp only []
        split
        · exact hn.1 x l
        · simp only [AMap.get_set]; split
          · intro h; cases h; simp
          · exact hn.1 x l
    · intro x l
      simp only []
      cases hg : s.inv.get b with
      | none =>
        simp only [AMap.get_set]; split
        · intro h; cases h; simp
        · exact hn.2 x l
      | some l0 =>
        simp only []
        split
        · exact hn.2 x l
        · simp only [AMap.get_set]; split
          · intro h; cases h; simp
          · exact hn.2 x l

theorem inv_insertRef {s s' : Refs} {a b t : Nat} (h : insertRef s a b t = some s')
    (hi : Inv s) : Inv s' := by
  refine ⟨noEmpty_insertRef h hi.ne, ?_, ?_⟩
  · intro x u y hr
    rw [R_insertRef h] at hr
    rw [invL_insertRef h]
    rcases hr with hr | ⟨rfl, rfl, rfl⟩
    · have := hi.complete x u y hr
      split
      · rename_i hy; subst hy; split
        · exact this
        · exact List.mem_append_left _ this
      · exact this
    · simp only [if_true]; split
      · assumption
      · simp
  · intro x y hm
    rw [invL_insertRef h] at hm
    by_cases hy : y = b
    · subst hy
      simp only [if_true] at hm
      by_cases hx : x = a
      · subst hx; exact ⟨t, (R_insertRef h _ _ _).2 (Or.inr ⟨rfl, rfl, rfl⟩)⟩
      · have : x ∈ invL s y := by
          split at hm
          · exact hm
          · simpa [hx] using hm
        obtain ⟨u, hu⟩ := hi.exact x y this
        exact ⟨u, (R_insertRef h _ _ _).2 (Or.inl hu)⟩
    · simp only [hy, if_false] at hm
      obtain ⟨u, hu⟩ := hi.exact x y hm
      exact ⟨u, (R_insertRef h _ _ _).2 (Or.inl hu)⟩

theorem fwdL_deleteRef (s : Refs) (a b t x : Nat) :
    fwdL (deleteRef s a b t).1 x =
      if x = a then (fwdL s a).filter (fun r => !(r.1 == t && r.2 == b)) else fwdL s x := by
  unfold deleteRef deleteRefWith
  cases hg : s.fwd.get a with
  | none =>
    simp only []
    split
    · rename_i hx; subst hx; simp [fwdL, hg]
    · rfl
  | some l =>
    simp only [Bool.false_eq_true, if_false]
    have hl : fwdL s a = l := by simp [fwdL, hg]
    rw [hl]
    split
    · rename_i he
      unfold fwdL
      simp only [fwd_unlinkFrom, AMap.get_del, AMap.get_set]
      split
      · simp at he ⊢; exact he
      · rfl
    · unfold fwdL
      simp only [fwd_unlinkFrom, AMap.get_set]
      split <;> rfl

theorem invL_deleteRef (s : Refs) (a b t x : Nat) :
    invL (deleteRef s a b t).1 x =
      if (x ∈ (fwdL s a).map (fun r => r.2) ∧
          x ∉ ((fwdL s a).filter (fun r => !(r.1 == t && r.2 == b))).map (fun r => r.2))
      then (invL s x).filter (fun y => y != a) else invL s x := by
  unfold deleteRef deleteRefWith
  cases hg : s.fwd.get a with
  | none =>
    have hl : fwdL s a = [] := by simp [fwdL, hg]
    simp [hl]
  | some l =>
    simp only [Bool.false_eq_true, if_false]
    have hl : fwdL s a = l := by simp [fwdL, hg]
    rw [hl]
    have key : ∀ s2 : Refs, invL (if (l.filter (fun r => !(r.1 == t && r.2 == b))).isEmpty = true
        then { s2 with fwd := s2.fwd.del a } else s2) x = invL s2 x := by
      intro s2; split <;> rfl
    rw [key, invL_unlinkFrom]
    simp only [mem_dedup, List.mem_filter, Bool.not_eq_true', List.contains_eq_mem,
      decide_eq_false_iff_not]
    rfl


/-- `delete_reference` removes exactly the one reference: every other reference — in particular
one between the same two nodes in the opposite direction — stays -/
theorem R_deleteRef (s : Refs) (a b t x u y : Nat) :
    R (deleteRef s a b t).1 x u y ↔ R s x u y ∧ ¬ (x = a ∧ u = t ∧ y = b) := by
  unfold R
  rw [fwdL_deleteRef]
  by_cases hx : x = a
  · subst hx
    simp only [if_true, List.mem_filter]
    simp
    intro _; omega
  · simp [hx]

/-- the value returned by `delete_reference` says whether the reference existed -/
theorem deleteRef_flag (s : Refs) (a b t : Nat) : (deleteRef s a b t).2 = true ↔ R s a t b := by
  unfold deleteRef deleteRefWith R fwdL
  cases hg : s.fwd.get a with
  | none => simp
  | some l =>
    simp only [Option.getD_some, List.any_eq_true]
    constructor
    · rintro ⟨⟨u, y⟩, hm, h⟩
      simp at h; obtain ⟨rfl, rfl⟩ := h; exact hm
    · intro h; exact ⟨(t, b), h, by simp⟩

theorem inv_unlinkOne_congr (s1 s2 : Refs) (c n : Nat) (h : s1.inv = s2.inv) :
    (unlinkOne s1 c n).inv = (unlinkOne s2 c n).inv := by
  unfold unlinkOne
  rw [h]
  cases s2.inv.get c with
  | none => exact h
  | some l => simp only []; split <;> rfl

/-- the lookup-only loop never reads `fwd` -/
theorem inv_unlinkFrom_congr (cs : List Nat) (s1 s2 : Refs) (n : Nat) (h : s1.inv = s2.inv) :
    (unlinkFrom s1 cs n).inv = (unlinkFrom s2 cs n).inv := by
  induction cs generalizing s1 s2 with
  | nil => exact h
  | cons c cs ih => exact ih _ _ (inv_unlinkOne_congr s1 s2 c n h)

theorem noEmpty_deleteRef (s : Refs) (a b t : Nat) (h : NoEmpty s) : NoEmpty (deleteRef s a b t).1 := by
  unfold deleteRef deleteRefWith
  cases hg : s.fwd.get a with
  | none => exact h
  | some l =>
    simp only [Bool.false_eq_true, if_false]
    generalize l.filter (fun r => !(r.1 == t && r.2 == b)) = l'
    have h1 : ∀ x l0, (s.fwd.set a l').get x = some l0 → x ≠ a → l0 ≠ [] := by
      intro x l0; rw [AMap.get_set]; intro hx hxa; rw [if_neg hxa] at hx; exact h.1 x l0 hx
    have h2 : ∀ cs, ∀ b0 l0,
        (unlinkFrom { s with fwd := s.fwd.set a l' } cs a).inv.get b0 = some l0 → l0 ≠ [] := by
      intro cs b0 l0
      rw [inv_unlinkFrom_congr cs { s with fwd := s.fwd.set a l' } s a rfl]
      exact (noEmpty_unlinkFrom cs s a h).2 b0 l0
    split
    · rename_i he
      refine ⟨?_, h2 _⟩
      intro x l0
      simp only [fwd_unlinkFrom, AMap.get_del]
      split
      · intro h'; cases h'
      · rename_i hxa; intro hx; exact h1 x l0 hx hxa
    · rename_i he
      refine ⟨?_, h2 _⟩
      intro x l0
      simp only [fwd_unlinkFrom]
      by_cases hxa : x = a
      · subst hxa; rw [AMap.get_set, if_pos rfl]; intro h'; cases h'
        intro h0; rw [h0] at he; simp at he
      · intro hx; exact h1 x l0 hx hxa

theorem inv_deleteRef (s : Refs) (a b t : Nat) (hi : Inv s) : Inv (deleteRef s a b t).1 := by
  refine ⟨noEmpty_deleteRef s a b t hi.ne, ?_, ?_⟩
  · intro x u y hr
    have hr0 := (R_deleteRef s a b t x u y).1 hr
    have hm := hi.complete x u y hr0.1
    rw [invL_deleteRef]
    split
    · rename_i hd
      rw [List.mem_filter]
      refine ⟨hm, ?_⟩
      simp only [bne_iff_ne, ne_eq]
      intro hxa; subst hxa
      apply hd.2
      rw [List.mem_map]
      refine ⟨(u, y), ?_, rfl⟩
      have := hr; unfold R at this; rw [fwdL_deleteRef, if_pos rfl] at this; exact this
    · exact hm
  · intro x y hm
    rw [invL_deleteRef] at hm
    by_cases hxa : x = a
    · subst hxa
      split at hm
      · simp at hm
      · rename_i hd
        obtain ⟨u, hu⟩ := hi.exact x y hm
        have hb : y ∈ (fwdL s x).map (fun r => r.2) := List.mem_map.2 ⟨(u, y), hu, rfl⟩
        have : y ∈ ((fwdL s x).filter (fun r => !(r.1 == t && r.2 == b))).map (fun r => r.2) := by
          by_cases h : y ∈ ((fwdL s x).filter (fun r => !(r.1 == t && r.2 == b))).map (fun r => r.2)
          · exact h
          · exact absurd ⟨hb, h⟩ hd
        obtain ⟨⟨u', y'⟩, hu', rfl⟩ := List.mem_map.1 this
        refine ⟨u', ?_⟩
        unfold R; rw [fwdL_deleteRef, if_pos rfl]; exact hu'
    · have : x ∈ invL s y := by
        split at hm
        · exact (List.mem_filter.1 hm).1
        · exact hm
      obtain ⟨u, hu⟩ := hi.exact x y this
      exact ⟨u, (R_deleteRef s a b t x u y).2 ⟨hu, fun h => hxa h.1⟩⟩

/-- first half of `delete_node_references`: the node's own entry in `references_map` -/
def stepF (s : Refs) (n : Nat) : Refs :=
  match s.fwd.get n with
  | some l => removeFrom { s with fwd := s.fwd.del n } (dedup (l.map (fun r => r.2))) n
  | none => s

/-- second half: the node's entry in `referenced_by_map` -/
def stepI (s : Refs) (n : Nat) : Refs :=
  match s.inv.get n with
  | some srcs => removeFrom { s with inv := s.inv.del n } srcs n
  | none => s

theorem deleteNodeRefs_eq (s : Refs) (n : Nat) :
    deleteNodeRefs s n =
      (stepI (stepF s n) n, (s.fwd.get n).isSome || ((stepF s n).inv.get n).isSome) := rfl

theorem fwdL_stepF (s : Refs) (n x : Nat) :
    fwdL (stepF s n) x = if x = n then [] else
      if x ∈ (fwdL s n).map (fun r => r.2) then (fwdL s x).filter (fun r => r.2 != n) else fwdL s x := by
  unfold stepF
  cases hg : s.fwd.get n with
  | none =>
    have : fwdL s n = [] := by simp [fwdL, hg]
    simp only [this, List.map_nil, List.not_mem_nil, if_false]
    split
    · rename_i hx; rw [hx, this]
    · rfl
  | some l =>
    have hl : fwdL s n = l := by simp [fwdL, hg]
    simp only [fwdL_removeFrom, mem_dedup, hl]
    have : ∀ y, fwdL { s with fwd := s.fwd.del n } y = if y = n then [] else fwdL s y := by
      intro y; unfold fwdL; simp only [AMap.get_del]; split <;> simp
    rw [this]
    split
    · split <;> rfl
    · rfl

theorem invL_stepF (s : Refs) (n x : Nat) :
    invL (stepF s n) x =
      if x ∈ (fwdL s n).map (fun r => r.2) then (invL s x).filter (fun y => y != n) else invL s x := by
  unfold stepF
  cases hg : s.fwd.get n with
  | none =>
    have : fwdL s n = [] := by simp [fwdL, hg]
    simp [this]
  | some l =>
    have hl : fwdL s n = l := by simp [fwdL, hg]
    simp only [invL_removeFrom, mem_dedup, hl]
    rfl

theorem fwdL_stepI (s : Refs) (n x : Nat) :
    fwdL (stepI s n) x =
      if x ∈ invL s n then (fwdL s x).filter (fun r => r.2 != n) else fwdL s x := by
  unfold stepI
  cases hg : s.inv.get n with
  | none =>
    have : invL s n = [] := by simp [invL, hg]
    simp [this]
  | some l =>
    have hl : invL s n = l := by simp [invL, hg]
    simp only [fwdL_removeFrom, hl]
    rfl

theorem invL_stepI (s : Refs) (n x : Nat) :
    invL (stepI s n) x = if x = n then [] else
      if x ∈ invL s n then (invL s x).filter (fun y => y != n) else invL s x := by
  unfold stepI
  cases hg : s.inv.get n with
  | none =>
    have : invL s n = [] := by simp [invL, hg]
    simp only [this, List.not_mem_nil, if_false]
    split
    · rename_i hx; rw [hx, this]
    · rfl
  | some l =>
    have hl : invL s n = l := by simp [invL, hg]
    simp only [invL_removeFrom, hl]
    have : ∀ y, invL { s with inv := s.inv.del n } y = if y = n then [] else invL s y := by
      intro y; unfold invL; simp only [AMap.get_del]; split <;> simp
    rw [this]
    split
    · split <;> rfl
    · rfl

theorem noEmpty_stepF (s : Refs) (n : Nat) (h : NoEmpty s) : NoEmpty (stepF s n) := by
  unfold stepF
  split
  · apply noEmpty_removeFrom
    refine ⟨?_, h.2⟩
    intro a l; simp only [AMap.get_del]; split
    · intro h'; cases h'
    · exact h.1 a l
  · exact h

theorem noEmpty_stepI (s : Refs) (n : Nat) (h : NoEmpty s) : NoEmpty (stepI s n) := by
  unfold stepI
  split
  · apply noEmpty_removeFrom
    refine ⟨h.1, ?_⟩
    intro a l; simp only [AMap.get_del]; split
    · intro h'; cases h'
    · exact h.2 a l
  · exact h


theorem mem_cond_filter {α : Type} (c : Prop) [Decidable c] (p : α → Bool) (l : List α) (x : α) :
    x ∈ (if c then l.filter p else l) ↔ x ∈ l ∧ (c → p x = true) := by
  split
  · rename_i h; simp [List.mem_filter, h]
  · rename_i h; simp [h]

/-- `delete_node_references` removes exactly the references that mention the node -/
theorem R_deleteNodeRefs (s : Refs) (n x u y : Nat) (hi : Inv s) :
    R (deleteNodeRefs s n).1 x u y ↔ R s x u y ∧ x ≠ n ∧ y ≠ n := by
  rw [deleteNodeRefs_eq]
  unfold R
  simp only [fwdL_stepI, mem_cond_filter, fwdL_stepF, invL_stepF]
  by_cases hx : x = n
  · subst hx; simp
  · simp only [hx, if_false, mem_cond_filter, ne_eq, not_false_eq_true, true_and]
    constructor
    · rintro ⟨⟨hm, h1⟩, h2⟩
      refine ⟨hm, ?_⟩
      intro hy; subst hy
      have hc := hi.complete x u y hm
      have : x ∈ invL s y ∧ (y ∈ (fwdL s y).map (fun r => r.2) → (x != y) = true) :=
        ⟨hc, fun _ => by simpa using hx⟩
      have := h2 this
      simp at this
    · rintro ⟨hm, hy⟩
      have hyn : ((u, y).2 != n) = true := by simpa using hy
      exact ⟨⟨hm, fun _ => hyn⟩, fun _ => hyn⟩

theorem inv_deleteNodeRefs (s : Refs) (n : Nat) (hi : Inv s) : Inv (deleteNodeRefs s n).1 := by
  refine ⟨?_, ?_, ?_⟩
  · rw [deleteNodeRefs_eq]; exact noEmpty_stepI _ n (noEmpty_stepF s n hi.ne)
  · intro x u y hr
    obtain ⟨hr0, hx, hy⟩ := (R_deleteNodeRefs s n x u y hi).1 hr
    have hm := hi.complete x u y hr0
    rw [deleteNodeRefs_eq]
    simp only [invL_stepI, hy, if_false, mem_cond_filter, invL_stepF]
    have hxn : (x != n) = true := by simpa using hx
    exact ⟨⟨hm, fun _ => hxn⟩, fun _ => hxn⟩
  · intro x y hm
    rw [deleteNodeRefs_eq] at hm
    simp only [invL_stepI] at hm
    by_cases hy : y = n
    · simp [hy] at hm
    · simp only [hy, if_false, mem_cond_filter, invL_stepF] at hm
      obtain ⟨⟨hm0, h1⟩, -⟩ := hm
      obtain ⟨u, hu⟩ := hi.exact x y hm0
      have hx : x ≠ n := by
        intro hx; subst hx
        have : y ∈ (fwdL s x).map (fun r => r.2) := List.mem_map.2 ⟨(u, y), hu, rfl⟩
        have := h1 this
        simp at this
      exact ⟨u, (R_deleteNodeRefs s n x u y hi).2 ⟨hu, hx, hy⟩⟩

/-- the value returned by `delete_node_references` says whether any reference mentioned the node -/
theorem deleteNodeRefs_flag (s : Refs) (n : Nat) (hi : Inv s) :
    (deleteNodeRefs s n).2 = true ↔ ∃ x u, R s n u x ∨ R s x u n := by
  rw [deleteNodeRefs_eq]
  simp only [Bool.or_eq_true]
  have hne1 := noEmpty_stepF s n hi.ne
  have e1 : (s.fwd.get n).isSome = true ↔ fwdL s n ≠ [] := by
    unfold fwdL
    cases hg : s.fwd.get n with
    | none => simp
    | some l => simpa using hi.ne.1 n l hg
  have e2 : ((stepF s n).inv.get n).isSome = true ↔ invL (stepF s n) n ≠ [] := by
    unfold invL
    cases hg : (stepF s n).inv.get n with
    | none => simp
    | some l => simpa using hne1.2 n l hg
  rw [e1, e2]
  constructor
  · rintro (h | h)
    · obtain ⟨⟨u, x⟩, hm⟩ := List.exists_mem_of_ne_nil _ h
      exact ⟨x, u, Or.inl hm⟩
    · obtain ⟨x, hm⟩ := List.exists_mem_of_ne_nil _ h
      rw [invL_stepF, mem_cond_filter] at hm
      obtain ⟨u, hu⟩ := hi.exact x n hm.1
      exact ⟨x, u, Or.inr hu⟩
  · rintro ⟨x, u, h | h⟩
    · exact Or.inl (List.ne_nil_of_mem h)
    · by_cases hx : x = n
      · subst hx; exact Or.inl (List.ne_nil_of_mem h)
      · right
        apply List.ne_nil_of_mem (a := x)
        rw [invL_stepF, mem_cond_filter]
        exact ⟨hi.complete x u n h, fun _ => by simpa using hx⟩

theorem inv_empty : Inv empty := by
  refine ⟨⟨?_, ?_⟩, ?_, ?_⟩ <;> intros <;> simp_all [empty, AMap.get, R, fwdL, invL]

end OpcuaVerif.C28
