import OpcuaVerif.Model.C34
import OpcuaVerif.Lemmas.C29

/-! Helper lemmas for C34 (node management). -/
namespace OpcuaVerif.C34
open OpcuaVerif.C28 OpcuaVerif.C29

/-- an id drawn by the loop is not an existing node, it is the id of the last draw, and the
counter moved forward -/
theorem freshId_sound (nodes : List Nat) : ∀ fuel next id next',
    freshId nodes fuel next = some (id, next') →
      nodes.contains id = false ∧ next < next' ∧ id + 1 = idBase + next' := by
  intro fuel
  induction fuel with
  | zero => intro next id next' h; simp [freshId] at h
  | succ fuel ih =>
    intro next id next' h
    unfold freshId at h
    split at h
    · have := ih _ _ _ h; exact ⟨this.1, by omega, this.2.2⟩
    · rename_i hc
      cases h
      exact ⟨by simpa using hc, by omega, by omega⟩

/-- how many nodes have an id at or above `a` -/
def above (nodes : List Nat) (a : Nat) : Nat := nodes.countP (fun x => decide (a ≤ x))

theorem above_succ_lt (nodes : List Nat) (a : Nat) (h : a ∈ nodes) : above nodes (a + 1) < above nodes a := by
  unfold above
  induction nodes with
  | nil => cases h
  | cons y r ih =>
    have hmono : List.countP (fun x => decide (a + 1 ≤ x)) r ≤ List.countP (fun x => decide (a ≤ x)) r := by
      apply List.countP_mono_left
      intro x _ hx
      simp only [decide_eq_true_eq] at hx ⊢
      omega
    simp only [List.countP_cons]
    by_cases hy : y = a
    · subst hy
      have h1 : decide (y + 1 ≤ y) = false := by simp
      have h2 : decide (y ≤ y) = true := by simp
      simp only [h1, h2, if_true, Bool.false_eq_true, if_false]
      omega
    · have hr : a ∈ r := by
        cases h with
        | head => exact absurd rfl hy
        | tail _ h => exact h
      have := ih hr
      by_cases h1 : a + 1 ≤ y
      · have h2 : a ≤ y := by omega
        simp only [h1, h2, decide_true, if_true]; omega
      · simp only [h1, decide_false, Bool.false_eq_true, if_false]
        split <;> omega

/-- **the loop always finds an id**: with more draws than nodes at or above the counter -/
theorem freshId_some (nodes : List Nat) : ∀ fuel next, above nodes (idBase + next) < fuel →
    ∃ id next', freshId nodes fuel next = some (id, next') := by
  intro fuel
  induction fuel with
  | zero => intro next h; omega
  | succ fuel ih =>
    intro next h
    unfold freshId
    split
    · rename_i hc
      have hm : idBase + next ∈ nodes := by simpa using hc
      have := above_succ_lt nodes (idBase + next) hm
      exact ih (next + 1) (by rw [show idBase + (next + 1) = idBase + next + 1 by omega]; omega)
    · exact ⟨_, _, rfl⟩

theorem above_le_length (nodes : List Nat) (a : Nat) : above nodes a ≤ nodes.length :=
  List.countP_le_length

theorem chooseId_some (s : NS) (req : Option Nat) : ∃ id next, chooseId false s req = some (id, next) := by
  unfold chooseId
  cases req with
  | some r => exact ⟨_, _, rfl⟩
  | none =>
    simp only [Bool.false_eq_true, if_false]
    exact freshId_some _ _ _ (Nat.lt_succ_of_le (above_le_length _ _))

/-- what the first part has established when it lets the item through -/
theorem precheck_ok {hier : Nat → Bool} {s : NS} {it : AddNodesItem} {name rt : Nat}
    (h : precheck hier s it = .ok (name, rt)) :
    s.canModify = true ∧ it.name = some name ∧ it.refType = some rt ∧
      (∀ r, it.requested = some r → exists? s r = false) ∧
      nameTaken hier s it.parent name = false := by
  unfold precheck at h
  repeat' split at h
  all_goals first
    | (cases h; done)
    | skip
  all_goals (cases h; simp_all)

theorem precheck_error_modify {hier : Nat → Bool} {s : NS} {it : AddNodesItem} {st : Status}
    (h : precheck hier s it = .error st) : st ≠ .good := by
  unfold precheck at h
  repeat' split at h
  all_goals first
    | (cases h; simp)
    | (cases h; done)

/-- the id chosen for the new node is not an existing node -/
theorem chooseId_fresh {hier : Nat → Bool} {s : NS} {it : AddNodesItem} {name rt id next : Nat}
    (hp : precheck hier s it = .ok (name, rt)) (hc : chooseId false s it.requested = some (id, next)) :
    exists? s id = false ∧ s.next ≤ next := by
  unfold chooseId at hc
  cases hr : it.requested with
  | some r =>
    rw [hr] at hc
    have hE := (precheck_ok hp).2.2.2.1 r hr
    cases hc
    exact ⟨hE, Nat.le_refl _⟩
  | none =>
    rw [hr] at hc
    simp only [Bool.false_eq_true, if_false] at hc
    have := freshId_sound _ _ _ _ _ hc
    exact ⟨this.1, by omega⟩

theorem postcheck_none {s : NS} {it : AddNodesItem} (h : postcheck s it = none) :
    validTypeDef s it.nodeClass it.typeDef = true ∧ exists? s it.parent = true ∧ it.attrsFit = true := by
  unfold postcheck at h
  repeat' split at h
  all_goals first
    | (cases h; done)
    | skip
  all_goals simp_all

theorem postcheck_some {s : NS} {it : AddNodesItem} {st : Status} (h : postcheck s it = some st) :
    st ≠ .good := by
  unfold postcheck at h
  repeat' split at h
  all_goals first
    | (cases h; simp)
    | (cases h; done)

theorem typedRefs_keeps {refs refs' : Refs} {c : Nat} {td : Option Nat} {n : Nat}
    (h : typedRefs refs c td n = some refs') :
    (∀ x u y, R refs x u y → R refs' x u y) ∧ (C28.Inv refs → C28.Inv refs') := by
  unfold typedRefs at h
  split at h
  · cases td with
    | none => cases h; exact ⟨fun _ _ _ h => h, id⟩
    | some t =>
      exact ⟨fun x u y hr => (R_insertRef h x u y).2 (Or.inl hr), fun hi => inv_insertRef h hi⟩
  · cases h; exact ⟨fun _ _ _ h => h, id⟩

/-- a valid type definition is an existing node, so it is not the new node: `set_node_type` cannot
hit the self reference panic -/
theorem typedRefs_some (s : NS) (refs : Refs) (it : AddNodesItem) (n : Nat)
    (hv : validTypeDef s it.nodeClass it.typeDef = true) (hn : exists? s n = false) :
    ∃ refs', typedRefs refs it.nodeClass it.typeDef n = some refs' := by
  unfold typedRefs
  split
  · cases htd : it.typeDef with
    | none => exact ⟨_, rfl⟩
    | some t =>
      have hne : n ≠ t := by
        intro e; subst e
        unfold validTypeDef at hv
        rw [htd] at hv
        have hc : classOf s n = none := by simp [classOf, hn]
        split at hv
        · simp [hc] at hv
        · split at hv
          · simp [hc] at hv
          · simp at hv
      exact Option.isSome_iff_exists.1 ((insertRef_isSome refs n t hasTypeDefinition).2 hne)
  · exact ⟨_, rfl⟩

end OpcuaVerif.C34
