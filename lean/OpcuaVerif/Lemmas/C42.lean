import OpcuaVerif.Lemmas.C04Date
import OpcuaVerif.Model.C42
/-! Helper lemmas for the C42 property theorems (leaf codecs, DateTime text, struct field lookup). -/
set_option linter.unusedSimpArgs false
namespace OpcuaVerif.C42
open OpcuaVerif.Text OpcuaVerif.C04

/-! ### integers as text -/

theorem intDec_nonneg {v : Int} (h : 0 ≤ v) : intDec v = toDec v.toNat := by
  unfold intDec
  rw [if_neg (by omega)]
  congr 1
  omega

theorem parseU64_intDec {v : Int} (h0 : 0 ≤ v) (h1 : v ≤ 18446744073709551615) :
    parseUnsigned 18446744073709551615 (intDec v) = some v.toNat := by
  rw [intDec_nonneg h0, parseUnsigned_toDec (by omega)]

theorem parseI64_intDec {v : Int} (h0 : -9223372036854775808 ≤ v) (h1 : v ≤ 9223372036854775807) :
    parseI64 (intDec v) = some v := by
  by_cases hn : v < 0
  · have hd := toDec_all_digits v.natAbs
    have hne := toDec_ne_nil v.natAbs
    simp only [intDec, hn, if_true, parseI64]
    rw [if_neg (by simp [hne, hd])]
    rw [digitsVal_toDec, if_pos (by omega)]
    congr 1; omega
  · rw [intDec_nonneg (by omega)]
    unfold parseI64
    have hne := toDec_ne_nil v.toNat
    have hd := toDec_all_digits v.toNat
    cases htd : toDec v.toNat with
    | nil => exact absurd htd hne
    | cons c r =>
      have hc : isDigit c = true := by rw [htd] at hd; simp at hd; exact hd.1
      have hminus : c ≠ '-' := isDigit_ne hc (by decide)
      split
      · rename_i heq; simp at heq; exact absurd heq.1 hminus
      · rw [← htd, parseUnsigned_toDec (by omega)]; simp; omega

/-! ### small JSON leaves -/

theorem uintJ_natJ {max n : Nat} (h : n ≤ max) : uintJ max (natJ n) = some n := by
  simp [uintJ, natJ, h]

theorem uaString_rt (s : Option (List Char)) : uaStringJ (some (optStrJ s)) = some s := by
  cases s <;> rfl

theorem uaString_rt' (s : Option (List Char)) : uaStringJ (optPresent (some (optStrJ s))) = some s := by
  cases s <;> rfl

theorem byteString_rt (b : Option (List Nat)) (h : ∀ x, b = some x → ∀ y ∈ x, y < 256) :
    byteStringFromJ (optPresent (some (byteStringJ b))) = some b := by
  cases b with
  | none => rfl
  | some x =>
    simp only [byteStringJ, optPresent, byteStringFromJ]
    rw [utf8_ascii _ (b64Encode_ascii x (h x rfl)), b64_roundtrip_bytes x (h x rfl)]; rfl

theorem byteString_rt0 (b : Option (List Nat)) (h : ∀ x, b = some x → ∀ y ∈ x, y < 256) :
    byteStringFromJ (some (byteStringJ b)) = some b := by
  cases b with
  | none => rfl
  | some x =>
    simp only [byteStringJ, byteStringFromJ]
    rw [utf8_ascii _ (b64Encode_ascii x (h x rfl)), b64_roundtrip_bytes x (h x rfl)]; rfl

theorem status_rt (mask c : Nat) (h : c ≤ 4294967295) (hm : c &&& mask = c) :
    statusFromJ mask (natJ c) = some c := by
  simp [statusFromJ, uintJ_natJ h, hm]

/-! ### struct fields -/

theorem lookup_append (k : List Char) (a b : List (List Char × Json)) :
    lookup k (a ++ b) = match lookup k a with
      | some v => some v
      | none => lookup k b := by
  induction a with
  | nil => rfl
  | cons x a ih =>
    obtain ⟨k', v⟩ := x
    simp only [List.cons_append, lookup]
    split
    · rfl
    · exact ih

theorem lookup_optField_same (k : List Char) (o : Option Json) : lookup k (optField k o) = o := by
  cases o <;> simp [optField, lookup]

theorem lookup_optField_ne (k k' : List Char) (o : Option Json) (h : k' ≠ k) : lookup k (optField k' o) = none := by
  cases o <;> simp [optField, lookup, h]

theorem optPresent_map_natJ (o : Option Nat) : optPresent (o.map natJ) = o.map natJ := by
  cases o <;> rfl

theorem optPresent_map_str (o : Option DT) :
    optPresent (o.map fun d => Json.str (printDtMillis d)) = o.map fun d => Json.str (printDtMillis d) := by
  cases o <;> rfl

theorem optU_rt (max : Nat) (o : Option Nat) (h : ∀ n, o = some n → n ≤ max) :
    optU max (optPresent (o.map natJ)) = some o := by
  cases o with
  | none => rfl
  | some n => simp [optPresent, natJ, optU, uintJ, h n rfl]

theorem optStatus_rt (mask : Nat) (o : Option Nat)
    (h : ∀ c, o = some c → c ≤ 4294967295 ∧ c &&& mask = c) :
    optStatus mask (optPresent (o.map natJ)) = some o := by
  cases o with
  | none => rfl
  | some c =>
    obtain ⟨h1, h2⟩ := h c rfl
    have := status_rt mask c h1 h2
    simp only [natJ] at this
    simp [optPresent, natJ, optStatus, this]

/-! ### DateTime text (`…T…​.mmmZ`) -/

/-- DateTime values of the quantifier: within 1601..9999, millisecond precision -/
def WFDT (d : DT) : Prop :=
  0 ≤ d.secs ∧ d.secs ≤ endSecs ∧ d.nanos < 1000000000 ∧ d.nanos % 1000000 = 0 ∧ (d.secs = endSecs → d.nanos = 0)

theorem scanNanos_ms (ms : Nat) (h : ms < 1000) :
    scanNanos (padDec 3 ms ++ ['Z']) = some (ms * 1000000, ['Z']) := by
  obtain ⟨hl, ha, hv⟩ := padDec_spec 3 ms (by omega) (by omega)
  unfold scanNanos
  rw [spanP_append isDigit _ 'Z' [] ha (by decide)]
  have hne : (padDec 3 ms).isEmpty = false := by
    cases hp : padDec 3 ms with
    | nil => rw [hp] at hl; simp at hl
    | cons a l => rfl
  simp only [hne, Bool.false_eq_true, if_false]
  rw [List.take_of_length_le (by omega), hl, digitsVal_trail_zeros, hv]

theorem dt_text_roundtrip (d : DT) (h : WFDT d) : parseDtJ (printDtMillis d) = some d := by
  obtain ⟨h0, h1, h2, h3, h4⟩ := h
  obtain ⟨secs, nanos⟩ := d
  simp only [endSecs] at *
  obtain ⟨n, rfl⟩ : ∃ n : Nat, secs = n := ⟨secs.toNat, by omega⟩
  have hdays : n / 86400 ≤ 3067670 := by omega
  obtain ⟨hy1, hy2, hdoy, hdby⟩ := yearDoy_spec _ hdays
  obtain ⟨hm1, hm2, hd1, hd2, hdbm⟩ := monthDay_spec (isLeap (yearDoy (n / 86400)).1)
    (yearDoy (n / 86400)).2 (monthDay (isLeap (yearDoy (n / 86400)).1) (yearDoy (n / 86400)).2).1
    (monthDay (isLeap (yearDoy (n / 86400)).1) (yearDoy (n / 86400)).2).2 hdoy rfl
  rw [dimL_eq] at hd2
  have hd31 : daysInMonth (yearDoy (n / 86400)).1 (monthDay (isLeap (yearDoy (n / 86400)).1)
      (yearDoy (n / 86400)).2).1 ≤ 31 := by
    unfold daysInMonth; split <;> (try split) <;> omega
  have hsod : n % 86400 < 86400 := Nat.mod_lt _ (by decide)
  have hsplit : n = n / 86400 * 86400 + n % 86400 := by omega
  simp only [printDtMillis, civilFromDays, Int.toNat_natCast]
  generalize (yearDoy (n / 86400)).1 = Y at *
  generalize (yearDoy (n / 86400)).2 = doy at *
  generalize (monthDay (isLeap (Y : Int)) doy).1 = M at *
  generalize (monthDay (isLeap (Y : Int)) doy).2 = D at *
  generalize n % 86400 = sod at *
  generalize n / 86400 = days at *
  simp only [List.append_assoc, List.cons_append]
  unfold parseDtJ digitsN
  rw [takeDigitsN_pad 4 Y _ (by omega) (by omega)]
  simp only [expectChar_cons]
  rw [takeDigitsN_pad 2 M _ (by omega) (by omega)]
  simp only [expectChar_cons]
  rw [takeDigitsN_pad 2 D _ (by omega) (by omega)]
  simp only [true_or, not_true_eq_false, if_false, twoThen_pad _ _ _ (show sod / 3600 < 100 by omega),
    twoThen_pad _ _ _ (show sod / 60 % 60 < 100 by omega)]
  rw [takeDigitsN_pad 2 (sod % 60) _ (by omega) (by omega)]
  simp only []
  rw [scanNanos_ms _ (by omega)]
  simp only [scanOffset]
  have hms : nanos / 1000000 % 1000 * 1000000 = nanos := by omega
  rw [hms]
  simp only [ne_eq, not_true_eq_false, if_false]
  rw [if_neg (by omega), if_neg (by omega)]
  have e1 : sod % 60 ≠ 60 := by omega
  simp only [e1, if_false]
  have hloc : daysFromCivil (Y : Int) M D * 86400 + ((sod / 3600 * 3600 + sod / 60 % 60 * 60 + sod % 60 : Nat) : Int) - 0
      = (n : Int) := by
    simp only [daysFromCivil]
    have : (daysBeforeYear ↑Y + ↑(daysBeforeMonth (isLeap ↑Y) M) + ↑(D - 1) : Int) = (days : Int) := by omega
    rw [this]; omega
  rw [hloc]
  rw [if_neg (by omega), if_neg (by simp only [endSecs]; omega)]

/-! ### node ids, qualified names, localized text -/

theorem ident_rt (i : Ident) (h : WFIdent i) : identFromJ ((identTypeId i).getD 0) (identIdJ i) = some i := by
  cases i with
  | numeric n =>
    have h' : n ≤ 4294967295 := by simpa [WFIdent] using h
    simp [identTypeId, identIdJ, identFromJ, asU64, natJ]
    constructor <;> omega
  | str s =>
    cases s with
    | none => exact absurd h (by simp [WFIdent])
    | some s =>
      have h' : s ≠ [] := h
      simp [identTypeId, identIdJ, identFromJ, asStr, h']
  | guid g =>
    have hne : printGuid g ≠ [] := by unfold printGuid; simp
    simp [identTypeId, identIdJ, identFromJ, asStr, hne, guid_roundtrip g h.1 h.2]
  | bytes b =>
    cases b with
    | none => exact absurd h (by simp [WFIdent])
    | some b =>
      have hne := b64Encode_ne_nil h.1
      simp [identTypeId, identIdJ, identFromJ, asStr, hne]
      rw [utf8_ascii _ (b64Encode_ascii b h.2), b64_roundtrip_bytes b h.2]

theorem nodeId_fields (t : Option Json) (id : Json) (ns : Option Json) :
    structFields [kType, kId, kNamespace] (.obj (optField kType t ++ [(kId, id)] ++ optField kNamespace ns))
      = some [t, some id, ns] := by
  cases t <;> cases ns <;> rfl

theorem indexField_rt (max n : Nat) (h : n ≤ max) (hm : max ≤ 18446744073709551615) :
    indexField max (optPresent (if n = 0 then none else some (natJ n))) = some n := by
  by_cases h0 : n = 0
  · simp [h0, optPresent, indexField]
  · have h1 : (n : Int) ≤ 18446744073709551615 := by omega
    have h2 : ¬ n > max := by omega
    simp [h0, optPresent, natJ, indexField, asU64, h1, h2]

theorem optU_type (i : Ident) :
    optU 4294967295 (optPresent ((identTypeId i).map natJ)) = some (identTypeId i) := by
  cases i <;> simp [identTypeId, optPresent, natJ, optU, uintJ]

theorem nodeId_rt (n : NodeId) (h : WFNode n) : nodeIdFromJ (nodeIdJ n) = some n := by
  unfold nodeIdFromJ nodeIdJ
  rw [nodeId_fields]
  simp only [optU_type, indexField_rt 65535 n.ns h.1 (by decide), ident_rt n.id h.2]
  cases n; rfl

theorem exp_fields (t : Option Json) (id : Json) (ns su : Option Json) :
    structFields [kType, kId, kNamespace, kServerUri]
      (.obj (optField kType t ++ [(kId, id)] ++ optField kNamespace ns ++ optField kServerUri su))
      = some [t, some id, ns, su] := by
  cases t <;> cases ns <;> cases su <;> rfl

/-- ExpandedNodeId: without a namespace uri every namespace index; with a uri (current source) index 0 —
the JSON form, like the text form, has one `Namespace` slot (recorded finding for uri + index ≠ 0). -/
theorem nsUri_rt (uriJson : Bool) (uri : Option (List Char)) (ns : Nat) (hns : ns ≤ 65535)
    (hu : uri = none ∨ (uriJson = true ∧ ns = 0)) :
    nsUriFromJ uriJson (optPresent (nsFieldJ uriJson uri ns)) = some (ns, uri) := by
  have hix := indexField_rt 65535 ns hns (by decide)
  cases uri with
  | none =>
    have e1 : nsFieldJ uriJson none ns = if ns = 0 then none else some (natJ ns) := by
      cases uriJson <;> rfl
    rw [e1]
    by_cases h0 : ns = 0
    · subst h0; cases uriJson <;> simp [optPresent, nsUriFromJ, indexField]
    · have e2 : optPresent (if ns = 0 then none else some (natJ ns)) = some (natJ ns) := by simp [h0, optPresent, natJ]
      rw [e2] at hix ⊢
      cases uriJson <;> simp [nsUriFromJ, natJ, hix] <;> (simp only [natJ] at hix; simp [hix])
  | some u =>
    rcases hu with hu | ⟨rfl, rfl⟩
    · cases hu
    · simp [nsFieldJ, optPresent, nsUriFromJ]

theorem expNodeId_rt (uriJson : Bool) (e : ExpNodeId)
    (hu : e.uri = none ∨ (uriJson = true ∧ e.node.ns = 0)) (hs : e.svr ≤ 4294967295) (h : WFNode e.node) :
    expNodeIdFromJ uriJson (expNodeIdJ uriJson e) = some e := by
  unfold expNodeIdFromJ expNodeIdJ
  rw [exp_fields]
  simp only [optU_type, nsUri_rt uriJson e.uri e.node.ns h.1 hu, indexField_rt 4294967295 e.svr hs (by decide),
    ident_rt e.node.id h.2]
  obtain ⟨⟨ns, id⟩, uri, svr⟩ := e
  simp_all

theorem qname_rt (q : QName) (h : q.ns ≤ 65535) : qnameFromJ (qnameJ q) = some q := by
  obtain ⟨ns, name⟩ := q
  have h' : (ns : Int) ≤ 65535 := by have : ns ≤ 65535 := h; omega
  cases name <;> simp [qnameFromJ, qnameJ, structFields, lookup, kUri, kName, uintJ, natJ, uaStringJ, optStrJ, h']

theorem ltext_rt (l : LText) : ltextFromJ (ltextJ l) = some l := by
  obtain ⟨lo, te⟩ := l
  cases lo <;> cases te <;> simp [ltextFromJ, ltextJ, structFields, lookup, kLocale, kText, uaStringJ, optStrJ]

/-! ### Variant / DataValue -/

def WFRest (cfg : Cfg) (st : Option Nat) (sts : Option DT) (sp : Option Nat) (vts : Option DT) (vp : Option Nat) : Prop :=
  (∀ c, st = some c → c ≤ 4294967295 ∧ c &&& cfg.mask = c) ∧ (∀ d, sts = some d → WFDT d) ∧
  (∀ n, sp = some n → n ≤ 65535) ∧ (∀ d, vts = some d → WFDT d) ∧ (∀ n, vp = some n → n ≤ 65535)

mutual
  /-- the values the property quantifies over (`cfg.mask` = defined StatusCode bits) -/
  def WFVar (cfg : Cfg) : Var → Prop
    | .empty => True
    | .bool _ => True
    | .sbyte v => -128 ≤ v ∧ v ≤ 127
    | .byte v => 0 ≤ v ∧ v ≤ 255
    | .i16 v => -32768 ≤ v ∧ v ≤ 32767
    | .u16 v => 0 ≤ v ∧ v ≤ 65535
    | .i32 v => -2147483648 ≤ v ∧ v ≤ 2147483647
    | .u32 v => 0 ≤ v ∧ v ≤ 4294967295
    | .i64 v => -9223372036854775808 ≤ v ∧ v ≤ 9223372036854775807
    | .u64 v => 0 ≤ v ∧ v ≤ 18446744073709551615
    | .float b => floatBody cfg (some (float32J b)) = some b
    | .double b => b < 2 ^ 64 ∧ (classify64 b = .nan → b = nan64)
    | .string _ => True
    | .dateTime d => WFDT d
    | .guid g => g.length = 16 ∧ ∀ b ∈ g, b < 256
    | .byteString b => ∀ x, b = some x → ∀ y ∈ x, y < 256
    | .xml s => s = none → cfg.xmlNull = true
    | .nodeId n => WFNode n
    | .expNodeId e => (e.uri = none ∨ (cfg.uriJson = true ∧ e.node.ns = 0)) ∧ e.svr ≤ 4294967295 ∧ WFNode e.node
    | .status c => c ≤ 4294967295 ∧ c &&& cfg.mask = c
    | .qname q => q.ns ≤ 65535
    | .ltext _ => True
    | .dataValue d => WFDVal cfg d
    | .variant v => WFVar cfg v
    | .array => False
  def WFDVal (cfg : Cfg) : DVal → Prop
    | .mk (some v) st sts sp vts vp => WFVar cfg v ∧ WFRest cfg st sts sp vts vp
    | .mk none st sts sp vts vp => WFRest cfg st sts sp vts vp
end

theorem variant_fields (id : Nat) (body : Option Json) :
    structFields [kType, kBody, kDimensions] (variantJ id body) = some [some (natJ id), body, none] := by
  cases body <;> rfl

theorem intBody_signed (lo hi v : Int) (h1 : lo ≤ v) (h2 : v ≤ hi) (hlo : -9223372036854775808 ≤ lo)
    (hhi : hi ≤ 9223372036854775807) : intBody true lo hi (optPresent (some (.num (.int v)))) = some v := by
  have a : -9223372036854775808 ≤ v := by omega
  have b : v ≤ 9223372036854775807 := by omega
  have c : ¬ (v < lo ∨ v > hi) := by omega
  simp [optPresent, intBody, asI64, a, b, c]

theorem intBody_unsigned (hi v : Int) (h1 : 0 ≤ v) (h2 : v ≤ hi) (hhi : hi ≤ 18446744073709551615) :
    intBody false 0 hi (optPresent (some (.num (.int v)))) = some v := by
  have b : v ≤ 18446744073709551615 := by omega
  have c : ¬ (v < 0 ∨ v > hi) := by omega
  simp [optPresent, intBody, asU64, h1, b]
  omega

theorem classify64_inf (b : Nat) (neg : Bool) (hb : b < 2 ^ 64) (h : classify64 b = .inf neg) : b = inf64 neg := by
  simp only [classify64, classify] at h
  split at h
  · split at h
    · cases h
      rename_i h1 h2
      simp only [inf64]
      by_cases hs : b / 2 ^ (53 - 1 + 11) % 2 = 1
      · simp only [hs, decide_true, if_true]; omega
      · simp only [hs, decide_false, Bool.false_eq_true, if_false]; omega
    · cases h
  · split at h <;> cases h

theorem double_rt (b : Nat) (hb : b < 2 ^ 64) (hn : classify64 b = .nan → b = nan64) :
    f64Body false (optPresent (some (float64J b))) = some b := by
  unfold float64J
  cases hc : classify64 b with
  | nan => simp [optPresent, f64Body, hn hc]
  | inf neg =>
    have := classify64_inf b neg hb hc
    cases neg <;> simp [optPresent, f64Body, this]
  | fin neg m e => simp [optPresent, f64Body, asF64, hc]

theorem varJ_obj (cfg : Cfg) : ∀ (v : Var) (j : Json), varJ cfg v = .ok j → j ≠ .null := by
  intro v j h
  cases v <;> simp [varJ, variantJ, bindJ] at h <;> (try (subst h; simp))
  all_goals
    split at h <;> simp at h <;> (subst h; simp)


theorem dvalJ_obj (cfg : Cfg) : ∀ (d : DVal) (j : Json), dvalJ cfg d = .ok j → j ≠ .null := by
  intro d j h
  match d, h with
  | .mk (some v) .., h =>
    simp only [dvalJ, bindJ] at h
    split at h <;> simp at h
    subst h; simp
  | .mk none .., h =>
    simp only [dvalJ] at h
    cases h; simp

theorem optPresent_none : optPresent none = none := rfl

theorem optPresent_of_ne {j : Json} (h : j ≠ .null) : optPresent (some j) = some j := by
  cases j <;> simp_all [optPresent]

/-- the six field lookups of a serialised DataValue -/
theorem dval_fields (jv : Option Json) (st : Option Nat) (sts : Option DT) (sp : Option Nat) (vts : Option DT)
    (vp : Option Nat) :
    structFields [kValue, kStatus, kSourceTimestamp, kSourcePicoseconds, kServerTimestamp, kServerPicoseconds]
      (.obj (optField kValue jv ++ dvalRest st sts sp vts vp)) =
    some [jv, st.map natJ, sts.map (fun d => .str (printDtMillis d)), sp.map natJ,
      vts.map (fun d => .str (printDtMillis d)), vp.map natJ] := by
  cases jv <;> cases st <;> cases sts <;> cases sp <;> cases vts <;> cases vp <;> rfl

theorem optDt_rt (o : Option DT) (h : ∀ d, o = some d → WFDT d) :
    optDt (optPresent (o.map fun d => Json.str (printDtMillis d))) = some o := by
  cases o with
  | none => rfl
  | some d => simp [optPresent, optDt, dtFromJ, dt_text_roundtrip d (h d rfl)]

theorem rest_rt (cfg : Cfg) (st : Option Nat) (sts : Option DT) (sp : Option Nat) (vts : Option DT) (vp : Option Nat)
    (h : WFRest cfg st sts sp vts vp) :
    optStatus cfg.mask (optPresent (st.map natJ)) = some st ∧
    optDt (optPresent (sts.map fun d => Json.str (printDtMillis d))) = some sts ∧
    optU 65535 (optPresent (sp.map natJ)) = some sp ∧
    optDt (optPresent (vts.map fun d => Json.str (printDtMillis d))) = some vts ∧
    optU 65535 (optPresent (vp.map natJ)) = some vp :=
  ⟨optStatus_rt _ _ h.1, optDt_rt _ h.2.1, optU_rt _ _ h.2.2.1, optDt_rt _ h.2.2.2.1, optU_rt _ _ h.2.2.2.2⟩

theorem nodeIdJ_ne (n : NodeId) : nodeIdJ n ≠ .null := by simp [nodeIdJ]
theorem expNodeIdJ_ne (b : Bool) (e : ExpNodeId) : expNodeIdJ b e ≠ .null := by simp [expNodeIdJ]

/-- `float32J` never yields `null`, so the body is present -/
theorem floatBody_present (cfg : Cfg) (b : Nat) (h : floatBody cfg (some (float32J b)) = some b) :
    floatBody cfg (optPresent (some (float32J b))) = some b := by
  have : float32J b ≠ .null := by
    unfold float32J; split <;> simp
  rw [optPresent_of_ne this]; exact h

mutual
  theorem var_rt (cfg : Cfg) : ∀ (v : Var), WFVar cfg v → ∀ f, v.depth ≤ f → ∀ j, varJ cfg v = .ok j →
      varFromJ cfg f j = .ok v
    | .empty, _, f, hf, j, hj => by
      simp only [varJ, Res.ok.injEq] at hj; subst hj
      obtain ⟨f, rfl⟩ : ∃ g, f = g + 1 := ⟨f - 1, by simp only [Var.depth] at hf; omega⟩
      rw [varFromJ, variant_fields]
      · simp [uintJ_natJ, optPresent]
      · simp [variantJ]
    | .bool b, _, f, hf, j, hj => by
      simp only [varJ, Res.ok.injEq] at hj; subst hj
      obtain ⟨f, rfl⟩ : ∃ g, f = g + 1 := ⟨f - 1, by simp only [Var.depth] at hf; omega⟩
      rw [varFromJ, variant_fields]
      · simp [uintJ_natJ, optPresent]
      · simp [variantJ]
    | .variant v, h, f, hf, j, hj => by
      simp only [varJ] at hj
      cases hv : varJ cfg v with
      | err => simp [hv, bindJ] at hj
      | panic => simp [hv, bindJ] at hj
      | ok jv =>
        simp only [hv, bindJ, Res.ok.injEq] at hj; subst hj
        obtain ⟨f, rfl⟩ : ∃ g, f = g + 1 := ⟨f - 1, by simp only [Var.depth] at hf; omega⟩
        have ih := var_rt cfg v (by simpa [WFVar] using h) f (by simp only [Var.depth] at hf; omega) jv hv
        rw [varFromJ, variant_fields]
        · simp [uintJ_natJ, optPresent_of_ne (varJ_obj cfg v jv hv), optPresent_none, ih]
        · simp [variantJ]
    | .dataValue d, h, f, hf, j, hj => by
      simp only [varJ] at hj
      cases hv : dvalJ cfg d with
      | err => simp [hv, bindJ] at hj
      | panic => simp [hv, bindJ] at hj
      | ok jd =>
        simp only [hv, bindJ, Res.ok.injEq] at hj; subst hj
        obtain ⟨f, rfl⟩ : ∃ g, f = g + 1 := ⟨f - 1, by simp only [Var.depth] at hf; omega⟩
        have ih := dval_rt cfg d (by simpa [WFVar] using h) f (by simp only [Var.depth] at hf; omega) jd hv
        rw [varFromJ, variant_fields]
        · simp [uintJ_natJ, optPresent_of_ne (dvalJ_obj cfg d jd hv), optPresent_none, ih]
        · simp [variantJ]
    | .array, h, _, _, _, _ => by simp [WFVar] at h
    | .sbyte v, h, f, hf, j, hj => by
      simp only [varJ, Res.ok.injEq] at hj; subst hj
      obtain ⟨f, rfl⟩ : ∃ g, f = g + 1 := ⟨f - 1, by simp only [Var.depth] at hf; omega⟩
      simp only [WFVar] at h
      rw [varFromJ, variant_fields]
      · simp [uintJ_natJ, optPresent_none, okOr, intBody_signed (-128) 127 v h.1 h.2 (by decide) (by decide)]
      · simp [variantJ]
    | .byte v, h, f, hf, j, hj => by
      simp only [varJ, Res.ok.injEq] at hj; subst hj
      obtain ⟨f, rfl⟩ : ∃ g, f = g + 1 := ⟨f - 1, by simp only [Var.depth] at hf; omega⟩
      simp only [WFVar] at h
      rw [varFromJ, variant_fields]
      · simp [uintJ_natJ, optPresent_none, okOr, intBody_unsigned 255 v h.1 h.2 (by decide)]
      · simp [variantJ]
    | .i16 v, h, f, hf, j, hj => by
      simp only [varJ, Res.ok.injEq] at hj; subst hj
      obtain ⟨f, rfl⟩ : ∃ g, f = g + 1 := ⟨f - 1, by simp only [Var.depth] at hf; omega⟩
      simp only [WFVar] at h
      rw [varFromJ, variant_fields]
      · simp [uintJ_natJ, optPresent_none, okOr, intBody_signed (-32768) 32767 v h.1 h.2 (by decide) (by decide)]
      · simp [variantJ]
    | .u16 v, h, f, hf, j, hj => by
      simp only [varJ, Res.ok.injEq] at hj; subst hj
      obtain ⟨f, rfl⟩ : ∃ g, f = g + 1 := ⟨f - 1, by simp only [Var.depth] at hf; omega⟩
      simp only [WFVar] at h
      rw [varFromJ, variant_fields]
      · simp [uintJ_natJ, optPresent_none, okOr, intBody_unsigned 65535 v h.1 h.2 (by decide)]
      · simp [variantJ]
    | .i32 v, h, f, hf, j, hj => by
      simp only [varJ, Res.ok.injEq] at hj; subst hj
      obtain ⟨f, rfl⟩ : ∃ g, f = g + 1 := ⟨f - 1, by simp only [Var.depth] at hf; omega⟩
      simp only [WFVar] at h
      rw [varFromJ, variant_fields]
      · simp [uintJ_natJ, optPresent_none, okOr, intBody_signed (-2147483648) 2147483647 v h.1 h.2 (by decide) (by decide)]
      · simp [variantJ]
    | .u32 v, h, f, hf, j, hj => by
      simp only [varJ, Res.ok.injEq] at hj; subst hj
      obtain ⟨f, rfl⟩ : ∃ g, f = g + 1 := ⟨f - 1, by simp only [Var.depth] at hf; omega⟩
      simp only [WFVar] at h
      rw [varFromJ, variant_fields]
      · simp [uintJ_natJ, optPresent_none, okOr, intBody_unsigned 4294967295 v h.1 h.2 (by decide)]
      · simp [variantJ]
    | .i64 v, h, f, hf, j, hj => by
      simp only [varJ, Res.ok.injEq] at hj; subst hj
      obtain ⟨f, rfl⟩ : ∃ g, f = g + 1 := ⟨f - 1, by simp only [Var.depth] at hf; omega⟩
      simp only [WFVar] at h
      rw [varFromJ, variant_fields]
      · simp [uintJ_natJ, optPresent_none, optPresent, okOr, parseI64_intDec h.1 h.2]
      · simp [variantJ]
    | .u64 v, h, f, hf, j, hj => by
      simp only [varJ, Res.ok.injEq] at hj; subst hj
      obtain ⟨f, rfl⟩ : ∃ g, f = g + 1 := ⟨f - 1, by simp only [Var.depth] at hf; omega⟩
      simp only [WFVar] at h
      rw [varFromJ, variant_fields]
      · simp [uintJ_natJ, optPresent_none, optPresent, okOr, parseU64_intDec h.1 h.2]; omega
      · simp [variantJ]
    | .float b, h, f, hf, j, hj => by
      simp only [varJ, Res.ok.injEq] at hj; subst hj
      obtain ⟨f, rfl⟩ : ∃ g, f = g + 1 := ⟨f - 1, by simp only [Var.depth] at hf; omega⟩
      simp only [WFVar] at h
      rw [varFromJ, variant_fields]
      · simp [uintJ_natJ, optPresent_none, okOr, floatBody_present cfg b h]
      · simp [variantJ]
    | .double b, h, f, hf, j, hj => by
      simp only [varJ, Res.ok.injEq] at hj; subst hj
      obtain ⟨f, rfl⟩ : ∃ g, f = g + 1 := ⟨f - 1, by simp only [Var.depth] at hf; omega⟩
      simp only [WFVar] at h
      rw [varFromJ, variant_fields]
      · simp [uintJ_natJ, optPresent_none, okOr, double_rt b h.1 h.2]
      · simp [variantJ]
    | .string s, h, f, hf, j, hj => by
      simp only [varJ, Res.ok.injEq] at hj; subst hj
      obtain ⟨f, rfl⟩ : ∃ g, f = g + 1 := ⟨f - 1, by simp only [Var.depth] at hf; omega⟩
      simp only [WFVar] at h
      rw [varFromJ, variant_fields]
      · simp [uintJ_natJ, optPresent_none, okOr, uaString_rt' s]
      · simp [variantJ]
    | .dateTime d, h, f, hf, j, hj => by
      simp only [varJ, Res.ok.injEq] at hj; subst hj
      obtain ⟨f, rfl⟩ : ∃ g, f = g + 1 := ⟨f - 1, by simp only [Var.depth] at hf; omega⟩
      simp only [WFVar] at h
      rw [varFromJ, variant_fields]
      · simp [uintJ_natJ, optPresent_none, optPresent, okOr, requireJ, dtFromJ, dt_text_roundtrip d h]
      · simp [variantJ]
    | .guid g, h, f, hf, j, hj => by
      simp only [varJ, Res.ok.injEq] at hj; subst hj
      obtain ⟨f, rfl⟩ : ∃ g, f = g + 1 := ⟨f - 1, by simp only [Var.depth] at hf; omega⟩
      simp only [WFVar] at h
      rw [varFromJ, variant_fields]
      · simp [uintJ_natJ, optPresent_none, optPresent, okOr, requireJ, asStr, guid_roundtrip g h.1 h.2]
      · simp [variantJ]
    | .byteString b, h, f, hf, j, hj => by
      simp only [varJ, Res.ok.injEq] at hj; subst hj
      obtain ⟨f, rfl⟩ : ∃ g, f = g + 1 := ⟨f - 1, by simp only [Var.depth] at hf; omega⟩
      simp only [WFVar] at h
      rw [varFromJ, variant_fields]
      · simp [uintJ_natJ, optPresent_none, okOr, byteString_rt b h]
      · simp [variantJ]
    | .xml s, h, f, hf, j, hj => by
      simp only [varJ, Res.ok.injEq] at hj; subst hj
      obtain ⟨f, rfl⟩ : ∃ g, f = g + 1 := ⟨f - 1, by simp only [Var.depth] at hf; omega⟩
      simp only [WFVar] at h
      rw [varFromJ, variant_fields]
      · cases s with
        | none => simp [uintJ_natJ, optPresent_none, optPresent, optStrJ, okOr, h rfl]
        | some s => simp [uintJ_natJ, optPresent_none, optPresent, optStrJ, okOr, uaStringJ]
      · simp [variantJ]
    | .nodeId n, h, f, hf, j, hj => by
      simp only [varJ, Res.ok.injEq] at hj; subst hj
      obtain ⟨f, rfl⟩ : ∃ g, f = g + 1 := ⟨f - 1, by simp only [Var.depth] at hf; omega⟩
      simp only [WFVar] at h
      rw [varFromJ, variant_fields]
      · simp [uintJ_natJ, optPresent_none, optPresent_of_ne (nodeIdJ_ne n), okOr, requireJ, nodeId_rt n h]
      · simp [variantJ]
    | .expNodeId e, h, f, hf, j, hj => by
      simp only [varJ, Res.ok.injEq] at hj; subst hj
      obtain ⟨f, rfl⟩ : ∃ g, f = g + 1 := ⟨f - 1, by simp only [Var.depth] at hf; omega⟩
      simp only [WFVar] at h
      rw [varFromJ, variant_fields]
      · simp [uintJ_natJ, optPresent_none, optPresent_of_ne (expNodeIdJ_ne cfg.uriJson e), okOr, requireJ, expNodeId_rt cfg.uriJson e h.1 h.2.1 h.2.2]
      · simp [variantJ]
    | .status c, h, f, hf, j, hj => by
      simp only [varJ, Res.ok.injEq] at hj; subst hj
      obtain ⟨f, rfl⟩ : ∃ g, f = g + 1 := ⟨f - 1, by simp only [Var.depth] at hf; omega⟩
      simp only [WFVar] at h
      rw [varFromJ, variant_fields]
      · have hc : uintJ 4294967295 (natJ c) = some c := uintJ_natJ h.1
        have hne : natJ c ≠ .null := by simp [natJ]
        simp [uintJ_natJ, optPresent_none, optPresent_of_ne hne, okOr, requireJ, hc, h.2]
      · simp [variantJ]
    | .qname q, h, f, hf, j, hj => by
      simp only [varJ, Res.ok.injEq] at hj; subst hj
      obtain ⟨f, rfl⟩ : ∃ g, f = g + 1 := ⟨f - 1, by simp only [Var.depth] at hf; omega⟩
      simp only [WFVar] at h
      rw [varFromJ, variant_fields]
      · have hq := qname_rt q h
        simp only [qnameJ] at hq
        simp [uintJ_natJ, optPresent_none, optPresent, qnameJ, okOr, requireJ, hq]
      · simp [variantJ]
    | .ltext l, h, f, hf, j, hj => by
      simp only [varJ, Res.ok.injEq] at hj; subst hj
      obtain ⟨f, rfl⟩ : ∃ g, f = g + 1 := ⟨f - 1, by simp only [Var.depth] at hf; omega⟩
      simp only [WFVar] at h
      rw [varFromJ, variant_fields]
      · have hq := ltext_rt l
        simp only [ltextJ] at hq
        simp [uintJ_natJ, optPresent_none, optPresent, ltextJ, okOr, requireJ, hq]
      · simp [variantJ]
  theorem dval_rt (cfg : Cfg) : ∀ (d : DVal), WFDVal cfg d → ∀ f, d.depth ≤ f → ∀ j, dvalJ cfg d = .ok j →
      dvalFromJ cfg f j = .ok d
    | .mk (some v) st sts sp vts vp, h, f, hf, j, hj => by
      simp only [dvalJ] at hj
      cases hv : varJ cfg v with
      | err => simp [hv, bindJ] at hj
      | panic => simp [hv, bindJ] at hj
      | ok jv =>
        simp only [hv, bindJ, Res.ok.injEq] at hj; subst hj
        obtain ⟨f, rfl⟩ : ∃ g, f = g + 1 := ⟨f - 1, by simp only [DVal.depth] at hf; omega⟩
        simp only [WFDVal] at h
        have ih := var_rt cfg v h.1 f (by simp only [DVal.depth] at hf; omega) jv hv
        obtain ⟨r1, r2, r3, r4, r5⟩ := rest_rt cfg st sts sp vts vp h.2
        have hf := dval_fields (some jv) st sts sp vts vp
        simp only [optField, List.cons_append, List.nil_append] at hf
        rw [dvalFromJ, hf]
        simp only [r1, r2, r3, r4, r5, optPresent_of_ne (varJ_obj cfg v jv hv), ih]
    | .mk none st sts sp vts vp, h, f, hf, j, hj => by
      simp only [dvalJ, Res.ok.injEq] at hj; subst hj
      obtain ⟨f, rfl⟩ : ∃ g, f = g + 1 := ⟨f - 1, by simp only [DVal.depth] at hf; omega⟩
      simp only [WFDVal] at h
      obtain ⟨r1, r2, r3, r4, r5⟩ := rest_rt cfg st sts sp vts vp h
      have hf := dval_fields none st sts sp vts vp
      simp only [optField, List.nil_append] at hf
      rw [dvalFromJ, hf]
      simp only [r1, r2, r3, r4, r5, optPresent_none]
end

end OpcuaVerif.C42
