import OpcuaVerif.Lemmas.EncFault
import OpcuaVerif.Lemmas.EncSound
import OpcuaVerif.Lemmas.EncSteps

/-!
Resource theorems for the recursive decoder family (C02): which faults are possible, how much
native stack suffices, the depth limit is enforced on everything handed out, and what the source
before the depth-lock fix did on nested `DataValue` / `DiagnosticInfo` prefixes.
-/
namespace OpcuaVerif.Enc
set_option linter.unusedSimpArgs false

/-- With an allocation budget that covers the limits, the only fault the recursive decoders can end
in is stack exhaustion: no panic, no over-allocation — for every input, fuel, depth, lock variant. -/
theorem only_stack (o : Opts) (cap : Nat) (lk : Bool) (hc : CapOK o cap) : ∀ fuel,
    (∀ d b, (decV o cap lk fuel d b).FaultIn (· = .stack))
    ∧ (∀ d em b, (decVal o cap lk fuel d em b).FaultIn (· = .stack))
    ∧ (∀ d b, (decDV o cap lk fuel d b).FaultIn (· = .stack))
    ∧ (∀ d b, (decDI o cap lk fuel d b).FaultIn (· = .stack)) := by
  have lift : ∀ {α : Type} {x : Res α}, x.NoFault → x.FaultIn (· = .stack) :=
    fun h => Res.faultIn_mono h (fun _ hf => hf.elim)
  intro fuel
  induction fuel with
  | zero => simp [decV, decVal, decDV, decDI, Res.FaultIn]
  | succ f ih =>
    obtain ⟨ihV, ihVal, ihDV, ihDI⟩ := ih
    refine ⟨?_, ?_, ?_, ?_⟩
    · intro d b
      cases b with
      | nil => simp [decV, Res.FaultIn]
      | cons m0 b =>
        simp only [decV]
        split
        · split
          · trivial
          · rename_i n b' _
            split
            · trivial
            split
            · exact Res.faultIn_ite trivial trivial
            split
            · trivial
            rename_i hmax
            unfold guardAlloc
            split
            · have := hc.2.2; omega
            refine Res.faultIn_bind (decList_faultIn _ _ (ihVal d _) n b') (fun vals b'' => ?_)
            apply Res.faultIn_ite
            · trivial
            apply Res.faultIn_ite
            · exact Res.faultIn_bind (lift (decDimArray_noFault o cap b'' hc.2.2))
                (fun dims b3 => Res.faultIn_ite trivial trivial)
            · exact Res.faultIn_ite trivial trivial
        · split
          · trivial
          · exact ihVal d _ b
    · intro d em b
      simp only [decVal]
      repeat' apply Res.faultIn_ite
      · trivial
      · exact Res.faultIn_map (lift (decScalar_noFault o cap d em b hc))
      · trivial
      · exact Res.faultIn_map (ihV (d + 1) b)
      · exact Res.faultIn_map (ihDV d b)
      · exact Res.faultIn_map (ihDI d b)
      · trivial
    · intro d b
      simp only [decDV]
      apply Res.faultIn_ite
      · trivial
      cases b with
      | nil => trivial
      | cons m b =>
        simp only []
        apply Res.faultIn_ite
        · exact Res.faultIn_bind (ihV _ b) (fun v b => Res.faultIn_map (lift (decDVRest_noFault m b)))
        · exact Res.faultIn_map (lift (decDVRest_noFault m b))
    · intro d b
      simp only [decDI]
      apply Res.faultIn_ite
      · trivial
      cases b with
      | nil => trivial
      | cons m b =>
        simp only []
        refine Res.faultIn_bind (lift (decDIF_noFault o cap m b hc)) (fun fl b => ?_)
        apply Res.faultIn_ite
        · exact Res.faultIn_map (ihDI _ b)
        · trivial

/-- **Bounded native recursion** (current source, `lk = true`): with `3·(maxDepth − d) + 3` frames
of stack a Variant decodes without any fault, whatever the input; DataValue / DiagnosticInfo need
`3·(maxDepth − d) + 1`. -/
theorem no_fault (o : Opts) (cap : Nat) (hc : CapOK o cap) : ∀ fuel,
    (∀ d b, 3 * (o.maxDepth - d) + 3 ≤ fuel → (decV o cap true fuel d b).NoFault)
    ∧ (∀ d em b, 3 * (o.maxDepth - d) + 2 ≤ fuel → (decVal o cap true fuel d em b).NoFault)
    ∧ (∀ d b, 3 * (o.maxDepth - d) + 1 ≤ fuel → (decDV o cap true fuel d b).NoFault)
    ∧ (∀ d b, 3 * (o.maxDepth - d) + 1 ≤ fuel → (decDI o cap true fuel d b).NoFault) := by
  intro fuel
  induction fuel with
  | zero =>
    refine ⟨?_, ?_, ?_, ?_⟩ <;> intros <;> omega
  | succ f ih =>
    obtain ⟨ihV, ihVal, ihDV, ihDI⟩ := ih
    refine ⟨?_, ?_, ?_, ?_⟩
    · intro d b hf
      have hval : ∀ em b, (decVal o cap true f d em b).NoFault := fun em b => ihVal d em b (by omega)
      cases b with
      | nil => simp [decV, Res.FaultIn]
      | cons m0 b =>
        simp only [decV]
        split
        · split
          · trivial
          · rename_i n b' _
            split
            · trivial
            split
            · exact Res.faultIn_ite trivial trivial
            split
            · trivial
            rename_i hmax
            unfold guardAlloc
            split
            · have := hc.2.2; omega
            refine Res.faultIn_bind (decList_faultIn _ _ (hval _) n b') (fun vals b'' => ?_)
            apply Res.faultIn_ite
            · trivial
            apply Res.faultIn_ite
            · exact Res.faultIn_bind (decDimArray_noFault o cap b'' hc.2.2)
                (fun dims b3 => Res.faultIn_ite trivial trivial)
            · exact Res.faultIn_ite trivial trivial
        · split
          · trivial
          · exact hval _ b
    · intro d em b hf
      simp only [decVal]
      apply Res.faultIn_ite
      · trivial
      apply Res.faultIn_ite
      · exact Res.faultIn_map (decScalar_noFault o cap d em b hc)
      apply Res.faultIn_ite
      · by_cases hd : d ≥ o.maxDepth
        · simp [hd]; trivial
        · simp only [hd, if_false]
          exact Res.faultIn_map (ihV (d + 1) b (by omega))
      apply Res.faultIn_ite
      · exact Res.faultIn_map (ihDV d b (by omega))
      apply Res.faultIn_ite
      · exact Res.faultIn_map (ihDI d b (by omega))
      · trivial
    · intro d b hf
      simp only [decDV]
      by_cases hd : d ≥ o.maxDepth
      · simp [hd]; trivial
      · simp only [hd, and_false, if_false, if_true]
        cases b with
        | nil => trivial
        | cons m b =>
          simp only []
          apply Res.faultIn_ite
          · exact Res.faultIn_bind (ihV (d + 1) b (by omega)) (fun v b => Res.faultIn_map (decDVRest_noFault m b))
          · exact Res.faultIn_map (decDVRest_noFault m b)
    · intro d b hf
      simp only [decDI]
      by_cases hd : d ≥ o.maxDepth
      · simp [hd]; trivial
      · simp only [hd, and_false, if_false, if_true]
        cases b with
        | nil => trivial
        | cons m b =>
          simp only []
          refine Res.faultIn_bind (decDIF_noFault o cap m b hc) (fun fl b => ?_)
          apply Res.faultIn_ite
          · exact Res.faultIn_map (ihDI (d + 1) b (by omega))
          · trivial


/-! nesting of what a decoder hands out -/

def DepScalar (o : Opts) (d : Nat) : Scalar → Prop
  | .extObj _ => d < o.maxDepth
  | _ => True

mutual
/-- every recursive container (Variant in Variant, DataValue, DiagnosticInfo, ExtensionObject)
of the value sits at a gauge depth below the configured maximum, when decoding starts with `d`
locks held -/
def DepV (o : Opts) : Nat → V → Prop
  | _, .empty => True
  | d, .sc s => DepScalar o d s
  | d, .var v => d < o.maxDepth ∧ DepV o (d + 1) v
  | d, .dv x => DepDV o d x
  | d, .di x => DepDI o d x
  | d, .arr _ elems _ => DepVs o d elems
def DepVs (o : Opts) : Nat → List V → Prop
  | _, [] => True
  | d, v :: vs => DepV o d v ∧ DepVs o d vs
def DepDV (o : Opts) : Nat → DV → Prop
  | d, .mk0 _ => d < o.maxDepth
  | d, .mk1 v _ => d < o.maxDepth ∧ DepV o (d + 1) v
def DepDI (o : Opts) : Nat → DI → Prop
  | d, .leaf _ => d < o.maxDepth
  | d, .nest _ i => d < o.maxDepth ∧ DepDI o (d + 1) i
end

theorem DepVs_of_forall (o : Opts) (d : Nat) (vs : List V) (h : ∀ v ∈ vs, DepV o d v) : DepVs o d vs := by
  induction vs with
  | nil => simp [DepVs]
  | cons v vs ih =>
    unfold DepVs
    exact ⟨h v (by simp), ih (fun w hw => h w (by simp [hw]))⟩

theorem decScalar_dep (o : Opts) (cap d em : Nat) (b : Bytes) :
    (decScalar o cap d em b).All (DepScalar o d) := by
  unfold decScalar
  repeat' apply Res.all_ite
  all_goals (first
    | exact Res.all_map (Res.all_true _) (fun _ _ => trivial)
    | exact Res.all_bind (Res.all_true _) (fun _ _ _ => Res.all_map (Res.all_true _) (fun _ _ => trivial))
    | trivial
    | skip)
  -- the ExtensionObject arm
  unfold decExtObj
  by_cases hd : d ≥ o.maxDepth
  · simp [hd]; trivial
  · simp only [hd, if_false]
    refine Res.all_map (P := fun _ => True) (Res.all_true _) (fun _ _ => ?_)
    show d < o.maxDepth
    omega

/-- **Depth limit is enforced** (current source): whatever a decoder hands out nests within the
configured decoding depth. -/
theorem depth_sound (o : Opts) (cap : Nat) : ∀ fuel,
    (∀ d b, (decV o cap true fuel d b).All (DepV o d))
    ∧ (∀ d em b, (decVal o cap true fuel d em b).All (DepV o d))
    ∧ (∀ d b, (decDV o cap true fuel d b).All (DepDV o d))
    ∧ (∀ d b, (decDI o cap true fuel d b).All (DepDI o d)) := by
  intro fuel
  induction fuel with
  | zero => simp [decV, decVal, decDV, decDI, Res.All]
  | succ f ih =>
    obtain ⟨ihV, ihVal, ihDV, ihDI⟩ := ih
    refine ⟨?_, ?_, ?_, ?_⟩
    · intro d b
      cases b with
      | nil => simp [decV, Res.All]
      | cons m0 b =>
        simp only [decV]
        split
        · split
          · trivial
          · rename_i n b' _
            split
            · trivial
            split
            · apply Res.all_ite
              · trivial
              · simp [Res.All, DepV, DepVs]
            split
            · trivial
            unfold guardAlloc
            split
            · trivial
            refine Res.all_bind (decList_all (DepV o d) _ (ihVal d _) n b') (fun vals b'' hv => ?_)
            have hIn : DepVs o d vals := DepVs_of_forall o d vals hv.2
            split
            · trivial
            split
            · refine Res.all_bind (Res.all_true _) (fun dims b3 _ => ?_)
              split
              · exact hIn
              · trivial
            split
            · trivial
            · exact hIn
        · split
          · trivial
          · exact ihVal d _ b
    · intro d em b
      simp only [decVal]
      apply Res.all_ite
      · trivial
      apply Res.all_ite
      · exact Res.all_map (decScalar_dep o cap d em b) (fun _ h => h)
      apply Res.all_ite
      · by_cases hd : d ≥ o.maxDepth
        · simp [hd]; trivial
        · simp only [hd, if_false]
          exact Res.all_map (ihV (d + 1) b) (fun v hv => ⟨by omega, hv⟩)
      apply Res.all_ite
      · exact Res.all_map (ihDV d b) (fun _ h => h)
      apply Res.all_ite
      · exact Res.all_map (ihDI d b) (fun _ h => h)
      · trivial
    · intro d b
      simp only [decDV]
      by_cases hd : d ≥ o.maxDepth
      · simp [hd]; trivial
      · simp only [hd, and_false, if_false, if_true]
        have hd' : d < o.maxDepth := by omega
        cases b with
        | nil => trivial
        | cons m b =>
          simp only []
          apply Res.all_ite
          · exact Res.all_bind (ihV (d + 1) b) (fun v b hv => Res.all_map (Res.all_true _) (fun _ _ => ⟨hd', hv⟩))
          · exact Res.all_map (Res.all_true _) (fun _ _ => hd')
    · intro d b
      simp only [decDI]
      by_cases hd : d ≥ o.maxDepth
      · simp [hd]; trivial
      · simp only [hd, and_false, if_false, if_true]
        have hd' : d < o.maxDepth := by omega
        cases b with
        | nil => trivial
        | cons m b =>
          simp only []
          refine Res.all_bind (Res.all_true _) (fun fl b _ => ?_)
          apply Res.all_ite
          · exact Res.all_map (ihDI (d + 1) b) (fun i hi => ⟨hd', hi⟩)
          · exact hd'

/-! the source before the fix (`lk = false`): unbounded native recursion -/

/-- `n` nested `DataValue { value: Variant::DataValue(…) }` prefixes (`01 17`) in front of `tail` -/
def nestDV : Nat → Bytes → Bytes
  | 0, tail => tail
  | n + 1, tail => 1 :: 23 :: nestDV n tail

/-- `n` nested inner-diagnostic-info prefixes (`40`) -/
def nestDI : Nat → Bytes → Bytes
  | 0, tail => tail
  | n + 1, tail => 64 :: nestDI n tail

theorem old_dv_unbounded (o : Opts) (cap d n : Nat) (tail : Bytes) :
    decDV o cap false (3 * n) d (nestDV n tail) = .fault .stack := by
  induction n with
  | zero => simp [decDV]
  | succ n ih =>
    have e : 3 * (n + 1) = (3 * n + 2) + 1 := by omega
    rw [e]
    simp only [nestDV, decDV, Bool.false_eq_true, false_and, if_false]
    have h1 : (1 % 2 = 1) := by decide
    simp only [h1, if_true]
    rw [show 3 * n + 2 = (3 * n + 1) + 1 from rfl, decV_nonarr o cap false (3 * n + 1) d 23 _ (by omega),
      decVal_dv, ih]
    rfl

theorem old_di_unbounded (o : Opts) (cap d n : Nat) (tail : Bytes) :
    decDI o cap false n d (nestDI n tail) = .fault .stack := by
  induction n with
  | zero => simp [decDI]
  | succ n ih =>
    simp only [nestDI, decDI, Bool.false_eq_true, false_and, if_false]
    have h0 : decDIF o cap 64 (nestDI n tail) = .ok ⟨none, none, none, none, none, none⟩ (nestDI n tail) := by
      simp [decDIF]
    have h1 : (64 / 64 % 2 = 1) := by decide
    simp only [h0, Res.bind_ok, h1, if_true, ih]
    rfl


/-- current source: the same input is rejected as soon as it nests deeper than the depth limit
allows, using a bounded number of frames -/
theorem new_dv_rejected (o : Opts) (cap : Nat) (tail : Bytes) :
    ∀ n d fuel, o.maxDepth - d < n → 3 * (o.maxDepth - d) + 1 ≤ fuel →
      decDV o cap true fuel d (nestDV n tail) = .err := by
  intro n
  induction n with
  | zero => intro d fuel h; omega
  | succ n ih =>
    intro d fuel hn hf
    cases fuel with
    | zero => omega
    | succ f =>
      by_cases hd : d ≥ o.maxDepth
      · simp only [decDV]; simp [hd]
      · have hf3 : ∃ g, f = g + 2 := ⟨f - 2, by omega⟩
        obtain ⟨g, rfl⟩ := hf3
        have e := ih (d + 1) g (by omega) (by omega)
        simp only [nestDV, decDV, hd, and_false, if_false, if_true]
        have h1 : (1 % 2 = 1) := by decide
        try simp only [h1, if_true]
        rw [decV_nonarr o cap true (g + 1) (d + 1) 23 _ (by omega), decVal_dv, e]
        rfl

theorem rd32_lt (b : Bytes) (n : Nat) (r : Bytes) (h : rd32 b = some (n, r)) : n < 4294967296 := by
  unfold rd32 at h
  split at h
  · simp at h; omega
  · cases h

theorem rd32_all (b : Bytes) : (Res.ofOpt (rd32 b)).All (· < 4294967296) := by
  cases h : rd32 b with
  | none => trivial
  | some p => obtain ⟨n, r⟩ := p; exact rd32_lt b n r h

theorem decChunkHeader_noFault (b : Bytes) : (decChunkHeader b).NoFault := by
  unfold decChunkHeader
  split
  · simp only []
    apply Res.faultIn_ite
    · refine Res.faultIn_bind (Res.faultIn_ofOpt _) (fun fin b => ?_)
      apply Res.faultIn_ite
      · exact Res.faultIn_bind (Res.faultIn_ofOpt _) (fun _ _ => Res.faultIn_map (Res.faultIn_ofOpt _))
      · trivial
    · trivial
  · trivial

theorem decChunkHeader_size (b : Bytes) : (decChunkHeader b).All (fun h => h.2.2.1 < 4294967296) := by
  unfold decChunkHeader
  split
  · simp only []
    apply Res.all_ite
    · refine Res.all_bind (Res.all_true _) (fun fin b _ => ?_)
      apply Res.all_ite
      · exact Res.all_bind (rd32_all _) (fun size _ hs => Res.all_map (Res.all_true _) (fun _ _ => hs))
      · trivial
    · trivial
  · trivial

/-- `MessageChunk::decode` never panics, and never asks for more memory than `max_message_size`
(when one is configured; the wire format bounds the request by 2^32 − 1 otherwise) -/
theorem decChunk_noFault (o : Opts) (cap : Nat) (b : Bytes)
    (h1 : o.maxMsg > 0 → o.maxMsg ≤ cap) (h2 : o.maxMsg = 0 → 4294967295 ≤ cap) :
    (decChunk o cap b).NoFault := by
  unfold decChunk
  have hs := decChunkHeader_size b
  have hf := decChunkHeader_noFault b
  cases hh : decChunkHeader b with
  | err => trivial
  | fault k => rw [hh] at hf; exact hf.elim
  | ok hdr rest =>
    rw [hh] at hs
    obtain ⟨ty, fin, size, chan⟩ := hdr
    have hsize : size < 4294967296 := hs
    simp only [Res.bind_ok]
    split
    · trivial
    · rename_i hlim
      unfold guardAlloc
      split
      · exfalso
        by_cases hm : o.maxMsg = 0
        · have := h2 hm; omega
        · have := h1 (by omega); omega
      · (try simp only [])
        split <;> trivial

end OpcuaVerif.Enc
