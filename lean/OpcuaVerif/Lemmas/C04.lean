import OpcuaVerif.Lemmas.Text
import OpcuaVerif.Model.C04
/-! Helper lemmas for the C04 property theorems. -/
namespace OpcuaVerif.C04
open OpcuaVerif.Text

theorem hexOf_ascii (bs : List Nat) : ∀ c ∈ hexOf bs, c.toNat < 128 := by
  intro c hc
  simp only [hexOf, List.mem_flatMap, hex2] at hc
  obtain ⟨b, _, hc⟩ := hc
  simp at hc
  rcases hc with rfl | rfl <;> exact nibble_lt (by omega)

theorem guid_roundtrip (g : List Nat) (hl : g.length = 16) (hb : ∀ b ∈ g, b < 256) :
    parseGuid (utf8 (printGuid g)) = some g := by
  have hascii : ∀ c ∈ printGuid g, c.toNat < 128 := by
    intro c hc
    simp only [printGuid, List.mem_append, List.mem_cons] at hc
    rcases hc with (((hc | hc | hc) | hc | hc) | hc | hc) | hc | hc
    all_goals first | exact hexOf_ascii _ c hc | (subst hc; decide)
  rw [utf8_ascii _ hascii]
  match g, hl with
  | [b0,b1,b2,b3,b4,b5,b6,b7,b8,b9,b10,b11,b12,b13,b14,b15], _ =>
    have h := hexPairs_hex [b0,b1,b2,b3,b4,b5,b6,b7,b8,b9,b10,b11,b12,b13,b14,b15] hb
    simp only [List.flatMap_cons, List.flatMap_nil, hex2, List.map_cons, List.map_nil, List.cons_append, List.nil_append, List.append_nil] at h
    simp [printGuid, hexOf, hex2, parseGuid, parseHyphenated, seg]
    exact h

/-- identifiers the property quantifies over -/
def WFIdent : Ident → Prop
  | .numeric n => n ≤ 4294967295
  | .str (some s) => s ≠ []
  | .str none => False
  | .guid g => g.length = 16 ∧ ∀ b ∈ g, b < 256
  | .bytes (some b) => b ≠ [] ∧ ∀ x ∈ b, x < 256
  | .bytes none => False

def isKind (k : Char) : Prop := k = 'i' ∨ k = 's' ∨ k = 'g' ∨ k = 'b'

theorem spanP_append (p : Char → Bool) (ds : List Char) (c : Char) (r : List Char) (hall : ds.all p = true)
    (hc : p c = false) : spanP p (ds ++ c :: r) = (ds, c :: r) := by
  induction ds with
  | nil => simp [spanP, hc]
  | cons d ds ih =>
    simp at hall
    have := ih (by simpa using hall.2)
    simp [spanP, hall.1, this]

theorem fromStr_kind (guard : Bool) (k : Char) (v : List Char) (hk : isKind k) :
    identFromStrWith guard (k :: '=' :: v) =
      if k = 'i' then
        match parseUnsigned 4294967295 v with
        | some n => .ok (.numeric n)
        | none => .err
      else if k = 's' then .ok (.str (some v))
      else if k = 'g' then
        match parseGuid (utf8 v) with
        | some g => .ok (.guid g)
        | none => .err
      else
        match b64Decode (utf8 v) with
        | some b => .ok (.bytes (some b))
        | none => .err := by
  rcases hk with rfl | rfl | rfl | rfl <;>
    simp [identFromStrWith, utf8Len, utf8Size, splitAtByte, show ¬ (1 + (1 + utf8Len v) < 2) by omega] <;> rfl

theorem printIdent_shape (i : Ident) (h : WFIdent i) :
    ∃ k v, printIdent i = k :: '=' :: v ∧ isKind k ∧ v ≠ [] := by
  cases i with
  | numeric n => exact ⟨'i', toDec n, rfl, Or.inl rfl, toDec_ne_nil n⟩
  | str s =>
    cases s with
    | none => exact absurd h (by simp [WFIdent])
    | some s => exact ⟨'s', s, rfl, Or.inr (Or.inl rfl), h⟩
  | guid g =>
    refine ⟨'g', printGuid g, rfl, Or.inr (Or.inr (Or.inl rfl)), ?_⟩
    unfold printGuid; simp
  | bytes b =>
    cases b with
    | none => exact absurd h (by simp [WFIdent])
    | some b => exact ⟨'b', b64Encode b, rfl, Or.inr (Or.inr (Or.inr rfl)), b64Encode_ne_nil h.1⟩

theorem ident_roundtrip_with (guard : Bool) (i : Ident) (h : WFIdent i) :
    identFromStrWith guard (printIdent i) = .ok i := by
  cases i with
  | numeric n =>
    simp only [printIdent]
    rw [fromStr_kind _ _ _ (Or.inl rfl)]
    have h' : n ≤ 4294967295 := by simpa [WFIdent] using h
    rw [parseUnsigned_toDec h']; simp
  | str s =>
    cases s with
    | none => exact absurd h (by simp [WFIdent])
    | some s =>
      simp only [printIdent]
      rw [fromStr_kind _ _ _ (Or.inr (Or.inl rfl))]
      simp
  | guid g =>
    simp only [printIdent]
    rw [fromStr_kind _ _ _ (Or.inr (Or.inr (Or.inl rfl)))]
    simp [guid_roundtrip g h.1 h.2]
  | bytes b =>
    cases b with
    | none => exact absurd h (by simp [WFIdent])
    | some b =>
      simp only [printIdent]
      rw [fromStr_kind _ _ _ (Or.inr (Or.inr (Or.inr rfl)))]
      rw [utf8_ascii _ (b64Encode_ascii b h.2), b64_roundtrip_bytes b h.2]
      simp


theorem matchT_shape (k : Char) (v : List Char) (hk : isKind k) (hv : v ≠ []) :
    matchT true (k :: '=' :: v) = true := by
  rcases hk with rfl | rfl | rfl | rfl <;> simp [matchT, hv]

theorem stripPrefix_ns_kind (k : Char) (r : List Char) (hk : isKind k) :
    stripPrefix? ['n', 's', '='] (k :: r) = none := by
  rcases hk with rfl | rfl | rfl | rfl <;> simp [stripPrefix?]

theorem digitsSemi_print (a b c : Char) (n : Nat) (r : List Char) :
    digitsSemi [a, b, c] (a :: b :: c :: (toDec n ++ ';' :: r)) = some (toDec n, r) := by
  simp only [digitsSemi, stripPrefix?, if_true]
  rw [spanP_append isDigit _ ';' r (toDec_all_digits n) (by decide)]
  simp [toDec_ne_nil]

def WFNode (n : NodeId) : Prop := n.ns ≤ 65535 ∧ WFIdent n.id

theorem nodeid_roundtrip_with (guard : Bool) (n : NodeId) (h : WFNode n) :
    parseNodeIdWith true guard (printNodeId n) = .ok n := by
  obtain ⟨k, v, hp, hk, hv⟩ := printIdent_shape n.id h.2
  have hid := ident_roundtrip_with guard n.id h.2
  unfold printNodeId
  by_cases hns : n.ns = 0
  · simp only [hns, ne_eq, not_true_eq_false, if_false]
    have hre : nodeIdRe true (printIdent n.id) = some (none, printIdent n.id) := by
      rw [hp]; simp [nodeIdRe, digitsSemi, stripPrefix_ns_kind k _ hk, matchT_shape k v hk hv]
    simp only [parseNodeIdWith, hre, hid, liftIdent]
    cases n; simp_all
  · simp only [hns, ne_eq, not_false_eq_true, if_true]
    have hre : nodeIdRe true (['n', 's', '='] ++ toDec n.ns ++ ';' :: printIdent n.id) = some (some (toDec n.ns), printIdent n.id) := by
      simp only [nodeIdRe, List.cons_append, List.nil_append, digitsSemi_print]
      rw [hp, matchT_shape k v hk hv]; simp
    simp only [parseNodeIdWith, hre, parseUnsigned_toDec h.1, hid, liftIdent]


def e1 (c : Char) : List Char := if c = '%' then ['%', '2', '5'] else [c]
def e2 (c : Char) : List Char := if c = ';' then ['%', '3', 'b'] else [c]

theorem replace_single (p : Char) (rep : List Char) (u : List Char) :
    ∀ fuel, u.length < fuel → replaceFuel [p] rep fuel u = u.flatMap (fun c => if c = p then rep else [c]) := by
  induction u with
  | nil => intro fuel h; cases fuel <;> simp [replaceFuel]
  | cons c cs ih =>
    intro fuel h
    cases fuel with
    | zero => simp at h
    | succ f =>
      simp only [List.length_cons] at h
      by_cases hc : p = c
      · subst hc; simp [replaceFuel, stripPrefix?, ih f (by omega)]
      · have hc' : ¬ c = p := fun e => hc e.symm
        simp [replaceFuel, stripPrefix?, hc, hc', ih f (by omega)]

theorem escapeUri_eq (u : List Char) : escapeUri u = (u.flatMap e1).flatMap e2 := by
  unfold escapeUri replace
  rw [replace_single '%' _ u _ (by omega), replace_single ';' _ _ _ (by omega)]
  rfl

theorem esc_char (c : Char) : (e1 c).flatMap e2 =
    if c = '%' then ['%', '2', '5'] else if c = ';' then ['%', '3', 'b'] else [c] := by
  by_cases h1 : c = '%'
  · subst h1; decide
  · by_cases h2 : c = ';'
    · subst h2; decide
    · simp [e1, e2, h1, h2]

theorem unesc1 (u : List Char) : ∀ fuel, ((u.flatMap e1).flatMap e2).length < fuel →
    replaceFuel ['%', '3', 'b'] [';'] fuel ((u.flatMap e1).flatMap e2) = u.flatMap e1 := by
  induction u with
  | nil => intro fuel h; cases fuel <;> simp [replaceFuel]
  | cons c cs ih =>
    intro fuel h
    simp only [List.flatMap_cons, List.flatMap_append, esc_char] at h ⊢
    generalize hw : List.flatMap e2 (List.flatMap e1 cs) = w at *
    by_cases h1 : c = '%'
    · subst h1
      rw [if_pos rfl] at h ⊢
      simp only [List.length_append, List.length_cons, List.length_nil] at h
      obtain ⟨f, rfl⟩ : ∃ f, fuel = f + 3 := ⟨fuel - 3, by omega⟩
      simp [replaceFuel, stripPrefix?, e1, ih f (by omega)]
    · by_cases h2 : c = ';'
      · subst h2
        rw [if_neg (by decide), if_pos rfl] at h ⊢
        simp only [List.length_append, List.length_cons, List.length_nil] at h
        obtain ⟨f, rfl⟩ : ∃ f, fuel = f + 1 := ⟨fuel - 1, by omega⟩
        simp [replaceFuel, stripPrefix?, e1, ih f (by omega)]
      · rw [if_neg h1, if_neg h2] at h ⊢
        simp only [List.length_append, List.length_cons, List.length_nil] at h
        obtain ⟨f, rfl⟩ : ∃ f, fuel = f + 1 := ⟨fuel - 1, by omega⟩
        have : ¬ '%' = c := fun e => h1 e.symm
        simp [replaceFuel, stripPrefix?, e1, h1, this, ih f (by omega)]

theorem unesc2 (u : List Char) : ∀ fuel, (u.flatMap e1).length < fuel →
    replaceFuel ['%', '2', '5'] ['%'] fuel (u.flatMap e1) = u := by
  induction u with
  | nil => intro fuel h; cases fuel <;> simp [replaceFuel]
  | cons c cs ih =>
    intro fuel h
    simp only [List.flatMap_cons] at h ⊢
    generalize hw : List.flatMap e1 cs = w at *
    by_cases h1 : c = '%'
    · subst h1
      simp only [e1, if_true] at h ⊢
      simp only [List.length_append, List.length_cons, List.length_nil] at h
      obtain ⟨f, rfl⟩ : ∃ f, fuel = f + 1 := ⟨fuel - 1, by omega⟩
      simp [replaceFuel, stripPrefix?, ih f (by omega)]
    · simp only [e1] at h ⊢
      rw [if_neg h1] at h ⊢
      simp only [List.length_append, List.length_cons, List.length_nil] at h
      obtain ⟨f, rfl⟩ : ∃ f, fuel = f + 1 := ⟨fuel - 1, by omega⟩
      have : ¬ '%' = c := fun e => h1 e.symm
      simp [replaceFuel, stripPrefix?, this, ih f (by omega)]

theorem unescape_escape (u : List Char) : unescapeUri (escapeUri u) = u := by
  rw [escapeUri_eq]
  unfold unescapeUri replace
  rw [unesc1 u _ (by omega), unesc2 u _ (by omega)]

theorem escapeUri_no_semi (u : List Char) : (escapeUri u).all (· ≠ ';') = true := by
  rw [escapeUri_eq]
  simp only [List.all_eq_true, List.mem_flatMap]
  rintro x ⟨y, ⟨c, _, hy⟩, hx⟩
  by_cases h2 : y = ';'
  · subst h2; simp [e2] at hx; rcases hx with rfl | rfl | rfl <;> decide
  · simp [e2, h2] at hx; subst hx; simpa using h2

theorem escapeUri_ne_nil (u : List Char) (h : u ≠ []) : escapeUri u ≠ [] := by
  rw [escapeUri_eq]
  cases u with
  | nil => exact absurd rfl h
  | cons c cs =>
    simp only [List.flatMap_cons, List.flatMap_append, esc_char]
    split <;> (try split) <;> simp


theorem stripPrefix_self (p r : List Char) : stripPrefix? p (p ++ r) = some r := by
  induction p with
  | nil => simp [stripPrefix?]
  | cons a p ih => simp [stripPrefix?, ih]

theorem digitsSemi_lit (lit : List Char) (n : Nat) (r : List Char) :
    digitsSemi lit (lit ++ (toDec n ++ ';' :: r)) = some (toDec n, r) := by
  simp only [digitsSemi, stripPrefix_self]
  rw [spanP_append isDigit _ ';' r (toDec_all_digits n) (by decide)]
  simp [toDec_ne_nil]

theorem digitsSemi_ns_kind (k : Char) (r : List Char) (hk : isKind k) :
    digitsSemi ['n', 's', '='] (k :: r) = none := by
  simp [digitsSemi, stripPrefix_ns_kind k r hk]

theorem nsuSemi_kind (k : Char) (r : List Char) (hk : isKind k) : nsuSemi (k :: r) = none := by
  rcases hk with rfl | rfl | rfl | rfl <;> simp [nsuSemi, stripPrefix?]

/-- ExpandedNodeId without a namespace URI (null) -/
theorem exp_roundtrip_nouri_with (guard : Bool) (e : ExpNodeId) (hu : e.uri = none) (hs : e.svr ≤ 4294967295)
    (hn : WFNode e.node) : parseExpWith true guard true (printExp e) = .ok e := by
  obtain ⟨k, v, hp, hk, hv⟩ := printIdent_shape e.node.id hn.2
  have hid := ident_roundtrip_with guard e.node.id hn.2
  have hpe : printExp e = ['s', 'v', 'r', '='] ++ (toDec e.svr ++ ';' :: printNodeId e.node) := by
    simp [printExp, hu, uriIsEmpty]
  rw [hpe]
  unfold parseExpWith expRe
  rw [digitsSemi_lit]
  simp only []
  by_cases hns : e.node.ns = 0
  · have hpn : printNodeId e.node = k :: '=' :: v := by simp [printNodeId, hns, hp]
    rw [hpn, digitsSemi_ns_kind k _ hk, nsuSemi_kind k _ hk, matchT_shape k v hk hv]
    simp only [Bool.and_self, if_true, parseUnsigned_toDec hs, Option.map_none]
    rw [← hp, hid]
    obtain ⟨⟨ns, id⟩, uri, svr⟩ := e
    simp_all
  · have hpn : printNodeId e.node = ['n', 's', '='] ++ (toDec e.node.ns ++ ';' :: printIdent e.node.id) := by
      simp [printNodeId, hns]
    rw [hpn, digitsSemi_lit, hp]
    simp only [matchT_shape k v hk hv, if_true, parseUnsigned_toDec hs, parseUnsigned_toDec hn.1, Option.map_none]
    rw [← hp, hid]
    obtain ⟨⟨ns, id⟩, uri, svr⟩ := e
    simp_all

/-- ExpandedNodeId with a non-empty namespace URI: the text form has no place for the namespace
index, so the round trip is stated for index 0 (see the recorded finding for index ≠ 0). -/
theorem exp_roundtrip_uri_with (guard : Bool) (e : ExpNodeId) (u : List Char) (hu : e.uri = some u) (hne : u ≠ [])
    (hs : e.svr ≤ 4294967295) (hns : e.node.ns = 0) (hi : WFIdent e.node.id) :
    parseExpWith true guard true (printExp e) = .ok e := by
  obtain ⟨k, v, hp, hk, hv⟩ := printIdent_shape e.node.id hi
  have hid := ident_roundtrip_with guard e.node.id hi
  have hue : uriIsEmpty (some u) = false := by cases u <;> simp_all [uriIsEmpty]
  have hpe : printExp e = ['s', 'v', 'r', '='] ++ (toDec e.svr ++ ';' ::
      (['n', 's', 'u', '='] ++ (escapeUri u ++ ';' :: printIdent e.node.id))) := by
    simp [printExp, hu, hue]
  rw [hpe]
  unfold parseExpWith expRe
  rw [digitsSemi_lit]
  simp only []
  have h1 : digitsSemi ['n', 's', '='] (['n', 's', 'u', '='] ++ (escapeUri u ++ ';' :: printIdent e.node.id)) = none := by
    simp [digitsSemi, stripPrefix?]
  have h2 : nsuSemi (['n', 's', 'u', '='] ++ (escapeUri u ++ ';' :: printIdent e.node.id)) =
      some (escapeUri u, printIdent e.node.id) := by
    simp only [nsuSemi, stripPrefix_self]
    rw [spanP_append _ _ ';' _ (escapeUri_no_semi u) (by simp)]
    simp [escapeUri_ne_nil u hne]
  rw [h1, h2, hp]
  simp only [matchT_shape k v hk hv, if_true, parseUnsigned_toDec hs, Option.map_some, unescape_escape]
  rw [← hp, hid]
  obtain ⟨⟨ns, id⟩, uri, svr⟩ := e
  simp_all


theorem identFromStr_total (s : List Char) : identFromStrWith true s ≠ .panic := by
  unfold identFromStrWith
  split
  · simp
  · split
    · simp
    · split
      · split <;> simp
      · split
        · simp
        · split
          · split <;> simp
          · split
            · split <;> simp
            · simp

theorem parseNodeId_total (dotAll : Bool) (s : List Char) : parseNodeIdWith dotAll true s ≠ .panic := by
  unfold parseNodeIdWith
  split
  · simp
  · have := identFromStr_total ‹_›
    revert this; cases identFromStrWith true _ <;> simp [liftIdent]
  · split
    · simp
    · have := identFromStr_total ‹_›
      revert this; cases identFromStrWith true _ <;> simp [liftIdent]

theorem parseExp_total (dotAll nsOpt : Bool) (s : List Char) : parseExpWith dotAll true nsOpt s ≠ .panic := by
  unfold parseExpWith
  split
  · simp
  · split
    · simp
    · split
      · simp
      · rename_i c _ _ _ _ _ _ _
        have := identFromStr_total c.t
        revert this; cases h : identFromStrWith true c.t <;> simp


theorem spanP_all (p : Char → Bool) (ds : List Char) (h : ds.all p = true) : spanP p ds = (ds, []) := by
  induction ds with
  | nil => rfl
  | cons d ds ih =>
    simp at h
    simp [spanP, h.1, ih (by simpa using h.2)]

theorem toDec_length_le (k : Nat) : ∀ n, n < 10 ^ (k + 1) → (toDec n).length ≤ k + 1 := by
  induction k with
  | zero => intro n h; rw [toDec_lt (by simpa using h)]; simp
  | succ k ih =>
    intro n h
    by_cases h10 : n < 10
    · rw [toDec_lt h10]; simp
    · rw [toDec_ge h10]
      have : n / 10 < 10 ^ (k + 1) := by
        rw [Nat.pow_succ] at h; omega
      have := ih (n / 10) this
      simp; omega

theorem toDec_len10 {n : Nat} (h : n ≤ 4294967295) : (toDec n).length ≤ 10 :=
  toDec_length_le 9 n (by omega)

theorem toDec_len_pos (n : Nat) : 1 ≤ (toDec n).length := by
  have := toDec_ne_nil n
  cases h : toDec n with
  | nil => exact absurd h this
  | cons a l => simp

def ValidLeaf : Dim → Prop
  | .none => False
  | .index n => n ≤ 4294967295
  | .range a b => a < b ∧ b ≤ 4294967295

/-- valid numeric ranges: none, one index, one range `min < max`, or 2..10 dimensions each an
index or a range -/
def ValidNR : NR → Prop
  | .one .none => True
  | .one d => ValidLeaf d
  | .multi ds => 2 ≤ ds.length ∧ ds.length ≤ 10 ∧ ∀ d ∈ ds, ValidLeaf d

theorem parseRange_print (d : Dim) (h : ValidLeaf d) : parseRange (printDim d) = some d := by
  cases d with
  | none => exact absurd h (by simp [ValidLeaf])
  | index n =>
    have h' : n ≤ 4294967295 := h
    have hl := toDec_len10 h'
    have hp := toDec_len_pos n
    simp only [printDim, parseRange]
    rw [spanP_all _ _ (toDec_all_digits n)]
    simp [toDec_ne_nil, parseUnsigned_toDec h']
    omega
  | range a b =>
    have h' : a < b ∧ b ≤ 4294967295 := h
    have hla := toDec_len10 (show a ≤ 4294967295 by omega)
    have hlb := toDec_len10 h'.2
    have hpa := toDec_len_pos a
    have hpb := toDec_len_pos b
    simp only [printDim, parseRange]
    rw [spanP_append _ _ ':' _ (toDec_all_digits a) (by decide)]
    have hb := toDec_all_digits b
    simp only [List.all_eq_true] at hb
    simp [toDec_ne_nil, digitsVal_toDec]
    exact ⟨hla, ⟨hlb, hb⟩, h'.1, h'.2⟩

theorem toDec_no_comma (n : Nat) : ∀ c ∈ toDec n, c ≠ ',' := by
  intro c hc
  have := toDec_all_digits n
  simp only [List.all_eq_true] at this
  exact isDigit_ne (this c hc) (by decide)

theorem printDim_no_comma (d : Dim) : ∀ c ∈ printDim d, c ≠ ',' := by
  cases d with
  | none => simp [printDim]
  | index n => exact toDec_no_comma n
  | range a b =>
    intro c hc
    simp only [printDim, List.mem_append, List.mem_cons] at hc
    rcases hc with hc | rfl | hc
    · exact toDec_no_comma a c hc
    · decide
    · exact toDec_no_comma b c hc

theorem printDim_ne_nil (d : Dim) (h : ValidLeaf d) : printDim d ≠ [] := by
  cases d with
  | none => exact absurd h (by simp [ValidLeaf])
  | index n => exact toDec_ne_nil n
  | range a b => simp [printDim]

theorem splitOnChar_nocomma (p : List Char) (h : ∀ c ∈ p, c ≠ ',') : splitOnChar ',' p = [p] := by
  induction p with
  | nil => rfl
  | cons c cs ih =>
    have hc : c ≠ ',' := h c (by simp)
    simp [splitOnChar, hc, ih (fun x hx => h x (by simp [hx]))]

theorem splitOnChar_append (p r : List Char) (h : ∀ c ∈ p, c ≠ ',') :
    splitOnChar ',' (p ++ ',' :: r) = p :: splitOnChar ',' r := by
  induction p with
  | nil => simp [splitOnChar]
  | cons c cs ih =>
    have hc : c ≠ ',' := h c (by simp)
    simp [splitOnChar, hc, ih (fun x hx => h x (by simp [hx]))]

theorem split_join (ps : List (List Char)) (hne : ps ≠ []) (h : ∀ p ∈ ps, ∀ c ∈ p, c ≠ ',') :
    splitOnChar ',' (joinComma ps) = ps := by
  induction ps with
  | nil => exact absurd rfl hne
  | cons p ps ih =>
    cases ps with
    | nil => simp [joinComma, splitOnChar_nocomma p (h p (by simp))]
    | cons q qs =>
      simp only [joinComma]
      rw [splitOnChar_append p _ (h p (by simp)), ih (by simp) (fun x hx => h x (by simp [hx]))]

theorem parseAll_print (ds : List Dim) (h : ∀ d ∈ ds, ValidLeaf d) :
    parseAll (ds.map printDim) = some ds := by
  induction ds with
  | nil => rfl
  | cons d ds ih =>
    simp [parseAll, parseRange_print d (h d (by simp)), ih (fun x hx => h x (by simp [hx]))]

theorem joinComma_ne_nil (p q : List Char) (r : List (List Char)) : joinComma (p :: q :: r) ≠ [] := by
  simp [joinComma]

theorem nr_roundtrip' (r : NR) (h : ValidNR r) : parseNR (printNR r) = some r := by
  cases r with
  | one d =>
    cases d with
    | none => simp [printNR, printDim, parseNR]
    | index n =>
      have hv : ValidLeaf (.index n) := h
      simp only [printNR, parseNR, splitOnChar_nocomma _ (printDim_no_comma _)]
      simp [printDim_ne_nil _ hv, parseRange_print _ hv]
    | range a b =>
      have hv : ValidLeaf (.range a b) := h
      simp only [printNR, parseNR, splitOnChar_nocomma _ (printDim_no_comma _)]
      simp [printDim_ne_nil _ hv, parseRange_print _ hv]
  | multi ds =>
    obtain ⟨h2, h10, hv⟩ := h
    cases ds with
    | nil => simp at h2
    | cons d1 ds =>
      cases ds with
      | nil => simp at h2
      | cons d2 ds =>
        have hsj := split_join ((d1 :: d2 :: ds).map printDim) (by simp) (by
          intro p hp
          simp only [List.mem_map] at hp
          obtain ⟨d, _, rfl⟩ := hp
          exact printDim_no_comma d)
        have hne : joinComma (List.map printDim (d1 :: d2 :: ds)) ≠ [] := by
          simp only [List.map_cons]; exact joinComma_ne_nil _ _ _
        have hl1 : ¬ (List.map printDim (d1 :: d2 :: ds)).length = 1 := by simp
        have hl2 : 2 ≤ (List.map printDim (d1 :: d2 :: ds)).length ∧
            (List.map printDim (d1 :: d2 :: ds)).length ≤ maxIndices := by
          simp only [List.length_map, maxIndices]; exact ⟨h2, h10⟩
        simp only [printNR, parseNR, hsj]
        rw [if_neg (by simpa using hne), if_neg hl1, if_pos hl2, parseAll_print _ hv]
        rfl

end OpcuaVerif.C04
