import OpcuaVerif.Lemmas.C04
/-! Calendar and fixed-width decimal lemmas for the DateTime part of C04. -/
namespace OpcuaVerif.C04
open OpcuaVerif.Text

def digitStep (a : Nat) (c : Char) : Nat := 10 * a + digitVal c

theorem digitsVal_eq (cs : List Char) : digitsVal cs = cs.foldl digitStep 0 := rfl

theorem foldl_zeros (k a : Nat) : (List.replicate k '0').foldl digitStep a = a * 10 ^ k := by
  induction k generalizing a with
  | zero => simp
  | succ k ih =>
    simp only [List.replicate_succ, List.foldl_cons, ih, digitStep]
    have : digitVal '0' = 0 := by decide
    rw [this, Nat.pow_succ]; simp [Nat.mul_assoc, Nat.mul_comm]

theorem digitsVal_lead_zeros (k : Nat) (d : List Char) : digitsVal (List.replicate k '0' ++ d) = digitsVal d := by
  simp [digitsVal_eq, List.foldl_append, foldl_zeros]

theorem digitsVal_trail_zeros (k : Nat) (d : List Char) :
    digitsVal (d ++ List.replicate k '0') = digitsVal d * 10 ^ k := by
  simp [digitsVal_eq, List.foldl_append, foldl_zeros]

theorem padDec_spec (w n : Nat) (hw : 1 ≤ w) (h : n < 10 ^ w) :
    (padDec w n).length = w ∧ (padDec w n).all isDigit = true ∧ digitsVal (padDec w n) = n := by
  obtain ⟨k, rfl⟩ : ∃ k, w = k + 1 := ⟨w - 1, by omega⟩
  have hl := toDec_length_le k n h
  refine ⟨?_, ?_, ?_⟩
  · simp [padDec]; omega
  · simp only [padDec, List.all_append, toDec_all_digits, Bool.and_true]
    simp; right; decide
  · simp [padDec, digitsVal_lead_zeros, digitsVal_toDec]

theorem takeDigitsN_pad (w n : Nat) (rest : List Char) (hw : 1 ≤ w) (h : n < 10 ^ w) :
    takeDigitsN w (padDec w n ++ rest) = some (n, rest) := by
  obtain ⟨hl, ha, hv⟩ := padDec_spec w n hw h
  have ht : (padDec w n ++ rest).take w = padDec w n := by
    rw [List.take_append_of_le_length (by omega), List.take_of_length_le (by omega)]
  have hd : (padDec w n ++ rest).drop w = rest := by
    rw [List.drop_append_of_le_length (by omega), List.drop_of_length_le (by omega)]; simp
  simp [takeDigitsN, ht, hd, hl, hv]
  simpa using ha


def dimL (l : Bool) (m : Nat) : Nat :=
  if m = 2 then (if l then 29 else 28)
  else if m = 4 ∨ m = 6 ∨ m = 9 ∨ m = 11 then 30 else 31

theorem monthDay_spec (l : Bool) (doy m d : Nat) (h : doy < 365 + (if l then 1 else 0))
    (hmd : monthDay l doy = (m, d)) :
    1 ≤ m ∧ m ≤ 12 ∧ 1 ≤ d ∧ d ≤ dimL l m ∧ daysBeforeMonth l m + (d - 1) = doy := by
  cases l <;> simp only [monthDay, Bool.false_eq_true, if_false, if_true] at h hmd
  ·
    by_cases h0 : doy < 31
    · rw [if_pos h0] at hmd; cases hmd; simp [dimL, daysBeforeMonth]; omega
    rw [if_neg h0] at hmd
    by_cases h1 : doy < 59 + 0
    · rw [if_pos h1] at hmd; cases hmd; simp [dimL, daysBeforeMonth]; omega
    rw [if_neg h1] at hmd
    by_cases h2 : doy < 90 + 0
    · rw [if_pos h2] at hmd; cases hmd; simp [dimL, daysBeforeMonth]; omega
    rw [if_neg h2] at hmd
    by_cases h3 : doy < 120 + 0
    · rw [if_pos h3] at hmd; cases hmd; simp [dimL, daysBeforeMonth]; omega
    rw [if_neg h3] at hmd
    by_cases h4 : doy < 151 + 0
    · rw [if_pos h4] at hmd; cases hmd; simp [dimL, daysBeforeMonth]; omega
    rw [if_neg h4] at hmd
    by_cases h5 : doy < 181 + 0
    · rw [if_pos h5] at hmd; cases hmd; simp [dimL, daysBeforeMonth]; omega
    rw [if_neg h5] at hmd
    by_cases h6 : doy < 212 + 0
    · rw [if_pos h6] at hmd; cases hmd; simp [dimL, daysBeforeMonth]; omega
    rw [if_neg h6] at hmd
    by_cases h7 : doy < 243 + 0
    · rw [if_pos h7] at hmd; cases hmd; simp [dimL, daysBeforeMonth]; omega
    rw [if_neg h7] at hmd
    by_cases h8 : doy < 273 + 0
    · rw [if_pos h8] at hmd; cases hmd; simp [dimL, daysBeforeMonth]; omega
    rw [if_neg h8] at hmd
    by_cases h9 : doy < 304 + 0
    · rw [if_pos h9] at hmd; cases hmd; simp [dimL, daysBeforeMonth]; omega
    rw [if_neg h9] at hmd
    by_cases h10 : doy < 334 + 0
    · rw [if_pos h10] at hmd; cases hmd; simp [dimL, daysBeforeMonth]; omega
    rw [if_neg h10] at hmd
    cases hmd; simp [dimL, daysBeforeMonth]; omega
  ·
    by_cases h0 : doy < 31
    · rw [if_pos h0] at hmd; cases hmd; simp [dimL, daysBeforeMonth]; omega
    rw [if_neg h0] at hmd
    by_cases h1 : doy < 59 + 1
    · rw [if_pos h1] at hmd; cases hmd; simp [dimL, daysBeforeMonth]; omega
    rw [if_neg h1] at hmd
    by_cases h2 : doy < 90 + 1
    · rw [if_pos h2] at hmd; cases hmd; simp [dimL, daysBeforeMonth]; omega
    rw [if_neg h2] at hmd
    by_cases h3 : doy < 120 + 1
    · rw [if_pos h3] at hmd; cases hmd; simp [dimL, daysBeforeMonth]; omega
    rw [if_neg h3] at hmd
    by_cases h4 : doy < 151 + 1
    · rw [if_pos h4] at hmd; cases hmd; simp [dimL, daysBeforeMonth]; omega
    rw [if_neg h4] at hmd
    by_cases h5 : doy < 181 + 1
    · rw [if_pos h5] at hmd; cases hmd; simp [dimL, daysBeforeMonth]; omega
    rw [if_neg h5] at hmd
    by_cases h6 : doy < 212 + 1
    · rw [if_pos h6] at hmd; cases hmd; simp [dimL, daysBeforeMonth]; omega
    rw [if_neg h6] at hmd
    by_cases h7 : doy < 243 + 1
    · rw [if_pos h7] at hmd; cases hmd; simp [dimL, daysBeforeMonth]; omega
    rw [if_neg h7] at hmd
    by_cases h8 : doy < 273 + 1
    · rw [if_pos h8] at hmd; cases hmd; simp [dimL, daysBeforeMonth]; omega
    rw [if_neg h8] at hmd
    by_cases h9 : doy < 304 + 1
    · rw [if_pos h9] at hmd; cases hmd; simp [dimL, daysBeforeMonth]; omega
    rw [if_neg h9] at hmd
    by_cases h10 : doy < 334 + 1
    · rw [if_pos h10] at hmd; cases hmd; simp [dimL, daysBeforeMonth]; omega
    rw [if_neg h10] at hmd
    cases hmd; simp [dimL, daysBeforeMonth]; omega

theorem year_arith (n : Nat) (hn : n ≤ 3067670) :
    1601 ≤ (yearDoy n).1 ∧ (yearDoy n).1 ≤ 9999 ∧
    ((yearDoy n).2 < 365 ∨ ((yearDoy n).2 = 365 ∧
      (((yearDoy n).1 % 4 = 0 ∧ (yearDoy n).1 % 100 ≠ 0) ∨ (yearDoy n).1 % 400 = 0))) ∧
    365 * ((yearDoy n).1 - 1601) + ((yearDoy n).1 - 1601) / 4 + ((yearDoy n).1 - 1601) / 400 + (yearDoy n).2
      = n + ((yearDoy n).1 - 1601) / 100 := by
  simp only [yearDoy]
  generalize hg : n / 146097 = g
  generalize hr1 : n % 146097 = r1
  generalize hh : min (r1 / 36524) 3 = h
  generalize hr2 : r1 - h * 36524 = r2
  generalize he : r2 / 1461 = e
  generalize hr3 : r2 % 1461 = r3
  generalize hf : min (r3 / 365) 3 = f
  have hr2b : r2 ≤ 36524 := by omega
  have heb : e ≤ 24 := by omega
  have hfb : f ≤ 3 := by omega
  have hhb : h ≤ 3 := by omega
  have hgb : g ≤ 20 := by omega
  have hr3b : r3 ≤ 1460 := by omega
  have e24h : e = 24 → r3 = 1460 → h = 3 := by omega
  have l1 : n = 146097 * g + r1 := by omega
  have l2 : r1 = h * 36524 + r2 := by omega
  have l3 : r2 = 1461 * e + r3 := by omega
  have l4 : f * 365 ≤ r3 := by omega
  have l5 : r3 < 1460 → r3 - f * 365 < 365 := by omega
  have l6 : r3 = 1460 → f = 3 := by omega
  clear hg hr1 hh hr2 he hr3 hf
  have hk : 1601 + 400 * g + 100 * h + 4 * e + f - 1601 = 400 * g + 100 * h + 4 * e + f := by omega
  rw [hk]
  have d4 : (400 * g + 100 * h + 4 * e + f) / 4 = 100 * g + 25 * h + e := by omega
  have d100 : (400 * g + 100 * h + 4 * e + f) / 100 = 4 * g + h := by omega
  have d400 : (400 * g + 100 * h + 4 * e + f) / 400 = g := by omega
  have m4 : (1601 + 400 * g + 100 * h + 4 * e + f) % 4 = (1 + f) % 4 := by omega
  have m100 : (1601 + 400 * g + 100 * h + 4 * e + f) % 100 = (1 + 4 * e + f) % 100 := by omega
  have m400 : (1601 + 400 * g + 100 * h + 4 * e + f) % 400 = (1 + 100 * h + 4 * e + f) % 400 := by omega
  rw [d4, d100, d400, m4, m100, m400]
  clear d4 d100 d400 m4 m100 m400 hk
  refine ⟨by omega, by omega, ?_, ?_⟩
  · by_cases hq : r3 = 1460
    · right
      have hf3 := l6 hq
      subst hf3
      refine ⟨by omega, ?_⟩
      by_cases he24 : e = 24
      · right; have := e24h he24 hq; subst this; subst he24; rfl
      · left; omega
    · left; omega
  · omega

theorem yearDoy_spec (n : Nat) (hn : n ≤ 3067670) :
    1601 ≤ (yearDoy n).1 ∧ (yearDoy n).1 ≤ 9999 ∧
    (yearDoy n).2 < 365 + (if isLeap (yearDoy n).1 then 1 else 0) ∧
    daysBeforeYear (yearDoy n).1 + (yearDoy n).2 = n := by
  obtain ⟨h1, h2, h3, h4⟩ := year_arith n hn
  generalize (yearDoy n).1 = y at *
  generalize (yearDoy n).2 = doy at *
  refine ⟨h1, h2, ?_, ?_⟩
  · cases hl : isLeap (y : Int) <;> simp [isLeap] at hl <;> simp <;> omega
  · simp only [daysBeforeYear]; omega

theorem expectChar_cons (c : Char) (r : List Char) : expectChar c (c :: r) = some r := by
  simp [expectChar]

theorem parseTail_print (y m d h mi s nanos : Nat) (hn : nanos < 10 ^ 9) :
    parseTail y m d h mi s (printFrac nanos ++ tz) = some (ticksOfFields y m d h mi s nanos) := by
  unfold printFrac parseTail
  by_cases h0 : nanos = 0
  · subst h0; simp [tz]
  · rw [if_neg h0]
    by_cases h3 : nanos % 1000000 = 0
    · rw [if_pos h3]
      obtain ⟨hl, ha, hv⟩ := padDec_spec 3 (nanos / 1000000) (by omega) (by omega)
      simp only [List.cons_append]
      rw [show tz = '+' :: ['0', '0', ':', '0', '0'] from rfl, spanP_append isDigit _ '+' _ ha (by decide)]
      simp only [hl, fracNanos, digitsVal_trail_zeros, hv]
      have : nanos / 1000000 * 10 ^ (9 - 3) = nanos := by omega
      simp [this]
    · rw [if_neg h3]
      by_cases h6 : nanos % 1000 = 0
      · rw [if_pos h6]
        obtain ⟨hl, ha, hv⟩ := padDec_spec 6 (nanos / 1000) (by omega) (by omega)
        simp only [List.cons_append]
        rw [show tz = '+' :: ['0', '0', ':', '0', '0'] from rfl, spanP_append isDigit _ '+' _ ha (by decide)]
        simp only [hl, fracNanos, digitsVal_trail_zeros, hv]
        have : nanos / 1000 * 10 ^ (9 - 6) = nanos := by omega
        simp [this]
      · rw [if_neg h6]
        obtain ⟨hl, ha, hv⟩ := padDec_spec 9 nanos (by omega) (by omega)
        simp only [List.cons_append]
        rw [show tz = '+' :: ['0', '0', ':', '0', '0'] from rfl, spanP_append isDigit _ '+' _ ha (by decide)]
        simp only [hl, fracNanos, digitsVal_trail_zeros, hv]
        simp

theorem twoThen_pad (c : Char) (n : Nat) (rest : List Char) (h : n < 100) :
    twoThen c (padDec 2 n ++ c :: rest) = some (n, rest) := by
  simp [twoThen, takeDigitsN_pad 2 n _ (by omega) (by omega), expectChar_cons]

theorem parsePrinted_fields (y m d h mi s : Nat) (tail : List Char)
    (hy : y < 10000) (hm : m < 100) (hd : d < 100) (hh : h < 100) (hmi : mi < 100) (hs : s < 100) :
    parsePrinted (padDec 4 y ++ '-' :: padDec 2 m ++ '-' :: padDec 2 d ++ 'T' :: padDec 2 h ++
      ':' :: padDec 2 mi ++ ':' :: padDec 2 s ++ tail) = parseTail y m d h mi s tail := by
  simp only [List.append_assoc, List.cons_append]
  unfold parsePrinted
  rw [takeDigitsN_pad 4 y _ (by omega) (by omega)]
  simp only [expectChar_cons, twoThen_pad _ _ _ hm, twoThen_pad _ _ _ hd, twoThen_pad _ _ _ hh,
    twoThen_pad _ _ _ hmi, takeDigitsN_pad 2 s _ (by omega) (by omega)]

theorem dimL_eq (y m : Nat) : dimL (isLeap y) m = daysInMonth y m := by
  simp [dimL, daysInMonth]

/-- **DateTime**: every in-range tick count prints to a text that parses back to the same ticks. -/
theorem dt_roundtrip' (t : Nat) (ht : t ≤ endTicks) : parsePrinted (printDateTime t) = some (some (t : Int)) := by
  have hdays : t / ticksPerDay ≤ 3067670 := by simp only [endTicks, ticksPerDay] at *; omega
  obtain ⟨hy1, hy2, hdoy, hdby⟩ := yearDoy_spec _ hdays
  obtain ⟨hm1, hm2, hd1, hd2, hdbm⟩ := monthDay_spec (isLeap (yearDoy (t / ticksPerDay)).1)
    (yearDoy (t / ticksPerDay)).2 (monthDay (isLeap (yearDoy (t / ticksPerDay)).1) (yearDoy (t / ticksPerDay)).2).1
    (monthDay (isLeap (yearDoy (t / ticksPerDay)).1) (yearDoy (t / ticksPerDay)).2).2 hdoy rfl
  rw [dimL_eq] at hd2
  have hd31 : daysInMonth (yearDoy (t / ticksPerDay)).1 (monthDay (isLeap (yearDoy (t / ticksPerDay)).1)
      (yearDoy (t / ticksPerDay)).2).1 ≤ 31 := by
    unfold daysInMonth; split <;> (try split) <;> omega
  have hsecs : t % ticksPerDay / ticksPerSec < 86400 := by simp only [ticksPerDay, ticksPerSec]; omega
  have hnanos : t % ticksPerDay % ticksPerSec * 100 < 10 ^ 9 := by simp only [ticksPerDay, ticksPerSec]; omega
  have hsplit : t = t / ticksPerDay * ticksPerDay + (t % ticksPerDay / ticksPerSec * ticksPerSec +
      t % ticksPerDay % ticksPerSec) := by simp only [ticksPerDay, ticksPerSec]; omega
  simp only [printDateTime, civilFromDays]
  rw [show (['+', '0', '0', ':', '0', '0'] : List Char) = tz from rfl]
  generalize (yearDoy (t / ticksPerDay)).1 = Y at *
  generalize (yearDoy (t / ticksPerDay)).2 = doy at *
  generalize (monthDay (isLeap (Y : Int)) doy).1 = M at *
  generalize (monthDay (isLeap (Y : Int)) doy).2 = D at *
  generalize t % ticksPerDay / ticksPerSec = secs at *
  generalize t % ticksPerDay % ticksPerSec = sub at *
  generalize t / ticksPerDay = days at *
  rw [parsePrinted_fields _ _ _ _ _ _ _ (by omega) (by omega) (by omega) (by omega) (by omega) (by omega)]
  rw [parseTail_print _ _ _ _ _ _ _ hnanos]
  simp only [ticksOfFields]
  rw [if_neg (by omega)]
  simp only [daysFromCivil]
  congr 2
  have e1 : (secs / 3600 * 3600 + secs / 60 % 60 * 60 + secs % 60) = secs := by omega
  have e2 : sub * 100 / 100 = sub := by omega
  rw [e1, e2, hsplit]
  have : (daysBeforeYear ↑Y + ↑(daysBeforeMonth (isLeap ↑Y) M) + ↑(D - 1) : Int) = (days : Int) := by omega
  rw [this]
  simp only [ticksPerDay, ticksPerSec]
  omega

end OpcuaVerif.C04
