import OpcuaVerif.Lemmas.EncLeaf

/-! Soundness of the limits for the non-recursive decoders: whatever they hand out is within the
limits (`Res.All` lifts a predicate on values to results). -/
namespace OpcuaVerif.Enc
set_option linter.unusedSimpArgs false

/-- `P` holds of the value of a successful result -/
def Res.All {α : Type} (P : α → Prop) : Res α → Prop
  | .ok v _ => P v
  | _ => True

theorem Res.all_bind {α β : Type} {P : α → Prop} {Q : β → Prop} {x : Res α} {f : α → Bytes → Res β}
    (hx : x.All P) (hf : ∀ a r, P a → (f a r).All Q) : (x.bind f).All Q := by
  cases x with
  | ok a r => exact hf a r hx
  | err => trivial
  | fault k => trivial

theorem Res.all_map {α β : Type} {P : α → Prop} {Q : β → Prop} {x : Res α} {f : α → β}
    (hx : x.All P) (hf : ∀ a, P a → Q (f a)) : (x.map f).All Q := by
  cases x with
  | ok a r => exact hf a hx
  | err => trivial
  | fault k => trivial

theorem Res.all_true {α : Type} (x : Res α) : x.All (fun _ => True) := by
  cases x <;> trivial

theorem Res.all_mono {α : Type} {P Q : α → Prop} {x : Res α} (hx : x.All P) (h : ∀ a, P a → Q a) :
    x.All Q := by
  cases x with
  | ok a r => exact h a hx
  | err => trivial
  | fault k => trivial

theorem Res.all_of_ok {α : Type} {P : α → Prop} {x : Res α} {v : α} {r : Bytes} (hx : x.All P)
    (h : x = .ok v r) : P v := by
  subst h; exact hx

theorem Res.all_err {α : Type} {P : α → Prop} : (Res.err : Res α).All P := trivial
theorem Res.all_ok {α : Type} {P : α → Prop} {v : α} {r : Bytes} (h : P v) : (Res.ok v r).All P := h

theorem decStr_all (o : Opts) (cap : Nat) (b : Bytes) : (decStr o cap b).All (InStr o) := by
  unfold decStr guardAlloc
  repeat' split
  all_goals (simp [Res.All, InStr])
  all_goals omega

theorem decBStr_all (o : Opts) (cap : Nat) (b : Bytes) : (decBStr o cap b).All (InBStr o) := by
  unfold decBStr guardAlloc
  repeat' split
  all_goals (simp [Res.All, InBStr])
  all_goals omega

theorem decNodeIdBody_all (o : Opts) (cap k : Nat) (b : Bytes) :
    (decNodeIdBody o cap k b).All (fun n => InIdent o n.id) := by
  unfold decNodeIdBody
  repeat' split
  · exact Res.all_map (Res.all_true _) (fun _ _ => trivial)
  · exact Res.all_bind (Res.all_true _) (fun _ _ _ => Res.all_map (Res.all_true _) (fun _ _ => trivial))
  · exact Res.all_bind (Res.all_true _) (fun _ _ _ => Res.all_map (Res.all_true _) (fun _ _ => trivial))
  · exact Res.all_bind (Res.all_true _) (fun _ _ _ => Res.all_map (decStr_all o cap _) (fun _ h => h))
  · exact Res.all_bind (Res.all_true _) (fun _ _ _ => Res.all_map (Res.all_true _) (fun _ _ => trivial))
  · exact Res.all_bind (Res.all_true _) (fun _ _ _ => Res.all_map (decBStr_all o cap _) (fun _ h => h))
  · trivial

theorem decNodeId_all (o : Opts) (cap : Nat) (b : Bytes) :
    (decNodeId o cap b).All (fun n => InIdent o n.id) :=
  Res.all_bind (Res.all_true _) (fun _ _ _ => decNodeIdBody_all o cap _ _)

theorem optStr_all (o : Opts) (cap : Nat) (c : Prop) [Decidable c] (b : Bytes) :
    (if c then decStr o cap b else .ok none b).All (InStr o) := by
  split
  · exact decStr_all o cap b
  · trivial

theorem decExpNodeId_all (o : Opts) (cap : Nat) (b : Bytes) :
    (decExpNodeId o cap b).All (fun n => InIdent o n.node.id ∧ InStr o n.uri) := by
  unfold decExpNodeId
  refine Res.all_bind (Res.all_true _) (fun m b _ => ?_)
  refine Res.all_bind (decNodeIdBody_all o cap _ _) (fun node b hn => ?_)
  refine Res.all_bind (optStr_all o cap _ b) (fun uri b hu => ?_)
  exact Res.all_map (Res.all_true _) (fun _ _ => ⟨hn, hu⟩)

theorem decExtObj_all (o : Opts) (cap d : Nat) (b : Bytes) :
    (decExtObj o cap d b).All (fun e => InIdent o e.node.id ∧ InBody o e.body) := by
  unfold decExtObj
  split
  · trivial
  · refine Res.all_bind (decNodeId_all o cap _) (fun node b hn => ?_)
    refine Res.all_bind (Res.all_true _) (fun t b _ => ?_)
    repeat' split
    · exact ⟨hn, trivial⟩
    · exact Res.all_map (decBStr_all o cap _) (fun _ h => ⟨hn, h⟩)
    · exact Res.all_map (decStr_all o cap _) (fun _ h => ⟨hn, h⟩)
    · trivial

theorem decLText_all (o : Opts) (cap : Nat) (b : Bytes) :
    (decLText o cap b).All (fun p => InStr o p.1 ∧ InStr o p.2) := by
  unfold decLText
  refine Res.all_bind (Res.all_true _) (fun m b _ => ?_)
  refine Res.all_bind (optStr_all o cap _ b) (fun l b hl => ?_)
  exact Res.all_map (optStr_all o cap _ b) (fun _ ht => ⟨hl, ht⟩)

theorem Res.all_ite {α : Type} {P : α → Prop} {c : Prop} [Decidable c] {x y : Res α}
    (hx : x.All P) (hy : y.All P) : (if c then x else y).All P := by
  split <;> assumption

theorem decScalar_all (o : Opts) (cap d em : Nat) (b : Bytes) :
    (decScalar o cap d em b).All (InScalar o) := by
  unfold decScalar
  repeat' apply Res.all_ite
  all_goals (first
    | exact Res.all_map (Res.all_true _) (fun _ _ => trivial)
    | exact Res.all_map (decStr_all o cap _) (fun _ h => h)
    | exact Res.all_map (decBStr_all o cap _) (fun _ h => h)
    | exact Res.all_map (decNodeId_all o cap _) (fun _ h => h)
    | exact Res.all_map (decExpNodeId_all o cap _) (fun _ h => h)
    | exact Res.all_map (decLText_all o cap _) (fun _ h => h)
    | exact Res.all_map (decExtObj_all o cap d _) (fun _ h => h)
    | exact Res.all_bind (Res.all_true _) (fun _ _ _ => Res.all_map (decStr_all o cap _) (fun _ h => h))
    | trivial)

theorem decDIF_all (o : Opts) (cap m : Nat) (b : Bytes) :
    (decDIF o cap m b).All (fun f => WFOpt (InStr o) f.addInfo) := by
  unfold decDIF
  refine Res.all_bind (Res.all_true _) (fun _ b _ => ?_)
  refine Res.all_bind (Res.all_true _) (fun _ b _ => ?_)
  refine Res.all_bind (Res.all_true _) (fun _ b _ => ?_)
  refine Res.all_bind (Res.all_true _) (fun _ b _ => ?_)
  refine Res.all_bind (Q := fun (f : DIF) => WFOpt (InStr o) f.addInfo) (P := WFOpt (InStr o)) ?_ (fun a b ha => ?_)
  · split
    · exact Res.all_map (decStr_all o cap _) (fun _ h => h)
    · trivial
  · exact Res.all_map (Res.all_true _) (fun _ _ => ha)

theorem decList_all {α : Type} (P : α → Prop) (g : Bytes → Res α) (hg : ∀ b, (g b).All P) :
    ∀ n b, (decList g n b).All (fun vs => vs.length = n ∧ ∀ v ∈ vs, P v) := by
  intro n
  induction n with
  | zero => intro b; simp [decList, Res.All]
  | succ n ih =>
    intro b
    unfold decList
    refine Res.all_bind (hg b) (fun v b hv => ?_)
    refine Res.all_map (ih b) (fun vs h => ?_)
    refine ⟨by simp [h.1], ?_⟩
    intro w hw
    rcases List.mem_cons.mp hw with rfl | hw
    · exact hv
    · exact h.2 w hw

theorem decDimArray_all (o : Opts) (cap : Nat) (b : Bytes) : (decDimArray o cap b).All (InDims o) := by
  unfold decDimArray guardAlloc
  repeat' split
  all_goals (first | trivial | skip)
  rename_i n r _ h1 h2 h3 h4
  refine Res.all_map (decList_all (fun _ => True) _ (fun _ => Res.all_true _) n r) (fun vs h => ?_)
  simp only [InDims, h.1]
  omega

end OpcuaVerif.Enc
