import OpcuaVerif.Model.C06

/-! C06 — helper lemmas (arithmetic of rounding, clamping, bit lengths, nearest grid points) used by
`OpcuaVerif.Proofs.C06`. -/
namespace OpcuaVerif.C06

theorem wrapTo_of_inRange (t : NT) (v : Int) (ht : t.isInt = true) (h : inRange t v) :
    wrapTo t v = v := by
  cases t <;> simp [NT.isInt, NT.isFloat] at ht <;>
    simp only [wrapTo, inRange, NT.minV, NT.maxV, NT.modulus] at * <;> omega

/-- reference rounding of the magnitude m·2^e to an integer: nearest, ties away from zero -/
def nearestAwayNat (m : Nat) (e : Int) : Nat :=
  if e ≥ 0 then m * 2 ^ e.toNat
  else if 2 * (m % 2 ^ (-e).toNat) ≥ 2 ^ (-e).toNat then m / 2 ^ (-e).toNat + 1
  else m / 2 ^ (-e).toNat

/-- reference: the integer nearest to ±m·2^e, ties away from zero -/
def nearestAway (neg : Bool) (m : Nat) (e : Int) : Int :=
  if neg then -(nearestAwayNat m e : Int) else nearestAwayNat m e

/-- an integer-valued float is its own nearest integer -/
theorem nearestAwayNat_exact (m : Nat) (e : Int) (he : 0 ≤ e) :
    nearestAwayNat m e = m * 2 ^ e.toNat := by
  simp [nearestAwayNat, he]

/-- `a = nearestAwayNat m e` is THE integer with `x − ½ < a ≤ x + ½` for `x = m / 2^k`
(`k = −e > 0`), written without fractions: `2·a·2^k ≤ 2·m + 2^k` and `2·m < 2·a·2^k + 2^k`.
So `|a − x| ≤ ½`, and an exact tie goes to the larger magnitude. -/
theorem nearestAwayNat_nearest (m : Nat) (e : Int) (he : e < 0) :
    2 * (nearestAwayNat m e * 2 ^ (-e).toNat) ≤ 2 * m + 2 ^ (-e).toNat ∧
    2 * m < 2 * (nearestAwayNat m e * 2 ^ (-e).toNat) + 2 ^ (-e).toNat := by
  generalize hP : 2 ^ (-e).toNat = P
  have hpos : 0 < P := by rw [← hP]; exact Nat.pos_of_ne_zero (by simp)
  have hdm := Nat.div_add_mod m P
  have hlt := Nat.mod_lt m hpos
  have hne : ¬ e ≥ 0 := by omega
  simp only [nearestAwayNat, hne, if_false, hP]
  split
  · rw [Nat.add_mul, Nat.mul_comm (m / P) P]; omega
  · rw [Nat.mul_comm (m / P) P]; omega

/-- uniqueness: the two inequalities determine the integer -/
theorem nearestAwayNat_unique (m P a b : Nat) (hP : 0 < P)
    (ha : 2 * (a * P) ≤ 2 * m + P ∧ 2 * m < 2 * (a * P) + P)
    (hb : 2 * (b * P) ≤ 2 * m + P ∧ 2 * m < 2 * (b * P) + P) : a = b := by
  rcases Nat.lt_trichotomy a b with h | h | h
  · have : (a + 1) * P ≤ b * P := Nat.mul_le_mul_right P h
    rw [Nat.add_mul] at this; omega
  · exact h
  · have : (b + 1) * P ≤ a * P := Nat.mul_le_mul_right P h
    rw [Nat.add_mul] at this; omega



theorem flRound_fin (neg : Bool) (m : Nat) (e : Int) :
    ∃ n e', flRound (.fin neg m e) = .fin neg n e' ∧ 0 ≤ e' ∧
      truncInt neg n e' = nearestAway neg m e := by
  by_cases he : e ≥ 0
  · refine ⟨m, e, by simp [flRound, he], he, ?_⟩
    simp [truncInt, nearestAway, nearestAwayNat, he]
  · refine ⟨_, 0, by simp [flRound, he]; rfl, by omega, ?_⟩
    simp only [truncInt, nearestAway, nearestAwayNat, he]
    by_cases h2 : 2 * (m % 2 ^ (-e).toNat) ≥ 2 ^ (-e).toNat <;> simp [h2]

theorem flNeg_aux (neg : Bool) (n a : Nat) (hz : a = 0 ↔ n = 0) :
    (neg && n != 0) = decide ((if neg = true then -(a : Int) else (a : Int)) < 0) := by
  cases neg
  · simp
  · by_cases hn : n = 0
    · have : a = 0 := hz.mpr hn
      simp [hn, this]
    · have : a ≠ 0 := fun h => hn (hz.mp h)
      have h1 : (n != 0) = true := by simp [hn]
      have h2 : 0 < a := Nat.pos_of_ne_zero this
      simp [h1, h2]

theorem flNeg_fin (neg : Bool) (n : Nat) (e : Int) (he : 0 ≤ e) :
    flNeg (.fin neg n e) = decide (truncInt neg n e < 0) := by
  have hp : 0 < 2 ^ e.toNat := Nat.pos_of_ne_zero (by simp)
  have hz : n * 2 ^ e.toNat = 0 ↔ n = 0 := by
    constructor
    · intro h
      rcases Nat.mul_eq_zero.mp h with h | h
      · exact h
      · exact absurd h (Nat.ne_of_gt hp)
    · intro h; simp [h]
  have := flNeg_aux neg n _ hz
  unfold flNeg truncInt
  simp only [ge_iff_le, he, if_true]
  exact this

def clamp (lo hi t : Int) : Int := if t < lo then lo else if t > hi then hi else t

theorem satCast_fin (lo hi : Int) (neg : Bool) (n : Nat) (e : Int) :
    satCast lo hi (.fin neg n e) = clamp lo hi (truncInt neg n e) := rfl

theorem clamp_ge_iff (lo hi b R : Int) (h1 : lo < b) (h2 : b ≤ hi) : clamp lo hi R ≥ b ↔ R ≥ b := by
  unfold clamp; split <;> (try split) <;> omega

theorem clamp_le_iff (lo hi b R : Int) (h1 : lo ≤ b) (h2 : b < hi) : clamp lo hi R ≤ b ↔ R ≤ b := by
  unfold clamp; split <;> (try split) <;> omega

theorem clamp_of_mem (lo hi R : Int) (h1 : lo ≤ R) (h2 : R ≤ hi) : clamp lo hi R = R := by
  unfold clamp; split <;> (try split) <;> omega

theorem castFloatToInt_aux (lo hi R : Int) (h1 : i128Min < lo) (h2 : lo ≤ 0) (h3 : 0 ≤ hi)
    (h4 : hi < i128Max) (h5 : hi < u128Max) :
    (if (if decide (R < 0) = true then lo ≠ 0 ∧ clamp i128Min i128Max R ≥ lo
          else (!decide (R < 0)) = true ∧ clamp 0 u128Max R ≤ hi)
      then some (Val.int (clamp lo hi R)) else none) =
    if lo ≤ R ∧ R ≤ hi then some (.int R) else none := by
  by_cases h0 : R < 0
  · simp only [h0, decide_true, if_true]
    simp only [clamp_ge_iff _ _ _ _ h1 (show lo ≤ i128Max by omega), ge_iff_le]
    by_cases hr : lo ≤ R ∧ R ≤ hi
    · rw [if_pos hr, if_pos ⟨by omega, by omega⟩, clamp_of_mem _ _ _ hr.1 hr.2]
    · rw [if_neg hr, if_neg (by omega)]
  · simp only [h0, decide_false, Bool.not_false, true_and, if_false, Bool.false_eq_true]
    simp only [clamp_le_iff _ _ _ _ h3 h5]
    by_cases hr : lo ≤ R ∧ R ≤ hi
    · rw [if_pos hr, if_pos hr.2, clamp_of_mem _ _ _ hr.1 hr.2]
    · rw [if_neg hr, if_neg (by omega)]

theorem nt_bounds (d : NT) : i128Min < d.minV ∧ d.minV ≤ 0 ∧ 0 ≤ d.maxV ∧ d.maxV < i128Max ∧
    d.maxV < u128Max := by
  cases d <;> simp [NT.minV, NT.maxV, i128Min, i128Max, u128Max]

theorem bitLen_bounds (m : Nat) (hm : m ≠ 0) : 2 ^ (bitLen m - 1) ≤ m ∧ m < 2 ^ bitLen m := by
  unfold bitLen
  simp only [hm, if_false]
  exact ⟨by simpa using Nat.log2_self_le hm, Nat.lt_log2_self⟩

theorem bitLen_pos (m : Nat) (hm : m ≠ 0) : 1 ≤ bitLen m := by simp [bitLen, hm]

theorem bitLen_le_of_lt (m n : Nat) (h : m < 2 ^ n) : bitLen m ≤ n := by
  by_cases hm : m = 0
  · simp [bitLen, hm]
  · have h1 := (bitLen_bounds m hm).1
    apply Classical.byContradiction
    intro hc
    have : 2 ^ n ≤ 2 ^ (bitLen m - 1) := Nat.pow_le_pow_right (by omega) (by omega)
    omega

/-- `rneShift m s` is `m / 2^s` rounded to nearest (within half a unit), ties to even -/
theorem rneShift_spec (m s : Nat) :
    2 * (rneShift m s * 2 ^ s) ≤ 2 * m + 2 ^ s ∧ 2 * m ≤ 2 * (rneShift m s * 2 ^ s) + 2 ^ s ∧
    ((2 * (rneShift m s * 2 ^ s) = 2 * m + 2 ^ s ∨ 2 * m = 2 * (rneShift m s * 2 ^ s) + 2 ^ s) →
      rneShift m s % 2 = 0) := by
  generalize hG : 2 ^ s = G
  have hpos : 0 < G := by rw [← hG]; exact Nat.pos_of_ne_zero (by simp)
  have hdm := Nat.div_add_mod m G
  have hlt := Nat.mod_lt m hpos
  unfold rneShift
  simp only [hG]
  split
  · rename_i h
    rw [Nat.add_mul, Nat.mul_comm (m / G) G]
    refine ⟨by omega, by omega, ?_⟩
    intro _
    omega
  · rename_i h
    rw [Nat.mul_comm (m / G) G]
    refine ⟨by omega, by omega, ?_⟩
    intro _
    omega

theorem rneShift_le (m s : Nat) : rneShift m s ≤ m / 2 ^ s + 1 := by
  unfold rneShift; simp only []; split <;> omega


/-- the significand and exponent `intToFl` produces (no overflow for 64-bit integers) -/
def intMant (f : Fmt) (m : Nat) : Nat :=
  if bitLen m ≤ f.mbits + 1 then m * 2 ^ (f.mbits + 1 - bitLen m)
  else rneShift m (bitLen m - (f.mbits + 1))

theorem intMant_le (f : Fmt) (m : Nat) (hm : m ≠ 0) : intMant f m ≤ 2 ^ (f.mbits + 1) := by
  have hb := bitLen_bounds m hm
  unfold intMant
  split
  · rename_i h
    have : m * 2 ^ (f.mbits + 1 - bitLen m) < 2 ^ bitLen m * 2 ^ (f.mbits + 1 - bitLen m) :=
      Nat.mul_lt_mul_of_pos_right hb.2 (Nat.pos_of_ne_zero (by simp))
    rw [← Nat.pow_add] at this
    have e : bitLen m + (f.mbits + 1 - bitLen m) = f.mbits + 1 := by omega
    rw [e] at this
    omega
  · rename_i h
    have h1 := rneShift_le m (bitLen m - (f.mbits + 1))
    have : m / 2 ^ (bitLen m - (f.mbits + 1)) < 2 ^ (f.mbits + 1) := by
      rw [Nat.div_lt_iff_lt_mul (Nat.pos_of_ne_zero (by simp)), ← Nat.pow_add]
      have e : f.mbits + 1 + (bitLen m - (f.mbits + 1)) = bitLen m := by omega
      rw [e]; exact hb.2
    omega

theorem roundFmt_int (f : Fmt) (hf : f = fmt32 ∨ f = fmt64) (neg : Bool) (m : Nat) (hm : m ≠ 0)
    (hlt : m < 2 ^ 64) :
    roundFmt f neg m 0 = .fin neg (intMant f m) ((bitLen m : Int) - (f.mbits + 1 : Nat)) := by
  have hL := bitLen_le_of_lt m 64 hlt
  have hL1 := bitLen_pos m hm
  have hM := intMant_le f m hm
  have hMb : bitLen (intMant f m) ≤ f.mbits + 2 := by
    apply bitLen_le_of_lt
    have : 2 ^ (f.mbits + 1) < 2 ^ (f.mbits + 2) := Nat.pow_lt_pow_right (by omega) (by omega)
    omega
  have hq : f.qmin ≤ -((f.mbits : Int) + 1) ∧ (f.mbits : Int) + 66 ≤ f.bias + 1 + (f.mbits + 1) := by
    rcases hf with rfl | rfl <;> decide
  unfold roundFmt
  simp only [hm, if_false]
  have hqv : max (0 + (bitLen m : Int) - ((f.mbits : Int) + 1)) f.qmin
      = (bitLen m : Int) - (f.mbits + 1 : Nat) := by
    have := hq.1
    omega
  rw [hqv]
  have hmant : (if (bitLen m : Int) - (f.mbits + 1 : Nat) ≤ 0
        then m * 2 ^ (0 - ((bitLen m : Int) - (f.mbits + 1 : Nat))).toNat
        else rneShift m ((bitLen m : Int) - (f.mbits + 1 : Nat) - 0).toNat) = intMant f m := by
    unfold intMant
    by_cases h : bitLen m ≤ f.mbits + 1
    · have h' : (bitLen m : Int) - (f.mbits + 1 : Nat) ≤ 0 := by omega
      rw [if_pos h', if_pos h]
      congr 2
      omega
    · have h' : ¬ (bitLen m : Int) - (f.mbits + 1 : Nat) ≤ 0 := by omega
      rw [if_neg h', if_neg h]
      congr 1
      omega
  rw [hmant]
  have hov : ¬ ((bitLen m : Int) - (f.mbits + 1 : Nat) + (bitLen (intMant f m) : Int) > f.bias + 1) := by
    have := hq.2
    omega
  rw [if_neg hov]


/-- |a − b| on naturals -/
def dist (a b : Nat) : Nat := (a - b) + (b - a)

/-- a point `g·G` of the grid within half a step of `m` is at least as near as any other grid point -/
theorem grid_nearest (m G g j : Nat) (h1 : 2 * (g * G) ≤ 2 * m + G) (h2 : 2 * m ≤ 2 * (g * G) + G) :
    dist (g * G) m ≤ dist (j * G) m := by
  unfold dist
  rcases Nat.lt_trichotomy j g with h | h | h
  · have : (j + 1) * G ≤ g * G := Nat.mul_le_mul_right G h
    rw [Nat.add_mul] at this
    omega
  · subst h; omega
  · have : (g + 1) * G ≤ j * G := Nat.mul_le_mul_right G h
    rw [Nat.add_mul] at this
    omega

/-- **Nearest among all integer-valued floats**: with `P` significant bits available, `L > P` the
bit length of `m`, `s = L − P` and `g` within half a grid step `2^s` of `m` (what `intToFl`
produces), no value `m'·2^e'` with `m' < 2^P` is nearer to `m` than `g·2^s`. -/
theorem nearest_of_halfstep (m P L g : Nat) (hPL : P < L) (hP : 1 ≤ P)
    (hlo : 2 ^ (L - 1) ≤ m)
    (h1 : 2 * (g * 2 ^ (L - P)) ≤ 2 * m + 2 ^ (L - P))
    (h2 : 2 * m ≤ 2 * (g * 2 ^ (L - P)) + 2 ^ (L - P))
    (m' e' : Nat) (hm' : m' < 2 ^ P) :
    dist (g * 2 ^ (L - P)) m ≤ dist (m' * 2 ^ e') m := by
  by_cases he : L - P ≤ e'
  · -- on the grid
    have e : m' * 2 ^ e' = (m' * 2 ^ (e' - (L - P))) * 2 ^ (L - P) := by
      rw [Nat.mul_assoc, ← Nat.pow_add]
      congr 2
      omega
    rw [e]
    exact grid_nearest m _ g _ h1 h2
  · -- below the binade of m: even 2^(L−1), which is on the grid, is nearer
    have hlt : m' * 2 ^ e' < 2 ^ (L - 1) := by
      have a : m' * 2 ^ e' < 2 ^ P * 2 ^ e' := Nat.mul_lt_mul_of_pos_right hm' (Nat.pos_of_ne_zero (by simp))
      have b : 2 ^ P * 2 ^ e' ≤ 2 ^ (L - 1) := by
        rw [← Nat.pow_add]
        exact Nat.pow_le_pow_right (by omega) (by omega)
      omega
    have hg := grid_nearest m (2 ^ (L - P)) g (2 ^ (P - 1)) h1 h2
    have e : 2 ^ (P - 1) * 2 ^ (L - P) = 2 ^ (L - 1) := by
      rw [← Nat.pow_add]
      congr 1
      omega
    rw [e] at hg
    unfold dist at *
    omega

/-- a representable value with a fractional part (`m'/2^k`, `m' < 2^P`) is below `2^P ≤ 2^(L−1) ≤ m`
and therefore farther from `m` than the grid point `2^(L−1)`, hence than `g·2^s` (scaled by `2^k`) -/
theorem nearest_of_halfstep_frac (m P L g : Nat) (hPL : P < L) (hP : 1 ≤ P)
    (hlo : 2 ^ (L - 1) ≤ m)
    (h1 : 2 * (g * 2 ^ (L - P)) ≤ 2 * m + 2 ^ (L - P))
    (h2 : 2 * m ≤ 2 * (g * 2 ^ (L - P)) + 2 ^ (L - P))
    (m' k : Nat) (hm' : m' < 2 ^ P) :
    m' ≤ m * 2 ^ k ∧ dist (g * 2 ^ (L - P)) m * 2 ^ k ≤ m * 2 ^ k - m' := by
  have hK : 1 ≤ 2 ^ k := Nat.pos_of_ne_zero (by simp)
  have hPL' : 2 ^ P ≤ 2 ^ (L - 1) := Nat.pow_le_pow_right (by omega) (by omega)
  have hmK : m ≤ m * 2 ^ k := Nat.le_mul_of_pos_right m hK
  have hg := grid_nearest m (2 ^ (L - P)) g (2 ^ (P - 1)) h1 h2
  have e : 2 ^ (P - 1) * 2 ^ (L - P) = 2 ^ (L - 1) := by
    rw [← Nat.pow_add]
    congr 1
    omega
  rw [e] at hg
  have hd : dist (g * 2 ^ (L - P)) m ≤ m - 2 ^ (L - 1) := by
    unfold dist at *
    omega
  refine ⟨by omega, ?_⟩
  have h3 : dist (g * 2 ^ (L - P)) m * 2 ^ k ≤ (m - 2 ^ (L - 1)) * 2 ^ k := Nat.mul_le_mul_right _ hd
  rw [Nat.sub_mul] at h3
  have h4 : 2 ^ (L - 1) ≤ 2 ^ (L - 1) * 2 ^ k := Nat.le_mul_of_pos_right _ hK
  omega

end OpcuaVerif.C06
