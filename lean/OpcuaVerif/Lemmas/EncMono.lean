import OpcuaVerif.Lemmas.EncSound

/-! Acceptance is monotone in the decoding limits (`Res.Le`), by induction on the fuel. -/
namespace OpcuaVerif.Enc
set_option linter.unusedSimpArgs false

/-- limits of `o` are at most those of `o'` -/
def OptsLe (o o' : Opts) : Prop :=
  o.maxStr ≤ o'.maxStr ∧ o.maxBytes ≤ o'.maxBytes ∧ o.maxArr ≤ o'.maxArr ∧ o.maxDepth ≤ o'.maxDepth

/-- whatever `x` accepts, `y` accepts with the same value and rest -/
def Res.Le {α : Type} (x y : Res α) : Prop := ∀ v r, x = .ok v r → y = .ok v r

theorem Res.le_refl {α : Type} (x : Res α) : x.Le x := fun _ _ h => h

theorem Res.le_err {α : Type} (y : Res α) : (Res.err : Res α).Le y := by
  intro v r h; cases h

theorem Res.le_fault {α : Type} (k : Fault) (y : Res α) : (Res.fault k : Res α).Le y := by
  intro v r h; cases h

theorem Res.le_bind {α β : Type} {x y : Res α} {f g : α → Bytes → Res β} (hx : x.Le y)
    (hf : ∀ a r, (f a r).Le (g a r)) : (x.bind f).Le (y.bind g) := by
  intro v r h
  cases x with
  | ok a r' =>
    rw [hx a r' rfl]
    exact hf a r' v r h
  | err => cases h
  | fault k => cases h

theorem Res.le_map {α β : Type} {x y : Res α} {f : α → β} (hx : x.Le y) : (x.map f).Le (y.map f) := by
  intro v r h
  cases x with
  | ok a r' => rw [hx a r' rfl]; exact h
  | err => cases h
  | fault k => cases h

theorem Res.le_ite {α : Type} {c : Prop} [Decidable c] {x y x' y' : Res α} (h1 : x.Le x') (h2 : y.Le y') :
    (if c then x else y).Le (if c then x' else y') := by
  split <;> assumption

/-- a limit check that is at least as permissive on the right -/
theorem Res.le_guard {α : Type} {c c' : Prop} [Decidable c] [Decidable c'] {x x' : Res α} (hc : c' → c)
    (h : x.Le x') : (if c then .err else x).Le (if c' then .err else x') := by
  by_cases h1 : c
  · simp only [h1, if_true]; exact Res.le_err _
  · have : ¬ c' := fun h' => h1 (hc h')
    simp only [h1, this, if_false]; exact h

section
variable (o o' : Opts) (h : OptsLe o o') (cap : Nat)
include h

theorem decStr_mono (b : Bytes) : (decStr o cap b).Le (decStr o' cap b) := by
  unfold decStr
  cases rd32 b with
  | none => exact Res.le_refl _
  | some p =>
    obtain ⟨n, r⟩ := p
    simp only []
    apply Res.le_ite (Res.le_refl _)
    apply Res.le_ite (Res.le_refl _)
    exact Res.le_guard (fun hh => by have := h.1; omega) (Res.le_refl _)

theorem decBStr_mono (b : Bytes) : (decBStr o cap b).Le (decBStr o' cap b) := by
  unfold decBStr
  cases rd32 b with
  | none => exact Res.le_refl _
  | some p =>
    obtain ⟨n, r⟩ := p
    simp only []
    apply Res.le_ite (Res.le_refl _)
    apply Res.le_ite (Res.le_refl _)
    exact Res.le_guard (fun hh => by have := h.2.1; omega) (Res.le_refl _)

theorem decNodeIdBody_mono (k : Nat) (b : Bytes) : (decNodeIdBody o cap k b).Le (decNodeIdBody o' cap k b) := by
  unfold decNodeIdBody
  repeat' apply Res.le_ite
  all_goals (first
    | exact Res.le_refl _
    | exact Res.le_bind (Res.le_refl _) (fun _ _ => Res.le_map (decStr_mono o o' h cap _))
    | exact Res.le_bind (Res.le_refl _) (fun _ _ => Res.le_map (decBStr_mono o o' h cap _)))

theorem decNodeId_mono (b : Bytes) : (decNodeId o cap b).Le (decNodeId o' cap b) :=
  Res.le_bind (Res.le_refl _) (fun _ _ => decNodeIdBody_mono o o' h cap _ _)

theorem decExpNodeId_mono (b : Bytes) : (decExpNodeId o cap b).Le (decExpNodeId o' cap b) := by
  unfold decExpNodeId
  refine Res.le_bind (Res.le_refl _) (fun m b => ?_)
  refine Res.le_bind (decNodeIdBody_mono o o' h cap _ _) (fun node b => ?_)
  refine Res.le_bind (Res.le_ite (decStr_mono o o' h cap _) (Res.le_refl _)) (fun uri b => ?_)
  exact Res.le_refl _

theorem decExtObj_mono (d : Nat) (b : Bytes) : (decExtObj o cap d b).Le (decExtObj o' cap d b) := by
  unfold decExtObj
  refine Res.le_guard (fun hh => by have := h.2.2.2; omega) ?_
  refine Res.le_bind (decNodeId_mono o o' h cap _) (fun node b => ?_)
  refine Res.le_bind (Res.le_refl _) (fun t b => ?_)
  repeat' apply Res.le_ite
  · exact Res.le_refl _
  · exact Res.le_map (decBStr_mono o o' h cap _)
  · exact Res.le_map (decStr_mono o o' h cap _)
  · exact Res.le_refl _

theorem decLText_mono (b : Bytes) : (decLText o cap b).Le (decLText o' cap b) := by
  unfold decLText
  refine Res.le_bind (Res.le_refl _) (fun m b => ?_)
  refine Res.le_bind (Res.le_ite (decStr_mono o o' h cap _) (Res.le_refl _)) (fun l b => ?_)
  exact Res.le_map (Res.le_ite (decStr_mono o o' h cap _) (Res.le_refl _))

theorem decScalar_mono (d em : Nat) (b : Bytes) : (decScalar o cap d em b).Le (decScalar o' cap d em b) := by
  unfold decScalar
  repeat' apply Res.le_ite
  all_goals (first
    | exact Res.le_refl _
    | exact Res.le_map (decStr_mono o o' h cap _)
    | exact Res.le_map (decBStr_mono o o' h cap _)
    | exact Res.le_map (decNodeId_mono o o' h cap _)
    | exact Res.le_map (decExpNodeId_mono o o' h cap _)
    | exact Res.le_map (decLText_mono o o' h cap _)
    | exact Res.le_map (decExtObj_mono o o' h cap d _)
    | exact Res.le_bind (Res.le_refl _) (fun _ _ => Res.le_map (decStr_mono o o' h cap _)))

theorem decDIF_mono (m : Nat) (b : Bytes) : (decDIF o cap m b).Le (decDIF o' cap m b) := by
  unfold decDIF
  refine Res.le_bind (Res.le_refl _) (fun _ b => ?_)
  refine Res.le_bind (Res.le_refl _) (fun _ b => ?_)
  refine Res.le_bind (Res.le_refl _) (fun _ b => ?_)
  refine Res.le_bind (Res.le_refl _) (fun _ b => ?_)
  refine Res.le_bind (Res.le_ite (Res.le_map (decStr_mono o o' h cap _)) (Res.le_refl _)) (fun _ b => ?_)
  exact Res.le_refl _

theorem decDimArray_mono (b : Bytes) : (decDimArray o cap b).Le (decDimArray o' cap b) := by
  unfold decDimArray
  cases rd32 b with
  | none => exact Res.le_refl _
  | some p =>
    obtain ⟨n, r⟩ := p
    simp only []
    apply Res.le_ite (Res.le_refl _)
    apply Res.le_ite (Res.le_refl _)
    exact Res.le_guard (fun hh => by have := h.2.2.1; omega) (Res.le_refl _)

end

theorem decList_mono {α : Type} (g g' : Bytes → Res α) (hg : ∀ b, (g b).Le (g' b)) :
    ∀ n b, (decList g n b).Le (decList g' n b) := by
  intro n
  induction n with
  | zero => intro b; exact Res.le_refl _
  | succ n ih =>
    intro b
    unfold decList
    exact Res.le_bind (hg b) (fun v b => Res.le_map (ih b))

/-- **Acceptance is monotone in the limits**: a decode that succeeds under `o` succeeds with the
same value and the same rest under any larger limits `o'`. -/
theorem mono_all (o o' : Opts) (h : OptsLe o o') (cap : Nat) : ∀ fuel,
    (∀ d b, (decV o cap true fuel d b).Le (decV o' cap true fuel d b))
    ∧ (∀ d em b, (decVal o cap true fuel d em b).Le (decVal o' cap true fuel d em b))
    ∧ (∀ d b, (decDV o cap true fuel d b).Le (decDV o' cap true fuel d b))
    ∧ (∀ d b, (decDI o cap true fuel d b).Le (decDI o' cap true fuel d b)) := by
  intro fuel
  induction fuel with
  | zero =>
    refine ⟨?_, ?_, ?_, ?_⟩ <;> intros <;> simp only [decV, decVal, decDV, decDI] <;> exact Res.le_fault _ _
  | succ f ih =>
    obtain ⟨ihV, ihVal, ihDV, ihDI⟩ := ih
    refine ⟨?_, ?_, ?_, ?_⟩
    · intro d b
      cases b with
      | nil => simp only [decV]; exact Res.le_refl _
      | cons m0 b =>
        simp only [decV]
        apply Res.le_ite
        · cases rd32 b with
          | none => exact Res.le_refl _
          | some p =>
            obtain ⟨n, b'⟩ := p
            simp only []
            apply Res.le_ite (Res.le_refl _)
            apply Res.le_ite (Res.le_refl _)
            refine Res.le_guard (fun hh => by have := h.2.2.1; omega) ?_
            unfold guardAlloc
            apply Res.le_ite (Res.le_refl _)
            refine Res.le_bind (decList_mono _ _ (ihVal d _) n b') (fun vals b'' => ?_)
            apply Res.le_ite (Res.le_refl _)
            apply Res.le_ite
            · exact Res.le_bind (decDimArray_mono o o' h cap b'') (fun _ _ => Res.le_refl _)
            · exact Res.le_refl _
        · apply Res.le_ite (Res.le_refl _)
          exact ihVal d _ b
    · intro d em b
      simp only [decVal]
      apply Res.le_ite (Res.le_refl _)
      apply Res.le_ite (Res.le_map (decScalar_mono o o' h cap d em b))
      apply Res.le_ite
      · exact Res.le_guard (fun hh => by have := h.2.2.2; omega) (Res.le_map (ihV (d + 1) b))
      apply Res.le_ite (Res.le_map (ihDV d b))
      apply Res.le_ite (Res.le_map (ihDI d b))
      exact Res.le_refl _
    · intro d b
      simp only [decDV]
      refine Res.le_guard (fun hh => ⟨trivial, by have := h.2.2.2; have := hh.2; omega⟩) ?_
      cases b with
      | nil => exact Res.le_refl _
      | cons m b =>
        simp only []
        apply Res.le_ite
        · exact Res.le_bind (ihV _ b) (fun _ _ => Res.le_refl _)
        · exact Res.le_refl _
    · intro d b
      simp only [decDI]
      refine Res.le_guard (fun hh => ⟨trivial, by have := h.2.2.2; have := hh.2; omega⟩) ?_
      cases b with
      | nil => exact Res.le_refl _
      | cons m b =>
        simp only []
        refine Res.le_bind (decDIF_mono o o' h cap m b) (fun fl b => ?_)
        apply Res.le_ite
        · exact Res.le_map (ihDI _ b)
        · exact Res.le_refl _

end OpcuaVerif.Enc
