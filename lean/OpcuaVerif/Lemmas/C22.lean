import OpcuaVerif.Model.C22

/-!
C22 — evaluation lemmas: what one `Subscription::tick` of the current source does in each of the
situations the property theorems meet.  (Helper lemmas only; the property theorems are in
`Proofs/C22.lean`.)
-/
namespace OpcuaVerif.C22

/-- unfold one tick of the current source completely -/
macro "eval_tick" : tactic =>
  `(tactic| simp [subTick, subTickWith, updateStateWith, handle, startTimer, resetLife, resetKa,
      enqueue, cond15, act15, current, *])

/-- state Creating: the first tick (timer or publish request) takes row #3 -/
theorem tick_creating (s : Subn) (timer e q : Bool) (h : s.state = .creating) (hn : s.notifs = [])
    (hq : timer = true ∨ q = true) :
    subTick s timer e q = some { s with state := .normal, sent := false } := by
  obtain ⟨state, maxLife, maxKa, life, ka, sent, enabled, notifs, seq, lastSeq, hasItem, pending⟩ := s
  simp only at h hn
  subst h hn
  rcases hq with rfl | rfl <;> eval_tick

/-- timer tick, interval not elapsed, nothing queued, no request: nothing happens at all -/
theorem tick_idle_noop (s : Subn) (h : s.state ≠ .creating) (hn : s.notifs = []) :
    subTick s true false false = some s := by
  obtain ⟨state, maxLife, maxKa, life, ka, sent, enabled, notifs, seq, lastSeq, hasItem, pending⟩ := s
  simp only at h hn
  subst hn
  eval_tick

/-- a closed subscription that still holds its status change does nothing on a timer tick -/
theorem tick_closed_noop (s : Subn) (e q : Bool) (h : s.state = .closed) :
    subTick s true e q = some s := by
  obtain ⟨state, maxLife, maxKa, life, ka, sent, enabled, notifs, seq, lastSeq, hasItem, pending⟩ := s
  simp only at h
  subst h
  cases notifs <;> eval_tick

/-- timer tick, interval not elapsed, request queued, lifetime not exhausted: rows #6–#9/#12/#14–#17
all need the timer to have expired, so nothing changes -/
theorem tick_quiet (s : Subn) (h : s.state = .normal ∨ s.state = .late ∨ s.state = .keepAlive)
    (hn : s.notifs = []) (hl : s.life ≠ 1) (q : Bool) :
    subTick s true false q = some s := by
  obtain ⟨state, maxLife, maxKa, life, ka, sent, enabled, notifs, seq, lastSeq, hasItem, pending⟩ := s
  simp only at h hn hl
  subst hn
  rcases h with rfl | rfl | rfl <;> cases q <;> eval_tick

/-- a publish request arriving in Normal (#4) or KeepAlive (#13) with nothing queued -/
theorem tick_publish_quiet (s : Subn) (h : s.state = .normal ∨ s.state = .keepAlive)
    (hn : s.notifs = []) (hl : s.life ≠ 1) (e : Bool) :
    subTick s false e true = some s := by
  obtain ⟨state, maxLife, maxKa, life, ka, sent, enabled, notifs, seq, lastSeq, hasItem, pending⟩ := s
  simp only at h hn hl
  subst hn
  rcases h with rfl | rfl <;> cases enabled <;> eval_tick

/-- row #7: first elapsed interval with a request queued and nothing to report: keep-alive -/
theorem tick_row7 (s : Subn) (h : s.state = .normal) (hn : s.notifs = []) (hp : s.pending = false)
    (hs : s.sent = false) (hl : s.life ≠ 1) (hml : s.maxLife ≠ 0) (hsq : s.seq = succ32 s.lastSeq) :
    subTick s true true true = some { s with
      sent := true
      life := s.maxLife - 1
      seq := succ32 s.seq
      lastSeq := s.seq
      notifs := [(.keepAlive, s.seq)] } := by
  obtain ⟨state, maxLife, maxKa, life, ka, sent, enabled, notifs, seq, lastSeq, hasItem, pending⟩ := s
  simp only at h hn hp hs hl hml hsq
  subst h hn hp hs hsq
  cases enabled <;> cases hasItem <;> eval_tick

/-- row #9: later elapsed interval, nothing to report: enter KeepAlive, restart the countdown -/
theorem tick_row9 (s : Subn) (h : s.state = .normal) (hn : s.notifs = []) (hp : s.pending = false)
    (hs : s.sent = true) (hl : s.life ≠ 1) (hl0 : s.life ≠ 0) (q : Bool) :
    subTick s true true q = some { s with
      state := .keepAlive
      life := s.life - 1
      ka := s.maxKa } := by
  obtain ⟨state, maxLife, maxKa, life, ka, sent, enabled, notifs, seq, lastSeq, hasItem, pending⟩ := s
  simp only at h hn hp hs hl hl0
  subst h hn hp hs
  cases enabled <;> cases hasItem <;> cases q <;> eval_tick

/-- row #16: countdown -/
theorem tick_row16 (s : Subn) (h : s.state = .keepAlive) (hn : s.notifs = []) (hp : s.pending = false)
    (hk : 1 < s.ka) (hl : s.life ≠ 1) (hl0 : s.life ≠ 0) (q : Bool) :
    subTick s true true q = some { s with
      life := s.life - 1
      ka := s.ka - 1 } := by
  obtain ⟨state, maxLife, maxKa, life, ka, sent, enabled, notifs, seq, lastSeq, hasItem, pending⟩ := s
  simp only at h hn hp hk hl hl0
  subst h hn hp
  have hk1 : ka ≠ 1 := by omega
  cases enabled <;> cases hasItem <;> cases q <;> eval_tick

/-- row #15 (as repaired): the countdown reached 1 and a request is queued: keep-alive, both
counters restart -/
theorem tick_row15 (s : Subn) (h : s.state = .keepAlive) (hn : s.notifs = []) (hp : s.pending = false)
    (hk : s.ka = 1) (hl : s.life ≠ 1) (hml : s.maxLife ≠ 0) (hsq : s.seq = succ32 s.lastSeq) :
    subTick s true true true = some { s with
      life := s.maxLife - 1
      ka := s.maxKa
      seq := succ32 s.seq
      lastSeq := s.seq
      notifs := [(.keepAlive, s.seq)] } := by
  obtain ⟨state, maxLife, maxKa, life, ka, sent, enabled, notifs, seq, lastSeq, hasItem, pending⟩ := s
  simp only at h hn hp hk hl hml hsq
  subst h hn hp hk hsq
  cases enabled <;> cases hasItem <;> eval_tick

/-- row #27 on a tick with a request queued (timer or arriving request), Normal or KeepAlive,
nothing queued, no data: close and queue the status change -/
theorem tick_close_served (s : Subn) (timer e : Bool) (h : s.state = .normal ∨ s.state = .keepAlive)
    (hn : s.notifs = []) (hp : s.pending = false) (hl : s.life = 1) (hsq : s.seq = succ32 s.lastSeq) :
    subTick s timer e true = some { s with
      state := .closed
      hasItem := false
      pending := false
      seq := succ32 s.seq
      lastSeq := s.seq
      notifs := [(.statusChange, s.seq)] } := by
  obtain ⟨state, maxLife, maxKa, life, ka, sent, enabled, notifs, seq, lastSeq, hasItem, pending⟩ := s
  simp only at h hn hp hl hsq
  subst hn hp hl hsq
  rcases h with rfl | rfl <;> cases timer <;> cases e <;> cases hasItem <;> eval_tick

/-! ### Regime 2 lemmas, proved with the merge switch `keepOnNone` off AND on -/

/-- the current source with the merge switch `keepOnNone` set to `k` (`cur current.keepOnNone` IS
`current`): the lemmas of regime 2 are proved for both values, so they survive the merge -/
def cur (k : Bool) : Variant := { current with keepOnNone := k }

theorem cur_current : cur current.keepOnNone = current := rfl

macro "eval_tick_k" : tactic =>
  `(tactic| simp [cur, subTickWith, updateStateWith, handle, startTimer, resetLife, resetKa,
      enqueue, cond15, act15, current, *])

/-- rows #8 / #12 with any queued notifications: elapsed interval, NO request queued, in Normal
before the first message or in Late.  The lifetime counter goes down; what the items reported is
dropped, or (merge switch on, publishing enabled) queued. -/
theorem tickK_row8_12 (k : Bool) (s : Subn)
    (h : (s.state = .normal ∧ s.sent = false) ∨ s.state = .late)
    (hl : s.life ≠ 1) (hl0 : s.life ≠ 0) (hsq : s.seq = succ32 s.lastSeq) :
    subTickWith (cur k) s true true false = some { s with
      state := .late
      life := s.life - 1
      pending := s.pending && !s.hasItem
      notifs := if k && s.enabled && s.pending && s.hasItem then s.notifs ++ [(.data, s.seq)] else s.notifs
      seq := if k && s.enabled && s.pending && s.hasItem then succ32 s.seq else s.seq
      lastSeq := if k && s.enabled && s.pending && s.hasItem then s.seq else s.lastSeq } := by
  obtain ⟨state, maxLife, maxKa, life, ka, sent, enabled, notifs, seq, lastSeq, hasItem, pending⟩ := s
  simp only at h hl hl0 hsq
  subst hsq
  rcases h with ⟨rfl, rfl⟩ | rfl <;> cases k <;> cases enabled <;> cases hasItem <;> cases pending <;>
    cases notifs <;> eval_tick_k

/-- row #27, timer tick, whatever is queued: close and queue the BadTimeout status change last.
It fires when the interval elapsed, and also on a non-elapsed tick if something is queued. -/
theorem tickK_row27 (k : Bool) (s : Subn) (e : Bool)
    (h : (s.state = .normal ∧ s.sent = false) ∨ s.state = .late)
    (hl : s.life = 1) (hsq : s.seq = succ32 s.lastSeq) (he : e = true ∨ s.notifs ≠ []) :
    subTickWith (cur k) s true e false = some { s with
      state := .closed
      hasItem := false
      pending := false
      seq := succ32 s.seq
      lastSeq := s.seq
      notifs := s.notifs ++ [(.statusChange, s.seq)] } := by
  obtain ⟨state, maxLife, maxKa, life, ka, sent, enabled, notifs, seq, lastSeq, hasItem, pending⟩ := s
  simp only at h hl hsq he
  subst hsq hl
  rcases he with rfl | he
  · rcases h with ⟨rfl, rfl⟩ | rfl <;> cases k <;> cases enabled <;> cases hasItem <;> cases pending <;>
      cases notifs <;> eval_tick_k
  · cases notifs with
    | nil => exact absurd rfl he
    | cons x l =>
      rcases h with ⟨rfl, rfl⟩ | rfl <;> cases k <;> cases e <;> cases enabled <;> cases hasItem <;>
        cases pending <;> eval_tick_k

/-- non-elapsed timer tick without a request, lifetime not exhausted or nothing queued: no change -/
theorem tickK_unserved_quiet (k : Bool) (s : Subn)
    (h : (s.state = .normal ∧ s.sent = false) ∨ s.state = .late)
    (hl : s.life ≠ 1 ∨ s.notifs = []) :
    subTickWith (cur k) s true false false = some s := by
  obtain ⟨state, maxLife, maxKa, life, ka, sent, enabled, notifs, seq, lastSeq, hasItem, pending⟩ := s
  simp only at h hl
  rcases hl with hl | rfl
  · rcases h with ⟨rfl, rfl⟩ | rfl <;> cases k <;> cases notifs <;> eval_tick_k
  · rcases h with ⟨rfl, rfl⟩ | rfl <;> cases k <;> eval_tick_k

theorem tickK_creating (k : Bool) (s : Subn) (e : Bool) (h : s.state = .creating) (hn : s.notifs = []) :
    subTickWith (cur k) s true e false = some { s with state := .normal, sent := false } := by
  obtain ⟨state, maxLife, maxKa, life, ka, sent, enabled, notifs, seq, lastSeq, hasItem, pending⟩ := s
  simp only at h hn
  subst h hn
  cases k <;> eval_tick_k

theorem tickK_closed (k : Bool) (s : Subn) (e : Bool) (h : s.state = .closed) :
    subTickWith (cur k) s true e false = some s := by
  obtain ⟨state, maxLife, maxKa, life, ka, sent, enabled, notifs, seq, lastSeq, hasItem, pending⟩ := s
  simp only at h
  subst h
  cases k <;> cases notifs <;> eval_tick_k


/-! ### Facts that hold for every row of the table and every source variant -/

theorem startTimer_some (s s' : Subn) (h : startTimer s = some s') :
    s' = { s with life := s.life - 1 } ∧ s.life ≠ 0 := by
  unfold startTimer at h
  split at h
  · cases h
  · rename_i h0; cases h; exact ⟨rfl, h0⟩

theorem map_startTimer (s : Subn) (f : Subn → Subn × Nat × Action) (r : Subn × Nat × Action)
    (h : (startTimer s).map f = some r) : s.life ≠ 0 ∧ r = f { s with life := s.life - 1 } := by
  cases hs : startTimer s with
  | none => rw [hs] at h; cases h
  | some x =>
    rw [hs] at h
    obtain ⟨rfl, h0⟩ := startTimer_some s x hs
    simp at h
    exact ⟨h0, h.symm⟩

/-- what `update_state` can do to the lifetime counter and to the state, whatever the row -/
def LifeFacts (s s' : Subn) (expired : Bool) : Prop :=
  s'.maxKa = s.maxKa ∧ s'.maxLife = s.maxLife ∧
  (s'.life = s.maxLife ∨ s'.life = s.life ∨
    ((s'.life + 1 = s.life ∨ s'.life + 1 = s.maxLife) ∧ expired = true ∧ s.state ≠ .creating)) ∧
  (s'.state = .closed → s.state = .closed ∨ s.life = 1) ∧
  (s.state = .closed → s'.state = .closed)

theorem updateState_facts (v : Variant) (s : Subn) (t : Bool) (p : Params) (s' : Subn) (r : Nat) (a : Action)
    (h : updateStateWith v s t p = some (s', r, a)) : LifeFacts s s' p.expired := by
  unfold updateStateWith at h
  split at h
  · cases h
  · split at h
    · cases h; simp_all [LifeFacts]
    · rename_i hl
      split at h
      · cases h; simp_all [LifeFacts]
      · repeat' split at h
        all_goals first
          | (cases h; simp_all [LifeFacts, resetLife]; done)
          | (obtain ⟨h0, h1⟩ := map_startTimer _ _ _ h; cases h1; simp_all [LifeFacts, resetLife, resetKa]; omega)
      · repeat' split at h
        all_goals first
          | (cases h; simp_all [LifeFacts, resetLife]; done)
          | (obtain ⟨h0, h1⟩ := map_startTimer _ _ _ h; cases h1; simp_all [LifeFacts, resetLife, resetKa]; omega)
      · simp only [act15, Option.map_map] at h
        repeat' split at h
        all_goals first
          | (cases h; simp_all [LifeFacts, resetLife]; done)
          | (obtain ⟨h0, h1⟩ := map_startTimer _ _ _ h; cases h1; simp_all [LifeFacts, resetLife, resetKa, cond15]; omega)
      · cases h; simp_all [LifeFacts]

theorem enqueue_facts (s s' : Subn) (k : Msg) (n : Nat) (h : enqueue s k n = some s') :
    s'.life = s.life ∧ s'.maxLife = s.maxLife ∧ s'.maxKa = s.maxKa ∧ s'.state = s.state := by
  unfold enqueue at h
  split at h
  · cases h
  · cases h; simp

theorem handle_facts (v : Variant) (s s' : Subn) (a : Action) (n : Option Nat) (h : handle v s a n = some s') :
    s'.life = s.life ∧ s'.maxLife = s.maxLife ∧ s'.maxKa = s.maxKa ∧ s'.state = s.state := by
  unfold handle at h
  cases a <;> cases n <;> simp only at h
  all_goals first
    | (cases h; done)
    | (cases h; simp; done)
    | (have := enqueue_facts _ _ _ _ h; simpa using this)
    | (split at h <;> first | (cases h; done) | (cases h; simp; done) | (have := enqueue_facts _ _ _ _ h; simpa using this))

/-- the three `let`s at the head of `Subscription::tick` -/
def elapsedOf (s : Subn) (timer e : Bool) : Bool := timer && (decide (s.state = .creating) || e)
def sampleOf (s : Subn) (timer e : Bool) : Bool :=
  elapsedOf s timer e && decide (s.state ≠ .closed) && decide (s.state ≠ .creating) && s.hasItem
def notifOf (s : Subn) (timer e : Bool) : Option Nat :=
  if sampleOf s timer e && s.pending then some s.seq else none
def s1Of (s : Subn) (timer e : Bool) : Subn :=
  if sampleOf s timer e then
    { s with pending := false, seq := if s.pending then succ32 s.seq else s.seq }
  else s

theorem subTickWith_unfold (v : Variant) (s : Subn) (timer e q : Bool) :
    subTickWith v s timer e q =
      if (!(s1Of s timer e).notifs.isEmpty || (notifOf s timer e).isSome) || elapsedOf s timer e || q then
        match updateStateWith v (s1Of s timer e) timer
          { na := !(s1Of s timer e).notifs.isEmpty || (notifOf s timer e).isSome,
            more := decide ((s1Of s timer e).notifs.length > 1), req := q, expired := elapsedOf s timer e } with
        | none => none
        | some (s2, _, a) => handle v s2 a (notifOf s timer e)
      else some (s1Of s timer e) := rfl

theorem s1Of_facts (s : Subn) (timer e : Bool) :
    (s1Of s timer e).life = s.life ∧ (s1Of s timer e).maxLife = s.maxLife ∧
      (s1Of s timer e).maxKa = s.maxKa ∧ (s1Of s timer e).state = s.state := by
  unfold s1Of; split <;> simp

/-- one `Subscription::tick`, any source variant, any inputs -/
theorem subTick_facts (v : Variant) (s s' : Subn) (timer e q : Bool) (h : subTickWith v s timer e q = some s') :
    LifeFacts s s' (timer && e && decide (s.state ≠ .creating)) := by
  rw [subTickWith_unfold] at h
  obtain ⟨l1, l2, l3, l4⟩ := s1Of_facts s timer e
  split at h
  · split at h
    · cases h
    · rename_i s2 r a hu
      obtain ⟨f1, f2, f3, f4, f5⟩ := updateState_facts _ _ _ _ _ _ _ hu
      obtain ⟨g1, g2, g3, g4⟩ := handle_facts _ _ _ _ _ h
      simp only at f3
      rw [l1, l2, l4] at f3
      rw [l1, l4] at f4
      rw [l4] at f5
      refine ⟨by rw [g3, f1, l3], by rw [g2, f2, l2], ?_, by rw [g4]; exact f4, by rw [g4]; exact f5⟩
      rw [g1]
      rcases f3 with f3 | f3 | ⟨f3, f3e, f3s⟩
      · exact Or.inl f3
      · exact Or.inr (Or.inl f3)
      · refine Or.inr (Or.inr ⟨f3, ?_, f3s⟩)
        simp only [elapsedOf, Bool.and_eq_true, Bool.or_eq_true, decide_eq_true_eq] at f3e
        obtain ⟨ht, hc | he⟩ := f3e
        · exact absurd hc f3s
        · simp [ht, he, f3s]
  · simp only [Option.some.injEq] at h
    subst h
    refine ⟨l3, l2, Or.inr (Or.inl l1), ?_, ?_⟩
    · rw [l4]; intro hc; exact Or.inl hc
    · rw [l4]; exact id

/-- the universal invariant: while the subscription is open its lifetime counter plus the number of
elapsed intervals is at least `L`; once it is closed or removed, at least `L - 1` intervals elapsed -/
def NB (L : Nat) (z : Sess) (n : Nat) : Prop :=
  match z.sub with
  | some s => s.maxLife = L ∧ (s.state ≠ .closed → L ≤ s.life + n) ∧ (s.state = .closed → L ≤ n + 1)
  | none => L ≤ n + 1

def cnt (z : Sess) (timer e : Bool) : Bool :=
  match z.sub with
  | some s => timer && e && decide (s.state ≠ .creating)
  | none => false

theorem sessTick_nb (v : Variant) (L : Nat) (z z' : Sess) (timer e : Bool) (out : List Resp) (n : Nat)
    (h : sessTickWith v z timer e = some (z', out)) (hi : NB L z n) :
    NB L z' (if cnt z timer e then n + 1 else n) := by
  unfold sessTickWith at h
  cases hz : z.sub with
  | none =>
    rw [hz] at h
    simp only [Option.some.injEq, Prod.mk.injEq] at h
    obtain ⟨rfl, _⟩ := h
    simp only [NB, cnt, hz] at hi ⊢
    simpa using hi
  | some s =>
    rw [hz] at h
    simp only at h
    split at h
    · cases h
    · rename_i s1 ht
      obtain ⟨f1, f2, f3, f4, f5⟩ := subTick_facts _ _ _ _ _ _ ht
      simp only [NB, hz] at hi
      obtain ⟨i1, i2, i3⟩ := hi
      simp only [Option.some.injEq, Prod.mk.injEq] at h
      obtain ⟨rfl, _⟩ := h
      simp only [cnt, hz]
      -- the bound that holds as soon as the new state is Closed
      have hclosed : s1.state = .closed → L ≤ (if (timer && e && decide (s.state ≠ .creating)) = true then n + 1 else n) + 1 := by
        intro hc
        rcases f4 hc with h0 | h0
        · have := i3 h0; split <;> omega
        · by_cases hs : s.state = .closed
          · have := i3 hs; split <;> omega
          · have := i2 hs; split <;> omega
      by_cases hr : readyToRemove { s1 with notifs := (pairLoop z.reqs s1.notifs).2.2 } = true
      · simp only [NB, hr, if_true]
        apply hclosed
        simp only [readyToRemove, Bool.and_eq_true, decide_eq_true_eq] at hr
        exact hr.1
      · simp only [NB, hr, Bool.false_eq_true, if_false]
        refine ⟨by rw [f2, i1], ?_, hclosed⟩
        intro hnc
        have hs : s.state ≠ .closed := fun h0 => hnc (f5 h0)
        have := i2 hs
        rcases f3 with f3 | f3 | ⟨f3, f3e, _⟩
        · simp only [f3, i1]; split <;> omega
        · simp only [f3]; split <;> omega
        · simp only [f3e, if_true]
          rcases f3 with f3 | f3 <;> omega

theorem write_nb (L : Nat) (z : Sess) (n : Nat) (h : NB L z n) : NB L (write z) n := by
  unfold write
  cases hz : z.sub with
  | none => simpa [NB, hz] using h
  | some s => simp only [NB, hz] at h ⊢; exact h

theorem write_cnt (z : Sess) (timer e : Bool) : cnt (write z) timer e = cnt z timer e := by
  unfold write cnt
  cases hz : z.sub <;> simp [hz]

theorem tick0_nb (v : Variant) (L : Nat) (za zb : Sess) (o : List Resp) (n : Nat)
    (ht : sessTickWith v za false false = some (zb, o)) (hia : NB L za n) : NB L zb n := by
  have := sessTick_nb v L _ _ false false _ n ht hia
  have hc0 : cnt za false false = false := by unfold cnt; cases za.sub <;> simp
  simpa [hc0] using this

theorem nb_reqs (L : Nat) (z : Sess) (rs : List Nat) (n : Nat) (h : NB L z n) : NB L { z with reqs := rs } n := h

/-- an arriving publish request (at most two ticks, none on the timer) keeps the invariant -/
theorem publish_nb (v : Variant) (L : Nat) (z : Sess) (r n : Nat) (hi : NB L z n) :
    match publishWith v z r with
    | .ok z' _ => NB L z' n
    | .tooMany z' _ => NB L z' n
    | .panic => True := by
  unfold publishWith
  simp only
  by_cases h1 : z.reqs.length ≥ maxPublishRequests z
  · simp only [h1, if_true]
    cases ht : sessTickWith v z false false with
    | none => simp
    | some p =>
      obtain ⟨z1, out1⟩ := p
      have hi1 := tick0_nb v L z z1 out1 n ht hi
      simp only
      by_cases h2 : z1.reqs.length ≥ maxPublishRequests z
      · simp only [h2, if_true]; exact hi1
      · simp only [h2, if_false]
        cases ht2 : sessTickWith v { z1 with reqs := z1.reqs ++ [r] } false false with
        | none => simp
        | some p2 =>
          obtain ⟨z2, out2⟩ := p2
          exact tick0_nb v L _ z2 out2 n ht2 (nb_reqs L z1 _ n hi1)
  · simp only [h1, if_false]
    cases ht2 : sessTickWith v { z with reqs := z.reqs ++ [r] } false false with
    | none => simp
    | some p2 =>
      obtain ⟨z2, out2⟩ := p2
      exact tick0_nb v L _ z2 out2 n ht2 (nb_reqs L z _ n hi)


end OpcuaVerif.C22
