import OpcuaVerif.Model.C22

/-!
C22 — evaluation lemmas: what one `Subscription::tick` of the current source does in each of the
situations the property theorems meet.  (Helper lemmas only; the property theorems are in
`Proofs/C22.lean`.)
-/
namespace OpcuaVerif.C22

/-- unfold one tick of the current source completely -/
macro "eval_tick" : tactic =>
  `(tactic| simp [subTick, subTickWith, updateStateWith, handle, startTimer, resetLife, resetKa,
      enqueue, cond15, act15, current, *])

/-- state Creating: the first tick (timer or publish request) takes row #3 -/
theorem tick_creating (s : Subn) (timer e q : Bool) (h : s.state = .creating) (hn : s.notifs = [])
    (hq : timer = true ∨ q = true) :
    subTick s timer e q = some { s with state := .normal, sent := false } := by
  obtain ⟨state, maxLife, maxKa, life, ka, sent, enabled, notifs, seq, lastSeq, hasItem, pending⟩ := s
  simp only at h hn
  subst h hn
  rcases hq with rfl | rfl <;> eval_tick

/-- timer tick, interval not elapsed, nothing queued, no request: nothing happens at all -/
theorem tick_idle_noop (s : Subn) (h : s.state ≠ .creating) (hn : s.notifs = []) :
    subTick s true false false = some s := by
  obtain ⟨state, maxLife, maxKa, life, ka, sent, enabled, notifs, seq, lastSeq, hasItem, pending⟩ := s
  simp only at h hn
  subst hn
  eval_tick

/-- a closed subscription that still holds its status change does nothing on a timer tick -/
theorem tick_closed_noop (s : Subn) (e q : Bool) (h : s.state = .closed) :
    subTick s true e q = some s := by
  obtain ⟨state, maxLife, maxKa, life, ka, sent, enabled, notifs, seq, lastSeq, hasItem, pending⟩ := s
  simp only at h
  subst h
  cases notifs <;> eval_tick

/-- timer tick, interval not elapsed, request queued, lifetime not exhausted: rows #6–#9/#12/#14–#17
all need the timer to have expired, so nothing changes -/
theorem tick_quiet (s : Subn) (h : s.state = .normal ∨ s.state = .late ∨ s.state = .keepAlive)
    (hn : s.notifs = []) (hl : s.life ≠ 1) (q : Bool) :
    subTick s true false q = some s := by
  obtain ⟨state, maxLife, maxKa, life, ka, sent, enabled, notifs, seq, lastSeq, hasItem, pending⟩ := s
  simp only at h hn hl
  subst hn
  rcases h with rfl | rfl | rfl <;> cases q <;> eval_tick

/-- a publish request arriving in Normal (#4) or KeepAlive (#13) with nothing queued -/
theorem tick_publish_quiet (s : Subn) (h : s.state = .normal ∨ s.state = .keepAlive)
    (hn : s.notifs = []) (hl : s.life ≠ 1) (e : Bool) :
    subTick s false e true = some s := by
  obtain ⟨state, maxLife, maxKa, life, ka, sent, enabled, notifs, seq, lastSeq, hasItem, pending⟩ := s
  simp only at h hn hl
  subst hn
  rcases h with rfl | rfl <;> cases enabled <;> eval_tick

/-- row #7: first elapsed interval with a request queued and nothing to report: keep-alive -/
theorem tick_row7 (s : Subn) (h : s.state = .normal) (hn : s.notifs = []) (hp : s.pending = false)
    (hs : s.sent = false) (hl : s.life ≠ 1) (hml : s.maxLife ≠ 0) (hsq : s.seq = succ32 s.lastSeq) :
    subTick s true true true = some { s with
      sent := true
      life := s.maxLife - 1
      seq := succ32 s.seq
      lastSeq := s.seq
      notifs := [(.keepAlive, s.seq)] } := by
  obtain ⟨state, maxLife, maxKa, life, ka, sent, enabled, notifs, seq, lastSeq, hasItem, pending⟩ := s
  simp only at h hn hp hs hl hml hsq
  subst h hn hp hs hsq
  cases enabled <;> cases hasItem <;> eval_tick

/-- row #9: later elapsed interval, nothing to report: enter KeepAlive, restart the countdown -/
theorem tick_row9 (s : Subn) (h : s.state = .normal) (hn : s.notifs = []) (hp : s.pending = false)
    (hs : s.sent = true) (hl : s.life ≠ 1) (hl0 : s.life ≠ 0) (q : Bool) :
    subTick s true true q = some { s with
      state := .keepAlive
      life := s.life - 1
      ka := s.maxKa } := by
  obtain ⟨state, maxLife, maxKa, life, ka, sent, enabled, notifs, seq, lastSeq, hasItem, pending⟩ := s
  simp only at h hn hp hs hl hl0
  subst h hn hp hs
  cases enabled <;> cases hasItem <;> cases q <;> eval_tick

/-- row #16: countdown -/
theorem tick_row16 (s : Subn) (h : s.state = .keepAlive) (hn : s.notifs = []) (hp : s.pending = false)
    (hk : 1 < s.ka) (hl : s.life ≠ 1) (hl0 : s.life ≠ 0) (q : Bool) :
    subTick s true true q = some { s with
      life := s.life - 1
      ka := s.ka - 1 } := by
  obtain ⟨state, maxLife, maxKa, life, ka, sent, enabled, notifs, seq, lastSeq, hasItem, pending⟩ := s
  simp only at h hn hp hk hl hl0
  subst h hn hp
  have hk1 : ka ≠ 1 := by omega
  cases enabled <;> cases hasItem <;> cases q <;> eval_tick

/-- row #15 (as repaired): the countdown reached 1 and a request is queued: keep-alive, both
counters restart -/
theorem tick_row15 (s : Subn) (h : s.state = .keepAlive) (hn : s.notifs = []) (hp : s.pending = false)
    (hk : s.ka = 1) (hl : s.life ≠ 1) (hml : s.maxLife ≠ 0) (hsq : s.seq = succ32 s.lastSeq) :
    subTick s true true true = some { s with
      life := s.maxLife - 1
      ka := s.maxKa
      seq := succ32 s.seq
      lastSeq := s.seq
      notifs := [(.keepAlive, s.seq)] } := by
  obtain ⟨state, maxLife, maxKa, life, ka, sent, enabled, notifs, seq, lastSeq, hasItem, pending⟩ := s
  simp only at h hn hp hk hl hml hsq
  subst h hn hp hk hsq
  cases enabled <;> cases hasItem <;> eval_tick

/-- rows #8 / #12: elapsed interval, NO request queued, in Normal before the first message or in
Late: the lifetime counter goes down; whatever the items reported is dropped -/
theorem tick_row8_12 (s : Subn)
    (h : (s.state = .normal ∧ s.sent = false) ∨ s.state = .late) (hn : s.notifs = [])
    (hl : s.life ≠ 1) (hl0 : s.life ≠ 0) :
    subTick s true true false = some { s with
      state := .late
      life := s.life - 1
      pending := s.pending && !s.hasItem } := by
  obtain ⟨state, maxLife, maxKa, life, ka, sent, enabled, notifs, seq, lastSeq, hasItem, pending⟩ := s
  simp only at h hn hl hl0
  subst hn
  rcases h with ⟨rfl, rfl⟩ | rfl <;> cases enabled <;> cases hasItem <;> cases pending <;> eval_tick

/-- row #27 with no request queued: the subscription closes and queues its BadTimeout status
change — also when the monitored items report a change in that very tick -/
theorem tick_row27 (s : Subn) (h : s.state = .normal ∨ s.state = .late ∨ s.state = .keepAlive)
    (hn : s.notifs = []) (hl : s.life = 1) (hsq : s.seq = succ32 s.lastSeq) (q : Bool) :
    subTick s true true q = some { s with
      state := .closed
      hasItem := false
      pending := false
      seq := succ32 s.seq
      lastSeq := s.seq
      notifs := [(.statusChange, s.seq)] } := by
  obtain ⟨state, maxLife, maxKa, life, ka, sent, enabled, notifs, seq, lastSeq, hasItem, pending⟩ := s
  simp only at h hn hl hsq
  subst hn hl hsq
  rcases h with rfl | rfl | rfl <;> cases hasItem <;> cases pending <;> cases q <;> eval_tick

end OpcuaVerif.C22
