import OpcuaVerif.Common
import OpcuaVerif.Model.SubMDrv

namespace OpcuaVerif.C21

/-- C21 runs the shared SubM pipeline model (same ops and results as the harness' `subm.rs`). -/
def driver : Driver := SubM.mkDriver SubM.current

end OpcuaVerif.C21
