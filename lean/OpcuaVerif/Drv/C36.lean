import OpcuaVerif.Common
import OpcuaVerif.Model.C36

namespace OpcuaVerif.C36

def showAcks (l : List Ack) : String :=
  "[" ++ ",".intercalate (l.map fun (a, b) => toString a ++ ":" ++ toString b) ++ "]"

def showTaken : Option (List Ack) → String
  | none => "-"
  | some l => showAcks l

def showState (s : State) : String :=
  let subs := s.subs.map fun x => s!"{x.id}:{boolStr x.enabled}:{boolStr x.hasItem}"
  s!"pending={showAcks s.pending} inflight={natList (s.flights.map (·.id))} subs=[{",".intercalate subs}] cb={s.callbacks}"

def showOut : Out → String
  | .sent id acks => s!"ok sent id={id} acks={showTaken acks}"
  | .retOk more => s!"ok ret={boolStr more}"
  | .retErr st => s!"ok err={st}"
  | .unit => "ok"
  | .badOp => "bad-op"

def parseOp? : List String → Option Op
  | ["start"] => some .start
  | ["complete", i, sub, seq, more, kind] =>
    let ka : Option Bool :=
      if kind = "data" then some false else if kind = "kanone" ∨ kind = "kaempty" then some true else none
    match i.toNat?, sub.toNat?, seq.toNat?, parseBool? more, ka with
    | some i, some a, some b, some m, some k => some (.complete i a b m k)
    | _, _, _, _, _ => none
  | ["fail", i, "timeout"] => i.toNat?.map (fun i => .fail i .timeout)
  | ["fail", i, "closed"] => i.toNat?.map (fun i => .fail i .closed)
  | ["fail", i, "wrongtype"] => i.toNat?.map (fun i => .fail i .wrongType)
  | ["fail", i, "fault", st] =>
    match i.toNat?, st.toNat? with
    | some i, some st => some (.fail i (.fault st))
    | _, _ => none
  | ["connected", c] => (parseBool? c).map .setConnected
  | ["addsub", i] => i.toNat?.map (fun i => .addSub i true)
  | ["addsub", i, e] =>
    match i.toNat?, parseBool? e with
    | some i, some e => some (.addSub i e)
    | _, _ => none
  | ["setpub", i, e] =>
    match i.toNat?, parseBool? e with
    | some i, some e => some (.setPub i e)
    | _, _ => none
  | ["additem", i] => i.toNat?.map (fun i => .setItem i true)
  | ["delitem", i] => i.toNat?.map (fun i => .setItem i false)
  | ["delsub", i] => i.toNat?.map .delSub
  | _ => none

def showEv : Ev → String
  | .sent id acks => s!"S{id}:{showTaken acks}"
  | .publish => "P"
  | .failed st => s!"F{st}"

def showEvs (evs : List Ev) : String := "[" ++ ",".intercalate (evs.map showEv) ++ "]"

def parseKind? : List String → Option FailKind
  | ["timeout"] => some .timeout
  | ["closed"] => some .closed
  | ["wrongtype"] => some .wrongType
  | ["fault", st] => st.toNat?.map .fault
  | _ => none

/-! arm tags (GUIDE "Arm coverage") -/

def tagged (r : String) (arms : List String) : String :=
  if arms.isEmpty then r else r ++ " @@ " ++ ",".intercalate arms

def kindArm : FailKind → String
  | .timeout => "fail-timeout"
  | .closed => "fail-closed"
  | .wrongType => "fail-wrongtype"
  | .fault st =>
    if st = BadTimeout then "fail-fault-badtimeout"
    else if st = BadTooManyPublishRequests then "fail-fault-toomany"
    else if st / 0x40000000 = 0 then "fail-fault-good" else "fail-fault-other"

def tickArm (s : State) : String :=
  if !s.cachedDue then "tick-not-due"
  else if s.waiting ∧ loopLen s > 0 then "tick-held-back"
  else if loopLen s < s.maxPublish then "tick-publish" else "tick-at-limit"

def startArms (pfx : String) (s : State) : List String :=
  [pfx ++ (if s.connected then "-connected" else "-unconnected") ++ (if s.pending.isEmpty then "-empty" else "-acks")]

def opArms (s : State) : Op → List String
  | .start => startArms "start" s
  | .complete id sub _ more ka =>
    (match findFlight s.flights id with
     | some f => [match f.taken with | none => "complete-carried-none" | some _ => "complete-carried-acks"]
     | none => []) ++
    [if ka then "complete-keepalive" else "complete-data", if more then "complete-more" else "complete-nomore",
     match findSub s.subs sub with
     | none => "complete-sub-unknown"
     | some x => if x.enabled then "complete-sub-enabled" else "complete-sub-disabled"] ++
    (if ka then [] else
      match findSub s.subs sub with
      | some x => [if x.hasItem then "complete-delivered" else "complete-no-item"]
      | none => ["complete-no-subscription"])
  | .fail id k =>
    kindArm k :: (match findFlight s.flights id with
     | some f => [match f.taken with | none => "fail-requeue-none" | some _ => "fail-requeue-acks"]
     | none => [])
  | .setConnected c =>
    [if c then "connected-1" else "connected-0"] ++ (if s.flights.isEmpty then [] else ["connected-change-inflight"])
  | .addSub id e =>
    [if (findSub s.subs id).isSome then "addsub-existing" else "addsub-new", if e then "addsub-enabled" else "addsub-disabled"]
  | .delSub id => [if (findSub s.subs id).isSome then "delsub-existing" else "delsub-missing"]
  | .setPub id e =>
    [match findSub s.subs id with
     | none => "setpub-unknown"
     | some x => if x.enabled = e then (if e then "setpub-stays-enabled" else "setpub-stays-disabled")
                 else if e then "setpub-enable" else "setpub-disable"]
  | .setItem id b =>
    [match findSub s.subs id with
     | none => "setitem-unknown"
     | some _ => if b then "setitem-add" else "setitem-remove"]

def dstep (s : State) (toks : List String) : State × String :=
  match toks with
  | ["reset"] => (init, "ok " ++ showState init)
  | ["reset", n] =>
    match n.toNat? with
    | some n => let s' := { init with maxPublish := n }; (s', "ok " ++ showState s')
    | none => (s, "bad-op")
  | ["age"] =>
    (age s, tagged "ok" [if s.subs.isEmpty then "age-no-subscription"
                         else if s.subs.any (·.enabled) then "age" else "age-all-disabled"])
  | ["trigger"] =>
    let (evs, s') := loopTrigger s
    (s', tagged (s!"ok ev={showEvs evs} " ++ showState s')
      (startArms "trigger" s ++ (if s.cachedDue then ["trigger-cancels-held-tick"] else []) ++
       (if loopLen s ≥ s.maxPublish then ["trigger-above-limit"] else [])))
  | ["lcomplete", i, sub, seq, more, kind] =>
    let ka : Option Bool :=
      if kind = "data" then some false else if kind = "kanone" ∨ kind = "kaempty" then some true else none
    match i.toNat?, sub.toNat?, seq.toNat?, parseBool? more, ka with
    | some i, some a, some b, some m, some k =>
      match loopComplete s i a b m k with
      | some (evs, s') =>
        let s1 := { (complete s i a b m k).2 with waiting := false }
        (s', tagged (s!"ok ev={showEvs evs} " ++ showState s')
          ([if m then (if s.connected then "lcomplete-more-restart" else "lcomplete-more-unconnected") else "lcomplete-nomore",
            if kind = "data" then "lcomplete-data" else if kind = "kanone" then "lcomplete-kanone" else "lcomplete-kaempty",
            match findSub s.subs a with
            | none => "lcomplete-sub-unknown"
            | some x => if x.enabled then "lcomplete-sub-enabled" else "lcomplete-sub-disabled"] ++
           (if s.waiting then ["lcomplete-clears-waiting"] else []) ++
           (if m then [] else [tickArm (newTurn s1)])))
      | none => (s, "bad-op")
    | _, _, _, _, _ => (s, "bad-op")
  | "lfail" :: i :: rest =>
    match i.toNat?, parseKind? rest with
    | some i, some k =>
      match loopFail s i k with
      | some (evs, s') =>
        let s1 := markWaiting (fail s i k).2 k.status
        let retry := k.status = BadTimeout ∧ loopLen s1 < s1.maxPublish
        (s', tagged (s!"ok ev={showEvs evs} " ++ showState s')
          (["l" ++ kindArm k] ++
           (if k.status = BadTimeout then
              [if loopLen s1 + 1 < s1.maxPublish then "lfail-timeout-retry"
               else if loopLen s1 + 1 = s1.maxPublish then "lfail-timeout-retry-last"
               else if loopLen s1 = s1.maxPublish then "lfail-timeout-at-limit" else "lfail-timeout-above-limit"] ++
              (if retry ∧ !s.connected then ["lfail-timeout-unconnected"] else [])
            else []) ++
           [tickArm (if retry then (loopStartTurn (newTurn s1)).2 else newTurn s1)]))
      | none => (s, "bad-op")
    | _, _ => (s, "bad-op")
  | _ =>
    match parseOp? toks with
    | none => (s, "bad-op")
    | some op =>
      let viaLoop : Bool := match op with
        | .complete id _ _ _ _ => (findLoopFlight s id).isSome
        | .fail id _ => (findLoopFlight s id).isSome
        | _ => false
      if viaLoop then (s, "bad-op") else
      match step s op with
      | (.badOp, s') => (s', "bad-op")
      | (o, s') => (s', tagged (showOut o ++ " " ++ showState s') (opArms s op))

def driver : Driver := { σ := State, init := init, step := dstep }

end OpcuaVerif.C36
