import OpcuaVerif.Common
import OpcuaVerif.Model.C36

namespace OpcuaVerif.C36

def showAcks (l : List Ack) : String :=
  "[" ++ ",".intercalate (l.map fun (a, b) => toString a ++ ":" ++ toString b) ++ "]"

def showTaken : Option (List Ack) → String
  | none => "-"
  | some l => showAcks l

def showState (s : State) : String :=
  s!"pending={showAcks s.pending} inflight={natList (s.flights.map (·.id))} subs={natList s.subs}"

def showOut : Out → String
  | .sent id acks => s!"ok sent id={id} acks={showTaken acks}"
  | .retOk more => s!"ok ret={boolStr more}"
  | .retErr st => s!"ok err={st}"
  | .unit => "ok"
  | .badOp => "bad-op"

def parseOp? : List String → Option Op
  | ["start"] => some .start
  | ["complete", i, sub, seq, more, kind] =>
    let ka : Option Bool :=
      if kind = "data" then some false else if kind = "kanone" ∨ kind = "kaempty" then some true else none
    match i.toNat?, sub.toNat?, seq.toNat?, parseBool? more, ka with
    | some i, some a, some b, some m, some k => some (.complete i a b m k)
    | _, _, _, _, _ => none
  | ["fail", i, "timeout"] => i.toNat?.map (fun i => .fail i .timeout)
  | ["fail", i, "closed"] => i.toNat?.map (fun i => .fail i .closed)
  | ["fail", i, "wrongtype"] => i.toNat?.map (fun i => .fail i .wrongType)
  | ["fail", i, "fault", st] =>
    match i.toNat?, st.toNat? with
    | some i, some st => some (.fail i (.fault st))
    | _, _ => none
  | ["connected", c] => (parseBool? c).map .setConnected
  | ["addsub", i] => i.toNat?.map .addSub
  | ["delsub", i] => i.toNat?.map .delSub
  | _ => none

def showEv : Ev → String
  | .sent id acks => s!"S{id}:{showTaken acks}"
  | .publish => "P"
  | .failed st => s!"F{st}"

def showEvs (evs : List Ev) : String := "[" ++ ",".intercalate (evs.map showEv) ++ "]"

def parseKind? : List String → Option FailKind
  | ["timeout"] => some .timeout
  | ["closed"] => some .closed
  | ["wrongtype"] => some .wrongType
  | ["fault", st] => st.toNat?.map .fault
  | _ => none

def dstep (s : State) (toks : List String) : State × String :=
  match toks with
  | ["reset"] => (init, "ok " ++ showState init)
  | ["reset", n] =>
    match n.toNat? with
    | some n => let s' := { init with maxPublish := n }; (s', "ok " ++ showState s')
    | none => (s, "bad-op")
  | ["trigger"] =>
    let (evs, s') := loopTrigger s
    (s', s!"ok ev={showEvs evs} " ++ showState s')
  | ["lcomplete", i, sub, seq, more, kind] =>
    let ka : Option Bool :=
      if kind = "data" then some false else if kind = "kanone" ∨ kind = "kaempty" then some true else none
    match i.toNat?, sub.toNat?, seq.toNat?, parseBool? more, ka with
    | some i, some a, some b, some m, some k =>
      match loopComplete s i a b m k with
      | some (evs, s') => (s', s!"ok ev={showEvs evs} " ++ showState s')
      | none => (s, "bad-op")
    | _, _, _, _, _ => (s, "bad-op")
  | "lfail" :: i :: rest =>
    match i.toNat?, parseKind? rest with
    | some i, some k =>
      match loopFail s i k with
      | some (evs, s') => (s', s!"ok ev={showEvs evs} " ++ showState s')
      | none => (s, "bad-op")
    | _, _ => (s, "bad-op")
  | _ =>
    match parseOp? toks with
    | none => (s, "bad-op")
    | some op =>
      let viaLoop : Bool := match op with
        | .complete id _ _ _ _ => (findLoopFlight s id).isSome
        | .fail id _ => (findLoopFlight s id).isSome
        | _ => false
      if viaLoop then (s, "bad-op") else
      match step s op with
      | (.badOp, s') => (s', "bad-op")
      | (o, s') => (s', showOut o ++ " " ++ showState s')

def driver : Driver := { σ := State, init := init, step := dstep }

end OpcuaVerif.C36
