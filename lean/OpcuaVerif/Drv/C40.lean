import OpcuaVerif.Common
import OpcuaVerif.Model.SubMDrv

namespace OpcuaVerif.C40

/-- C40 runs the shared SubM pipeline model (same ops and results as the harness' `subm.rs`). -/
def driver : Driver := SubM.mkDriver SubM.current

end OpcuaVerif.C40
