import OpcuaVerif.Common
import OpcuaVerif.Model.Enc
import OpcuaVerif.Model.EncSchema
import OpcuaVerif.Model.EncTcp
import OpcuaVerif.Generated.Schemas

/-!
Shared driver of the codec model (properties C01, C02, C03).

Ops (tokens separated by one space):
  reset                              -> ok
  enc <Type> <value tree…>           -> ok x<hex of encode> <byte_len>
  lim <Type> <opts> <value tree…>    -> as `dec` on the encoding of the value
  dec <Type> <[maxStr,maxBytes,maxArr,maxDepth,maxMsg]> x<hex>
                                     -> ok <consumed> x<hex of the re-encoded value> | err | abort | panic
  Type ∈ Variant | DataValue | DiagnosticInfo   (dec also: Chunk -> ok <consumed> x<chunk data>)
  sdec <Struct> <opts> x<hex>        -> the same for a generated structure (schema from `Generated/Schemas.lean`),
                                        result `ok <consumed> x<re-encoded> <byte_len>`
  dec MsgHeader|Hello|Ack|Error <opts> x<hex> -> ok <consumed> <type 0..4> <size> [<u32s>] <text | ~>
  dec ChunkHeader <opts> x<hex>      -> ok <consumed> x<header re-encoded>
  dec ReadBytes <opts> x<hex>        -> ok <consumed> x<message bytes>          (MessageHeader::read_bytes)
  msg <object id> <opts> x<hex>      -> noid | invalid 0 | ok <consumed> x<re-encoded> <byte_len> | err
                                        (SupportedMessage::decode_by_object_id)
  deco <Variant|DataValue> <opts> <offset ticks> x<hex> -> as `dec`, decoded with DecodingOptions.client_offset
  srt <Struct> x<hex>                -> `sdec` under generous limits (bytes of a valid value)

Value trees are in prefix notation, one token per atom (see `harness/src/enc.rs` for the grammar).
-/
namespace OpcuaVerif.Enc

/-- the stack budget the driver gives a decoder (frames of the recursive family) -/
def drvFuel : Nat := 200000
/-- the largest allocation (elements) the driver's process can satisfy -/
def drvCap : Nat := 1099511627776

abbrev P (α : Type) := List String → Option (α × List String)

def hexNat (s : String) : Option Nat :=
  (hexToBytes s).map fun bs => bs.foldl (fun acc b => acc * 256 + b) 0

def pNat : P Nat
  | t :: r => t.toNat?.map (·, r)
  | _ => none

def pInt : P Int
  | t :: r => (parseInt? t).map (·, r)
  | _ => none

/-- `-` | `s<hex>` | `x<hex>` -/
def pStr : P (Option Bytes)
  | t :: r =>
    if t = "-" then some (none, r)
    else match t.toList with
      | 's' :: cs => (hexToBytes (String.ofList cs)).map fun b => (some b, r)
      | 'x' :: cs => (hexToBytes (String.ofList cs)).map fun b => (some b, r)
      | _ => none
  | _ => none

def pHexBytes : P Bytes
  | t :: r => (hexToBytes t).map (·, r)
  | _ => none

/-- `g<8 hex>` / `f<16 hex>` : big-endian hex of the bit pattern -/
def pBits : P Nat
  | t :: r => (hexNat (String.ofList (t.toList.drop 1))).map (·, r)
  | _ => none

def pNodeId : P NodeId
  | "n" :: r => do let (ns, r) ← pNat r; let (v, r) ← pNat r; pure (⟨ns, .num v⟩, r)
  | "s" :: r => do let (ns, r) ← pNat r; let (v, r) ← pStr r; pure (⟨ns, .str v⟩, r)
  | "g" :: r => do let (ns, r) ← pNat r; let (v, r) ← pHexBytes r; pure (⟨ns, .guid v⟩, r)
  | "b" :: r => do let (ns, r) ← pNat r; let (v, r) ← pStr r; pure (⟨ns, .bstr v⟩, r)
  | _ => none

def pScalar : P Scalar
  | "bool" :: r => do let (n, r) ← pNat r; pure (.bool (n = 1), r)
  | "i8" :: r => do let (n, r) ← pInt r; pure (.sbyte n, r)
  | "u8" :: r => do let (n, r) ← pNat r; pure (.byte n, r)
  | "i16" :: r => do let (n, r) ← pInt r; pure (.int16 n, r)
  | "u16" :: r => do let (n, r) ← pNat r; pure (.uint16 n, r)
  | "i32" :: r => do let (n, r) ← pInt r; pure (.int32 n, r)
  | "u32" :: r => do let (n, r) ← pNat r; pure (.uint32 n, r)
  | "i64" :: r => do let (n, r) ← pInt r; pure (.int64 n, r)
  | "u64" :: r => do let (n, r) ← pNat r; pure (.uint64 n, r)
  | "f32" :: r => do let (n, r) ← pBits r; pure (.float n, r)
  | "f64" :: r => do let (n, r) ← pBits r; pure (.double n, r)
  | "str" :: r => do let (s, r) ← pStr r; pure (.str s, r)
  | "dt" :: r => do
    let (t, r) ← pInt r
    -- the harness builds the value with `DateTime::from(i64)`
    let t' ← dtFromTicks t
    pure (.dateTime t', r)
  | "guid" :: r => do let (g, r) ← pHexBytes r; pure (.guid g, r)
  | "bs" :: r => do let (s, r) ← pStr r; pure (.bstr s, r)
  | "xml" :: r => do let (s, r) ← pStr r; pure (.xml s, r)
  | "nid" :: r => do let (n, r) ← pNodeId r; pure (.nodeId n, r)
  | "xnid" :: r => do
    let (n, r) ← pNodeId r; let (u, r) ← pStr r; let (s, r) ← pNat r
    pure (.expNodeId ⟨n, u, s⟩, r)
  | "sc" :: r => do let (n, r) ← pNat r; pure (.status n, r)
  | "qn" :: r => do let (ns, r) ← pNat r; let (s, r) ← pStr r; pure (.qname ns s, r)
  | "lt" :: r => do let (l, r) ← pStr r; let (t, r) ← pStr r; pure (.ltext l t, r)
  | "eo" :: r => do
    let (n, r) ← pNodeId r
    match r with
    | "none" :: r => pure (.extObj ⟨n, .none⟩, r)
    | "b" :: r => do let (s, r) ← pStr r; pure (.extObj ⟨n, .bstr s⟩, r)
    | "x" :: r => do let (s, r) ← pStr r; pure (.extObj ⟨n, .xml s⟩, r)
    | _ => none
  | _ => none

def pOpt {α : Type} (present : Bool) (p : P α) : P (Option α) := fun r =>
  if present then (p r).map fun (v, r) => (some v, r) else some (none, r)

def pList {α : Type} (p : P α) : Nat → P (List α)
  | 0, r => some ([], r)
  | n + 1, r => do let (v, r) ← p r; let (vs, r) ← pList p n r; pure (v :: vs, r)

def pDVRest (bits : Nat) : P DVRest := fun r => do
  let (status, r) ← pOpt (bits / 2 % 2 = 1) pNat r
  let (srcTs, r) ← pOpt (bits / 4 % 2 = 1) pInt r
  let (srcPs, r) ← pOpt (bits / 16 % 2 = 1) pNat r
  let (srvTs, r) ← pOpt (bits / 8 % 2 = 1) pInt r
  let (srvPs, r) ← pOpt (bits / 32 % 2 = 1) pNat r
  let srcTs ← match srcTs with
    | none => some none
    | some t => (dtFromTicks t).map some
  let srvTs ← match srvTs with
    | none => some none
    | some t => (dtFromTicks t).map some
  pure ({ status := status, srcTs := srcTs, srcPs := srcPs, srvTs := srvTs, srvPs := srvPs }, r)

def pDIF (bits : Nat) : P DIF := fun r => do
  let (symbolic, r) ← pOpt (bits % 2 = 1) pInt r
  let (ns, r) ← pOpt (bits / 2 % 2 = 1) pInt r
  let (locale, r) ← pOpt (bits / 8 % 2 = 1) pInt r
  let (ltext, r) ← pOpt (bits / 4 % 2 = 1) pInt r
  let (addInfo, r) ← pOpt (bits / 16 % 2 = 1) pStr r
  let (innerStatus, r) ← pOpt (bits / 32 % 2 = 1) pNat r
  pure ({ symbolic := symbolic, ns := ns, locale := locale, ltext := ltext, addInfo := addInfo,
          innerStatus := innerStatus }, r)

mutual
partial def pV : P V
  | "empty" :: r => some (.empty, r)
  | "var" :: r => do let (v, r) ← pV r; pure (.var v, r)
  | "dv" :: r => do let (v, r) ← pDV r; pure (.dv v, r)
  | "di" :: r => do let (v, r) ← pDI r; pure (.di v, r)
  | "arr" :: r => do
    let (ty, r) ← pNat r
    let (n, r) ← pNat r
    let (vs, r) ← pList pV n r
    match r with
    | "nodims" :: r => pure (.arr ty vs none, r)
    | "dims" :: r => do
      let (k, r) ← pNat r
      let (ds, r) ← pList pNat k r
      pure (.arr ty vs (some ds), r)
    | _ => none
  | r => do let (s, r) ← pScalar r; pure (.sc s, r)
partial def pDV : P DV
  | t :: r => do
    let bits ← t.toNat?
    if bits % 2 = 1 then do
      let (v, r) ← pV r
      let (rest, r) ← pDVRest bits r
      pure (.mk1 v rest, r)
    else do
      let (rest, r) ← pDVRest bits r
      pure (.mk0 rest, r)
  | _ => none
partial def pDI : P DI
  | t :: r => do
    let bits ← t.toNat?
    let (f, r) ← pDIF bits r
    if bits / 64 % 2 = 1 then do
      let (i, r) ← pDI r
      pure (.nest f i, r)
    else pure (.leaf f, r)
  | _ => none
end

/-! ### printing decoded values as value trees (the same notation the harness prints) -/

def natHexW (w n : Nat) : String :=
  String.ofList ((List.range w).map fun i => nibble (n / 16 ^ (w - 1 - i) % 16))

def shStr : Option Bytes → String
  | none => "-"
  | some b => "s" ++ bytesToHex b

def shBStr : Option Bytes → String
  | none => "-"
  | some b => "x" ++ bytesToHex b

def shNodeId (n : NodeId) : String :=
  match n.id with
  | .num v => s!"n {n.ns} {v}"
  | .str s => s!"s {n.ns} {shStr s}"
  | .guid g => s!"g {n.ns} x{bytesToHex g}"
  | .bstr s => s!"b {n.ns} {shBStr s}"

def shScalar : Scalar → String
  | .bool b => s!"bool {boolStr b}"
  | .sbyte i => s!"i8 {i}"
  | .byte n => s!"u8 {n}"
  | .int16 i => s!"i16 {i}"
  | .uint16 n => s!"u16 {n}"
  | .int32 i => s!"i32 {i}"
  | .uint32 n => s!"u32 {n}"
  | .int64 i => s!"i64 {i}"
  | .uint64 n => s!"u64 {n}"
  | .float n => s!"f32 g{natHexW 8 n}"
  | .double n => s!"f64 f{natHexW 16 n}"
  | .str s => s!"str {shStr s}"
  | .dateTime t => s!"dt {t}"
  | .guid g => s!"guid x{bytesToHex g}"
  | .bstr s => s!"bs {shBStr s}"
  | .xml s => s!"xml {shStr s}"
  | .nodeId n => s!"nid {shNodeId n}"
  | .expNodeId n => s!"xnid {shNodeId n.node} {shStr n.uri} {n.server}"
  | .status n => s!"sc {n}"
  | .qname ns name => s!"qn {ns} {shStr name}"
  | .ltext l t => s!"lt {shStr l} {shStr t}"
  | .extObj e =>
    let body := match e.body with
      | .none => "none"
      | .bstr s => "b " ++ shBStr s
      | .xml s => "x " ++ shStr s
    s!"eo {shNodeId e.node} {body}"

def shOpt {α : Type} (f : α → String) : Option α → List String
  | none => []
  | some x => [f x]

def bit (b : Bool) (k : Nat) : Nat := if b then k else 0

def shDVRest (hasValue : Bool) (value : List String) (r : DVRest) : String :=
  let bits := bit hasValue 1 + bit r.status.isSome 2 + bit r.srcTs.isSome 4 + bit r.srvTs.isSome 8
    + bit r.srcPs.isSome 16 + bit r.srvPs.isSome 32
  joinSp ([toString bits] ++ value ++ shOpt toString r.status ++ shOpt toString r.srcTs ++ shOpt toString r.srcPs
    ++ shOpt toString r.srvTs ++ shOpt toString r.srvPs)

def shDIF (hasInner : Bool) (f : DIF) : List String :=
  let bits := bit f.symbolic.isSome 1 + bit f.ns.isSome 2 + bit f.ltext.isSome 4 + bit f.locale.isSome 8
    + bit f.addInfo.isSome 16 + bit f.innerStatus.isSome 32 + bit hasInner 64
  [toString bits] ++ shOpt toString f.symbolic ++ shOpt toString f.ns ++ shOpt toString f.locale
    ++ shOpt toString f.ltext ++ shOpt shStr f.addInfo ++ shOpt toString f.innerStatus

mutual
partial def shV : V → String
  | .empty => "empty"
  | .sc s => shScalar s
  | .var v => "var " ++ shV v
  | .dv d => "dv " ++ shDV d
  | .di d => "di " ++ shDI d
  | .arr ty elems dims =>
    let ds := match dims with
      | none => ["nodims"]
      | some ds => ["dims", toString ds.length] ++ ds.map toString
    joinSp (["arr", toString ty, toString elems.length] ++ elems.map shV ++ ds)
partial def shDV : DV → String
  | .mk0 r => shDVRest false [] r
  | .mk1 v r => shDVRest true [shV v] r
partial def shDI : DI → String
  | .leaf f => joinSp (shDIF false f)
  | .nest f i => joinSp (shDIF true f ++ [shDI i])
end

/-! ### client offset (`DecodingOptions::client_offset`, used by clients that ignore clock skew)

`DateTime::decode` returns `DateTime::from(ticks) - client_offset`; `DataValue::decode` zeroes the offset
for the source timestamp only.  The model decodes with offset 0; the offset is applied here to the decoded
value (every DateTime except DataValue source timestamps; ExtensionObject bodies stay bytes). -/

def shiftScalar (off : Int) : Scalar → Scalar
  | .dateTime t => .dateTime (t - off)
  | s => s

mutual
partial def shiftV (off : Int) : V → V
  | .empty => .empty
  | .sc s => .sc (shiftScalar off s)
  | .var v => .var (shiftV off v)
  | .dv d => .dv (shiftDV off d)
  | .di d => .di d
  | .arr ty elems dims => .arr ty (elems.map (shiftV off)) dims
partial def shiftDV (off : Int) : DV → DV
  | .mk0 r => .mk0 { r with srvTs := r.srvTs.map (· - off) }
  | .mk1 v r => .mk1 (shiftV off v) { r with srvTs := r.srvTs.map (· - off) }
end

def pOpts (s : String) : Option Opts :=
  if s = "default" then some Opts.default else if s = "minimal" then some Opts.minimal else
  match parseNatList? s with
  | some [a, b, c, d, e] => some { maxStr := a, maxBytes := b, maxArr := c, maxDepth := d, maxMsg := e }
  | _ => none

def showEnc (bs : Bytes) (len : Nat) : String := s!"ok x{bytesToHex bs} {len}"

/-- `tree` = the decoded value in value-tree notation (empty for results that are plain bytes) -/
def showDecT {α : Type} (input : Bytes) (reenc : α → Bytes) (tree : α → String) : Res α → String
  | .ok v rest =>
    let t := tree v
    s!"ok {input.length - rest.length} x{bytesToHex (reenc v)}" ++ (if t.isEmpty then "" else " = " ++ t)
  | .err => "err"
  | .fault .stack => "abort"
  | .fault .alloc => "abort"
  | .fault .panic => "panic"

def showDec {α : Type} (input : Bytes) (reenc : α → Bytes) : Res α → String
  | .ok v rest => s!"ok {input.length - rest.length} x{bytesToHex (reenc v)}"
  | .err => "err"
  | .fault .stack => "abort"
  | .fault .alloc => "abort"
  | .fault .panic => "panic"

def showStrTok : UAStr → String
  | none => "-"
  | some b => "s" ++ bytesToHex b

def showTcp (input : Bytes) : Res TcpMsg → String
  | .ok m rest =>
    let text := match m.text with
      | none => "~"
      | some s => showStrTok s
    s!"ok {input.length - rest.length} {m.mtype} {m.size} {natList m.nums} {text}"
  | .err => "err"
  | .fault .panic => "panic"
  | .fault _ => "abort"

def tcpStep (ty : String) (o : Opts) (b : Bytes) : Option String :=
  if ty = "MsgHeader" then
    some (match decMsgHeader b with
      | .ok h rest => s!"ok {b.length - rest.length} {h.1} {h.2}"
      | .err => "err"
      | .fault .panic => "panic"
      | .fault _ => "abort")
  else if ty = "Hello" then some (showTcp b (decHello o drvCap b))
  else if ty = "Ack" then some (showTcp b (decAck b))
  else if ty = "Error" then some (showTcp b (decErrorMsg o drvCap b))
  else if ty = "ChunkHeader" then
    some (showDec b (fun h : Bytes × Nat × Nat × Nat => h.1 ++ [h.2.1] ++ le32 h.2.2.1 ++ le32 h.2.2.2)
      (decChunkHeader b))
  else if ty = "ReadBytes" then some (showDec b id (readBytes true o drvCap b))
  else none

partial def encStep (toks : List String) : String :=
  match toks with
  | "reset" :: _ => "ok"
  | "enc" :: "Variant" :: r =>
    match pV r with
    | some (v, []) => showEnc (encV true v) (lenV true v)
    | _ => "bad-op"
  | "enc" :: "DataValue" :: r =>
    match pDV r with
    | some (v, []) => showEnc (encDV true v) (lenDV true v)
    | _ => "bad-op"
  | "enc" :: "DiagnosticInfo" :: r =>
    match pDI r with
    | some (v, []) => showEnc (encDI true v) (lenDI true v)
    | _ => "bad-op"
  | "lim" :: ty :: opts :: r =>
    match pOpts opts with
    | none => "bad-op"
    | some o =>
      if ty = "Variant" then
        match pV r with
        | some (v, []) => let b := encV true v; showDecT b (encV true) shV (decV o drvCap true drvFuel 0 b)
        | _ => "bad-op"
      else if ty = "DataValue" then
        match pDV r with
        | some (v, []) => let b := encDV true v; showDecT b (encDV true) shDV (decDV o drvCap true drvFuel 0 b)
        | _ => "bad-op"
      else if ty = "DiagnosticInfo" then
        match pDI r with
        | some (v, []) => let b := encDI true v; showDecT b (encDI true) shDI (decDI o drvCap true drvFuel 0 b)
        | _ => "bad-op"
      else "bad-op"
  | ["srt", name, hex] => encStep ["sdec", name, "[1048576,1048576,65536,64,0]", hex]
  | ["sdec", name, opts, hex] =>
    match pOpts opts, hexToBytes hex, Gen.schemas.lookup name with
    | some o, some b, some t =>
      match decS o drvCap drvFuel t 0 b with
      | .ok v rest => s!"ok {b.length - rest.length} x{bytesToHex (encS t v)} {lenS t v}"
      | .err => "err"
      | .fault .panic => "panic"
      | .fault _ => "abort"
    | _, _, _ => "bad-op"
  | ["deco", ty, opts, off, hex] =>
    match pOpts opts, parseInt? off, hexToBytes hex with
    | some o, some off, some b =>
      if ty = "Variant" then
        showDecT b (encV true) shV ((decV o drvCap true drvFuel 0 b).map (shiftV off))
      else if ty = "DataValue" then
        showDecT b (encDV true) shDV ((decDV o drvCap true drvFuel 0 b).map (shiftDV off))
      else "bad-op"
    | _, _, _ => "bad-op"
  | ["msg", id, opts, hex] =>
    match id.toNat?, pOpts opts, hexToBytes hex with
    | some id, some o, some b =>
      if !Gen.objectIds.contains id then "noid"
      else match decByObjectId o drvCap drvFuel Gen.dispatchTable id b with
        | .ok none _ => "invalid 0"
        | .ok (some (t, v)) rest => s!"ok {b.length - rest.length} x{bytesToHex (encS t v)} {lenS t v}"
        | .err => "err"
        | .fault .panic => "panic"
        | .fault _ => "abort"
    | _, _, _ => "bad-op"
  | ["dec", ty, opts, hex] =>
    match pOpts opts, hexToBytes hex with
    | some o, some b =>
      match tcpStep ty o b with
      | some line => line
      | none =>
      if ty = "Variant" then showDecT b (encV true) shV (decV o drvCap true drvFuel 0 b)
      else if ty = "DataValue" then showDecT b (encDV true) shDV (decDV o drvCap true drvFuel 0 b)
      else if ty = "DiagnosticInfo" then showDecT b (encDI true) shDI (decDI o drvCap true drvFuel 0 b)
      else if ty = "Chunk" then showDec b id (decChunk o drvCap b)
      else "bad-op"
    | _, _ => "bad-op"
  | _ => "bad-op"

def encDriver : Driver := { σ := Unit, init := (), step := fun s toks => (s, encStep toks) }

end OpcuaVerif.Enc
