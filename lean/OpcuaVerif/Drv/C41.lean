import OpcuaVerif.Common
import OpcuaVerif.Model.TextIO
import OpcuaVerif.Model.C41Schema
import OpcuaVerif.Generated.ConfigSchema

/-
Driver of C41: `cfg <server|client> <doc>` — the document (term notation n | t | f | i<int> | d<f64 bits> |
s<hex> | a(…) | o(s<key>,v,…)) is loaded into the configuration struct and written back as a document.
-/
namespace OpcuaVerif.C41
open OpcuaVerif.Text OpcuaVerif.Generated.ConfigSchema

def hexNat (cs : List Char) : Option Nat :=
  cs.foldlM (fun a c => (hexDigit c).map fun d => 16 * a + d) 0

def hexPad (w n : Nat) : String :=
  let ds := (Nat.toDigits 16 n)
  String.ofList (List.replicate (w - ds.length) '0' ++ ds)

mutual
  def docOf : Tree → Option Doc
    | .node ['n'] [] => some .null
    | .node ['t'] [] => some (.bool true)
    | .node ['f'] [] => some (.bool false)
    | .node ('i' :: r) [] => (parseInt? (String.ofList r)).map Doc.int
    | .node ('d' :: r) [] => (hexNat r).map Doc.flt
    | .node ('s' :: r) [] => (strTok? (String.ofList ('s' :: r))).map Doc.str
    | .node ['a'] ks => (docList ks).map Doc.seq
    | .node ['o'] ks => (docPairs ks).map Doc.map
    | _ => none
  def docList : List Tree → Option (List Doc)
    | [] => some []
    | t :: ts =>
      match docOf t, docList ts with
      | some j, some js => some (j :: js)
      | _, _ => none
  def docPairs : List Tree → Option (List (Key × Doc))
    | [] => some []
    | [_] => none
    | .node k [] :: v :: ts =>
      match strTok? (String.ofList k), docOf v, docPairs ts with
      | some k, some j, some r => some ((k, j) :: r)
      | _, _, _ => none
    | _ :: _ :: _ => none
end

mutual
  def docOut : Doc → String
    | .null => "n"
    | .bool true => "t"
    | .bool false => "f"
    | .int z => s!"i{z}"
    | .flt b => "d" ++ hexPad 16 b
    | .str s => strOut s
    | .seq l => "a(" ++ ",".intercalate (docOutList l) ++ ")"
    | .map kv => "o(" ++ ",".intercalate (docOutPairs kv) ++ ")"
  def docOutList : List Doc → List String
    | [] => []
    | j :: js => docOut j :: docOutList js
  def docOutPairs : List (Key × Doc) → List String
    | [] => []
    | (k, j) :: r => (strOut k ++ "," ++ docOut j) :: docOutPairs r
end

def dstep (s : Unit) (toks : List String) : Unit × String :=
  (s, match toks with
  | ["reset"] => "ok"
  | ["cfg", side, d] =>
    match (if side = "server" then some serverConfig else if side = "client" then some clientConfig else none),
        (treeOf d).bind docOf with
    | some ty, some doc =>
      match norm ty doc with
      | some r => "ok " ++ docOut r
      | none => "err"
    | _, _ => "bad-op"
  | _ => "bad-op")

def driver : Driver := { σ := Unit, init := (), step := dstep }

end OpcuaVerif.C41
