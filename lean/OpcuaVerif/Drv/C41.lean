import OpcuaVerif.Common
import OpcuaVerif.Model.TextIO
import OpcuaVerif.Model.C41Schema
import OpcuaVerif.Generated.ConfigSchema

/-
Driver of C41: `cfg <server|client> <doc>` — the document (term notation n | t | f | i<int> | d<f64 bits> |
s<hex> | a(…) | o(s<key>,v,…)) is loaded into the configuration struct and written back as a document.
-/
namespace OpcuaVerif.C41
open OpcuaVerif.Text OpcuaVerif.Generated.ConfigSchema

def hexNat (cs : List Char) : Option Nat :=
  cs.foldlM (fun a c => (hexDigit c).map fun d => 16 * a + d) 0

def hexPad (w n : Nat) : String :=
  let ds := (Nat.toDigits 16 n)
  String.ofList (List.replicate (w - ds.length) '0' ++ ds)

mutual
  def docOf : Tree → Option Doc
    | .node ['n'] [] => some .null
    | .node ['t'] [] => some (.bool true)
    | .node ['f'] [] => some (.bool false)
    | .node ('i' :: r) [] => (parseInt? (String.ofList r)).map Doc.int
    | .node ('d' :: r) [] => (hexNat r).map Doc.flt
    | .node ('s' :: r) [] => (strTok? (String.ofList ('s' :: r))).map Doc.str
    | .node ['a'] ks => (docList ks).map Doc.seq
    | .node ['o'] ks => (docPairs ks).map Doc.map
    | _ => none
  def docList : List Tree → Option (List Doc)
    | [] => some []
    | t :: ts =>
      match docOf t, docList ts with
      | some j, some js => some (j :: js)
      | _, _ => none
  def docPairs : List Tree → Option (List (Key × Doc))
    | [] => some []
    | [_] => none
    | .node k [] :: v :: ts =>
      match strTok? (String.ofList k), docOf v, docPairs ts with
      | some k, some j, some r => some ((k, j) :: r)
      | _, _, _ => none
    | _ :: _ :: _ => none
end

mutual
  def docOut : Doc → String
    | .null => "n"
    | .bool true => "t"
    | .bool false => "f"
    | .int z => s!"i{z}"
    | .flt b => "d" ++ hexPad 16 b
    | .str s => strOut s
    | .seq l => "a(" ++ ",".intercalate (docOutList l) ++ ")"
    | .map kv => "o(" ++ ",".intercalate (docOutPairs kv) ++ ")"
  def docOutList : List Doc → List String
    | [] => []
    | j :: js => docOut j :: docOutList js
  def docOutPairs : List (Key × Doc) → List String
    | [] => []
    | (k, j) :: r => (strOut k ++ "," ++ docOut j) :: docOutPairs r
end

def dstep0 (s : Unit) (toks : List String) : Unit × String :=
  (s, match toks with
  | ["reset"] => "ok"
  | ["cfg", side, d] =>
    match (if side = "server" then some serverConfig else if side = "client" then some clientConfig else none),
        (treeOf d).bind docOf with
    | some ty, some doc =>
      match norm ty doc with
      | some r => "ok " ++ docOut r
      | none => "err"
    | _, _ => "bad-op"
  | _ => "bad-op")


/-! ### arm tags: loader branches, and what every optional / string field and map key of both configs has seen -/

def yamlish : List (List Char) :=
  ["~", "null", "Null", "true", "yes", "no", "on", "off", "123", "-5", "1.5", "1e3", "0x10", "0o17", ".inf", ".nan", "-", "- a",
   ": ", "a: b", "a:", "#", "a #b", "'", "\"", "[a]", "{a: b}", "&a", "*a", "!t", "|", ">", "%", "@", "`", "? a", "---", "...",
   "2001-01-01", "12:30"].map String.toList

def strClass (s : List Char) : String :=
  if s.isEmpty then "empty"
  else if s.contains '\n' then "multiline"
  else if s.head? = some ' ' ∨ s.getLast? = some ' ' then "blank"
  else if yamlish.contains s then "yamlish"
  else if s.any (fun c => c.toNat > 0xffff) then "nonbmp"
  else if s.length > 200 then "long"
  else "plain"

def strClasses : List String := ["empty", "multiline", "blank", "yamlish", "nonbmp", "long", "plain"]

def fnames : Fields → List Key
  | .nil => []
  | .cons n _ _ _ r => n :: fnames r

def isStr : Ty → Bool
  | .str => true
  | _ => false

mutual
  /-- tags of one value of type `t` at `path` -/
  def armsNorm (path : String) : Ty → Doc → List String
    | .bool, d => [match d with | .bool _ => "bool-ok" | _ => "bool-wrong-kind"]
    | .uint max, d => [match d with
        | .int z => if z < 0 then "uint-negative" else if z = max then "uint-at-max" else if z = max + 1 then "uint-max+1"
                    else if z > max then "uint-above-max" else if z = 0 then "uint-zero" else "uint-ok"
        | .flt _ => "uint-float" | _ => "uint-wrong-kind"]
    | .sint lo hi, d => [match d with
        | .int z => if z = lo then "sint-at-min" else if z = hi then "sint-at-max" else if z < lo then "sint-below-min"
                    else if z > hi then "sint-above-max" else if z < 0 then "sint-negative-ok" else "sint-ok"
        | .flt _ => "sint-float" | _ => "sint-wrong-kind"]
    | .f64, d => [match d with
        | .flt b => (match C42.classify64 b with | .nan => "f64-nan" | .inf _ => "f64-inf" | .fin _ m _ => if m = 0 then "f64-zero" else "f64-finite")
        | .int _ => "f64-from-int" | _ => "f64-wrong-kind"]
    | .str, d => (match d with
        | .str s => ["str-ok", "str:" ++ path ++ ":" ++ strClass s]
        | _ => ["str-wrong-kind"])
    | .opt t, d => (match d with
        | .null => ["opt-none", "opt:" ++ path ++ ":none"]
        | d => (if isStr t then
                  (match d with
                   | .str s => ["opt:" ++ path ++ ":" ++ strClass s]
                   | _ => [])
                else ["opt:" ++ path ++ ":some"]) ++ "opt-some" :: armsNorm path t d)
    | .seq t, d => (match d with
        | .null => ["seq-null"]
        | .seq l => (if l.isEmpty then "seq-empty" else "seq-nonempty") :: armsNormList (path ++ "[]") t l
        | _ => ["seq-wrong-kind"])
    | .strSet, d => (match d with
        | .null => ["set-null"]
        | .seq l =>
          (match allStr l with
           | none => ["set-nonstring"]
           | some ks =>
             [if ks.isEmpty then "set-empty" else if sortStr ks = ks then "set-sorted" else if (sortStr ks).length < ks.length then "set-duplicates" else "set-unsorted"] ++
             ks.map (fun k => "str:" ++ path ++ "[]:" ++ strClass k))
        | _ => ["set-wrong-kind"])
    | .map t, d => (match d with
        | .null => ["map-null"]
        | .map kv =>
          [if kv.isEmpty then "map-empty" else if (sortKV kv).map (·.1) = kv.map (·.1) then "map-sorted" else "map-unsorted"] ++
          kv.map (fun p => "key:" ++ path ++ ":" ++ strClass p.1) ++ armsNormVals (path ++ ".*") t kv
        | _ => ["map-wrong-kind"])
    | .duration, d => (match d with
        | .map kv =>
          if !durKeysOk kv then ["dur-unknown-key"]
          else match lookup kSecs kv, lookup kNanos kv with
            | some (.int s), some (.int n) =>
              if s < 0 ∨ s > u64Max then ["dur-secs-range"] else if n < 0 ∨ n > 4294967295 then ["dur-nanos-range"]
              else if s.toNat + n.toNat / 1000000000 > u64Max then ["dur-carry-overflow"]
              else [if n ≥ 1000000000 then "dur-carry" else if n = 999999999 then "dur-nanos-max" else if n = 0 then "dur-whole" else "dur-ok"]
            | none, _ => ["dur-secs-missing"]
            | _, none => ["dur-nanos-missing"]
            | _, _ => ["dur-field-wrong-kind"]
        | .null => ["dur-null"]
        | _ => ["dur-wrong-kind"])
    | .struct fs, d => (match d with
        | .null => "struct-null" :: armsNormFields path fs []
        | .map kv =>
          "struct-map" :: (if kv.any (fun p => !(fnames fs).contains p.1) then ["struct-unknown-key"] else []) ++
            (if (kv.filter (fun p => (fnames fs).contains p.1)).map (·.1) = (fnames fs).filter (fun n => (kv.map (·.1)).contains n) then ["struct-keys-in-order"] else ["struct-keys-reordered"]) ++
            armsNormFields path fs kv
        | .seq _ => ["struct-from-sequence"]
        | _ => ["struct-wrong-kind"])
  def armsNormList (path : String) : Ty → List Doc → List String
    | _, [] => []
    | t, d :: r => armsNorm path t d ++ armsNormList path t r
  def armsNormVals (path : String) : Ty → List (Key × Doc) → List String
    | _, [] => []
    | t, (_, d) :: r => armsNorm path t d ++ armsNormVals path t r
  def armsNormFields (path : String) : Fields → List (Key × Doc) → List String
    | .nil, _ => []
    | .cons name t skipNone dflt rest, kv =>
      let p := if path.isEmpty then String.ofList name else path ++ "." ++ String.ofList name
      (match lookup name kv with
       | some d => (if skipNone then (match d with | .null => ["field-skipnone-null"] | _ => ["field-skipnone-some"]) else []) ++ armsNorm p t d
       | none =>
         match dflt with
         | some _ => ["field-missing-default"]
         | none => if isOpt t then ["field-missing-option", "opt:" ++ p ++ ":absent"] else ["field-missing-required"]) ++
      armsNormFields path rest kv
end

mutual
  /-- every field-level tag that a schema declares (for `props/C41.json`) -/
  def declared (path : String) : Ty → List String
    | .str => strClasses.map (fun c => "str:" ++ path ++ ":" ++ c)
    | .opt t => ["opt:" ++ path ++ ":none"] ++
        (if isStr t then strClasses.map (fun c => "opt:" ++ path ++ ":" ++ c) else ("opt:" ++ path ++ ":some") :: declared path t)
    | .seq t => declared (path ++ "[]") t
    | .strSet => strClasses.map (fun c => "str:" ++ path ++ "[]:" ++ c)
    | .map t => strClasses.map (fun c => "key:" ++ path ++ ":" ++ c) ++ declared (path ++ ".*") t
    | .struct fs => declaredFields path fs
    | _ => []
  def declaredFields (path : String) : Fields → List String
    | .nil => []
    | .cons name t _ dflt rest =>
      let p := if path.isEmpty then String.ofList name else path ++ "." ++ String.ofList name
      declared p t ++ (if isOpt t ∧ dflt.isNone then ["opt:" ++ p ++ ":absent"] else []) ++ declaredFields path rest
end

def dedupS : List String → List String
  | [] => []
  | x :: r => if r.contains x then dedupS r else x :: dedupS r

def dstep (s : Unit) (toks : List String) : Unit × String :=
  match toks with
  | ["arms", side] =>
    -- developer op: the field-level tags the schema declares
    (s, if side = "server" then ",".intercalate (declared "server" serverConfig)
        else if side = "client" then ",".intercalate (declared "client" clientConfig) else "bad-op")
  | ["cfg", side, d] =>
    let r := (dstep0 s toks).2
    let arms := match (if side = "server" then some serverConfig else if side = "client" then some clientConfig else none),
        (treeOf d).bind docOf with
      | some ty, some doc => dedupS (armsNorm side ty doc ++ [if r = "err" then "load-err" else "load-ok"])
      | _, _ => []
    (s, if r = "bad-op" ∨ arms.isEmpty then r else r ++ " @@ " ++ ",".intercalate arms)
  | _ => dstep0 s toks

def driver : Driver := { σ := Unit, init := (), step := dstep }

end OpcuaVerif.C41
