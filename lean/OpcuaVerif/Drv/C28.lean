import OpcuaVerif.Common
import OpcuaVerif.Model.C28

namespace OpcuaVerif.C28

/-- the node universe the observation after every mutation ranges over (three reference type
nodes and five ordinary nodes) and the reference types used -/
def obsNodes : List Nat := [44, 46, 47, 100, 101, 102, 103, 104]
def obsTypes : List Nat := [35, 44, 45, 46, 47]

def drvFuel : Nat := 4096

def pairLe (x y : Nat × Nat) : Bool := x.1 < y.1 || (x.1 == y.1 && x.2 ≤ y.2)

def sortPairs (l : List (Nat × Nat)) : List (Nat × Nat) := l.mergeSort pairLe

def showTriples (l : List (Nat × Nat × Nat)) : String :=
  "[" ++ ",".intercalate (l.map fun (a, t, b) => s!"{a}>{t}>{b}") ++ "]"

/-- all triples reported by `find_references(a, None)` over the universe, sorted -/
def obsFwd (s : Refs) : List (Nat × Nat × Nat) :=
  obsNodes.flatMap fun a =>
    match findRefs s drvFuel a none with
    | some (some l) => (sortPairs l).map fun (t, b) => (a, t, b)
    | _ => []

/-- all triples reported by `find_inverse_references(b, None)` over the universe, as
(source, type, target), sorted by (target, type, source) -/
def obsInv (s : Refs) : List (Nat × Nat × Nat) :=
  obsNodes.flatMap fun b =>
    match findInv s drvFuel b none with
    | some (some l) => (sortPairs l).map fun (t, a) => (a, t, b)
    | _ => []

def obsHas (s : Refs) : List (Nat × Nat × Nat) :=
  obsNodes.flatMap fun a => obsTypes.flatMap fun t => obsNodes.filterMap fun b =>
    if hasRef s a b t then some (a, t, b) else none

def obs (s : Refs) : String :=
  s!"F={showTriples (obsFwd s)} I={showTriples (obsInv s)} H={showTriples (obsHas s)}"

def parseFilter? (s : String) : Option Filter :=
  if s = "-" then some none
  else match s.splitOn ":" with
    | [t, i] => match t.toNat?, parseBool? i with
      | some t, some i => some (some (t, i))
      | _, _ => none
    | _ => none

def showFound (r : Option (Option (List (Nat × Nat)))) : String :=
  match r with
  | none => "timeout"
  | some none => "ok -"
  | some (some l) => "ok [" ++ ",".intercalate ((sortPairs l).map fun (t, b) => s!"{t}>{b}") ++ "]"

/-! ### arm tags (which model branches an op took) -/

def fwdOf (s : Refs) (a : Nat) : List (Nat × Nat) := (s.fwd.get a).getD []
def invOf (s : Refs) (b : Nat) : List Nat := (s.inv.get b).getD []

def insArms (s : Refs) (a b t : Nat) : String :=
  if a = b then "ins-self" else
  (match s.fwd.get a with
   | none => "ins-source-new"
   | some l => if l.contains (t, b) then "ins-duplicate" else "ins-source-append") ++
  (match s.inv.get b with
   | none => ",ins-lookup-new"
   | some l => if l.contains a then ",ins-lookup-present" else ",ins-lookup-append") ++
  (if (fwdOf s b).any (fun r => r.2 == a) then ",ins-opposite-exists" else "") ++
  (if t = hasSubtype then ",ins-hassubtype" else ",ins-plain")

def delArms (s : Refs) (a b t : Nat) : String :=
  match s.fwd.get a with
  | none => "del-source-absent"
  | some l =>
    let hit := l.contains (t, b)
    let others := (l.filter (fun r => r.2 == b && r.1 != t)).length
    (if hit then "del-hit" else "del-miss") ++
    (if hit && l.length = 1 then ",del-entry-emptied" else if hit then ",del-entry-kept" else "") ++
    (if hit && others > 0 then ",del-target-still-referenced" else "") ++
    (if hit && others = 0 then (if (invOf s b).length = 1 then ",del-lookup-emptied" else ",del-lookup-kept") else "") ++
    (if (fwdOf s b).any (fun r => r.2 == a) then ",del-opposite-exists" else ",del-no-opposite")

def delnArms (s : Refs) (n : Nat) (flag : Bool) : String :=
  (if (s.fwd.get n).isSome then "deln-has-fwd" else "deln-no-fwd") ++
  (if (s.inv.get n).isSome then ",deln-has-inv" else ",deln-no-inv") ++
  (if flag then ",deln-flag-1" else ",deln-flag-0") ++
  (if (fwdOf s n).any (fun r => (invOf s n).contains r.2) then ",deln-mutual" else "") ++
  (if (invOf s n).any (fun x => (fwdOf s x).all (fun r => r.2 == n)) then ",deln-empties-source-entry" else "") ++
  (if (fwdOf s n).any (fun r => (invOf s r.2).all (fun x => x == n)) then ",deln-empties-lookup-entry" else "")

def filterTag (f : Filter) : String :=
  match f with
  | none => "nofilter"
  | some (_, false) => "exact"
  | some (_, true) => "subtypes"

/-- depth at which `sub` is found below `ty` (0 = equal, 1 = direct subtype, 2 = deeper), by the
model's own walk with small fuel -/
def matchDepth (s : Refs) (ty sub : Nat) : String :=
  if ty = sub then "equal"
  else if (fwdOf s ty).contains (hasSubtype, sub) then "direct"
  else match typeMatches s drvFuel ty sub true with
    | some true => "indirect"
    | some false => "none"
    | none => "timeout"

def findArms (dir : String) (s : Refs) (x : Nat) (f : Filter) (r : Option (Option (List (Nat × Nat)))) : String :=
  let res := match r with
    | none => "timeout"
    | some none => "none"
    | some (some l) => if l.length = 1 then "one" else "many"
  let viaSub := match f, r with
    | some (ty, true), some (some l) => if l.any (fun p => p.1 != ty) then s!",{dir}-found-via-subtype" else ""
    | _, _ => ""
  let entry := if dir = "fwd" then (if (s.fwd.get x).isSome then ",fwd-entry-present" else ",fwd-entry-absent")
               else (if (s.inv.get x).isSome then ",inv-entry-present" else ",inv-entry-absent")
  s!"{dir}-{filterTag f}-{res}" ++ viaSub ++ entry

/-- parse `[a>t>b,c>u>d]` into (source, target, type) entries -/
def parseTriples? (s : String) : Option (List (Nat × Nat × Nat)) :=
  let inner := String.ofList ((s.toList.drop 1).dropLast)
  if inner.isEmpty then some [] else
  (inner.splitOn ",").mapM fun e =>
    match e.splitOn ">" with
    | [a, t, b] => match a.toNat?, t.toNat?, b.toNat? with
      | some a, some t, some b => some (a, b, t)
      | _, _, _ => none
    | _ => none

/-- parse `[node:t:inv,…]` into (node, type, inverse) entries of `References::insert` -/
def parseEntries? (s : String) : Option (List (Nat × Nat × Bool)) :=
  let inner := String.ofList ((s.toList.drop 1).dropLast)
  if inner.isEmpty then some [] else
  (inner.splitOn ",").mapM fun e =>
    match e.splitOn ":" with
    | [n, t, i] => match n.toNat?, t.toNat?, parseBool? i with
      | some n, some t, some i => some (n, t, i)
      | _, _, _ => none
    | _ => none

/-- arms of a batch insert: where the entries that exist already sit in the batch -/
def batchArms (tag : String) (s : Refs) (l : List (Nat × Nat × Nat)) : String :=
  let ex := l.map fun (a, b, t) => hasRef s a b t
  let n := l.length
  let size := if n = 0 then "empty" else if n = 1 then "one" else if n = 2 then "two" else "many"
  let anyEx := ex.any id
  let allEx := n > 0 && ex.all id
  let first := ex.head?.getD false
  let last := ex.getLast?.getD false
  let middle := n > 2 && ((ex.drop 1).dropLast).any id
  -- the case that matters: something new comes after something that exists
  let newAfterExisting := (List.range n).any fun i => ex.getD i false && ((ex.drop (i + 1)).any fun e => !e)
  let dupWithin := (List.range n).any fun i => (l.drop (i + 1)).contains (l.getD i (0, 0, 0))
  s!"{tag}-{size}" ++ (if !anyEx && n > 0 then s!",{tag}-all-new" else "") ++ (if allEx then s!",{tag}-all-existing" else "") ++
    (if first && n > 1 then s!",{tag}-existing-first" else "") ++ (if middle then s!",{tag}-existing-middle" else "") ++
    (if last && n > 1 then s!",{tag}-existing-last" else "") ++
    (if newAfterExisting then s!",{tag}-new-after-existing" else "") ++ (if dupWithin then s!",{tag}-repeated-in-batch" else "")

def dstep (s : Refs) (toks : List String) : Refs × String :=
  match toks with
  | ["reset"] => (empty, "ok")
  | ["ins", a, b, t] =>
    match a.toNat?, b.toNat?, t.toNat? with
    | some a, some b, some t =>
      match insertRef s a b t with
      | some s' => (s', "ok " ++ obs s' ++ " @@ " ++ insArms s a b t)
      | none => (s, "panic @@ ins-self")
    | _, _, _ => (s, "bad-op")
  | ["del", a, b, t] =>
    match a.toNat?, b.toNat?, t.toNat? with
    | some a, some b, some t =>
      let (s', d) := deleteRef s a b t
      (s', s!"ok {boolStr d} " ++ obs s' ++ " @@ " ++ delArms s a b t)
    | _, _, _ => (s, "bad-op")
  | ["deln", n] =>
    match n.toNat? with
    | some n =>
      let (s', d) := deleteNodeRefs s n
      (s', s!"ok {boolStr d} " ++ obs s' ++ " @@ " ++ delnArms s n d)
    | none => (s, "bad-op")
  | ["has", a, b, t] =>
    match a.toNat?, b.toNat?, t.toNat? with
    | some a, some b, some t => (s, s!"ok {boolStr (hasRef s a b t)} @@ has-{boolStr (hasRef s a b t)}")
    | _, _, _ => (s, "bad-op")
  | ["fwd", a, f] =>
    match a.toNat?, parseFilter? f with
    | some a, some f =>
      let r := findRefs s drvFuel a f
      (s, showFound r ++ " @@ " ++ findArms "fwd" s a f r)
    | _, _ => (s, "bad-op")
  | ["inv", b, f] =>
    match b.toNat?, parseFilter? f with
    | some b, some f =>
      let r := findInv s drvFuel b f
      (s, showFound r ++ " @@ " ++ findArms "inv" s b f r)
    | _, _ => (s, "bad-op")
  | ["insd", src, node, t, inv] =>
    match src.toNat?, node.toNat?, t.toNat?, parseBool? inv with
    | some src, some node, some t, some inv =>
      match insertMany s src [(node, t, inv)] with
      | some s' => (s', "ok " ++ obs s' ++ " @@ " ++ (if inv then "insd-inverse," ++ insArms s node src t else "insd-forward," ++ insArms s src node t))
      | none => (s, "panic @@ ins-self")
    | _, _, _, _ => (s, "bad-op")
  | ["insrefs", l] =>
    match parseTriples? l with
    | some l =>
      match insertRefs s l with
      | some s' => (s', "ok " ++ obs s' ++ " @@ " ++ batchArms "insrefs" s l)
      | none => (s, "panic @@ ins-self")
    | none => (s, "bad-op")
  | ["insmany", src, l] =>
    match src.toNat?, parseEntries? l with
    | some src, some l =>
      match insertMany s src l with
      | some s' => (s', "ok " ++ obs s' ++ " @@ " ++
          batchArms "insmany" s (l.map fun (node, t, inv) => if inv then (node, src, t) else (src, node, t)) ++
          (if l.any (fun e => e.2.2) then ",insmany-has-inverse" else "") ++ (if l.any (fun e => !e.2.2) then ",insmany-has-forward" else ""))
      | none => (s, "panic @@ ins-self")
    | _, _ => (s, "bad-op")
  | ["bydir", n, d, f] =>
    let dir : Option Dir := if d = "f" then some .forward else if d = "i" then some .inverse
      else if d = "b" then some .both else if d = "x" then some .invalid else none
    match n.toNat?, dir, parseFilter? f with
    | some n, some dir, some f =>
      match findByDirection s drvFuel n dir f with
      | some (l, idx) =>
        let show1 := fun (x : List (Nat × Nat)) => "[" ++ ",".intercalate ((sortPairs x).map fun (t, b) => s!"{t}>{b}") ++ "]"
        (s, s!"ok {idx} {show1 (l.take idx)} {show1 (l.drop idx)} @@ bydir-{d}-{filterTag f}" ++
          (if idx = 0 then ",bydir-fwd-empty" else ",bydir-fwd-some") ++
          (if l.length = idx then ",bydir-inv-empty" else ",bydir-inv-some"))
      | none => (s, "timeout")
    | _, _, _ => (s, "bad-op")
  | ["typeid", n] =>
    match n.toNat? with
    | some n => match getTypeId s n with
      | some t => (s, s!"ok {t} @@ typeid-some")
      | none => (s, "ok - @@ typeid-none")
    | none => (s, "bad-op")
  | ["match", ty, sub, i] =>
    match ty.toNat?, sub.toNat?, parseBool? i with
    | some ty, some sub, some i =>
      match typeMatches s drvFuel ty sub i with
      | some r => (s, s!"ok {boolStr r} @@ match-{boolStr i}-{matchDepth s ty sub}")
      | none => (s, "timeout")
    | _, _, _ => (s, "bad-op")
  | _ => (s, "bad-op")

def driver : Driver := { σ := Refs, init := empty, step := dstep }

end OpcuaVerif.C28
