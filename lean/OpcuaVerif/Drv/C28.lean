import OpcuaVerif.Common
import OpcuaVerif.Model.C28

namespace OpcuaVerif.C28

/-- the node universe the observation after every mutation ranges over (three reference type
nodes and five ordinary nodes) and the reference types used -/
def obsNodes : List Nat := [44, 46, 47, 100, 101, 102, 103, 104]
def obsTypes : List Nat := [35, 44, 45, 46, 47]

def drvFuel : Nat := 4096

def pairLe (x y : Nat × Nat) : Bool := x.1 < y.1 || (x.1 == y.1 && x.2 ≤ y.2)

def sortPairs (l : List (Nat × Nat)) : List (Nat × Nat) := l.mergeSort pairLe

def showTriples (l : List (Nat × Nat × Nat)) : String :=
  "[" ++ ",".intercalate (l.map fun (a, t, b) => s!"{a}>{t}>{b}") ++ "]"

/-- all triples reported by `find_references(a, None)` over the universe, sorted -/
def obsFwd (s : Refs) : List (Nat × Nat × Nat) :=
  obsNodes.flatMap fun a =>
    match findRefs s drvFuel a none with
    | some (some l) => (sortPairs l).map fun (t, b) => (a, t, b)
    | _ => []

/-- all triples reported by `find_inverse_references(b, None)` over the universe, as
(source, type, target), sorted by (target, type, source) -/
def obsInv (s : Refs) : List (Nat × Nat × Nat) :=
  obsNodes.flatMap fun b =>
    match findInv s drvFuel b none with
    | some (some l) => (sortPairs l).map fun (t, a) => (a, t, b)
    | _ => []

def obsHas (s : Refs) : List (Nat × Nat × Nat) :=
  obsNodes.flatMap fun a => obsTypes.flatMap fun t => obsNodes.filterMap fun b =>
    if hasRef s a b t then some (a, t, b) else none

def obs (s : Refs) : String :=
  s!"F={showTriples (obsFwd s)} I={showTriples (obsInv s)} H={showTriples (obsHas s)}"

def parseFilter? (s : String) : Option Filter :=
  if s = "-" then some none
  else match s.splitOn ":" with
    | [t, i] => match t.toNat?, parseBool? i with
      | some t, some i => some (some (t, i))
      | _, _ => none
    | _ => none

def showFound (r : Option (Option (List (Nat × Nat)))) : String :=
  match r with
  | none => "timeout"
  | some none => "ok -"
  | some (some l) => "ok [" ++ ",".intercalate ((sortPairs l).map fun (t, b) => s!"{t}>{b}") ++ "]"

def dstep (s : Refs) (toks : List String) : Refs × String :=
  match toks with
  | ["reset"] => (empty, "ok")
  | ["ins", a, b, t] =>
    match a.toNat?, b.toNat?, t.toNat? with
    | some a, some b, some t =>
      match insertRef s a b t with
      | some s' => (s', "ok " ++ obs s')
      | none => (s, "panic")
    | _, _, _ => (s, "bad-op")
  | ["del", a, b, t] =>
    match a.toNat?, b.toNat?, t.toNat? with
    | some a, some b, some t =>
      let (s', d) := deleteRef s a b t
      (s', s!"ok {boolStr d} " ++ obs s')
    | _, _, _ => (s, "bad-op")
  | ["deln", n] =>
    match n.toNat? with
    | some n =>
      let (s', d) := deleteNodeRefs s n
      (s', s!"ok {boolStr d} " ++ obs s')
    | none => (s, "bad-op")
  | ["has", a, b, t] =>
    match a.toNat?, b.toNat?, t.toNat? with
    | some a, some b, some t => (s, s!"ok {boolStr (hasRef s a b t)}")
    | _, _, _ => (s, "bad-op")
  | ["fwd", a, f] =>
    match a.toNat?, parseFilter? f with
    | some a, some f => (s, showFound (findRefs s drvFuel a f))
    | _, _ => (s, "bad-op")
  | ["inv", b, f] =>
    match b.toNat?, parseFilter? f with
    | some b, some f => (s, showFound (findInv s drvFuel b f))
    | _, _ => (s, "bad-op")
  | ["match", ty, sub, i] =>
    match ty.toNat?, sub.toNat?, parseBool? i with
    | some ty, some sub, some i =>
      match typeMatches s drvFuel ty sub i with
      | some r => (s, s!"ok {boolStr r}")
      | none => (s, "timeout")
    | _, _, _ => (s, "bad-op")
  | _ => (s, "bad-op")

def driver : Driver := { σ := Refs, init := empty, step := dstep }

end OpcuaVerif.C28
