import OpcuaVerif.Common
import OpcuaVerif.Model.C16

namespace OpcuaVerif.C16

structure DState where
  ks : Nat
  pad : Padding

def parsePad? (s : String) : Option Padding :=
  if s = "pkcs1" then some .pkcs1 else if s = "oaep" then some .oaepSha1
  else if s = "oaep256" then some .oaepSha256 else if s = "pss" then some .pss else none

def errName : Err → String
  | .badDecoding => "BadDecodingError"
  | .badEncoding => "BadEncodingError"
  | .badIdentityTokenInvalid => "BadIdentityTokenInvalid"

def parsePolicy? (s : String) : Option Policy :=
  if s = "none" then some .none
  else if s = "basic128rsa15" then some .basic128Rsa15
  else if s = "basic256" then some .basic256
  else if s = "basic256sha256" then some .basic256Sha256
  else if s = "aes128sha256rsaoaep" then some .aes128Sha256RsaOaep
  else if s = "aes256sha256rsapss" then some .aes256Sha256RsaPss
  else if s = "unknown" then some .unknown
  else Option.none

/-- user token policy URI: `-` = null/empty, `bogus` = an unrecognised URI, else a policy's URI -/
def parseTokenPolicy? (s : String) : Option (Option Policy) :=
  if s = "-" then some Option.none
  else if s = "bogus" then some (some .unknown)
  else (parsePolicy? s).map some

def algName : TokAlg → String
  | .empty => "-"
  | .uri .rsa15 => "rsa15"
  | .uri .rsaOaep => "rsaoaep"
  | .uri .rsaOaepSha256 => "rsaoaep256"
  | .other => "other"

/-- `detail = true`: the error class is deterministic (the RSA layer is known to succeed) -/
def showDec (detail : Bool) (clen : Nat) : Outcome Bytes → String
  | .ok pw => s!"ok {clen} ok s{bytesToHex pw}"
  | .err e => if detail then s!"ok {clen} err {errName e}" else s!"ok {clen} err"
  | .panic => "panic"

def flipBit (bs : Bytes) (i : Nat) : Bytes :=
  bs.mapIdx fun k b => if k = i / 8 then b ^^^ (1 <<< (i % 8)) else b

/-- ciphertext mutations of the `mut` op (block-level ones act the same on any RSA) -/
def mutate (ks : Nat) (kind : String) (p : Nat) (c : Bytes) : Option Bytes :=
  if kind = "trunc" then some (c.take (c.length - p))
  else if kind = "extend" then some (c ++ List.replicate p 0)
  else if kind = "flip" then some (flipBit c (p % (8 * c.length)))
  else if kind = "dropblock" then some (c.take (c.length - ks))
  else if kind = "dupblock" then some (c ++ c.drop (c.length - ks))
  else if kind = "swap" then some (c.drop ks ++ c.take ks)
  else none

/-! ### arm tags (which model branch an op took; see GUIDE "Arm coverage") -/

/-- mirrors `utf8Valid`: the kind of every sequence met and the reason of the first rejection -/
def utf8Arms : Bytes → List String
  | [] => []
  | b0 :: rest =>
    if b0 < 0x80 then "u8-ascii" :: utf8Arms rest
    else if b0 < 0xC2 then [if b0 < 0xC0 then "u8-bad-lead-cont" else "u8-bad-lead-c0c1"]
    else if b0 ≤ 0xDF then
      match rest with
      | b1 :: r => if cont b1 then "u8-2" :: utf8Arms r else ["u8-bad-cont2"]
      | _ => ["u8-trunc2"]
    else if b0 ≤ 0xEF then
      match rest with
      | b1 :: b2 :: r =>
        let t :=
          if b0 = 0xE0 then (if b1 < 0xA0 then "u8-e0-overlong" else if b1 = 0xA0 then "u8-e0-a0" else "u8-3")
          else if b0 = 0xED then (if b1 > 0x9F then "u8-ed-surrogate" else if b1 = 0x9F then "u8-ed-9f" else "u8-3")
          else "u8-3"
        if (if b0 = 0xE0 then 0xA0 ≤ b1 && b1 ≤ 0xBF
            else if b0 = 0xED then 0x80 ≤ b1 && b1 ≤ 0x9F else cont b1) && cont b2
        then t :: utf8Arms r else [if t = "u8-3" ∨ t = "u8-e0-a0" ∨ t = "u8-ed-9f" then "u8-bad-cont3" else t]
      | _ => ["u8-trunc3"]
    else if b0 ≤ 0xF4 then
      match rest with
      | b1 :: b2 :: b3 :: r =>
        let t :=
          if b0 = 0xF0 then (if b1 < 0x90 then "u8-f0-overlong" else if b1 = 0x90 then "u8-f0-90" else "u8-4")
          else if b0 = 0xF4 then (if b1 > 0x8F then "u8-f4-too-big" else if b1 = 0x8F then "u8-f4-8f" else "u8-4")
          else "u8-4"
        if (if b0 = 0xF0 then 0x90 ≤ b1 && b1 ≤ 0xBF
            else if b0 = 0xF4 then 0x80 ≤ b1 && b1 ≤ 0x8F else cont b1) && cont b2 && cont b3
        then t :: utf8Arms r else [if t = "u8-4" ∨ t = "u8-f0-90" ∨ t = "u8-f4-8f" then "u8-bad-cont4" else t]
      | _ => ["u8-trunc4"]
    else ["u8-bad-lead-f5ff"]

def blocksTag (pre : String) (n : Nat) : String :=
  pre ++ (if n = 0 then "0" else if n = 1 then "1" else if n = 2 then "2" else "3plus")

/-- the branch `legacy_password_decrypt` takes (retraces `decryptW`) -/
def decArms (r : Rsa) (pad : Padding) (secret : Option Bytes) (nonce : Bytes) : List String :=
  match secret with
  | Option.none => ["dec-null"]
  | some src =>
    if src.length % r.ks != 0 then ["dec-len-not-multiple"] else
    let bl := blocksTag "dec-blocks-" (src.length / r.ks)
    match privateDecrypt r pad src src.length with
    | .panic => ["dec-panic"]
    | .err _ => [bl, "dec-rsa-fail"]
    | .ok plain =>
      let actual := plain.length
      let dst := plain ++ List.replicate (src.length - actual) 0
      if dst.length < 4 then [bl, "dec-dst-short"] else
      let psize := rd32 dst
      let a4 := if actual < 4 then ["dec-actual-lt4"] else []
      if psize + 4 < actual then [bl, if psize + 5 = actual then "dec-size-lt-by1" else "dec-size-lt"] ++ a4
      else if psize + 4 > actual then [bl, if psize + 3 = actual then "dec-size-gt-by1" else "dec-size-gt"] ++ a4
      else if nonce.length > psize then
        [bl, if nonce.length = psize + 1 then "dec-nonce-gt-by1" else "dec-nonce-gt"]
      else
        let nbeg := actual - nonce.length
        if (dst.drop nbeg).take nonce.length ≠ nonce then [bl, "dec-nonce-mismatch"]
        else
          let pw := (dst.drop 4).take (nbeg - 4)
          [bl, if nonce.length = psize then "dec-nonce-eq-psize" else "dec-nonce-lt-psize",
           if nonce.isEmpty then "dec-nonce-empty" else "dec-nonce-nonempty"] ++ utf8Arms pw ++
          [if utf8Valid pw then "dec-ok" else "dec-utf8-bad"]

/-- plaintext length against the RSA block size -/
def encArms (ks : Nat) (pad : Padding) (plen : Nat) : List String :=
  match ptbs ks pad with
  | Option.none => ["enc-unsupported-padding"]
  | some b =>
    if b = 0 then [] else
    [blocksTag "enc-blocks-" ((plen + b - 1) / b),
     if plen % b = 0 then "enc-last-block-full" else "enc-last-block-partial"] ++
    (if plen + 1 = b then ["enc-len-eq-block-minus1"] else if plen = b then ["enc-len-eq-block"]
     else if plen = b + 1 then ["enc-len-eq-block-plus1"] else [])

def isSuffix (a b : Bytes) : Bool := a.length ≤ b.length && b.drop (b.length - a.length) == a

/-- how the decryption nonce relates to the encryption nonce -/
def nonceRelArm (pw n1 n2 : Bytes) : String :=
  if n2 = n1 then "rt-same-nonce"
  else if n2.length = n1.length then "rt-other-nonce-same-length"
  else if n2.length > 4 + pw.length + n1.length then "rt-nonce-longer-than-plaintext"
  else if n2.length > pw.length + n1.length then "rt-nonce-overlaps-length-prefix"
  else if isSuffix n2 (pw ++ n1) then (if n2.length < n1.length then "rt-nonce-proper-suffix" else "rt-nonce-tail-into-password")
  else "rt-other-nonce-other-length"

def padName : Padding → String
  | .pkcs1 => "pkcs1" | .oaepSha1 => "oaep" | .oaepSha256 => "oaep256" | .pss => "pss"

def policyName : Policy → String
  | .none => "none" | .basic128Rsa15 => "basic128rsa15" | .basic256 => "basic256"
  | .basic256Sha256 => "basic256sha256" | .aes128Sha256RsaOaep => "aes128sha256rsaoaep"
  | .aes256Sha256RsaPss => "aes256sha256rsapss" | .unknown => "unknown"

def withArms (res : String) (arms : List String) : String :=
  if arms.isEmpty then res else res ++ " @@ " ++ ",".intercalate arms.eraseDups

def parseTokAlg? (s : String) : Option TokAlg :=
  if s = "-" then some .empty else if s = "rsa15" then some (.uri .rsa15)
  else if s = "rsaoaep" then some (.uri .rsaOaep) else if s = "rsaoaep256" then some (.uri .rsaOaepSha256)
  else if s = "other" then some .other else Option.none

def dstep (s : DState) (toks : List String) : DState × String :=
  let r := toyRsa s.ks
  match toks with
  | ["reset", bits, pad] =>
    match bits.toNat?, parsePad? pad with
    | some bits, some pad => ({ ks := bits / 8, pad := pad }, withArms "ok" [s!"cfg-{padName pad}-{bits}"])
    | _, _ => (s, "bad-op")
  | ["rt", pw, n1, n2] =>
    match hexToBytes (pw.drop 1).toString, hexToBytes n1, hexToBytes n2 with
    | some pw, some n1, some n2 =>
      let ea := encArms s.ks s.pad (4 + pw.length + n1.length)
      match encrypt r s.pad 0 pw n1 with
      | .ok c => (s, withArms (showDec true c.length (decrypt r s.pad (some c) n2))
          (nonceRelArm pw n1 n2 :: ea ++ decArms r s.pad (some c) n2))
      | .err _ => (s, "err enc")
      | .panic => (s, withArms "panic" ea)
    | _, _, _ => (s, "bad-op")
  | ["craft", pt, n] =>
    match hexToBytes pt, hexToBytes n with
    | some pt, some n =>
      match cipherTextSize s.ks s.pad pt.length with
      | none => (s, "panic")
      | some csize =>
        match publicEncrypt r s.pad 0 pt csize with
        | .ok c => (s, withArms (showDec true c.length (decrypt r s.pad (some c) n))
            ("craft" :: encArms s.ks s.pad pt.length ++ decArms r s.pad (some c) n))
        | .err _ => (s, "err enc")
        | .panic => (s, "panic")
    | _, _ => (s, "bad-op")
  | ["raw", c, n] =>
    if c = "-" then
      match hexToBytes n with
      | some n => (s, withArms (showDec false 0 (decrypt r s.pad none n)) (decArms r s.pad none n))
      | none => (s, "bad-op")
    else
    match hexToBytes c, hexToBytes n with
    | some c, some n => (s, withArms (showDec false c.length (decrypt r s.pad (some c) n))
        ("raw" :: decArms r s.pad (some c) n))
    | _, _ => (s, "bad-op")
  | ["tok", chan, tp, pw, n] =>
    match parsePolicy? chan, parseTokenPolicy? tp, hexToBytes (pw.drop 1).toString, hexToBytes n with
    | some chan, some tp, some pw, some n =>
      let tpArm := match tp with
        | Option.none => "tok-tp-empty"
        | some .unknown => "tok-tp-unrecognised"
        | some .none => "tok-tp-none"
        | some _ => "tok-tp-policy"
      let arms := [tpArm, "tok-chan-" ++ policyName chan, "tok-eff-" ++ policyName (effectivePolicy chan tp)]
      match makeToken r 0 chan tp n pw with
      | .ok (field, alg) =>
        let arms := arms ++ ["tok-alg-" ++ algName alg]
        match decryptToken r (some field) alg n with
        | .ok p => (s, withArms s!"ok {algName alg} {field.length} ok s{bytesToHex p}" arms)
        | .err e => (s, withArms s!"ok {algName alg} {field.length} err {errName e}" arms)
        | .panic => (s, "panic")
      | .err _ => (s, "err enc")
      | .panic => (s, withArms "panic" ("tok-panic" :: arms))
    | _, _, _, _ => (s, "bad-op")
  | ["dtok", alg, "plain", field, n] =>
    -- `decrypt_user_identity_token_password` on a token with an arbitrary algorithm and password field
    match parseTokAlg? alg, (if field = "-" then some Option.none else (hexToBytes field).map some), hexToBytes n with
    | some alg, some field, some n =>
      let arms := ["dtok-alg-" ++ algName alg, if field.isNone then "dtok-field-null" else "dtok-field-bytes"] ++
        (match alg with
         | .empty => utf8Arms (field.getD []) ++ [if utf8Valid (field.getD []) then "dtok-plain-ok" else "dtok-plain-utf8-bad"]
         | .other => ["dtok-unsupported-algorithm"]
         | .uri u => decArms r u.padding field n)
      let detail := match alg with | .uri _ => false | _ => true
      (s, withArms (showDec detail ((field.getD []).length) (decryptToken r field alg n)) arms)
    | _, _, _ => (s, "bad-op")
  | ["dtok", alg, "enc", epad, pw, n] =>
    -- … on a password really encrypted with padding `epad`, labelled with algorithm `alg`
    match parseTokAlg? alg, parsePad? epad, hexToBytes (pw.drop 1).toString, hexToBytes n with
    | some alg, some epad, some pw, some n =>
      match encrypt r epad 0 pw n with
      | .ok c =>
        let (detail, arm) := match alg with
          | .uri u => (decide (u.padding = epad), if u.padding = epad then "dtok-padding-matches-label" else "dtok-padding-differs-from-label")
          | .other => (true, "dtok-unsupported-algorithm")
          | .empty => (false, "dtok-ciphertext-read-as-plaintext")
        (s, withArms (showDec detail c.length (decryptToken r (some c) alg n))
          ["dtok-alg-" ++ algName alg, "dtok-enc-" ++ padName epad, arm])
      | .err _ => (s, "err enc")
      | .panic => (s, "panic")
    | _, _, _, _ => (s, "bad-op")
  | ["mut", kind, p, pw, n] =>
    match p.toNat?, hexToBytes (pw.drop 1).toString, hexToBytes n with
    | some p, some pw, some n =>
      match encrypt r s.pad 0 pw n with
      | .ok c =>
        match mutate s.ks kind p c with
        | some c' => (s, withArms (showDec false c'.length (decrypt r s.pad (some c') n))
            (("mut-" ++ kind) :: decArms r s.pad (some c') n))
        | none => (s, "bad-op")
      | .err _ => (s, "err enc")
      | .panic => (s, "panic")
    | _, _, _ => (s, "bad-op")
  | _ => (s, "bad-op")

def driver : Driver := { σ := DState, init := { ks := 256, pad := .oaepSha1 }, step := dstep }

end OpcuaVerif.C16
