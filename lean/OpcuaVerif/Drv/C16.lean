import OpcuaVerif.Common
import OpcuaVerif.Model.C16

namespace OpcuaVerif.C16

structure DState where
  ks : Nat
  pad : Padding

def parsePad? (s : String) : Option Padding :=
  if s = "pkcs1" then some .pkcs1 else if s = "oaep" then some .oaepSha1
  else if s = "oaep256" then some .oaepSha256 else if s = "pss" then some .pss else none

def errName : Err → String
  | .badDecoding => "BadDecodingError"
  | .badEncoding => "BadEncodingError"
  | .badIdentityTokenInvalid => "BadIdentityTokenInvalid"

def parsePolicy? (s : String) : Option Policy :=
  if s = "none" then some .none
  else if s = "basic128rsa15" then some .basic128Rsa15
  else if s = "basic256" then some .basic256
  else if s = "basic256sha256" then some .basic256Sha256
  else if s = "aes128sha256rsaoaep" then some .aes128Sha256RsaOaep
  else if s = "aes256sha256rsapss" then some .aes256Sha256RsaPss
  else if s = "unknown" then some .unknown
  else Option.none

/-- user token policy URI: `-` = null/empty, `bogus` = an unrecognised URI, else a policy's URI -/
def parseTokenPolicy? (s : String) : Option (Option Policy) :=
  if s = "-" then some Option.none
  else if s = "bogus" then some (some .unknown)
  else (parsePolicy? s).map some

def algName : TokAlg → String
  | .empty => "-"
  | .uri .rsa15 => "rsa15"
  | .uri .rsaOaep => "rsaoaep"
  | .uri .rsaOaepSha256 => "rsaoaep256"
  | .other => "other"

/-- `detail = true`: the error class is deterministic (the RSA layer is known to succeed) -/
def showDec (detail : Bool) (clen : Nat) : Outcome Bytes → String
  | .ok pw => s!"ok {clen} ok s{bytesToHex pw}"
  | .err e => if detail then s!"ok {clen} err {errName e}" else s!"ok {clen} err"
  | .panic => "panic"

def flipBit (bs : Bytes) (i : Nat) : Bytes :=
  bs.mapIdx fun k b => if k = i / 8 then b ^^^ (1 <<< (i % 8)) else b

/-- ciphertext mutations of the `mut` op (block-level ones act the same on any RSA) -/
def mutate (ks : Nat) (kind : String) (p : Nat) (c : Bytes) : Option Bytes :=
  if kind = "trunc" then some (c.take (c.length - p))
  else if kind = "extend" then some (c ++ List.replicate p 0)
  else if kind = "flip" then some (flipBit c (p % (8 * c.length)))
  else if kind = "dropblock" then some (c.take (c.length - ks))
  else if kind = "dupblock" then some (c ++ c.drop (c.length - ks))
  else if kind = "swap" then some (c.drop ks ++ c.take ks)
  else none

def dstep (s : DState) (toks : List String) : DState × String :=
  let r := toyRsa s.ks
  match toks with
  | ["reset", bits, pad] =>
    match bits.toNat?, parsePad? pad with
    | some bits, some pad => ({ ks := bits / 8, pad := pad }, "ok")
    | _, _ => (s, "bad-op")
  | ["rt", pw, n1, n2] =>
    match hexToBytes (pw.drop 1).toString, hexToBytes n1, hexToBytes n2 with
    | some pw, some n1, some n2 =>
      match encrypt r s.pad 0 pw n1 with
      | .ok c => (s, showDec true c.length (decrypt r s.pad (some c) n2))
      | .err _ => (s, "err enc")
      | .panic => (s, "panic")
    | _, _, _ => (s, "bad-op")
  | ["craft", pt, n] =>
    match hexToBytes pt, hexToBytes n with
    | some pt, some n =>
      match cipherTextSize s.ks s.pad pt.length with
      | none => (s, "panic")
      | some csize =>
        match publicEncrypt r s.pad 0 pt csize with
        | .ok c => (s, showDec true c.length (decrypt r s.pad (some c) n))
        | .err _ => (s, "err enc")
        | .panic => (s, "panic")
    | _, _ => (s, "bad-op")
  | ["raw", c, n] =>
    if c = "-" then
      match hexToBytes n with
      | some n => (s, showDec false 0 (decrypt r s.pad none n))
      | none => (s, "bad-op")
    else
    match hexToBytes c, hexToBytes n with
    | some c, some n => (s, showDec false c.length (decrypt r s.pad (some c) n))
    | _, _ => (s, "bad-op")
  | ["tok", chan, tp, pw, n] =>
    match parsePolicy? chan, parseTokenPolicy? tp, hexToBytes (pw.drop 1).toString, hexToBytes n with
    | some chan, some tp, some pw, some n =>
      match makeToken r 0 chan tp n pw with
      | .ok (field, alg) =>
        match decryptToken r (some field) alg n with
        | .ok p => (s, s!"ok {algName alg} {field.length} ok s{bytesToHex p}")
        | .err e => (s, s!"ok {algName alg} {field.length} err {errName e}")
        | .panic => (s, "panic")
      | .err _ => (s, "err enc")
      | .panic => (s, "panic")
    | _, _, _, _ => (s, "bad-op")
  | ["mut", kind, p, pw, n] =>
    match p.toNat?, hexToBytes (pw.drop 1).toString, hexToBytes n with
    | some p, some pw, some n =>
      match encrypt r s.pad 0 pw n with
      | .ok c =>
        match mutate s.ks kind p c with
        | some c' => (s, showDec false c'.length (decrypt r s.pad (some c') n))
        | none => (s, "bad-op")
      | .err _ => (s, "err enc")
      | .panic => (s, "panic")
    | _, _, _ => (s, "bad-op")
  | _ => (s, "bad-op")

def driver : Driver := { σ := DState, init := { ks := 256, pad := .oaepSha1 }, step := dstep }

end OpcuaVerif.C16
