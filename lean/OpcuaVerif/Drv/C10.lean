import OpcuaVerif.Common
import OpcuaVerif.Model.C10
import OpcuaVerif.Drv.C12
import OpcuaVerif.Drv.SrvConn

namespace OpcuaVerif.C10
open OpcuaVerif.C12

inductive DState where
  | idle
  | conn (c : SrvConn.Conn)
  | rx (st : C11.DState)
  | cli (st : C12.DState)

def dstep (st : DState) (toks : List String) : DState × String :=
  match toks with
  | "reset" :: "conn" :: _ =>
    match SrvConn.dstep SrvConn.conn0 toks with
    | (c', o) => (.conn c', o)
  | "reset" :: "cli" :: _ =>
    match C12.dstep .idle toks with
    | (s', o) => (.cli s', o)
  | "reset" :: "rx" :: _ =>
    match C11.dstep .idle toks with
    | (s', o) => (.rx s', o)
  | _ =>
    match st with
    | .rx s =>
      match C11.dstep s toks with
      | (s', o) => (.rx s', o)
    | .cli s =>
      match C12.dstep s toks with
      | (s', o) => (.cli s', o)
    | .conn c =>
      match SrvConn.dstep c toks with
      | (c', o) => (.conn c', o)
    | _ => (st, "bad-op")

def driver : Driver := { σ := DState, init := .idle, step := dstep }

end OpcuaVerif.C10
