import OpcuaVerif.Common
import OpcuaVerif.Model.C10
import OpcuaVerif.Drv.C12

namespace OpcuaVerif.C10
open OpcuaVerif.C12

inductive DState where
  | idle
  | srv (s : Srv)
  | rx (st : C11.DState)
  | cli (st : C12.DState)

def tail (s : Srv) : String := s!"pend={s.pending.length} bytes={s.bytes}"

def dstep (st : DState) (toks : List String) : DState × String :=
  match toks with
  | ["reset", "srv", mc, mm, l0] =>
    match mc.toNat?, mm.toNat?, l0.toNat? with
    | some mc, some mm, some l0 =>
      (.srv { maxChunks := mc, maxMsg := mm, l0 := l0, chanId := 1, last := 1, pending := [], closed := false }, "ok")
    | _, _, _ => (st, "bad-op")
  | "reset" :: "cli" :: _ =>
    match C12.dstep .idle toks with
    | (s', o) => (.cli s', o)
  | "reset" :: "rx" :: _ =>
    match C11.dstep .idle toks with
    | (s', o) => (.rx s', o)
  | ["chunk", ci, f, n] =>
    match st, parseCI? ci, n.toNat? with
    | .srv s, some (some c), some n =>
      let fin : Option Fin := if f = "F" then some .final else if f = "C" then some .intermediate
        else if f = "A" then some .abort else none
      match fin with
      | none => (st, "bad-op")
      | some fin =>
        if n < 24 then (st, "bad-op") else
        match s.chunk true c fin n with
        | (s', .stored) => (.srv s', s!"ok stored {tail s'}")
        | (s', .accepted r) => (.srv s', s!"ok accepted req={r} {tail s'}")
        | (s', .rejected e) => (.srv s', s!"err {e} {tail s'}")
        | (s', .closed) => (.srv s', "err closed")
    | _, _, _ => (st, "bad-op")
  | _ =>
    match st with
    | .rx s =>
      match C11.dstep s toks with
      | (s', o) => (.rx s', o)
    | .cli s =>
      match C12.dstep s toks with
      | (s', o) => (.cli s', o)
    | _ => (st, "bad-op")

def driver : Driver := { σ := DState, init := .idle, step := dstep }

end OpcuaVerif.C10
