import OpcuaVerif.Common
import OpcuaVerif.Model.C19

namespace OpcuaVerif.C19

def hexNat? (s : String) : Option Nat :=
  s.toList.foldlM (fun acc c => (hexDigit c).map (fun d => 16 * acc + d)) 0

/-- `f<16 hex digits>` → bit pattern -/
def parseF? (s : String) : Option Nat :=
  match s.toList with
  | 'f' :: r => if r.length = 16 then hexNat? (String.ofList r) else none
  | _ => none

def hex16 (n : Nat) : String :=
  String.ofList ((List.range 16).reverse.map (fun i => nibble (n / 16 ^ i % 16)))

def parseTok? (s : String) : Option Tok :=
  if s = "o" then some .foreign else s.toNat?.map .num

def parseCred? (s : String) : Option Cred :=
  if s = "anon" then some .anon else if s = "user" then some .user
  else if s = "badpw" then some .badpw else if s = "badpol" then some .badpol else none

def Status.name : Status → String
  | .BadTooManySessions => "BadTooManySessions"
  | .BadSessionIdInvalid => "BadSessionIdInvalid"
  | .BadSessionNotActivated => "BadSessionNotActivated"
  | .BadSecureChannelIdInvalid => "BadSecureChannelIdInvalid"
  | .BadUserAccessDenied => "BadUserAccessDenied"
  | .BadIdentityTokenInvalid => "BadIdentityTokenInvalid"
  | .BadTcpEndpointUrlInvalid => "BadTcpEndpointUrlInvalid"

def showOut : Out → String
  | .created k r => s!"ok {k} f{hex16 r}"
  | .activated => "ok"
  | .closed => "ok"
  | .wrote => "ok write"
  | .readv v => s!"ok read {v}"
  | .browsed => "ok browse"
  | .subscribed n => s!"ok sub {n}"
  | .served k => s!"ok other {k}"
  | .discovered => "ok"
  | .done => "ok"
  | .fault e => "err " ++ e.name

def probe (s : St) : String :=
  s!"v={s.v} [" ++ ",".intercalate (s.sessions.map fun x =>
    s!"{x.token}:{boolStr x.activated}:{x.chan}:{x.subs}:{boolStr x.term}") ++ "]"

def parseOp? : List String → Option Op
  | ["create", f] => (parseF? f).map .create
  | ["activate", t, c] => do some (.activate (← parseTok? t) (← parseCred? c))
  | ["close", t] => (parseTok? t).map .close
  | ["close", t, _] => (parseTok? t).map .close     -- delete_subscriptions flag: the code ignores it
  | ["createx", _] => some .createBadUrl
  | ["svc", t, "other", k] => do some (.service (← parseTok? t) (.other (← k.toNat?)))
  | ["disc", _] => some .discovery
  | ["svc", t, "write", x] => do some (.service (← parseTok? t) (.write (← x.toNat?)))
  | ["svc", t, "read"] => (parseTok? t).map (.service · .read)
  | ["svc", t, "browse"] => (parseTok? t).map (.service · .browse)
  | ["svc", t, "sub"] => (parseTok? t).map (.service · .sub)
  | ["disc"] => some .discovery
  | ["setchan", c] => c.toNat?.map .setChan
  | ["elapse", ms] => ms.toNat?.map .elapse
  | _ => none

/-! ### arm tags (which branch of the model an op took; see GUIDE "Arm coverage") -/

def tokKind (s : St) : Tok → String
  | .foreign => "foreign"
  | .num 0 => "null"
  | .num n =>
    if n > s.issued then "unissued"
    else if (s.sessions.any (fun x => x.token == n)) then "registered" else "closed"

/-- where the idle time of a session stands relative to its timeout -/
def idleKind (x : Sess) : String :=
  let f := F.ofBits x.timeout
  if !f.gtNat 0 then "tmo-never"
  else if f.ltNat x.idle then (if x.idle ≥ 1 && !f.ltNat (x.idle - 1) then "idle-just-over" else "idle-over")
  else if f.ltNat (x.idle + 1) then "idle-at-limit"
  else if x.idle = 0 then "idle-zero" else "idle-under"

def timeoutKind (bits : Nat) : String :=
  let f := F.ofBits bits
  match f with
  | .nan => "tmo-nan"
  | .inf true => "tmo-neg-inf"
  | .inf false => "tmo-pos-inf"
  | .fin _ _ _ =>
    if f.gtNat maxSessionTimeout then "tmo-gt-max"
    else if !f.gtNat 0 then "tmo-nonpositive"
    else if bits = maxSessionTimeoutBits then "tmo-eq-max"
    else if f.gtNat 1 then "tmo-positive" else "tmo-le-1"

def credName : Cred → String
  | .anon => "anon" | .user => "user" | .badpw => "badpw" | .badpol => "badpol"

def svcName : Svc → String
  | .write _ => "write" | .read => "read" | .browse => "browse" | .sub => "sub"
  | .other k => s!"other-{k}"

def opTags (s : St) : Op → Out → List String
  | .createBadUrl, _ => [if s.sessions.length ≥ maxSessions then "createx-at-limit" else "createx-bad-url"]
  | .create bits, o =>
    [timeoutKind bits,
     if s.sessions.length + 1 < maxSessions then "create-len-lt-limit"
     else if s.sessions.length + 1 = maxSessions then "create-len-reaches-limit" else "create-len-at-limit",
     if o.isFault then "create-fault" else "create-ok"]
  | .activate t c, o =>
    match find s t with
    | none => ["act-notfound-" ++ tokKind s t]
    | some x =>
      if timedOut x then ["act-timedout", "act-" ++ idleKind x]
      else
        ["act-cred-" ++ credName c, "act-" ++ idleKind x,
         if x.activated then (if x.chan = s.chan then "act-again-same-chan" else "act-again-other-chan")
         else (if x.chan = s.chan then "act-first-same-chan" else "act-first-other-chan"),
         if o.isFault then (if x.activated then "act-fault-deactivates" else "act-fault") else "act-ok"]
  | .close t, o =>
    match find s t with
    | none => ["close-notfound-" ++ tokKind s t]
    | some x =>
      [if x.activated then (if x.chan = s.chan then "close-activated-same-chan" else "close-activated-other-chan")
       else (if x.chan = s.chan then "close-unactivated-same-chan" else "close-unactivated-other-chan"),
       if timedOut x then "close-timedout" else "close-not-timedout",
       if o.isFault then "close-fault" else "close-ok"]
  | .service t svc, o =>
    match find s t with
    | none => ["svc-notfound-" ++ tokKind s t]
    | some x =>
      if !x.activated then ["svc-not-activated"]
      else if x.chan != s.chan then ["svc-other-chan"]
      else ["svc-" ++ idleKind x, if o.isFault then "svc-timedout" else "svc-ok-" ++ svcName svc]
  | .discovery, _ => ["disc"]
  | .setChan c, _ => [if c = s.chan then "setchan-same" else "setchan-other"]
  | .elapse ms, _ => [if ms = 0 then "elapse-0" else if ms ≥ 2 ^ 40 then "elapse-huge" else "elapse-some"]

def tagged (r : String) (tags : List String) : String :=
  if tags.isEmpty then r else r ++ " @@ " ++ ",".intercalate tags

def dstep (s : St) (toks : List String) : St × String :=
  match toks with
  | ["reset", c] =>
    match c.toNat? with
    | some c => let s := St.init c; (s, "ok | " ++ probe s)
    | none => (s, "bad-op")
  | _ =>
    match parseOp? toks with
    | some op => let (s', o) := step s op; (s', tagged (showOut o ++ " | " ++ probe s') (opTags s op o))
    | none => (s, "bad-op")

def driver : Driver := { σ := St, init := St.init 1, step := dstep }

end OpcuaVerif.C19
