import OpcuaVerif.Common
import OpcuaVerif.Model.C19

namespace OpcuaVerif.C19

def hexNat? (s : String) : Option Nat :=
  s.toList.foldlM (fun acc c => (hexDigit c).map (fun d => 16 * acc + d)) 0

/-- `f<16 hex digits>` → bit pattern -/
def parseF? (s : String) : Option Nat :=
  match s.toList with
  | 'f' :: r => if r.length = 16 then hexNat? (String.ofList r) else none
  | _ => none

def hex16 (n : Nat) : String :=
  String.ofList ((List.range 16).reverse.map (fun i => nibble (n / 16 ^ i % 16)))

def parseTok? (s : String) : Option Tok :=
  if s = "o" then some .foreign else s.toNat?.map .num

def parseCred? (s : String) : Option Cred :=
  if s = "anon" then some .anon else if s = "user" then some .user
  else if s = "badpw" then some .badpw else if s = "badpol" then some .badpol else none

def Status.name : Status → String
  | .BadTooManySessions => "BadTooManySessions"
  | .BadSessionIdInvalid => "BadSessionIdInvalid"
  | .BadSessionNotActivated => "BadSessionNotActivated"
  | .BadSecureChannelIdInvalid => "BadSecureChannelIdInvalid"
  | .BadUserAccessDenied => "BadUserAccessDenied"
  | .BadIdentityTokenInvalid => "BadIdentityTokenInvalid"

def showOut : Out → String
  | .created k r => s!"ok {k} f{hex16 r}"
  | .activated => "ok"
  | .closed => "ok"
  | .wrote => "ok write"
  | .readv v => s!"ok read {v}"
  | .browsed => "ok browse"
  | .subscribed n => s!"ok sub {n}"
  | .discovered => "ok"
  | .done => "ok"
  | .fault e => "err " ++ e.name

def probe (s : St) : String :=
  s!"v={s.v} [" ++ ",".intercalate (s.sessions.map fun x =>
    s!"{x.token}:{boolStr x.activated}:{x.chan}:{x.subs}:{boolStr x.term}") ++ "]"

def parseOp? : List String → Option Op
  | ["create", f] => (parseF? f).map .create
  | ["activate", t, c] => do some (.activate (← parseTok? t) (← parseCred? c))
  | ["close", t] => (parseTok? t).map .close
  | ["svc", t, "write", x] => do some (.service (← parseTok? t) (.write (← x.toNat?)))
  | ["svc", t, "read"] => (parseTok? t).map (.service · .read)
  | ["svc", t, "browse"] => (parseTok? t).map (.service · .browse)
  | ["svc", t, "sub"] => (parseTok? t).map (.service · .sub)
  | ["disc"] => some .discovery
  | ["setchan", c] => c.toNat?.map .setChan
  | ["elapse", ms] => ms.toNat?.map .elapse
  | _ => none

def dstep (s : St) (toks : List String) : St × String :=
  match toks with
  | ["reset", c] =>
    match c.toNat? with
    | some c => let s := St.init c; (s, "ok | " ++ probe s)
    | none => (s, "bad-op")
  | _ =>
    match parseOp? toks with
    | some op => let (s', o) := step s op; (s', showOut o ++ " | " ++ probe s')
    | none => (s, "bad-op")

def driver : Driver := { σ := St, init := St.init 1, step := dstep }

end OpcuaVerif.C19
