import OpcuaVerif.Common
import OpcuaVerif.Model.C24

namespace OpcuaVerif.C24

structure DState where
  maxQ : Nat
  it : Item

def showQ (q : List (Nat × Bool)) : String :=
  "[" ++ ",".intercalate (q.map fun (x, o) => toString x ++ ":" ++ boolStr o) ++ "]"

def showItem (it : Item) : String :=
  s!"ok size={it.size} q={showQ it.queue} of={boolStr it.overflow}"

def dstep (s : DState) (toks : List String) : DState × String :=
  match toks with
  | ["reset", m, r, d] =>
    match m.toNat?, r.toNat?, parseBool? d with
    | some m, some r, some d =>
      let it := mk m r d
      ({ maxQ := m, it := it }, showItem it)
    | _, _, _ => (s, "bad-op")
  | ["enq", x] =>
    match x.toNat? with
    | some x =>
      let it := enqueue s.it x
      let arm := if s.it.queue.length = s.it.size then
          (if s.it.discardOldest then "enq-full-oldest" else "enq-full-newest") ++ (if s.it.size > 1 then "-ov" else "-size1")
        else "enq-room"
      ({ s with it := it }, showItem it ++ " @@ " ++ arm)
    | none => (s, "bad-op")
  | ["drain"] =>
    match drain s.it with
    | (it, none) => ({ s with it := it }, "ok none " ++ showItem it ++ " @@ drain-empty")
    | (it, some q) => ({ s with it := it }, "ok " ++ showQ q ++ " " ++ showItem it ++ " @@ drain-some")
  | ["modify", r, d] =>
    match r.toNat?, parseBool? d with
    | some r, some d =>
      match modify s.maxQ s.it r d with
      | .ok it =>
        let arm := if s.it.queue.length > it.size then "modify-shrink-drop"
          else if it.size > s.it.size then "modify-grow" else if it.size < s.it.size then "modify-shrink-fit" else "modify-same"
        ({ s with it := it }, showItem it ++ " @@ " ++ arm)
      | .panic => (s, "panic")
    | _, _ => (s, "bad-op")
  | ["modbad", r, d] =>
    -- a modify request that the server rejects (unsupported filter): not an operation of the model —
    -- the item is as it was
    match r.toNat?, parseBool? d with
    | some _, some _ => (s, "err BadMonitoredItemFilterUnsupported " ++ showItem s.it ++ " @@ modify-rejected")
    | _, _ => (s, "bad-op")
  | _ => (s, "bad-op")

def driver : Driver := { σ := DState, init := { maxQ := 10, it := mk 10 1 true }, step := dstep }

end OpcuaVerif.C24
