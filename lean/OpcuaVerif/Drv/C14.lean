import OpcuaVerif.Common
import OpcuaVerif.Model.C14

namespace OpcuaVerif.C14

def showOut : Out → String
  | .queued => "ok queued"
  | .idle => "ok idle"
  | .accepted e => s!"ok accepted {e}"
  | .rejected e => s!"ok rejected {e}"
  | .renewed e => s!"ok renewed {e}"
  | .gotResp e => s!"ok resp {e}"
  | .faulted => "ok faulted"
  | .gotFault => "ok fault"
  | .renewFailed => "ok renew-failed"

def parseOp : List String → Option Op
  | ["cSend"] => some .cSend
  | ["cRenew"] => some .cRenew
  | ["sStep"] => some .sStep
  | ["sSend"] => some .sSend
  | ["cStep"] => some .cStep
  | ["cApply"] => some .cApply
  | ["cRenewSame"] => some .cRenewSame
  | ["cForge", e] => e.toNat?.map .cForge
  | ["sForge", e] => e.toNat?.map .sForge
  | _ => none

/-- coverage tag of one step: which branch of the model it took, refined by the situations the
property distinguishes (old token after a renewal, new token before the client applied it, forged) -/
def armOf (s : St) (op : Op) (o : Out) : String :=
  let sec := if s.secured then "sec" else "unsec"
  match op, o with
  | .cSend, _ => if s.outstanding then "cSend-during-renew" else "cSend"
  | .sSend, _ => if s.sKey != s.cKey then "sSend-before-client-apply" else "sSend"
  | .cRenewSame, .idle => "cRenewSame-busy"
  | .cRenewSame, _ => "cRenewSame"
  | .sStep, .faulted => "sStep-renew-nonce-reused-fault"
  | .cStep, .gotFault => "cStep-fault"
  | .cApply, .renewFailed => "cApply-renew-failed"
  | .cRenew, .idle => "cRenew-busy"
  | .cRenew, _ => "cRenew"
  | .cForge _, _ => "cForge"
  | .sForge _, _ => "sForge"
  | .cApply, .idle => "cApply-nothing"
  | .cApply, _ => "cApply"
  | .sStep, .idle => match s.c2s with
    | [] => "sStep-empty"
    | _ => "sStep-stray"
  | .sStep, .renewed e => if e ≥ 2 then "sStep-renew-again" else "sStep-renew-first"
  | .sStep, .accepted e => s!"sStep-accept-{sec}" ++ (if e ≥ 1000 then "-forged" else if e == s.sKey then "-current" else "-other")
  | .sStep, .rejected e => "sStep-reject" ++ (if e ≥ 1000 then "-forged" else if e + 1 == s.sKey then "-old-token" else "-other")
  | .cStep, .idle => match s.s2c with
    | [] => "cStep-empty"
    | _ => "cStep-stray"
  | .cStep, .gotResp _ => "cStep-resp"
  | .cStep, .accepted e => s!"cStep-accept-{sec}" ++ (if e ≥ 1000 then "-forged" else if e == s.cKey then "-current" else "-other")
  | .cStep, .rejected e => "cStep-reject" ++ (if e ≥ 1000 then "-forged" else if s.pend == some e then "-new-token-before-apply" else "-other")
  | _, _ => "other"

/-- `reset <policy> <mode>`: only whether the channel is secured matters to the model
(policy ≠ None and mode ∈ {Sign, SignAndEncrypt}). -/
def dstep (s : St) (toks : List String) : St × String :=
  match toks with
  | ["reset", pol, mode] =>
    let secured := pol != "None" && mode != "None"
    (init secured, s!"ok secured={boolStr secured}")
  | _ =>
    match parseOp toks with
    | some op =>
      let (s', o) := step s op
      (s', showOut o ++ " @@ " ++ armOf s op o)
    | none => (s, "bad-op")

def driver : Driver := { σ := St, init := init true, step := dstep }

end OpcuaVerif.C14
