import OpcuaVerif.Common
import OpcuaVerif.Model.C14

namespace OpcuaVerif.C14

def showOut : Out → String
  | .queued => "ok queued"
  | .idle => "ok idle"
  | .accepted e => s!"ok accepted {e}"
  | .rejected e => s!"ok rejected {e}"
  | .renewed e => s!"ok renewed {e}"
  | .gotResp e => s!"ok resp {e}"

def parseOp : List String → Option Op
  | ["cSend"] => some .cSend
  | ["cRenew"] => some .cRenew
  | ["sStep"] => some .sStep
  | ["sSend"] => some .sSend
  | ["cStep"] => some .cStep
  | ["cApply"] => some .cApply
  | ["cForge", e] => e.toNat?.map .cForge
  | ["sForge", e] => e.toNat?.map .sForge
  | _ => none

/-- `reset <policy> <mode>`: only whether the channel is secured matters to the model
(policy ≠ None and mode ∈ {Sign, SignAndEncrypt}). -/
def dstep (s : St) (toks : List String) : St × String :=
  match toks with
  | ["reset", pol, mode] =>
    let secured := pol != "None" && mode != "None"
    (init secured, s!"ok secured={boolStr secured}")
  | _ =>
    match parseOp toks with
    | some op => let (s', o) := step s op; (s', showOut o)
    | none => (s, "bad-op")

def driver : Driver := { σ := St, init := init true, step := dstep }

end OpcuaVerif.C14
