import OpcuaVerif.Common
import OpcuaVerif.Model.C09

/-!
Driver for the receive-path model (used by C09 and, through `Drv.C08`, by C08).

    reset <policy> <mode> <ownCertSize|-> <ownKeySize|-> <keys 0|1> [tokens only the harness reads…]
    recv <label> <src hex> <cert> <thumb> <rsa> <ver> <aes> <hm>

The six trailing tokens of `recv` are the answers OpenSSL gives to the questions the receive path
can ask about `src` (computed by the harness generator with the primitives only, not with the
receive path):

    cert  : `-` not a certificate | `p` no public key | `<n>` public key size in bytes
    thumb : `1` receiver thumbprint equals our certificate's thumbprint, else `0`
    rsa   : `[b0,b1,…]` per cipher-text block the decrypted bytes (`x…`) or `-` (rejected)
    ver   : `1`/`0` RSA signature verifies / does not, `e` OpenSSL error, `-` not asked
    aes   : `x…` AES-CBC plain text, `e` error, `-` not asked
    hm    : two characters, HMAC-SHA1 and HMAC-SHA256 verdict (`1`/`0`, `-` = not computable)
-/
namespace OpcuaVerif.C09

def Policy.name : Policy → String
  | .none => "none" | .b128 => "b128" | .b256 => "b256" | .b256s => "b256s"
  | .a128 => "a128" | .a256 => "a256"

def parsePolicy? : String → Option Policy
  | "none" => some .none | "b128" => some .b128 | "b256" => some .b256 | "b256s" => some .b256s
  | "a128" => some .a128 | "a256" => some .a256 | _ => none

def parseMode? : String → Option Mode
  | "none" => some .none | "sign" => some .sign | "se" => some .signEncrypt
  | "invalid" => some .invalid | _ => none

def Status.name : Status → String
  | .badDecodingError => "BadDecodingError"
  | .badUnexpectedError => "BadUnexpectedError"
  | .badSecurityPolicyRejected => "BadSecurityPolicyRejected"
  | .badCertificateInvalid => "BadCertificateInvalid"
  | .badNoValidCertificates => "BadNoValidCertificates"
  | .badSecurityChecksFailed => "BadSecurityChecksFailed"

def parseOptNat? (s : String) : Option (Option Nat) :=
  if s = "-" then some none else s.toNat?.map some

structure Answers where
  cert : Option (Option Nat)
  thumb : Bool
  rsa : List (Option Bytes)
  ver : Option Bool
  aes : Option Bytes
  h1 : Bool
  h256 : Bool

def parseRsa? (s : String) : Option (List (Option Bytes)) :=
  if s = "-" ∨ s = "[]" then some [] else
  let inner := String.ofList ((s.toList.drop 1).dropLast)
  (inner.splitOn ",").mapM fun t => if t = "-" then some none else (hexToBytes t).map some

def parseAnswers? (cert thumb rsa ver aes hm : String) : Option Answers := do
  let c : Option (Option Nat) ←
    if cert = "-" then some none else if cert = "p" then some (some none)
    else cert.toNat?.map (fun n => some (some n))
  let r ← parseRsa? rsa
  let v : Option Bool := if ver = "1" then some true else if ver = "0" then some false else none
  let a : Option Bytes ← if aes = "-" ∨ aes = "e" then some none else (hexToBytes aes).map some
  let h := hm.toList
  some { cert := c, thumb := thumb = "1", rsa := r, ver := v, aes := a,
         h1 := h.head? = some '1', h256 := (h.drop 1).head? = some '1' }

/-- the one-point instance of `Crypto` described by the answers of one op -/
def oracle (a : Answers) : Crypto where
  x509 := fun _ => a.cert
  thumbEq := fun _ => a.thumb
  rsaDec := fun _ i _ => (a.rsa.drop i).head?.join
  rsaVerify := fun _ _ _ _ => a.ver
  aesDec := fun _ => a.aes
  hmacOk := fun p _ _ => if p.symSig = 20 then a.h1 else a.h256

def showOutcome (ch : Chan) : Outcome → String
  | .ok d => s!"ok {d.length} x{bytesToHex d} p={ch.policy.name}"
  | .err s => s!"err {s.name} p={ch.policy.name}"
  | .panic _ => "panic"
  | .fuel => "model-fuel"

def defaultChan : Chan :=
  { policy := .none, mode := .none, ownCert := none, ownKey := none, keys := false,
    maxStr := 65535, maxBs := 65535 }

def parseReset? (toks : List String) : Option Chan :=
  match toks with
  | p :: m :: oc :: ok :: k :: _ => do
    let p ← parsePolicy? p
    let m ← parseMode? m
    let oc ← parseOptNat? oc
    let ok ← parseOptNat? ok
    let k ← parseBool? k
    some { defaultChan with policy := p, mode := m, ownCert := oc, ownKey := ok, keys := k }
  | _ => none

def dstepWith (F : Fixes) (ch : Chan) (toks : List String) : Chan × String :=
  match toks with
  | "reset" :: rest =>
    match parseReset? rest with
    | some ch' => (ch', s!"ok p={ch'.policy.name}")
    | none => (ch, "bad-op")
  | ["recv", _, src, cert, thumb, rsa, ver, aes, hm] =>
    match hexToBytes src, parseAnswers? cert thumb rsa ver aes hm with
    | some src, some a =>
      let (ch', o) := recvWith F (oracle a) ch src
      (ch', showOutcome ch' o)
    | _, _ => (ch, "bad-op")
  | _ => (ch, "bad-op")

def driver : Driver := { σ := Chan, init := defaultChan, step := dstepWith Fixes.current }

end OpcuaVerif.C09
