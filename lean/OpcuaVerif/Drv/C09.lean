import OpcuaVerif.Common
import OpcuaVerif.Model.C09

/-!
Driver for the receive-path model (used by C09 and, through `Drv.C08`, by C08).

    reset <policy> <mode> <ownCertSize|-> <ownKeySize|-> <keys 0|1> [tokens only the harness reads…]
    recv <label> <src hex> <cert> <thumb> <rsa> <ver> <aes> <hm>

The six trailing tokens of `recv` are the answers OpenSSL gives to the questions the receive path
can ask about `src` (computed by the harness generator with the primitives only, not with the
receive path):

    cert  : `-` not a certificate | `p` no public key | `<n>` public key size in bytes
    thumb : `1` receiver thumbprint equals our certificate's thumbprint, else `0`
    rsa   : `[b0,b1,…]` per cipher-text block the decrypted bytes (`x…`) or `-` (rejected)
    ver   : `1`/`0` RSA signature verifies / does not, `e` OpenSSL error, `-` not asked
    aes   : `x…` AES-CBC plain text, `e` error, `-` not asked
    hm    : two characters, HMAC-SHA1 and HMAC-SHA256 verdict (`1`/`0`, `-` = not computable)
-/
namespace OpcuaVerif.C09

def Policy.name : Policy → String
  | .none => "none" | .b128 => "b128" | .b256 => "b256" | .b256s => "b256s"
  | .a128 => "a128" | .a256 => "a256"

def parsePolicy? : String → Option Policy
  | "none" => some .none | "b128" => some .b128 | "b256" => some .b256 | "b256s" => some .b256s
  | "a128" => some .a128 | "a256" => some .a256 | _ => none

def parseMode? : String → Option Mode
  | "none" => some .none | "sign" => some .sign | "se" => some .signEncrypt
  | "invalid" => some .invalid | _ => none

def Status.name : Status → String
  | .badDecodingError => "BadDecodingError"
  | .badUnexpectedError => "BadUnexpectedError"
  | .badSecurityPolicyRejected => "BadSecurityPolicyRejected"
  | .badCertificateInvalid => "BadCertificateInvalid"
  | .badNoValidCertificates => "BadNoValidCertificates"
  | .badSecurityChecksFailed => "BadSecurityChecksFailed"

def parseOptNat? (s : String) : Option (Option Nat) :=
  if s = "-" then some none else s.toNat?.map some

structure Answers where
  cert : Option (Option Nat)
  thumb : Bool
  rsa : List (Option Bytes)
  ver : Option Bool
  aes : Option Bytes
  h1 : Bool
  h256 : Bool

def parseRsa? (s : String) : Option (List (Option Bytes)) :=
  if s = "-" ∨ s = "[]" then some [] else
  let inner := String.ofList ((s.toList.drop 1).dropLast)
  (inner.splitOn ",").mapM fun t => if t = "-" then some none else (hexToBytes t).map some

def parseAnswers? (cert thumb rsa ver aes hm : String) : Option Answers := do
  let c : Option (Option Nat) ←
    if cert = "-" then some none else if cert = "p" then some (some none)
    else cert.toNat?.map (fun n => some (some n))
  let r ← parseRsa? rsa
  let v : Option Bool := if ver = "1" then some true else if ver = "0" then some false else none
  let a : Option Bytes ← if aes = "-" ∨ aes = "e" then some none else (hexToBytes aes).map some
  let h := hm.toList
  some { cert := c, thumb := thumb = "1", rsa := r, ver := v, aes := a,
         h1 := h.head? = some '1', h256 := (h.drop 1).head? = some '1' }

/-- the one-point instance of `Crypto` described by the answers of one op -/
def oracle (a : Answers) : Crypto where
  x509 := fun _ => a.cert
  thumbEq := fun _ => a.thumb
  rsaDec := fun _ i _ => (a.rsa.drop i).head?.join
  rsaVerify := fun _ _ _ _ => a.ver
  aesDec := fun _ => a.aes
  hmacOk := fun p _ _ => if p.symSig = 20 then a.h1 else a.h256

def showOutcome (ch : Chan) : Outcome → String
  | .ok d => s!"ok {d.length} x{bytesToHex d} p={ch.policy.name}"
  | .err s => s!"err {s.name} p={ch.policy.name}"
  | .panic _ => "panic"
  | .fuel => "model-fuel"

/-! ### arm tags (coverage accounting only: which branches of the model an op exercised) -/

def cmp3 (tag : String) (a b : Nat) : String :=
  if a < b then tag ++ "-lt" else if a = b then tag ++ "-eq" else tag ++ "-gt"

def fldArm (name : String) (max : Nat) (rest : Bytes) : List String :=
  match rest with
  | a :: b :: c :: d :: r =>
    let n := le32 a b c d
    if n = 4294967295 then [name ++ "-null"]
    else if n ≥ 2147483648 then [name ++ "-neg"]
    else if n > max then [name ++ "-over-limit"]
    else if r.length < n then [name ++ "-short-read"]
    else [name ++ (if n = 0 then "-empty" else "-val")]
  | _ => [name ++ "-no-length"]

def padArms (pre : String) (dst : Bytes) (keySize padEnd : Nat) : List String :=
  let m := if keySize > 256 then 2 else 1
  if padEnd < m ∨ padEnd > dst.length then [pre ++ "-noroom"] else
  let pb := (dst.drop (padEnd - m)).headD 0
  let ps := if keySize > 256 then (dst.drop (padEnd - 1)).headD 0 * 256 + pb else pb
  -- the announced size against the padding end, at the carry of the bound check
  let near :=
    if ps + 2 = padEnd then [pre ++ "-announced-end-minus-2"]
    else if ps + 1 = padEnd then [pre ++ "-announced-end-minus-1"]
    else if ps = padEnd then [pre ++ "-announced-end"]
    else if ps = padEnd + 1 then [pre ++ "-announced-end-plus-1"]
    else []
  if ps + m > padEnd then [pre ++ "-size-gt-end"] ++ near
  else near ++
    let start := padEnd - ps - m
    let bnd := if ps + m = padEnd then [pre ++ "-size-eq-end"] else []
    bnd ++ (if ((dst.drop start).take (ps + 1)).all (· == pb) then [pre ++ "-ok", cmp3 (pre ++ "-len") ps 1]
            else [pre ++ "-bytes-bad"])

def symArms (C : Crypto) (ch : Chan) (src : Bytes) : List String :=
  if ¬ ch.secured then [if ch.policy = .none then "sym-pass-policy-none" else "sym-pass-mode-" ++
      (match ch.mode with | .none => "none" | .invalid => "invalid" | _ => "x")] else
  let sig := ch.policy.symSig
  let n := src.length
  [cmp3 "sym-len-vs-hdr+sig" n (16 + sig)] ++
  (if n < 16 + sig then [] else
   if !ch.keys then ["sym-no-keys"] else
   if ch.mode = .sign then
     [if C.hmacOk ch.policy (src.take (n - sig)) (src.drop (n - sig)) then "sign-hmac-ok" else "sign-hmac-bad"]
   else
     let ct := src.drop 16
     if ct.length % 16 ≠ 0 then ["se-aes-unaligned"] else
     ["se-aes-aligned"] ++
     match C.aesDec ct with
     | none => ["se-aes-error"]
     | some pt =>
       let dst := src.take 16 ++ pt
       if C.hmacOk ch.policy (dst.take (n - sig)) ((dst.drop (n - sig)).take sig) then
         ["se-hmac-ok"] ++ padArms "se-pad" dst sig (n - sig)
       else ["se-hmac-bad"])

def opnArms (C : Crypto) (ch : Chan) (src : Bytes) (ah : AsymHdr) (start : Nat) : List String :=
  let up := policyOfUri ah.uri.bytes
  let g := if ¬ ch.secured then "opn-on-unsecured" else if up = some ch.policy then "opn-on-secured-same-policy"
           else "opn-on-secured-other-policy"
  [g] ++
  (if ch.secured ∧ up ≠ some ch.policy then [] else
   match up with
   | none => ["opn-uri-unknown"]
   | some .none => ["opn-uri-none"]
   | some p =>
     ["opn-uri-" ++ p.name] ++
     match ah.cert with
     | .null => ["opn-cert-null"]
     | .val cert =>
       match C.x509 cert with
       | none => ["opn-cert-not-x509"]
       | some none => ["opn-cert-no-pubkey"]
       | some (some vk) =>
         match ch.ownCert with
         | none => ["opn-no-own-cert"]
         | some keySize =>
           if !(C.thumbEq ah.thumb.bytes) then ["opn-thumb-mismatch"] else
           match ch.ownKey with
           | none => ["opn-no-own-key"]
           | some k =>
             let enc := src.drop start
             if enc.length % k ≠ 0 then ["opn-rsa-unaligned"] else
             [cmp3 "opn-rsa-blocks" (enc.length / k) 1] ++
             match rsaLoop C p k enc.length enc.length 0 enc [] with
             | .done plain =>
               if start + plain.length < vk then ["opn-sig-underflow"] else
               let sigOff := start + plain.length - vk
               let dst := src.take start ++ plain ++ List.replicate (src.length - start - plain.length) 0
               ["opn-rsa-ok", cmp3 "opn-plain-vs-sig" plain.length vk] ++
               match C.rsaVerify p cert (dst.take sigOff) ((dst.drop sigOff).take vk) with
               | none => ["opn-verify-error"]
               | some false => ["opn-verify-false"]
               | some true => ["opn-verify-true"] ++
                   padArms (if keySize > 256 then "opn-pad2" else "opn-pad1") dst keySize sigOff
             | .fail => ["opn-rsa-reject"]
             | _ => ["opn-rsa-other"])

def modeName : Mode → String
  | .none => "none" | .sign => "sign" | .signEncrypt => "se" | .invalid => "invalid"

def armsOf (C : Crypto) (ch : Chan) (src : Bytes) : List String :=
  let cfg := ["cfg-" ++ ch.policy.name ++ "-" ++ modeName ch.mode]
  match rdHeader src with
  | none =>
    cfg ++ [if src.length < 12 then "hdr-short"
     else if (src.take 3 ≠ [77, 83, 71] ∧ src.take 3 ≠ [79, 80, 78] ∧ src.take 3 ≠ [67, 76, 79]) then "hdr-bad-type"
     else "hdr-bad-final-flag"]
  | some (t, size, rest) =>
    let f := (src.drop 3).headD 0
    let tt := match t with | .msg => "type-msg" | .opn => "type-opn" | .clo => "type-clo"
    let ff := if f = 70 then "flag-F" else if f = 67 then "flag-C" else "flag-A"
    cfg ++ [tt, ff] ++
    match t with
    | .opn =>
      (match rdAsym ch rest with
       | none =>
         -- which of the three fields broke the decoding
         (match rdField ch.maxStr rest with
          | none => fldArm "uri" ch.maxStr rest
          | some (u, r1) =>
            if !(utf8Valid u.bytes.length u.bytes) then ["uri-bad-utf8"] else
            match rdField ch.maxBs r1 with
            | none => fldArm "cert" ch.maxBs r1
            | some (c, r2) =>
              match rdField ch.maxBs r2 with
              | none => fldArm "thumb" ch.maxBs r2
              | some (t, _) =>
                if c.bytes.length ≥ 32767 then ["cert-too-long"]
                else [cmp3 "thumb-len-vs-20" t.bytes.length 20])
       | some (ah, rest') =>
         [cmp3 "size-field" size src.length] ++
         (if size ≠ src.length then [] else
          fldArm "uri" ch.maxStr rest ++ [cmp3 "thumb-len-vs-20" ah.thumb.bytes.length 20] ++
          (if ah.thumb = .null then ["thumb-null"] else []) ++
          opnArms C ch src ah (src.length - rest'.length)))
    | _ =>
      if rest.length < 4 then ["sym-hdr-short"] else
      [cmp3 "size-field" size src.length] ++ (if size ≠ src.length then [] else symArms C ch src)

def defaultChan : Chan :=
  { policy := .none, mode := .none, ownCert := none, ownKey := none, keys := false,
    maxStr := 65535, maxBs := 65535 }

def parseReset? (toks : List String) : Option Chan :=
  match toks with
  | p :: m :: oc :: ok :: k :: _ => do
    let p ← parsePolicy? p
    let m ← parseMode? m
    let oc ← parseOptNat? oc
    let ok ← parseOptNat? ok
    let k ← parseBool? k
    some { defaultChan with policy := p, mode := m, ownCert := oc, ownKey := ok, keys := k }
  | _ => none

def dstepWith (F : Fixes) (ch : Chan) (toks : List String) : Chan × String :=
  match toks with
  | "reset" :: rest =>
    match parseReset? rest with
    | some ch' => (ch', s!"ok p={ch'.policy.name}")
    | none => (ch, "bad-op")
  | ["setmode", m] =>
    match parseMode? m with
    | some m => ({ ch with mode := m }, s!"ok p={ch.policy.name} @@ set-mode-{modeName m}")
    | none => (ch, "bad-op")
  | ["setpolicy", p] =>
    match parsePolicy? p with
    | some p => ({ ch with policy := p }, s!"ok p={p.name} @@ set-policy-{p.name}")
    | none => (ch, "bad-op")
  | ["setlimits", a, b] =>
    match a.toNat?, b.toNat? with
    | some a, some b => ({ ch with maxStr := a, maxBs := b }, s!"ok p={ch.policy.name} @@ set-limits")
    | _, _ => (ch, "bad-op")
  | ["rekey", _] =>
    -- new nonces + derive_keys (renewal): nothing the receive path reads changes but the keys themselves
    if ch.policy = .none then (ch, "bad-op")
    else ({ ch with keys := true }, s!"ok p={ch.policy.name} @@ rekey")
  | ["derive"] =>
    if ch.policy = .none then (ch, "bad-op")
    else ({ ch with keys := true }, s!"ok p={ch.policy.name} @@ derive-keys")
  | ["recv", _, src, cert, thumb, rsa, ver, aes, hm] =>
    match hexToBytes src, parseAnswers? cert thumb rsa ver aes hm with
    | some src, some a =>
      let (ch', o) := recvWith F (oracle a) ch src
      (ch', showOutcome ch' o ++ " @@ " ++ ",".intercalate (armsOf (oracle a) ch src))
    | _, _ => (ch, "bad-op")
  | _ => (ch, "bad-op")

def driver : Driver := { σ := Chan, init := defaultChan, step := dstepWith Fixes.current }

end OpcuaVerif.C09
