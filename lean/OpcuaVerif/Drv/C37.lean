import OpcuaVerif.Common
import OpcuaVerif.Model.C37

namespace OpcuaVerif.C37

def showDur (d : Dur) : String := s!"{d.secs}.{d.nanos}"

def showState (s : Backoff) : String := s!"cur={showDur s.cur} count={s.count}"

def parseDur? (a b : String) : Option Dur :=
  match a.toNat?, b.toNat? with
  | some s, some n => if s < U64 ∧ n < NANOS then some ⟨s, n⟩ else none
  | _, _ => none

def parseLimit? (s : String) : Option (Option Nat) :=
  if s = "-" then some none else
  match s.toNat? with
  | some n => if n < U32 then some (some n) else none
  | none => none

def showOut : Out → String
  | .panic => "panic"
  | .done => "none"
  | .delay d => "some:" ++ showDur d

/-! arm tags (GUIDE "Arm coverage") -/

def tagged (r : String) (arms : List String) : String :=
  if arms.isEmpty then r else r ++ " @@ " ++ ",".intercalate arms

/-- branches and boundaries of one `next()` call in state `s` -/
def nextArms (s : Backoff) : List String :=
  let lim : List String := match s.maxRetries with
    | none => ["next-unlimited"]
    | some m =>
      if m = s.count then ["next-exhausted-eq"]
      else if m < s.count then ["next-exhausted-gt"]
      else if s.count + 1 = m then ["next-limited-last"] else ["next-limited-yield"]
  if exhausted s then lim else
  let d := s.cur
  let total := d.nanos * 2
  let mul : List String :=
    (if total / NANOS = 0 then ["mul-nocarry"] else ["mul-carry"]) ++
    (if d.secs * 2 ≥ U64 then ["mul-secs-overflow"]
     else if d.secs * 2 + total / NANOS ≥ U64 then ["mul-add-overflow"] else ["mul-exact"]) ++
    (if d.secs = 0 ∧ d.nanos = 0 then ["mul-zero"] else [])
  let d2 := d.satMul2
  let m := s.maxSleep
  let cmp : List String :=
    if m.secs < d2.secs then ["min-secs-lt"]        -- max smaller: capped
    else if d2.secs < m.secs then ["min-secs-gt"]   -- double smaller: kept
    else if m.nanos < d2.nanos then ["min-nanos-lt"]
    else if d2.nanos < m.nanos then ["min-nanos-gt"] else ["min-equal"]
  let first : List String :=
    (if s.count = 0 then ["next-first"] else []) ++ (if m.gt d then [] else if d.gt m then ["cur-above-max"] else ["cur-eq-max"])
  lim ++ mul ++ cmp ++ first

def dstep (s : Backoff) (toks : List String) : Backoff × String :=
  match toks with
  | ["reset", "infinity", ms, mn, is, inn] =>
    match parseDur? ms mn, parseDur? is inn with
    | some m, some i =>
      let b := init (policyInfinity m i)
      (b, tagged ("ok " ++ showState b) ["reset-infinity"])
    | _, _ => (s, "bad-op")
  | ["reset", ms, mn, lim, is, inn] =>
    match parseDur? ms mn, parseLimit? lim, parseDur? is inn with
    | some m, some l, some i =>
      let b := init { maxSleep := m, limit := l, initial := i }
      (b, tagged ("ok " ++ showState b)
        ["reset-policy", match l with | none => "limit-none" | some 0 => "limit-0" | some 1 => "limit-1"
                                      | some n => if n + 1 = U32 then "limit-u32max" else "limit-n"])
    | _, _, _ => (s, "bad-op")
  | ["reset", "direct", ms, mn, lim, is, inn] =>
    match parseDur? ms mn, parseLimit? lim, parseDur? is inn with
    | some m, some l, some i =>
      let b := init { maxSleep := m, limit := l, initial := i }
      (b, tagged ("ok " ++ showState b) ["reset-direct"])
    | _, _, _ => (s, "bad-op")
  | ["reset", "default"] => let b := init policyDefault; (b, tagged ("ok " ++ showState b) ["reset-default"])
  | ["reset", "never"] => let b := init policyNever; (b, tagged ("ok " ++ showState b) ["reset-never"])
  | ["connect", "-"] =>
    -- a negative `session_retry_limit` in the client configuration means "no limit": it never gives up
    (s, tagged "ok gaveup=0" ["connect-unlimited"])
  | ["connect", lim] =>
    -- the harness uses 1 ms initial / 4 ms maximum delays; a case may start with this op
    match lim.toNat? with
    | some l =>
      if l < 64 then
        let p : Policy := { maxSleep := Dur.ofMillis 4, limit := some l, initial := Dur.ofMillis 1 }
        match connectAttempts false p (l + 2) (init p) 0 with
        | some n => (s, tagged s!"ok gaveup=1 attempts={n}"
            [if l = 0 then "connect-limit-0" else if l = 1 then "connect-limit-1" else "connect-limit-n"])
        | none => (s, "ok gaveup=0")
      else (s, "bad-op")
    | none => (s, "bad-op")
  | ["next"] =>
    match next s with
    | (.panic, s') => (s', "panic")
    | (o, s') => (s', tagged ("ok " ++ showOut o ++ " " ++ showState s') (nextArms s))
  | ["nextn", k] =>
    match k.toNat? with
    | some k =>
      match nextN .fixed s k 0 .done with
      | none => (s, "panic")
      | some (y, last, s') =>
        (s', tagged (s!"ok yielded={y} last={showOut last} " ++ showState s')
          [if k = 0 then "nextn-zero" else if y = 0 then "nextn-all-none" else if y = k then "nextn-all-yield" else "nextn-crosses-limit"])
    | none => (s, "bad-op")
  | ["setcount", c] =>
    match c.toNat? with
    | some c =>
      if c < U32 then
        let s' := { s with count := c }
        (s', tagged ("ok " ++ showState s')
          [match s.maxRetries with
           | none => "setcount-unlimited"
           | some m => if c < m then (if c + 1 = m then "setcount-one-left" else "setcount-below")
                       else if c = m then "setcount-eq-limit" else "setcount-above"])
      else (s, "bad-op")
    | none => (s, "bad-op")
  | _ => (s, "bad-op")

def driver : Driver :=
  { σ := Backoff, init := init policyDefault, step := dstep }

end OpcuaVerif.C37
