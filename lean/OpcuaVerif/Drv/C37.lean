import OpcuaVerif.Common
import OpcuaVerif.Model.C37

namespace OpcuaVerif.C37

def showDur (d : Dur) : String := s!"{d.secs}.{d.nanos}"

def showState (s : Backoff) : String := s!"cur={showDur s.cur} count={s.count}"

def parseDur? (a b : String) : Option Dur :=
  match a.toNat?, b.toNat? with
  | some s, some n => if s < U64 ∧ n < NANOS then some ⟨s, n⟩ else none
  | _, _ => none

def parseLimit? (s : String) : Option (Option Nat) :=
  if s = "-" then some none else
  match s.toNat? with
  | some n => if n < U32 then some (some n) else none
  | none => none

def showOut : Out → String
  | .panic => "panic"
  | .done => "none"
  | .delay d => "some:" ++ showDur d

def dstep (s : Backoff) (toks : List String) : Backoff × String :=
  match toks with
  | ["reset", "infinity", ms, mn, is, inn] =>
    match parseDur? ms mn, parseDur? is inn with
    | some m, some i =>
      let b := init (policyInfinity m i)
      (b, "ok " ++ showState b)
    | _, _ => (s, "bad-op")
  | ["reset", ms, mn, lim, is, inn] =>
    match parseDur? ms mn, parseLimit? lim, parseDur? is inn with
    | some m, some l, some i =>
      let b := init { maxSleep := m, limit := l, initial := i }
      (b, "ok " ++ showState b)
    | _, _, _ => (s, "bad-op")
  | ["reset", "direct", ms, mn, lim, is, inn] =>
    match parseDur? ms mn, parseLimit? lim, parseDur? is inn with
    | some m, some l, some i =>
      let b := init { maxSleep := m, limit := l, initial := i }
      (b, "ok " ++ showState b)
    | _, _, _ => (s, "bad-op")
  | ["reset", "default"] => let b := init policyDefault; (b, "ok " ++ showState b)
  | ["reset", "never"] => let b := init policyNever; (b, "ok " ++ showState b)
  | ["next"] =>
    match next s with
    | (.panic, s') => (s', "panic")
    | (o, s') => (s', "ok " ++ showOut o ++ " " ++ showState s')
  | ["nextn", k] =>
    match k.toNat? with
    | some k =>
      match nextN .fixed s k 0 .done with
      | none => (s, "panic")
      | some (y, last, s') => (s', s!"ok yielded={y} last={showOut last} " ++ showState s')
    | none => (s, "bad-op")
  | ["setcount", c] =>
    match c.toNat? with
    | some c => if c < U32 then let s' := { s with count := c }; (s', "ok " ++ showState s') else (s, "bad-op")
    | none => (s, "bad-op")
  | _ => (s, "bad-op")

def driver : Driver :=
  { σ := Backoff, init := init policyDefault, step := dstep }

end OpcuaVerif.C37
