import OpcuaVerif.Drv.EncDrv

/-! C01 — driver: the shared codec driver (`Drv/EncDrv.lean`). -/
namespace OpcuaVerif.C01

def driver : OpcuaVerif.Driver := OpcuaVerif.Enc.encDriver

end OpcuaVerif.C01
