import OpcuaVerif.Drv.EncArms

/-! C01 — driver: the shared codec driver (`Drv/EncDrv.lean`) with arm tags (`Drv/EncArms.lean`). -/
namespace OpcuaVerif.C01

def driver : OpcuaVerif.Driver := OpcuaVerif.Enc.encDriverA

end OpcuaVerif.C01
