import OpcuaVerif.Common
import OpcuaVerif.Model.TextIO
import OpcuaVerif.Model.C04

namespace OpcuaVerif.C04
open OpcuaVerif.Text

def identTok? (kind val : String) : Option Ident :=
  match kind with
  | "i" => val.toNat?.map Ident.numeric
  | "s" => (optStrTok? val).map Ident.str
  | "g" => (bytesTok? val).bind fun b => if b.length = 16 then some (Ident.guid b) else none
  | "b" => (optBytesTok? val).map Ident.bytes
  | _ => none

def identOut : Ident → String
  | .numeric n => s!"i:{n}"
  | .str s => "s:" ++ optStrOut s
  | .guid g => "g:" ++ bytesOut g
  | .bytes b => "b:" ++ optBytesOut b

def nodeOut (n : NodeId) : String := s!"{n.ns}:" ++ identOut n.id

def expOut (e : ExpNodeId) : String := s!"{e.svr}|" ++ optStrOut e.uri ++ "|" ++ nodeOut e.node

def dimTok? (t : String) : Option Dim :=
  match t.toList with
  | ['n'] => some .none
  | 'i' :: r => (String.ofList r).toNat?.map Dim.index
  | 'r' :: r =>
    match (String.ofList r).splitOn ":" with
    | [a, b] => match a.toNat?, b.toNat? with
      | some a, some b => some (.range a b)
      | _, _ => none
    | _ => none
  | _ => none

def dimOut : Dim → String
  | .none => "n"
  | .index n => s!"i{n}"
  | .range a b => s!"r{a}:{b}"

def nrTok? (t : String) : Option NR :=
  match t.toList with
  | 'm' :: '[' :: r =>
    let inner := String.ofList r.dropLast
    if inner.isEmpty then some (.multi []) else
    ((inner.splitOn ",").mapM dimTok?).map NR.multi
  | _ => (dimTok? t).map NR.one

def nrOut : NR → String
  | .one d => dimOut d
  | .multi ds => "m[" ++ ",".intercalate (ds.map dimOut) ++ "]"

def resOut {α : Type} (f : α → String) : Res α → String
  | .ok a => "ok " ++ f a
  | .err => "err"
  | .panic => "panic"

/-- print-then-parse line: `ok p=<text> r=<parsed|err>`; a panicking parse is the whole result -/
def rtOut {α : Type} (f : α → String) (p : List Char) (r : Res α) : String :=
  match r with
  | .ok a => "ok p=" ++ strOut p ++ " r=" ++ f a
  | .err => "ok p=" ++ strOut p ++ " r=err"
  | .panic => "panic"

def optRes {α : Type} : Option α → Res α
  | some a => .ok a
  | none => .err

def dtpText (y m d h mi s fl fr : Nat) : List Char :=
  padDec 4 y ++ '-' :: padDec 2 m ++ '-' :: padDec 2 d ++ 'T' :: padDec 2 h ++ ':' :: padDec 2 mi ++
    ':' :: padDec 2 s ++ (if fl = 0 then [] else '.' :: padDec fl fr) ++ "+00:00".toList

def dtOut : Option (Option Int) → String
  | some (some t) => s!"ok {t}"
  | some none => "err"
  | none => "unmodelled"

def dstep0 (s : Unit) (toks : List String) : Unit × String :=
  (s, match toks with
  | ["reset"] => "ok"
  | ["rt", "nodeid", ns, k, v] =>
    match ns.toNat?, identTok? k v with
    | some ns, some i => let n : NodeId := ⟨ns, i⟩; rtOut nodeOut (printNodeId n) (parseNodeId (printNodeId n))
    | _, _ => "bad-op"
  | ["rt", "ident", k, v] =>
    match identTok? k v with
    | some i => rtOut identOut (printIdent i) (identFromStr (printIdent i))
    | none => "bad-op"
  | ["rt", "exp", svr, uri, ns, k, v] =>
    match svr.toNat?, optStrTok? uri, ns.toNat?, identTok? k v with
    | some svr, some uri, some ns, some i =>
      let e : ExpNodeId := ⟨⟨ns, i⟩, uri, svr⟩
      rtOut expOut (printExp e) (parseExp (printExp e))
    | _, _, _, _ => "bad-op"
  | ["rt", "guid", g] =>
    match bytesTok? g with
    | some b => if b.length = 16 then rtOut bytesOut (printGuid b) (optRes (parseGuid (utf8 (printGuid b)))) else "bad-op"
    | none => "bad-op"
  | ["rt", "range", r] =>
    match nrTok? r with
    | some nr => rtOut nrOut (printNR nr) (optRes (parseNR (printNR nr))) ++ " v=" ++ boolStr (isValidNR true nr)
    | none => "bad-op"
  | ["rt", "dt", t] =>
    match t.toNat? with
    | some t =>
      if t ≤ endTicks then
        let p := printDateTime t
        "ok p=" ++ strOut p ++ " r=" ++ (match parsePrinted p with
          | some (some t') => toString t'
          | some none => "err"
          | none => "unmodelled")
      else "bad-op"
    | none => "bad-op"
  | ["parse", "nodeid", s] =>
    match strTok? s with
    | some cs => resOut nodeOut (parseNodeId cs)
    | none => "bad-op"
  | ["parse", "ident", s] =>
    match strTok? s with
    | some cs => resOut identOut (identFromStr cs)
    | none => "bad-op"
  | ["parse", "exp", s] =>
    match strTok? s with
    | some cs => resOut expOut (parseExp cs)
    | none => "bad-op"
  | ["parse", "guid", s] =>
    match strTok? s with
    | some cs => resOut bytesOut (optRes (parseGuid (utf8 cs)))
    | none => "bad-op"
  | ["parse", "range", s] =>
    match strTok? s with
    | some cs => resOut nrOut (optRes (parseNR cs))
    | none => "bad-op"
  | ["parse", "dt", s] =>
    -- chrono's relaxed RFC 3339 parser is not modelled: only "returns without panicking" is compared
    match strTok? s with
    | some _ => "ok"
    | none => "bad-op"
  | ["parse", "dtp", y, m, d, h, mi, s, fl, fr] =>
    match y.toNat?, m.toNat?, d.toNat?, h.toNat?, mi.toNat?, s.toNat?, fl.toNat?, fr.toNat? with
    | some y, some m, some d, some h, some mi, some s, some fl, some fr =>
      if y ≤ 9999 ∧ m ≤ 99 ∧ d ≤ 99 ∧ h ≤ 99 ∧ mi ≤ 99 ∧ s ≤ 99 ∧ fl ≤ 9 ∧ fr < 10 ^ fl then
        let p := dtpText y m d h mi s fl fr
        "ok p=" ++ strOut p ++ " r=" ++ (match parsePrinted p with
          | some (some t') => toString t'
          | some none => "err"
          | none => "unmodelled")
      else "bad-op"
    | _, _, _, _, _, _, _, _ => "bad-op"
  | _ => "bad-op")


/-! ### arm tags: which branch of the modelled code an op takes (boundaries of every comparison separately) -/

/-- `str::parse::<uN>` -/
def armsU (pref : String) (max : Nat) (cs : List Char) : List String :=
  let ds := stripPlus cs
  (if cs.length ≠ ds.length then [pref ++ "-plus"] else []) ++
  (if ds.isEmpty then [pref ++ "-empty"]
   else if !ds.all isDigit then [pref ++ "-nondigit"]
   else if digitsVal ds = max + 1 then [pref ++ "-max+1"]
   else if digitsVal ds > max then [pref ++ "-overflow"]
   else if digitsVal ds = max then [pref ++ "-max"]
   else if digitsVal ds = 0 then [pref ++ "-zero"]
   else [pref ++ "-ok"])

def armsGuid (s : List Nat) : List String :=
  let r := if (parseGuid s).isSome then "-ok" else "-err"
  if s.length = 32 then ["guid-simple" ++ r]
  else if s.length = 36 then
    [(if s[8]? = some 45 ∧ s[13]? = some 45 ∧ s[18]? = some 45 ∧ s[23]? = some 45 then "guid-hyph" ++ r else "guid-hyph-badhyphen")]
  else if s.length = 38 then [(if s.head? = some 123 ∧ s.getLast? = some 125 then "guid-braced" ++ r else "guid-38-nobraces")]
  else if s.length = 45 then [(if s.take 9 = urnPrefix then "guid-urn" ++ r else "guid-45-nourn")]
  else ["guid-badlen"]

def armsB64 (s : List Nat) : List String :=
  match b64Decode s with
  | some _ =>
    if s.isEmpty then ["b64-empty"]
    else if s.reverse.take 2 = [61, 61] then ["b64-pad2"]
    else if s.reverse.take 1 = [61] then ["b64-pad1"]
    else ["b64-pad0"]
  | none =>
    if s.length % 4 ≠ 0 then ["b64-err-len"]
    else if (s.filter (· ≠ 61)).all (fun b => (b64Val b).isSome) then ["b64-err-padding-or-bits"]
    else ["b64-err-symbol"]

def armsIdent (s : List Char) : List String :=
  if utf8Len s < 2 then [if s.isEmpty then "id-empty" else "id-short"]
  else match splitAtByte s 2 with
    | none => ["id-noboundary"]
    | some (k, v) =>
      if k = ['i', '='] then "id-i" :: armsU "u32" 4294967295 v
      else if k = ['s', '='] then [if v.isEmpty then "id-s-empty" else "id-s"]
      else if k = ['g', '='] then "id-g" :: armsGuid (utf8 v)
      else if k = ['b', '='] then "id-b" :: armsB64 (utf8 v)
      else ["id-otherkind"]

def armsNodeId (cs : List Char) : List String :=
  match nodeIdRe true cs with
  | none => ["nid-nomatch"]
  | some (none, t) => "nid-nogroup" :: armsIdent t
  | some (some d, t) =>
    "nid-group" :: armsU "ns" 65535 d ++ (if (parseUnsigned 65535 d).isSome then armsIdent t else [])

def containsSub (pat : List Char) : List Char → Bool
  | [] => pat.isEmpty
  | c :: cs => (stripPrefix? pat (c :: cs)).isSome || containsSub pat cs

def armsExp (cs : List Char) : List String :=
  match expRe true true cs with
  | none => ["exp-nomatch"]
  | some c =>
    let a1 := armsU "svr" 4294967295 c.svr
    let a2 := match c.ns, c.nsu with
      | some d, _ => "exp-ns" :: armsU "ns" 65535 d
      | none, some u => "exp-nsu" :: (if containsSub ['%', '3', 'b'] u then ["exp-nsu-esc3b"] else []) ++
          (if containsSub ['%', '2', '5'] u then ["exp-nsu-esc25"] else [])
      | none, none => ["exp-bare"]
    a1 ++ a2 ++ (if (parseExp cs).isErr then [] else armsIdent c.t)

def armsDimText (s : List Char) : List String :=
  if s.isEmpty then ["nr-part-empty"]
  else match spanP isDigit s with
    | (d1, []) =>
      if d1.length > 10 then ["nr-11digits"] else (if d1.length = 10 then ["nr-10digits"] else []) ++ armsU "idx" 4294967295 d1
    | (d1, ':' :: r) =>
      if d1.length < 1 then ["nr-min-empty"] else if d1.length > 10 then ["nr-11digits"]
      else if r.length < 1 then ["nr-max-empty"] else if r.length > 10 then ["nr-11digits"]
      else if !r.all isDigit then ["nr-max-nondigit"]
      else if digitsVal r > 4294967295 then ["nr-max-overflow"]
      else if digitsVal d1 = digitsVal r then ["nr-min-eq-max"]
      else if digitsVal d1 > digitsVal r then ["nr-min-gt-max"]
      else if digitsVal d1 + 1 = digitsVal r then ["nr-range-adjacent"]
      else ["nr-range-ok"]
    | _ => ["nr-part-garbage"]

def armsRange (s : List Char) : List String :=
  if s.isEmpty then ["nr-empty"]
  else
    let parts := splitOnChar ',' s
    if parts.length = 1 then "nr-one" :: armsDimText (parts.headD [])
    else if parts.length > maxIndices then [if parts.length = maxIndices + 1 then "nr-parts-11" else "nr-parts-many"]
    else (if parts.length = 2 then "nr-parts-2" else if parts.length = maxIndices then "nr-parts-10" else "nr-parts-mid") ::
      (if (parseAll parts).isSome then ["nr-multi-ok"] else ["nr-multi-err"]) ++ armsDimText (parts.headD [])

def armsDtFields (y m d h mi s fl : Nat) : List String :=
  (if m < 1 then ["dt-month-0"] else if m > 12 then ["dt-month-13+"] else
   if d < 1 then ["dt-day-0"] else if d > daysInMonth y m then [if d = daysInMonth y m + 1 then "dt-day-last+1" else "dt-day-big"] else
   if h > 23 then [if h = 24 then "dt-hour-24" else "dt-hour-big"] else
   if mi > 59 then [if mi = 60 then "dt-min-60" else "dt-min-big"] else
   if s > 60 then [if s = 61 then "dt-sec-61" else "dt-sec-big"] else
   (if s = 60 then ["dt-sec-60"] else if s = 59 then ["dt-sec-59"] else []) ++
   (if d = daysInMonth y m then ["dt-day-last"] else []) ++
   (if m = 2 ∧ d = 29 then ["dt-feb29"] else []) ++
   (if h = 23 then ["dt-hour-23"] else []) ++ (if mi = 59 then ["dt-min-59"] else []) ++
   (if y < 1601 then ["dt-before-1601"] else if y = 1601 then ["dt-year-1601"] else if y = 9999 then ["dt-year-9999"] else ["dt-ok"])) ++
  [s!"dt-frac{fl}"]

def armsTicks (t : Nat) : List String :=
  let nanos := t % ticksPerDay % ticksPerSec * 100
  (if nanos = 0 then ["tick-frac0"] else if nanos % 1000000 = 0 then ["tick-frac3"] else if nanos % 1000 = 0 then ["tick-frac6"] else ["tick-frac9"]) ++
  (if t = 0 then ["tick-zero"] else if t = endTicks then ["tick-end"] else []) ++
  (let (y, m, d) := civilFromDays (t / ticksPerDay)
   (if m = 2 ∧ d = 29 then ["tick-feb29"] else []) ++ (if m = 12 ∧ d = 31 then ["tick-dec31"] else []) ++
   (if m = 1 ∧ d = 1 then ["tick-jan1"] else []) ++ (if isLeap y then ["tick-leapyear"] else ["tick-commonyear"]))

def armsIdentVal (i : Ident) : List String :=
  match i with
  | .numeric _ => ["v-i"]
  | .str none => ["v-s-null"]
  | .str (some s) => [if s.isEmpty then "v-s-empty" else if s.contains '\n' then "v-s-newline" else "v-s"]
  | .guid _ => ["v-g"]
  | .bytes none => ["v-b-null"]
  | .bytes (some b) => [if b.isEmpty then "v-b-empty" else s!"v-b-len{b.length % 3}"]

def armsNR (r : NR) : List String :=
  (if isValidNR true r then ["nrv-valid"] else ["nrv-invalid"]) ++
  (match r with
   | .one .none => ["nrv-none"]
   | .one (.index _) => ["nrv-index"]
   | .one (.range a b) => [if a < b then "nrv-range" else if a = b then "nrv-range-eq" else "nrv-range-gt"]
   | .multi ds =>
     [if ds.length = 0 then "nrv-multi-0" else if ds.length = 1 then "nrv-multi-1" else if ds.length = 2 then "nrv-multi-2"
      else if ds.length = 10 then "nrv-multi-10" else if ds.length = 11 then "nrv-multi-11" else if ds.length > 11 then "nrv-multi-many" else "nrv-multi-mid"] ++
     (if ds.any (fun d => d == .none) then ["nrv-multi-has-none"] else []) ++
     (if ds.any (fun d => !dimValid d) then ["nrv-multi-has-bad-range"] else []))

def armsOf (toks : List String) : List String :=
  match toks with
  | ["rt", "nodeid", ns, k, v] =>
    match ns.toNat?, identTok? k v with
    | some ns, some i => (if ns = 0 then "rt-nid-ns0" else if ns = 65535 then "rt-nid-ns-max" else "rt-nid-nsN") :: armsIdentVal i
    | _, _ => []
  | ["rt", "ident", k, v] => (identTok? k v).elim [] (fun i => "rt-ident" :: armsIdentVal i)
  | ["rt", "exp", svr, uri, ns, k, v] =>
    match svr.toNat?, optStrTok? uri, ns.toNat?, identTok? k v with
    | some svr, some uri, some ns, some i =>
      [match uri with
        | none => "rt-exp-nouri"
        | some u => if u.isEmpty then "rt-exp-emptyuri" else if u.contains ';' ∨ u.contains '%' then "rt-exp-uri-escaped" else "rt-exp-uri",
       if ns = 0 then "rt-exp-ns0" else "rt-exp-nsN",
       if svr = 0 then "rt-exp-svr0" else if svr = 4294967295 then "rt-exp-svr-max" else "rt-exp-svrN"] ++ armsIdentVal i
    | _, _, _, _ => []
  | ["rt", "guid", _] => ["rt-guid"]
  | ["rt", "range", r] => (nrTok? r).elim [] armsNR
  | ["rt", "dt", t] => (t.toNat?).elim [] (fun t => if t ≤ endTicks then armsTicks t else [])
  | ["parse", "nodeid", s] => (strTok? s).elim [] armsNodeId
  | ["parse", "ident", s] => (strTok? s).elim [] armsIdent
  | ["parse", "exp", s] => (strTok? s).elim [] armsExp
  | ["parse", "guid", s] => (strTok? s).elim [] (fun cs => armsGuid (utf8 cs))
  | ["parse", "range", s] => (strTok? s).elim [] armsRange
  | ["parse", "dt", _] => ["parse-dt-unmodelled"]
  | ["parse", "dtp", y, m, d, h, mi, s, fl, _] =>
    match y.toNat?, m.toNat?, d.toNat?, h.toNat?, mi.toNat?, s.toNat?, fl.toNat? with
    | some y, some m, some d, some h, some mi, some s, some fl => armsDtFields y m d h mi s fl
    | _, _, _, _, _, _, _ => []
  | _ => []

def dstep (s : Unit) (toks : List String) : Unit × String :=
  let r := (dstep0 s toks).2
  let arms := armsOf toks
  (s, if r = "bad-op" ∨ arms.isEmpty then r else r ++ " @@ " ++ ",".intercalate arms)

def driver : Driver := { σ := Unit, init := (), step := dstep }

end OpcuaVerif.C04
