import OpcuaVerif.Common
import OpcuaVerif.Model.TextIO
import OpcuaVerif.Model.C04

namespace OpcuaVerif.C04
open OpcuaVerif.Text

def identTok? (kind val : String) : Option Ident :=
  match kind with
  | "i" => val.toNat?.map Ident.numeric
  | "s" => (optStrTok? val).map Ident.str
  | "g" => (bytesTok? val).bind fun b => if b.length = 16 then some (Ident.guid b) else none
  | "b" => (optBytesTok? val).map Ident.bytes
  | _ => none

def identOut : Ident → String
  | .numeric n => s!"i:{n}"
  | .str s => "s:" ++ optStrOut s
  | .guid g => "g:" ++ bytesOut g
  | .bytes b => "b:" ++ optBytesOut b

def nodeOut (n : NodeId) : String := s!"{n.ns}:" ++ identOut n.id

def expOut (e : ExpNodeId) : String := s!"{e.svr}|" ++ optStrOut e.uri ++ "|" ++ nodeOut e.node

def dimTok? (t : String) : Option Dim :=
  match t.toList with
  | ['n'] => some .none
  | 'i' :: r => (String.ofList r).toNat?.map Dim.index
  | 'r' :: r =>
    match (String.ofList r).splitOn ":" with
    | [a, b] => match a.toNat?, b.toNat? with
      | some a, some b => some (.range a b)
      | _, _ => none
    | _ => none
  | _ => none

def dimOut : Dim → String
  | .none => "n"
  | .index n => s!"i{n}"
  | .range a b => s!"r{a}:{b}"

def nrTok? (t : String) : Option NR :=
  match t.toList with
  | 'm' :: '[' :: r =>
    let inner := String.ofList r.dropLast
    if inner.isEmpty then some (.multi []) else
    ((inner.splitOn ",").mapM dimTok?).map NR.multi
  | _ => (dimTok? t).map NR.one

def nrOut : NR → String
  | .one d => dimOut d
  | .multi ds => "m[" ++ ",".intercalate (ds.map dimOut) ++ "]"

def resOut {α : Type} (f : α → String) : Res α → String
  | .ok a => "ok " ++ f a
  | .err => "err"
  | .panic => "panic"

/-- print-then-parse line: `ok p=<text> r=<parsed|err>`; a panicking parse is the whole result -/
def rtOut {α : Type} (f : α → String) (p : List Char) (r : Res α) : String :=
  match r with
  | .ok a => "ok p=" ++ strOut p ++ " r=" ++ f a
  | .err => "ok p=" ++ strOut p ++ " r=err"
  | .panic => "panic"

def optRes {α : Type} : Option α → Res α
  | some a => .ok a
  | none => .err

def dtpText (y m d h mi s fl fr : Nat) : List Char :=
  padDec 4 y ++ '-' :: padDec 2 m ++ '-' :: padDec 2 d ++ 'T' :: padDec 2 h ++ ':' :: padDec 2 mi ++
    ':' :: padDec 2 s ++ (if fl = 0 then [] else '.' :: padDec fl fr) ++ "+00:00".toList

def dtOut : Option (Option Int) → String
  | some (some t) => s!"ok {t}"
  | some none => "err"
  | none => "unmodelled"

def dstep (s : Unit) (toks : List String) : Unit × String :=
  (s, match toks with
  | ["reset"] => "ok"
  | ["rt", "nodeid", ns, k, v] =>
    match ns.toNat?, identTok? k v with
    | some ns, some i => let n : NodeId := ⟨ns, i⟩; rtOut nodeOut (printNodeId n) (parseNodeId (printNodeId n))
    | _, _ => "bad-op"
  | ["rt", "ident", k, v] =>
    match identTok? k v with
    | some i => rtOut identOut (printIdent i) (identFromStr (printIdent i))
    | none => "bad-op"
  | ["rt", "exp", svr, uri, ns, k, v] =>
    match svr.toNat?, optStrTok? uri, ns.toNat?, identTok? k v with
    | some svr, some uri, some ns, some i =>
      let e : ExpNodeId := ⟨⟨ns, i⟩, uri, svr⟩
      rtOut expOut (printExp e) (parseExp (printExp e))
    | _, _, _, _ => "bad-op"
  | ["rt", "guid", g] =>
    match bytesTok? g with
    | some b => if b.length = 16 then rtOut bytesOut (printGuid b) (optRes (parseGuid (utf8 (printGuid b)))) else "bad-op"
    | none => "bad-op"
  | ["rt", "range", r] =>
    match nrTok? r with
    | some nr => rtOut nrOut (printNR nr) (optRes (parseNR (printNR nr))) ++ " v=" ++ boolStr (isValidNR true nr)
    | none => "bad-op"
  | ["rt", "dt", t] =>
    match t.toNat? with
    | some t =>
      if t ≤ endTicks then
        let p := printDateTime t
        "ok p=" ++ strOut p ++ " r=" ++ (match parsePrinted p with
          | some (some t') => toString t'
          | some none => "err"
          | none => "unmodelled")
      else "bad-op"
    | none => "bad-op"
  | ["parse", "nodeid", s] =>
    match strTok? s with
    | some cs => resOut nodeOut (parseNodeId cs)
    | none => "bad-op"
  | ["parse", "ident", s] =>
    match strTok? s with
    | some cs => resOut identOut (identFromStr cs)
    | none => "bad-op"
  | ["parse", "exp", s] =>
    match strTok? s with
    | some cs => resOut expOut (parseExp cs)
    | none => "bad-op"
  | ["parse", "guid", s] =>
    match strTok? s with
    | some cs => resOut bytesOut (optRes (parseGuid (utf8 cs)))
    | none => "bad-op"
  | ["parse", "range", s] =>
    match strTok? s with
    | some cs => resOut nrOut (optRes (parseNR cs))
    | none => "bad-op"
  | ["parse", "dt", s] =>
    -- chrono's relaxed RFC 3339 parser is not modelled: only "returns without panicking" is compared
    match strTok? s with
    | some _ => "ok"
    | none => "bad-op"
  | ["parse", "dtp", y, m, d, h, mi, s, fl, fr] =>
    match y.toNat?, m.toNat?, d.toNat?, h.toNat?, mi.toNat?, s.toNat?, fl.toNat?, fr.toNat? with
    | some y, some m, some d, some h, some mi, some s, some fl, some fr =>
      if y ≤ 9999 ∧ m ≤ 99 ∧ d ≤ 99 ∧ h ≤ 99 ∧ mi ≤ 99 ∧ s ≤ 99 ∧ fl ≤ 9 ∧ fr < 10 ^ fl then
        let p := dtpText y m d h mi s fl fr
        "ok p=" ++ strOut p ++ " r=" ++ (match parsePrinted p with
          | some (some t') => toString t'
          | some none => "err"
          | none => "unmodelled")
      else "bad-op"
    | _, _, _, _, _, _, _, _ => "bad-op"
  | _ => "bad-op")

def driver : Driver := { σ := Unit, init := (), step := dstep }

end OpcuaVerif.C04
