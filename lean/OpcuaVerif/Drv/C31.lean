import OpcuaVerif.Common
import OpcuaVerif.Model.C31

namespace OpcuaVerif.C31

structure DState where
  g : Graph
  limit : Nat := 10
  /-- a reference or node has been deleted in this case -/
  deleted : Bool := false

/-- ids: 1..30 nodes (namespace 1), 31..999 namespace-0 numeric ids, ≥ 1000 namespace-1 numeric ids
(custom reference types), 9999 a namespace-0 id that is no reference type -/
def idOk (n : Nat) : Bool := 1 ≤ n && n < 4294967296

def insertSortedNat (d : Nat) : List Nat → List Nat
  | [] => [d]
  | x :: xs => if d ≤ x then d :: x :: xs else x :: insertSortedNat d xs

def sortNat (ds : List Nat) : List Nat := ds.foldr insertSortedNat []

def showStatus : Status → String
  | .good => "Good"
  | .badNodeIdUnknown => "BadNodeIdUnknown"
  | .badNothingToDo => "BadNothingToDo"
  | .badBrowseNameInvalid => "BadBrowseNameInvalid"
  | .badNoMatch => "BadNoMatch"
  | .badTooManyOperations => "BadTooManyOperations"

/-- `ty:inv:sub:name` -/
def parseElem (s : String) : Option Elem :=
  match s.splitOn ":" with
  | [ty, inv, sub, nm] =>
    match ty.toNat?, parseBool? inv, parseBool? sub, nm.toNat? with
    | some ty, some inv, some sub, some nm =>
      if ty < 4294967296 ∧ nm < 100 then some ⟨ty, inv, sub, nm⟩ else none
    | _, _, _, _ => none
  | _ => none

def parseElems (s : String) : Option (List Elem) :=
  match s.toList with
  | '[' :: r =>
    let inner := String.ofList r.dropLast
    if inner.isEmpty then some [] else (inner.splitOn ",").mapM parseElem
  | _ => none

/-! ### arm tags -/

def fltKind (t : Nat) : String :=
  if t = 0 then "null" else if t = 9999 then "nonreftype" else if isStdTy t then "std" else "custom"

/-- smallest search depth at which `reach` finds `t` from `base` (0 = equal), none = unreachable -/
def reachDepth (refs : List (Nat × Nat × Nat)) (base t : Nat) : Option Nat :=
  (List.range (refs.length + 1)).find? fun d => reach refs d base t

def elemTags (g : Graph) (e : Elem) (cur : List Nat) : List String :=
  let flt := filterOf true e
  let cands : List (Nat × Nat × Nat) := cur.flatMap fun n =>
    g.refs.filter fun r => if e.inverse then r.2.2 = n else r.1 = n
  let tyTags := cands.flatMap fun r =>
    match flt with
    | none => ["ty.any"]
    | some (f, sub) =>
      if f = r.2.1 then ["ty.eq"]
      else match reachDepth g.refs f r.2.1 with
        | some d => if sub then [if d ≤ 1 then "ty.sub.d1" else if d = 2 then "ty.sub.d2" else "ty.sub.d3+"] else ["ty.sub-flag-off"]
        | none => ["ty.nomatch"]
  let passing := cands.filter fun r => passes g flt r.2.1
  let tgtTags := passing.flatMap fun r =>
    let t := if e.inverse then r.1 else r.2.2
    match nodeName? g.nodes t with
    | none => ["tgt.not-a-node"]
    | some nm => if nm = e.name then ["tgt.name-eq"] else if nm % 50 = e.name % 50 then ["tgt.name-ns-differs"] else ["tgt.name-differs"]
  let perSource := cur.map fun n => (candidates g flt e.inverse n).filter fun t =>
    match nodeName? g.nodes t with | some nm => e.name = 0 ∨ nm = e.name | none => false
  let dedupHit := perSource.any fun l => (dedup l).length < l.length
  let next := cur.flatMap (followWith true g e)
  [s!"flt.{fltKind e.refType}", if e.inverse then "dir.inv" else "dir.fwd", if e.sub then "sub.1" else "sub.0",
   if cands.isEmpty then "cand.none" else "cand.some",
   if next.isEmpty then "lvl.empty" else if next.length = 1 then "lvl.one" else "lvl.many"] ++
  (if dedupHit then ["dedup.within-source"] else []) ++
  (if (dedup next).length < next.length then ["dup.across-sources"] else []) ++
  (if cur.length > 1 then ["cur.many"] else []) ++ tyTags ++ tgtTags

def walkTags (g : Graph) : List Elem → List Nat → Nat → List String
  | [], _, _ => []
  | e :: es, cur, i =>
    if e.name = 0 then [if i = 0 then "name-null.first" else "name-null.later-reached"]
    else
      let next := cur.flatMap (followWith true g e)
      elemTags g e cur ++
        (if next.isEmpty then
          (if es.isEmpty then [] else ["break.before-last"]) ++
          (if es.any (fun e' => e'.name = 0) then ["name-null.later-unreached"] else [])
         else walkTags g es next (i + 1))

def dedupStr : List String → List String
  | [] => []
  | x :: xs => if xs.contains x then dedupStr xs else x :: dedupStr xs

def trTags (g : Graph) (start : Nat) (es : List Elem) (res : Except Status (List Nat)) : List String :=
  let st := match res with
    | .ok _ => "t.good" | .error .badNodeIdUnknown => "t.nodeunknown" | .error .badNothingToDo => "t.nothingtodo-empty"
    | .error .badBrowseNameInvalid => "t.browsenameinvalid" | .error .badNoMatch => "t.nomatch" | .error .good => "t.good"
    | .error .badTooManyOperations => "t.toomany"
  let len := if es.length = 0 then "len.0" else if es.length = 1 then "len.1" else if es.length = 2 then "len.2"
    else if es.length = 3 then "len.3" else "len.4+"
  dedupStr ([st, len] ++ (if (nodeName? g.nodes start).isSome then walkTags g es [start] 0 else []))

/-- translations over a graph from which something has been deleted -/
def delTags (deleted : Bool) (es : List Elem) : List String :=
  if !deleted then [] else
  (if es.any (·.inverse) then ["after-del.inv"] else []) ++ (if es.any (fun e => !e.inverse) then ["after-del.fwd"] else [])

def withTags (res : String) (tags : List String) : String :=
  if tags.isEmpty then res else res ++ " @@ " ++ ",".intercalate tags

def dstep (s : DState) (toks : List String) : DState × String :=
  match toks with
  | ["reset"] => ({ g := ⟨[], []⟩, limit := 10, deleted := false }, "ok")
  | ["limit", l] =>
    -- operational limit max_nodes_per_translate_browse_paths_to_node_ids (10 after reset)
    match l.toNat? with
    | some l => if l < 4294967296 then ({ s with limit := l }, "ok") else (s, "bad-op")
    | none => (s, "bad-op")
  | ["trn", k, start, es] =>
    -- one request with k copies of the same browse path
    match k.toNat?, start.toNat? with
    | some k, some start =>
      if k > 40 ∨ start ≥ 4294967296 then (s, "bad-op") else
      let es? : Option (Option (List Elem)) := if es = "-" then some none else (parseElems es).map some
      match es? with
      | none => (s, "bad-op")
      | some es =>
        let szTag := if k = 0 then "req.empty" else if k < s.limit then "req.lt-limit" else if k = s.limit then "req.eq-limit" else "req.gt-limit"
        match translateRequest s.limit s.g (List.replicate k (start, es)) with
        | .fault st => (s, s!"err {showStatus st} @@ {szTag}")
        | .results rs =>
          let shown := rs.map fun r => match r with
            | .ok ns => "Good " ++ natList (sortNat ns)
            | .error st => showStatus st
          (s, s!"ok x{k} " ++ (shown.head?.getD "") ++ s!" @@ {szTag}")
    | _, _ => (s, "bad-op")
  | ["node", id, nm] =>
    match id.toNat?, nm.toNat? with
    | some id, some nm =>
      if id = 0 ∨ id > 30 ∨ nm = 0 ∨ nm ≥ 100 then (s, "bad-op") else
      match nodeName? s.g.nodes id with
      | some _ => (s, "ok 0")
      | none => ({ s with g := { s.g with nodes := s.g.nodes ++ [(id, nm)] } }, "ok 1")
    | _, _ => (s, "bad-op")
  | ["ref", a, b, ty] =>
    match a.toNat?, b.toNat?, ty.toNat? with
    | some a, some b, some ty =>
      -- no self references (they panic: C33); HasSubtype edges only upwards in id order (acyclic)
      if !idOk a ∨ !idOk b ∨ !idOk ty ∨ a = b ∨ (ty = hasSubtype ∧ b ≤ a) then (s, "bad-op") else
      if s.g.refs.contains (a, ty, b) then (s, "ok") else
      ({ s with g := { s.g with refs := s.g.refs ++ [(a, ty, b)] } }, "ok")
    | _, _, _ => (s, "bad-op")
  | ["delref", a, b, ty] =>
    match a.toNat?, b.toNat?, ty.toNat? with
    | some a, some b, some ty =>
      if !idOk a ∨ !idOk b ∨ !idOk ty ∨ ty = hasSubtype then (s, "bad-op") else
      let r := deleteRef s.g a ty b
      let others := s.g.refs.any fun e => e.1 = a ∧ e.2.2 = b ∧ e.2.1 ≠ ty
      let back := s.g.refs.any fun e => e.1 = b ∧ e.2.2 = a
      ({ s with g := r.1, deleted := true }, s!"ok {boolStr r.2} @@ " ++ ",".intercalate
        ([if r.2 then "d.ref.hit" else "d.ref.miss"] ++
         (if r.2 then [if others then "d.ref.parallel-remains" else "d.ref.last-of-pair"] else []) ++
         (if r.2 ∧ back then ["d.ref.opposite-exists"] else [])))
    | _, _, _ => (s, "bad-op")
  | ["delnode", id, dtr] =>
    match id.toNat?, parseBool? dtr with
    | some id, some dtr =>
      if id = 0 ∨ id > 30 then (s, "bad-op") else
      let r := deleteNode s.g id dtr
      let ex := (nodeName? s.g.nodes id).isSome
      ({ s with g := r.1, deleted := true }, s!"ok {boolStr r.2} @@ d.node{boolStr dtr}." ++
        (if !ex then "missing" else if (aggChildren s.g id).isEmpty then "leaf" else "parent"))
    | _, _ => (s, "bad-op")
  | ["tr", start, es] =>
    match start.toNat? with
    | some start =>
      if start ≥ 4294967296 then (s, "bad-op") else
      if s.limit = 0 then (s, "err BadTooManyOperations @@ req.gt-limit") else
      if es = "-" then
        -- no elements array at all: the service answers BadNothingToDo without looking at the node
        (s, "ok BadNothingToDo @@ t.nothingtodo-noelems")
      else match parseElems es with
        | some es =>
          (match translate s.g start es with
           | .ok ns => (s, withTags ("ok Good " ++ natList (sortNat ns)) (trTags s.g start es (.ok ns) ++ delTags s.deleted es))
           | .error st => (s, withTags ("ok " ++ showStatus st) (trTags s.g start es (.error st) ++ delTags s.deleted es)))
        | none => (s, "bad-op")
    | none => (s, "bad-op")
  | _ => (s, "bad-op")

def driver : Driver := { σ := DState, init := { g := ⟨[], []⟩ }, step := dstep }

end OpcuaVerif.C31
