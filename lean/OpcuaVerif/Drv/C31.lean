import OpcuaVerif.Common
import OpcuaVerif.Model.C31

namespace OpcuaVerif.C31

structure DState where
  g : Graph

/-- ids: 1..30 nodes (namespace 1), 31..999 namespace-0 numeric ids, ≥ 1000 namespace-1 numeric ids
(custom reference types), 9999 a namespace-0 id that is no reference type -/
def idOk (n : Nat) : Bool := 1 ≤ n && n < 4294967296

def insertSortedNat (d : Nat) : List Nat → List Nat
  | [] => [d]
  | x :: xs => if d ≤ x then d :: x :: xs else x :: insertSortedNat d xs

def sortNat (ds : List Nat) : List Nat := ds.foldr insertSortedNat []

def showStatus : Status → String
  | .good => "Good"
  | .badNodeIdUnknown => "BadNodeIdUnknown"
  | .badNothingToDo => "BadNothingToDo"
  | .badBrowseNameInvalid => "BadBrowseNameInvalid"
  | .badNoMatch => "BadNoMatch"

/-- `ty:inv:sub:name` -/
def parseElem (s : String) : Option Elem :=
  match s.splitOn ":" with
  | [ty, inv, sub, nm] =>
    match ty.toNat?, parseBool? inv, parseBool? sub, nm.toNat? with
    | some ty, some inv, some sub, some nm =>
      if ty < 4294967296 ∧ nm < 100 then some ⟨ty, inv, sub, nm⟩ else none
    | _, _, _, _ => none
  | _ => none

def parseElems (s : String) : Option (List Elem) :=
  match s.toList with
  | '[' :: r =>
    let inner := String.ofList r.dropLast
    if inner.isEmpty then some [] else (inner.splitOn ",").mapM parseElem
  | _ => none

def dstep (s : DState) (toks : List String) : DState × String :=
  match toks with
  | ["reset"] => ({ g := ⟨[], []⟩ }, "ok")
  | ["node", id, nm] =>
    match id.toNat?, nm.toNat? with
    | some id, some nm =>
      if id = 0 ∨ id > 30 ∨ nm = 0 ∨ nm ≥ 100 then (s, "bad-op") else
      match nodeName? s.g.nodes id with
      | some _ => (s, "ok 0")
      | none => ({ g := { s.g with nodes := s.g.nodes ++ [(id, nm)] } }, "ok 1")
    | _, _ => (s, "bad-op")
  | ["ref", a, b, ty] =>
    match a.toNat?, b.toNat?, ty.toNat? with
    | some a, some b, some ty =>
      -- no self references (they panic: C33); HasSubtype edges only upwards in id order (acyclic)
      if !idOk a ∨ !idOk b ∨ !idOk ty ∨ a = b ∨ (ty = hasSubtype ∧ b ≤ a) then (s, "bad-op") else
      if s.g.refs.contains (a, ty, b) then (s, "ok") else
      ({ g := { s.g with refs := s.g.refs ++ [(a, ty, b)] } }, "ok")
    | _, _, _ => (s, "bad-op")
  | ["tr", start, es] =>
    match start.toNat? with
    | some start =>
      if start ≥ 4294967296 then (s, "bad-op") else
      if es = "-" then
        -- no elements array at all: the service answers BadNothingToDo without looking at the node
        (s, "ok BadNothingToDo")
      else match parseElems es with
        | some es =>
          (match translate s.g start es with
           | .ok ns => (s, "ok Good " ++ natList (sortNat ns))
           | .error st => (s, "ok " ++ showStatus st))
        | none => (s, "bad-op")
    | none => (s, "bad-op")
  | _ => (s, "bad-op")

def driver : Driver := { σ := DState, init := { g := ⟨[], []⟩ }, step := dstep }

end OpcuaVerif.C31
