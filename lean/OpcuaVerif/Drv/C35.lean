import OpcuaVerif.Common
import OpcuaVerif.Model.C35

namespace OpcuaVerif.C35

def insertDone (x : Nat × Res) : Done → Done
  | [] => [x]
  | y :: ys => if x.1 < y.1 then x :: y :: ys else y :: insertDone x ys

def sortDone : Done → Done
  | [] => []
  | x :: xs => insertDone x (sortDone xs)

def showRes : Res → String
  | .response m pl => s!"r{m}/" ++ ".".intercalate (pl.map fun (a, b) => toString a ++ "-" ++ toString b)
  | .err st => s!"e{st}"
  | .queuedNoResponse => "q"

def showDone (d : Done) : String :=
  "[" ++ ",".intercalate ((sortDone d).map fun (q, r) => toString q ++ ":" ++ showRes r) ++ "]"

def insertPend (x : Pend) : List Pend → List Pend
  | [] => [x]
  | y :: ys => if x.rid < y.rid then x :: y :: ys else y :: insertPend x ys

def sortPend : List Pend → List Pend
  | [] => []
  | x :: xs => insertPend x (sortPend xs)

def showState (s : State) (d : Done) : String :=
  let ps := (sortPend s.pending).map fun p => toString p.rid ++ ":" ++ toString p.chunks.length
  s!"done={showDone d} pend=[{",".intercalate ps}] seq={s.lastSeq}"

def parseKind? (s : String) : Option Kind :=
  if s = "C" then some .inter else if s = "F" then some .final else if s = "A" then some .abort else none

def dstep (s : State) (toks : List String) : State × String :=
  match toks with
  | ["reset", mi, mp] =>
    match mi.toNat?, mp.toNat? with
    | some mi, some mp => let s' := init mi mp; (s', "ok " ++ showState s' [])
    | _, _ => (s, "bad-op")
  | ["submit", late] =>
    match parseBool? late with
    | some l => let (s', d) := submit s l; (s', "ok " ++ showState s' d)
    | none => (s, "bad-op")
  | ["pump"] =>
    let (s', d, o) := pump s
    let t := match o with
      | .sent rid => s!"sent {rid}"
      | .none => "none"
      | .idle => "idle"
      | .full => "full"
    (s', s!"ok {t} " ++ showState s' d)
  | ["submitnr", late] =>
    match parseBool? late with
    | some l => let (s', d) := submitNoResponse s l; (s', "ok " ++ showState s' d)
    | none => (s, "bad-op")
  | ["sweep"] =>
    let (s', d) := sweep s
    let nx := match nextTimeout s' with
      | some k => toString k
      | none => "-"
    (s', s!"ok next={nx} " ++ showState s' d)
  | ["deadline", rid, k] =>
    match rid.toNat?, parseInt? k with
    | some rid, some k => let (s', b) := setDeadline s rid k; (s', s!"ok {boolStr b}")
    | _, _ => (s, "bad-op")
  | ["chunk", rid, seq, kind, msg, idx, total] =>
    match rid.toNat?, seq.toNat?, parseKind? kind, msg.toNat?, idx.toNat?, total.toNat? with
    | some rid, some seq, some k, some m, some i, some t =>
      if i < t then
        let (s', d, o) := chunk s ⟨rid, seq, k, m, i, t⟩
        (s', (if o = .ok then "ok " else "err ") ++ showState s' d)
      else (s, "bad-op")
    | _, _, _, _, _, _ => (s, "bad-op")
  | ["errmsg", "ack"] => (s, "err " ++ showState s [])
  | ["errmsg", "hello"] => (s, "err " ++ showState s [])
  | ["errmsg", code] =>
    -- `StatusCode::from_u32(code)`: a good status is not an error, anything else is
    match code.toNat? with
    | some c => (s, (if c / 0x40000000 = 0 then "ok " else "err ") ++ showState s [])
    | none => (s, "bad-op")
  | ["close", st] =>
    match st.toNat? with
    | some st => let (s', d) := close s st; (s', "ok " ++ showState s' d)
    | none => (s, "bad-op")
  | _ => (s, "bad-op")

def driver : Driver := { σ := State, init := init 4 5, step := dstep }

end OpcuaVerif.C35
