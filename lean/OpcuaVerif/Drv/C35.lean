import OpcuaVerif.Common
import OpcuaVerif.Model.C35

namespace OpcuaVerif.C35

def insertDone (x : Nat × Res) : Done → Done
  | [] => [x]
  | y :: ys => if x.1 < y.1 then x :: y :: ys else y :: insertDone x ys

def sortDone : Done → Done
  | [] => []
  | x :: xs => insertDone x (sortDone xs)

def showRes : Res → String
  | .response m pl => s!"r{m}/" ++ ".".intercalate (pl.map fun (a, b) => toString a ++ "-" ++ toString b)
  | .err st => s!"e{st}"
  | .queuedNoResponse => "q"

def showDone (d : Done) : String :=
  "[" ++ ",".intercalate ((sortDone d).map fun (q, r) => toString q ++ ":" ++ showRes r) ++ "]"

def insertPend (x : Pend) : List Pend → List Pend
  | [] => [x]
  | y :: ys => if x.rid < y.rid then x :: y :: ys else y :: insertPend x ys

def sortPend : List Pend → List Pend
  | [] => []
  | x :: xs => insertPend x (sortPend xs)

def showState (s : State) (d : Done) : String :=
  let ps := (sortPend s.pending).map fun p => toString p.rid ++ ":" ++ toString p.chunks.length
  s!"done={showDone d} pend=[{",".intercalate ps}] seq={s.lastSeq}"

def parseKind? (s : String) : Option Kind :=
  if s = "C" then some .inter else if s = "F" then some .final else if s = "A" then some .abort else none

/-! arm tags: which branch / boundary of the model an op exercised (GUIDE "Arm coverage") -/

def tagged (r : String) (arms : List String) : String :=
  if arms.isEmpty then r else r ++ " @@ " ++ ",".intercalate arms

def sweepArms (pre : State) : List String :=
  let ex := pre.pending.filter (fun p => p.expired)
  let rest := pre.pending.filter (fun p => !p.expired)
  [if ex.isEmpty then "sweep-expired-none" else if ex.length = 1 then "sweep-expired-one" else "sweep-expired-many"]
  ++ (if ex.any (fun p => p.deadline == 0) then ["sweep-deadline-zero"] else [])
  ++ (if ex.any (fun p => p.deadline < 0) then ["sweep-deadline-neg"] else [])
  ++ (match minDeadline rest with
      | none => ["sweep-next-none"]
      | some m => if (rest.filter (fun p => p.deadline == m)).length > 1 then ["sweep-next-tie"] else ["sweep-next-some"])

def pumpArms (pre : State) : List String :=
  let s1 := (sweep pre).1
  let n := s1.pending.length
  (if (sweep pre).2.isEmpty then ["pump-no-timeouts"] else ["pump-timeouts"]) ++
  (if s1.maxInflight = 0 then ["pump-gate-zero"] else []) ++
  (if s1.maxInflight > n then
    (if n + 1 = s1.maxInflight then ["pump-gate-open-last"] else ["pump-gate-open"]) ++
    (match s1.queue with
     | q :: _ =>
       (match q.req with
        | some _ => if q.late then ["pump-sent-callback-late"] else ["pump-sent-callback-ontime"]
        | none => ["pump-sent-nocallback"])
     | [] => if s1.closed then ["pump-none-closed"] else ["pump-idle"])
   else
    (if n = s1.maxInflight then ["pump-gate-full-eq"] else ["pump-gate-full-gt"]) ++
    (if s1.queue.isEmpty then ["pump-full-empty"] else ["pump-full-queued"]))

def chunkArms (pre : State) (c : Chunk) : List String :=
  match findRid pre.pending c.rid with
  | none => ["chunk-unknown"]
  | some p =>
    (if p.expired then ["chunk-known-expired"] else []) ++
    (match c.kind with
    | .inter =>
      let n := p.chunks.length + 1
      if pre.maxPending = 0 then ["chunk-inter-unlimited"]
      else if n > pre.maxPending then ["chunk-inter-over-limit"]
      else if n = pre.maxPending then ["chunk-inter-at-limit"] else ["chunk-inter-below-limit"]
    | .abort => if p.chunks.isEmpty then ["chunk-abort"] else ["chunk-abort-with-stored"]
    | .final =>
      let all := p.chunks ++ [c]
      let merged := mergeChunks all
      (if all.length = 1 then ["chunk-final-single"] else ["chunk-final-multi"]) ++
      (if merged.length < all.length then ["chunk-final-dropped"] else []) ++
      (if all.length > 1 ∧ sortBySeq all ≠ all then ["chunk-final-reordered"] else []) ++
      (match merged with
       | [] => []
       | f :: _ =>
         if f.seq < pre.lastSeq + 1 then ["chunk-seq-replay"]
         else
          (if f.seq = pre.lastSeq + 1 then ["chunk-seq-next"] else ["chunk-seq-gap"]) ++
          (match decodeMerged merged with
           | some _ => if f.total < merged.length then ["chunk-decode-ok-extra"] else ["chunk-decode-ok"]
           | none =>
             if !kindsOk merged then ["chunk-decode-kinds"]
             else if f.idx != 0 then ["chunk-decode-notfirst"] else ["chunk-decode-short"])))

def closeArms (pre : State) (st : Nat) : List String :=
  [if st / 0x40000000 = 0 then "close-good" else if st / 0x80000000 = 0 then "close-uncertain" else "close-bad"] ++
  (if pre.closed then ["close-again"] else []) ++
  (if pre.pending.isEmpty ∧ pre.queue.isEmpty then ["close-empty"] else []) ++
  (if !pre.pending.isEmpty then ["close-pending"] else []) ++
  (if pre.queue.any (fun q => q.req.isSome) then ["close-queued"] else []) ++
  (if pre.queue.any (fun q => q.req.isNone) then ["close-queued-nr"] else [])

def wakeArms (pre : State) : List String :=
  let (s1, d1) := sweep pre
  (if d1.isEmpty then [] else ["wake-presweep"]) ++
  (match nextTimeout s1 with
   | none => ["wake-none"]
   | some t =>
     let due := s1.pending.filter (fun p => p.deadline == t)
     (if due.length > 1 then ["wake-tie"] else ["wake-one"]) ++
     (if s1.pending.length > due.length then ["wake-others-remain"] else ["wake-all-due"]))

def dstep (s : State) (toks : List String) : State × String :=
  match toks with
  | ["reset", mi, mp] =>
    match mi.toNat?, mp.toNat? with
    | some mi, some mp => let s' := init mi mp; (s', "ok " ++ showState s' [])
    | _, _ => (s, "bad-op")
  | ["submit", late] =>
    match parseBool? late with
    | some l =>
      let (s', d) := submit s l
      (s', tagged ("ok " ++ showState s' d)
        [if s.closed then "submit-closed" else if l then "submit-open-late" else "submit-open-ontime"])
    | none => (s, "bad-op")
  | ["pump"] =>
    let (s', d, o) := pump s
    let t := match o with
      | .sent rid => s!"sent {rid}"
      | .none => "none"
      | .idle => "idle"
      | .full => "full"
    (s', tagged (s!"ok {t} " ++ showState s' d) (pumpArms s))
  | ["submitnr", late] =>
    match parseBool? late with
    | some l =>
      let (s', d) := submitNoResponse s l
      (s', tagged ("ok " ++ showState s' d) [if s.closed then "submitnr-closed" else "submitnr-open"])
    | none => (s, "bad-op")
  | ["sweep"] =>
    let (s', d) := sweep s
    let nx := match nextTimeout s' with
      | some k => toString k
      | none => "-"
    (s', tagged (s!"ok next={nx} " ++ showState s' d) (sweepArms s))
  | ["wake"] =>
    let (s', d, t) := wake s
    let nx := match t with
      | some k => toString k
      | none => "-"
    (s', tagged (s!"ok at={nx} " ++ showState s' d) (wakeArms s))
  | ["deadline", rid, k] =>
    match rid.toNat?, parseInt? k with
    | some rid, some k =>
      let (s', b) := setDeadline s rid k
      (s', tagged s!"ok {boolStr b}"
        [if !b then "deadline-unknown" else if k < 0 then "deadline-past" else if k = 0 then "deadline-now" else "deadline-future"])
    | _, _ => (s, "bad-op")
  | "chunk" :: rid :: seq :: kind :: msg :: idx :: total :: rest =>
    -- optional 8th token: the chunk's message type (MSG / OPN / CLO) — irrelevant to `process_chunk`
    let mt : Option String := match rest with
      | [] => some "M"
      | [t] => if t = "M" ∨ t = "O" ∨ t = "C" then some t else none
      | _ => none
    match rid.toNat?, seq.toNat?, parseKind? kind, msg.toNat?, idx.toNat?, total.toNat?, mt with
    | some rid, some seq, some k, some m, some i, some t, some mt =>
      if i < t then
        let c : Chunk := ⟨rid, seq, k, m, i, t⟩
        let (s', d, o) := chunk s c
        (s', tagged ((if o = .ok then "ok " else "err ") ++ showState s' d) (("chunk-type-" ++ mt) :: chunkArms s c))
      else (s, "bad-op")
    | _, _, _, _, _, _, _ => (s, "bad-op")
  | ["errmsg", "ack"] => (s, tagged ("err " ++ showState s []) ["errmsg-ack"])
  | ["errmsg", "hello"] => (s, tagged ("err " ++ showState s []) ["errmsg-hello"])
  | ["errmsg", code] =>
    -- `StatusCode::from_u32(code)`: a good status is not an error, anything else is
    match code.toNat? with
    | some c =>
      (s, tagged ((if c / 0x40000000 = 0 then "ok " else "err ") ++ showState s [])
        [if c / 0x40000000 = 0 then "errmsg-good" else "errmsg-bad"])
    | none => (s, "bad-op")
  | ["close", st] =>
    match st.toNat? with
    | some st => let (s', d) := close s st; (s', tagged ("ok " ++ showState s' d) (closeArms s st))
    | none => (s, "bad-op")
  | _ => (s, "bad-op")

def driver : Driver := { σ := State, init := init 4 5, step := dstep }

end OpcuaVerif.C35
