import OpcuaVerif.Common
import OpcuaVerif.Model.C18

namespace OpcuaVerif.C18

def parsePolicy? (s : String) : Option Policy :=
  if s = "none" then some .none
  else if s = "basic128rsa15" then some .basic128Rsa15
  else if s = "basic256" then some .basic256
  else if s = "basic256sha256" then some .basic256Sha256
  else if s = "aes128sha256rsaoaep" then some .aes128Sha256RsaOaep
  else if s = "aes256sha256rsapss" then some .aes256Sha256RsaPss
  else if s = "unknown" then some .unknown
  else Option.none

def statusName : Status → String
  | .good => "Good"
  | .badUnexpectedError => "BadUnexpectedError"
  | .badSecurityChecksFailed => "BadSecurityChecksFailed"
  | .badCertificateUntrusted => "BadCertificateUntrusted"
  | .badCertificateTimeInvalid => "BadCertificateTimeInvalid"
  | .badCertificateHostNameInvalid => "BadCertificateHostNameInvalid"
  | .badCertificateUriInvalid => "BadCertificateUriInvalid"

def trustedOf? (n : Nat) : Option TrustedFile :=
  match n with | 0 => some .absent | 1 => some .same | 2 => some .different | 3 => some .garbage | _ => Option.none
def timeOf? (n : Nat) : Option TimeV :=
  match n with | 0 => some .valid | 1 => some .notYet | 2 => some .expired | _ => Option.none
def hostOf? (n : Nat) : Option HostV :=
  match n with | 0 => some .notGiven | 1 => some .ok | 2 => some .mismatch | 3 => some .mismatch | _ => Option.none
def uriOf? (n : Nat) : Option UriV :=
  match n with | 0 => some .notGiven | 1 => some .ok | 2 => some .mismatch | _ => Option.none

def dstep (s : Unit) (toks : List String) : Unit × String :=
  match toks with
  | ["reset"] => (s, "ok")
  | ["val", tu, sv, ct, rd, ir, td, tf, pol, bits, tm, ho, ur] =>
    match parseBool? tu, parseBool? sv, parseBool? ct, parseBool? rd, parseBool? ir, parseBool? td with
    | some tu, some sv, some ct, some rd, some ir, some td =>
      match tf.toNat?.bind trustedOf?, parsePolicy? pol, bits.toNat?, tm.toNat?.bind timeOf?,
            ho.toNat?.bind hostOf?, ur.toNat?.bind uriOf? with
      | some tf, some pol, some bits, some tm, some ho, some ur =>
        -- a file cannot be in a directory that does not exist
        if (ir && !rd) || (tf != .absent && !td) then (s, "bad-op") else
        let row : Row := ⟨tu, sv, ct, rd, ir, td, tf, keyCheck pol bits, tm, ho, ur⟩
        let res := validateOrReject row
        match res.status with
        | Option.none => (s, "panic")
        | some st =>
          let rej := ir || res.storedRejected
          let tr := (tf != .absent) || res.storedTrusted
          (s, s!"ok {statusName st} rej={boolStr rej} tr={boolStr tr}")
      | _, _, _, _, _, _ => (s, "bad-op")
    | _, _, _, _, _, _ => (s, "bad-op")
  | _ => (s, "bad-op")

def driver : Driver := { σ := Unit, init := (), step := dstep }

end OpcuaVerif.C18
