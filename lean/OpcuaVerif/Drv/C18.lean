import OpcuaVerif.Common
import OpcuaVerif.Model.C18

namespace OpcuaVerif.C18

def parsePolicy? (s : String) : Option Policy :=
  if s = "none" then some .none
  else if s = "basic128rsa15" then some .basic128Rsa15
  else if s = "basic256" then some .basic256
  else if s = "basic256sha256" then some .basic256Sha256
  else if s = "aes128sha256rsaoaep" then some .aes128Sha256RsaOaep
  else if s = "aes256sha256rsapss" then some .aes256Sha256RsaPss
  else if s = "unknown" then some .unknown
  else Option.none

def statusName : Status → String
  | .good => "Good"
  | .badUnexpectedError => "BadUnexpectedError"
  | .badSecurityChecksFailed => "BadSecurityChecksFailed"
  | .badCertificateUntrusted => "BadCertificateUntrusted"
  | .badCertificateTimeInvalid => "BadCertificateTimeInvalid"
  | .badCertificateHostNameInvalid => "BadCertificateHostNameInvalid"
  | .badCertificateUriInvalid => "BadCertificateUriInvalid"

def trustedOf? (n : Nat) : Option TrustedFile :=
  match n with | 0 => some .absent | 1 => some .same | 2 => some .different | 3 => some .garbage | _ => Option.none
def timeOf? (n : Nat) : Option TimeV :=
  match n with | 0 => some .valid | 1 => some .notYet | 2 => some .expired | _ => Option.none
def hostOf? (n : Nat) : Option HostV :=
  match n with | 0 => some .notGiven | 1 => some .ok | 2 => some .mismatch | 3 => some .mismatch | _ => Option.none
def uriOf? (n : Nat) : Option UriV :=
  match n with | 0 => some .notGiven | 1 => some .ok | 2 => some .mismatch | _ => Option.none

/-- which exit of `validate` a row takes, the value of every input at the point where it matters,
and the key length against the policy's range (boundaries) -/
def rowArms (r : Row) (pol : Policy) (bits : Nat) (ho : Nat) : List String :=
  let keyArm := match pol.minMax? with
    | Option.none => "key-no-range"
    | some (lo, hi) =>
      if bits < lo then "key-below-min" else if bits = lo then "key-eq-min"
      else if bits = hi then "key-eq-max" else if bits > hi then "key-above-max" else "key-inside"
  let polArm := "pol-" ++ (match pol with
    | .none => "none" | .basic128Rsa15 => "basic128rsa15" | .basic256 => "basic256"
    | .basic256Sha256 => "basic256sha256" | .aes128Sha256RsaOaep => "aes128sha256rsaoaep"
    | .aes256Sha256RsaPss => "aes256sha256rsapss" | .unknown => "unknown") ++ "-" ++ toString bits
  if !r.rejDir then ["exit-rejected-dir-missing"]
  else if r.inRej then ["exit-in-rejected", if r.trustUnknown then "in-rejected-trust-unknown" else "in-rejected-no-trust"]
  else if !r.trDir then ["exit-trusted-dir-missing"]
  else if r.trusted = .absent ∧ !r.trustUnknown then ["exit-unknown-untrusted"]
  else
    let tr := match r.trusted with
      | .absent => "trusted-stored-now" | .same => "trusted-same"
      | .different => "trusted-other-cert" | .garbage => "trusted-garbage"
    if r.trusted = .different ∨ r.trusted = .garbage then
      ["exit-file-mismatch", tr, if r.trustUnknown then "mismatch-trust-unknown" else "mismatch-no-trust"]
    else
      match r.key with
      | .panics => ["exit-key-panic", tr, keyArm, polArm]
      | .invalid => ["exit-key-invalid", tr, keyArm, polArm]
      | .valid =>
        let base := [tr, keyArm, polArm]
        if r.skipVerify then
          base ++ ["exit-skip-verify"] ++
            (if r.time ≠ .valid then ["skip-hides-bad-time"] else []) ++
            (if r.host = .mismatch then ["skip-hides-bad-host"] else []) ++
            (if r.uri = .mismatch then ["skip-hides-bad-uri"] else [])
        else
          let tArm := match r.checkTime, r.time with
            | true, .valid => "time-checked-valid" | true, .notYet => "time-checked-not-yet"
            | true, .expired => "time-checked-expired" | false, .valid => "time-unchecked-valid"
            | false, .notYet => "time-unchecked-not-yet" | false, .expired => "time-unchecked-expired"
          if r.checkTime ∧ r.time ≠ .valid then base ++ ["exit-time-invalid", tArm]
          else
            let hArm := match ho with
              | 0 => "host-not-given" | 1 => "host-match" | 2 => "host-other" | _ => "host-empty"
            if r.host = .mismatch then base ++ ["exit-host-invalid", tArm, hArm]
            else
              let uArm := match r.uri with
                | .notGiven => "uri-not-given" | .ok => "uri-match" | .mismatch => "uri-other"
              if r.uri = .mismatch then base ++ ["exit-uri-invalid", tArm, hArm, uArm]
              else base ++ ["exit-good", tArm, hArm, uArm]

/-- parse the 12 row fields → (row, policy, bits, host code, trusted file) -/
def parseRow? (f : List String) : Option (Row × Policy × Nat × Nat × TrustedFile) :=
  match f with
  | [tu, sv, ct, rd, ir, td, tf, pol, bits, tm, ho, ur] =>
    match parseBool? tu, parseBool? sv, parseBool? ct, parseBool? rd, parseBool? ir, parseBool? td with
    | some tu, some sv, some ct, some rd, some ir, some td =>
      match tf.toNat?.bind trustedOf?, parsePolicy? pol, bits.toNat?, tm.toNat?.bind timeOf?,
            ho.toNat?.bind hostOf?, ur.toNat?.bind uriOf? with
      | some tf, some pol, some bits, some tm, some hov, some ur =>
        -- a file cannot be in a directory that does not exist
        if (ir && !rd) || (tf != .absent && !td) then Option.none
        else some (⟨tu, sv, ct, rd, ir, td, tf, keyCheck pol bits, tm, hov, ur⟩, pol, bits, ho.toNat?.getD 0, tf)
      | _, _, _, _, _, _ => Option.none
    | _, _, _, _, _, _ => Option.none
  | _ => Option.none

def showRes (row : Row) (res : Res) (tf : TrustedFile) (arms : List String) : String :=
  let a := " @@ " ++ ",".intercalate arms
  match res.status with
  | Option.none => "panic" ++ a
  | some st =>
    let rej := row.inRej || res.storedRejected
    let tr := (tf != .absent) || res.storedTrusted
    s!"ok {statusName st} rej={boolStr rej} tr={boolStr tr}" ++ a

/-- a long-lived store of the current case (`store` op), with the certificate it is asked about -/
structure DState where
  live : Option Live := Option.none
  bits : Nat := 2048
  time : TimeV := .valid

def flagsArm (f : Flags) : String :=
  "flags-tu" ++ boolStr f.trustUnknown ++ "sv" ++ boolStr f.skipVerify ++ "ct" ++ boolStr f.checkTime

def dstep (s : DState) (toks : List String) : DState × String :=
  match toks with
  | ["reset"] => ({}, "ok")
  | ["val", tu, sv, ct, rd, ir, td, tf, pol, bits, tm, ho, ur] =>
    match parseRow? [tu, sv, ct, rd, ir, td, tf, pol, bits, tm, ho, ur] with
    | some (row, pol, bits, hoN, tf) =>
      let a := rowArms row pol bits hoN
      (s, showRes row (validateOrReject row) tf ("val" :: ("val+" ++ (a.find? (·.startsWith "exit-")).getD "") :: a))
    | Option.none => (s, "bad-op")
  | ["vonly", tu, sv, ct, rd, ir, td, tf, pol, bits, tm, ho, ur] =>
    -- `validate_application_instance_cert` itself (no store-in-rejected step)
    match parseRow? [tu, sv, ct, rd, ir, td, tf, pol, bits, tm, ho, ur] with
    | some (row, pol, bits, hoN, tf) =>
      let a := rowArms row pol bits hoN
      (s, showRes row (validate row) tf ("vonly" :: ("vonly+" ++ (a.find? (·.startsWith "exit-")).getD "") :: a))
    | Option.none => (s, "bad-op")
  | ["val2", tu, sv, ct, rd, ir, td, tf, pol, bits, tm, ho, ur, tu2, sv2, ct2] =>
    -- the same store asked twice about the same certificate, flags changed in between
    match parseRow? [tu, sv, ct, rd, ir, td, tf, pol, bits, tm, ho, ur], parseBool? tu2, parseBool? sv2, parseBool? ct2 with
    | some (row, pol, bits, hoN, tf), some tu2, some sv2, some ct2 =>
      let r1 := validateOrReject row
      match r1.status with
      | Option.none => (s, "panic @@ val2-first-panics")
      | some st1 =>
        let row2 : Row := { row with trustUnknown := tu2, skipVerify := sv2, checkTime := ct2,
                                     inRej := row.inRej || r1.storedRejected,
                                     trusted := if r1.storedTrusted then .same else row.trusted }
        let r2 := validateOrReject row2
        let tf2 := row2.trusted
        let flagArm := "val2-flags-" ++ (if tu2 = row.trustUnknown ∧ sv2 = row.skipVerify ∧ ct2 = row.checkTime then "same" else "changed")
        let seqArm := "val2-" ++ statusName st1 ++ "-then-" ++ (match r2.status with | some st2 => statusName st2 | Option.none => "panic")
        let extra := (if r1.storedRejected then ["val2-after-stored-rejected"] else []) ++
                     (if r1.storedTrusted then ["val2-after-stored-trusted"] else [])
        let res := showRes row2 r2 tf2 ([flagArm, seqArm] ++ extra)
        if r2.status.isNone then (s, res) else (s, "ok " ++ statusName st1 ++ " then " ++ res)
    | _, _, _, _ => (s, "bad-op")
  | ["store", rd, ir, td, tf, bits, tm] =>
    -- a fresh `CertificateStore::new` (default flags) over a directory in the given state
    match parseBool? rd, parseBool? ir, parseBool? td, tf.toNat?.bind trustedOf?, bits.toNat?, tm.toNat?.bind timeOf? with
    | some rd, some ir, some td, some tf, some bits, some tm =>
      if (ir && !rd) || (tf != .absent && !td) then (s, "bad-op") else
      ({ live := some ⟨Flags.new, rd, ir, td, tf⟩, bits := bits, time := tm }, "ok @@ store")
    | _, _, _, _, _, _ => (s, "bad-op")
  | [setter, b] =>
    match s.live, parseBool? b with
    | some l, some b =>
      let f? : Option Flags :=
        if setter = "setskip" then some (l.flags.setSkip b)
        else if setter = "settime" then some (l.flags.setTime b)
        else if setter = "settrust" then some (l.flags.setTrust b)
        else Option.none
      match f? with
      | some f =>
        let arm := setter ++ "-" ++ boolStr b ++ (if f = l.flags then "-unchanged" else "-changes")
        ({ s with live := some { l with flags := f } }, "ok @@ " ++ arm)
      | Option.none => (s, "bad-op")
    | _, _ => (s, "bad-op")
  | ["check", pol, ho, ur] =>
    match s.live, parsePolicy? pol, ho.toNat?.bind hostOf?, ur.toNat?.bind uriOf? with
    | some l, some pol, some hov, some urv =>
      let (r, l') := l.check (keyCheck pol s.bits) s.time hov urv
      let row : Row := ⟨l.flags.trustUnknown, l.flags.skipVerify, l.flags.checkTime, l.rejDir, l.inRej, l.trDir,
                        l.trusted, keyCheck pol s.bits, s.time, hov, urv⟩
      let arms := ["check", flagsArm l.flags] ++
        (match (rowArms row pol s.bits (ho.toNat?.getD 0)).find? (·.startsWith "exit-") with
         | some e => ["check+" ++ e, "check+" ++ e ++ "+" ++ flagsArm l.flags] | Option.none => [])
      match r.status with
      | Option.none => (s, "panic @@ " ++ ",".intercalate arms)
      | some st =>
        ({ s with live := some l' },
         s!"ok {statusName st} rej={boolStr l'.inRej} tr={boolStr (l'.trusted != .absent)} @@ " ++ ",".intercalate arms)
    | _, _, _, _ => (s, "bad-op")
  | _ => (s, "bad-op")

def driver : Driver := { σ := DState, init := {}, step := dstep }

end OpcuaVerif.C18
