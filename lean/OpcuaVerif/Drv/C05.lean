import OpcuaVerif.Common
import OpcuaVerif.Model.TextIO
import OpcuaVerif.Model.C05

/-
Driver of C05.  A path is one token: `-` (null element array) or `P(e1,…)` / `P()`, an element is
`R(ns,kind,val,inverse,subtypes,targetNs,targetName)` (kind/val as in C04, names `-` or s<hex>).
-/
namespace OpcuaVerif.C05
open OpcuaVerif.Text OpcuaVerif.C04

def natOf (n : List Char) : Option Nat := (String.ofList n).toNat?

def identOf (k v : List Char) : Option Ident :=
  match k with
  | ['i'] => (natOf v).map Ident.numeric
  | ['s'] => (optStrTok? (String.ofList v)).map Ident.str
  | ['g'] => (bytesTok? (String.ofList v)).bind fun b => if b.length = 16 then some (Ident.guid b) else none
  | ['b'] => (optBytesTok? (String.ofList v)).map Ident.bytes
  | _ => none

def boolOf : List Char → Option Bool
  | ['1'] => some true
  | ['0'] => some false
  | _ => none

def elemOf : Tree → Option Elem
  | .node ['R'] [.node ns [], .node k [], .node v [], .node inv [], .node sub [], .node tns [], .node tn []] =>
    match natOf ns, identOf k v, boolOf inv, boolOf sub, natOf tns, optStrTok? (String.ofList tn) with
    | some ns, some i, some inv, some sub, some tns, some tn => some ⟨⟨ns, i⟩, inv, sub, ⟨tns, tn⟩⟩
    | _, _, _, _, _, _ => none
  | _ => none

def elemsOf : List Tree → Option (List Elem)
  | [] => some []
  | t :: ts =>
    match elemOf t, elemsOf ts with
    | some e, some es => some (e :: es)
    | _, _ => none

def pathOf : Tree → Option (Option (List Elem))
  | .node ['-'] [] => some none
  | .node ['P'] ks => (elemsOf ks).map some
  | _ => none

def identOut : Ident → String
  | .numeric n => s!"i,{n}"
  | .str s => "s," ++ optStrOut s
  | .guid g => "g," ++ bytesOut g
  | .bytes b => "b," ++ optBytesOut b

def elemOut (e : Elem) : String :=
  s!"R({e.ref.ns}," ++ identOut e.ref.id ++ "," ++ boolStr e.inverse ++ "," ++ boolStr e.subtypes ++
    s!",{e.target.ns}," ++ optStrOut e.target.name ++ ")"

def pathOut (es : List Elem) : String := "P(" ++ ",".intercalate (es.map elemOut) ++ ")"

def parseOut : Option (List Elem) → String
  | some es => pathOut es
  | none => "err"

def dstep (s : Unit) (toks : List String) : Unit × String :=
  (s, match toks with
  | ["reset"] => "ok"
  | ["rt", p] =>
    match (treeOf p).bind pathOf with
    | none => "bad-op"
    | some p =>
      match printPath p with
      | none => "panic"
      | some text => "ok p=" ++ strOut text ++ " r=" ++ parseOut (parsePath text)
  | ["parse", t] =>
    match strTok? t with
    | none => "bad-op"
    | some cs =>
      match parsePath cs with
      | some es => "ok " ++ pathOut es
      | none => "err"
  | _ => "bad-op")

def driver : Driver := { σ := Unit, init := (), step := dstep }

end OpcuaVerif.C05
