import OpcuaVerif.Common
import OpcuaVerif.Model.TextIO
import OpcuaVerif.Model.C05

/-
Driver of C05.  A path is one token: `-` (null element array) or `P(e1,…)` / `P()`, an element is
`R(ns,kind,val,inverse,subtypes,targetNs,targetName)` (kind/val as in C04, names `-` or s<hex>).
-/
namespace OpcuaVerif.C05
open OpcuaVerif.Text OpcuaVerif.C04

def natOf (n : List Char) : Option Nat := (String.ofList n).toNat?

def identOf (k v : List Char) : Option Ident :=
  match k with
  | ['i'] => (natOf v).map Ident.numeric
  | ['s'] => (optStrTok? (String.ofList v)).map Ident.str
  | ['g'] => (bytesTok? (String.ofList v)).bind fun b => if b.length = 16 then some (Ident.guid b) else none
  | ['b'] => (optBytesTok? (String.ofList v)).map Ident.bytes
  | _ => none

def boolOf : List Char → Option Bool
  | ['1'] => some true
  | ['0'] => some false
  | _ => none

def elemOf : Tree → Option Elem
  | .node ['R'] [.node ns [], .node k [], .node v [], .node inv [], .node sub [], .node tns [], .node tn []] =>
    match natOf ns, identOf k v, boolOf inv, boolOf sub, natOf tns, optStrTok? (String.ofList tn) with
    | some ns, some i, some inv, some sub, some tns, some tn => some ⟨⟨ns, i⟩, inv, sub, ⟨tns, tn⟩⟩
    | _, _, _, _, _, _ => none
  | _ => none

def elemsOf : List Tree → Option (List Elem)
  | [] => some []
  | t :: ts =>
    match elemOf t, elemsOf ts with
    | some e, some es => some (e :: es)
    | _, _ => none

def pathOf : Tree → Option (Option (List Elem))
  | .node ['-'] [] => some none
  | .node ['P'] ks => (elemsOf ks).map some
  | _ => none

def identOut : Ident → String
  | .numeric n => s!"i,{n}"
  | .str s => "s," ++ optStrOut s
  | .guid g => "g," ++ bytesOut g
  | .bytes b => "b," ++ optBytesOut b

def elemOut (e : Elem) : String :=
  s!"R({e.ref.ns}," ++ identOut e.ref.id ++ "," ++ boolStr e.inverse ++ "," ++ boolStr e.subtypes ++
    s!",{e.target.ns}," ++ optStrOut e.target.name ++ ")"

def pathOut (es : List Elem) : String := "P(" ++ ",".intercalate (es.map elemOut) ++ ")"

def parseOut : Option (List Elem) → String
  | some es => pathOut es
  | none => "err"

def dstep0 (s : Unit) (toks : List String) : Unit × String :=
  (s, match toks with
  | ["reset"] => "ok"
  | ["rt", p] =>
    match (treeOf p).bind pathOf with
    | none => "bad-op"
    | some p =>
      match printPath p with
      | none => "panic"
      | some text => "ok p=" ++ strOut text ++ " r=" ++ parseOut (parsePath text)
  | ["parse", t] =>
    match strTok? t with
    | none => "bad-op"
    | some cs =>
      match parsePath cs with
      | some es => "ok " ++ pathOut es
      | none => "err"
  | ["parsenr", t] =>
    -- a node resolver that finds nothing: only `/` and `.` elements can be built
    match strTok? t with
    | none => "bad-op"
    | some cs =>
      match parsePathWith { current with noResolver := true } cs with
      | some es => "ok " ++ pathOut es
      | none => "err"
  | ["elem", t] =>
    -- `RelativePathElement::from_str` called directly on a whole text (no tokenizer)
    match strTok? t with
    | none => "bad-op"
    | some cs =>
      match parseElem current cs with
      | some e => "ok " ++ elemOut e
      | none => "err"
  | _ => "bad-op")


/-! ### arm tags -/
open OpcuaVerif.Generated.RefTypes

def hasAmp (cs : List Char) : Bool := cs.contains '&'

def armsTarget (t : List Char) : List String :=
  match targetName current t with
  | none => ["tg-ns-overflow"]
  | some q =>
    (match spanP isDigit t with
     | (d, ':' :: _) =>
       if d.isEmpty then ["tg-colon-no-digits"]
       else [if q.ns = 65535 then "tg-ns-max" else if q.ns ≥ 10 then "tg-ns-ge10" else if q.ns = 0 then "tg-ns-zero" else "tg-ns-1to9"]
     | _ => ["tg-ns-none"]) ++
    [match q.name with
     | none => "tg-name-null"
     | some n => if hasAmp t then (if n.contains '&' then "tg-name-escaped-amp" else "tg-name-escaped") else "tg-name-plain"]

def armsBracket (cs : List Char) : List String :=
  match bracket current cs with
  | none => []   -- not reachable: `armsElem` passes the text after the `<` at which the bracket matched
  | some b =>
    [match b.subtypes, b.inverse with
     | true, false => "fl-none" | false, false => "fl-hash" | true, true => "fl-bang" | false, true => "fl-hashbang"] ++
    (match b.nsidx with
     | none =>
       -- a leading `digits:` that was NOT taken as the namespace (the name needs it)
       (match spanP isDigit (if b.subtypes then (if b.inverse then cs.drop 1 else cs) else (if b.inverse then cs.drop 2 else cs.drop 1)) with
        | (d, ':' :: _) => if d.isEmpty then ["br-ns-none"] else ["br-ns-group-skipped"]
        | _ => ["br-ns-none"])
     | some d =>
       if d = ['0'] then ["br-ns-0"]
       else match parseUnsigned 65535 d with
         | none => ["br-ns-overflow"]
         | some n => [if n = 65535 then "br-ns-max" else if n = 0 then "br-ns-00" else "br-ns-ok"]) ++
    [if b.name.head? = some '&' then "br-name-escape-first" else if hasAmp b.name then "br-name-has-escape" else "br-name-plain"] ++
    (let name := unescapeBN b.name
     let ns := match b.nsidx with
       | none => 0
       | some d => (parseUnsigned 65535 d).getD 0
     if ns = 0 then (if (lookupId name nameToId).isSome then ["res-std"] else ["res-str-ns0"]) else ["res-str-nsN"])

/-- the text after the first `<` at which the bracket alternative matches (where an `.angle` capture starts) -/
def afterMatchingAngle : List Char → Option (List Char × Bool)
  | [] => none
  | c :: r =>
    if c = '<' ∧ (bracket current r).isSome then some (r, false)
    else (afterMatchingAngle r).map fun (x, _) => (x, true)

def armsElem (tok : List Char) : List String :=
  match elemRe current tok with
  | none => ["el-nomatch"]
  | some (cap, target) =>
    (match tok with
     | c :: r =>
       if c = '/' ∨ c = '.' then []
       else if c = '<' then (if (bracket current r).isSome then [] else ["el-angle-failed-later-match"])
       else ["el-match-not-at-start"]
     | [] => []) ++
    (match cap with
     | .slash => ["el-slash"]
     | .dot => ["el-dot"]
     | .angle _ =>
       -- the text after the `<` at which the match starts
       "el-angle" :: (match afterMatchingAngle tok with
         | some (r, later) => (if later then ["el-angle-not-at-start"] else []) ++ armsBracket r
         | none => [])) ++
    armsTarget target ++ (if (parseElem current tok).isSome then ["el-ok"] else ["el-err"])

/-- the tokenizer loop with tags (mirrors `tokLoop`) -/
def tokArms : TS → List Char → List String → List String × LoopOut
  | s, [], acc => (acc, .run s)
  | s, c :: cs, acc =>
    let a :=
      (if s.esc then ["tok-escaped-char"]
       else if c = '&' then ["tok-amp"]
       else if c = '/' ∨ c = '.' ∨ c = '<' then
         (if s.tok.isEmpty then ["tok-delim-first"]
          else if s.elems.length = maxElements then ["tok-break-at-max"]
          else "tok-flush" :: armsElem s.tok)
       else []) 
    match tokStep current s c with
    | .run s' =>
      let a2 := if utf8Len s'.tok = maxTokenLen then ["tok-len-eq-max"] else []
      tokArms s' cs (acc ++ a ++ a2)
    | .failed => (acc ++ a ++ (if (a.contains "tok-flush") then ["tok-fail-elem"] else ["tok-fail-len"]), .failed)
    | o => (acc ++ a, o)

def dedup : List String → List String
  | [] => []
  | x :: r => if r.contains x then dedup r else x :: dedup r

def armsText (cs : List Char) : List String :=
  let (a, o) := tokArms ⟨[], false, []⟩ cs []
  let fin := match o with
    | .failed => []
    | .run s | .broke s =>
      (if s.esc then ["tok-ends-in-escape"] else []) ++
      (if s.tok.isEmpty then ["fin-empty-token"]
       else if s.elems.length = maxElements then ["fin-elems-eq-max"]
       else (if s.elems.length + 1 = maxElements then ["fin-32-elements"] else []) ++ "fin-last" :: armsElem s.tok)
  dedup (a ++ fin ++ [if (parsePath cs).isSome then "path-ok" else "path-err"])

def armsPrint (p : Option (List Elem)) : List String :=
  match p with
  | none => ["pr-null-elements"]
  | some es =>
    [if es.length = 0 then "pr-len-0" else if es.length = 1 then "pr-len-1" else if es.length = maxElements then "pr-len-32"
     else if es.length = maxElements + 1 then "pr-len-33" else if es.length > maxElements then "pr-len-many" else "pr-len-mid"] ++
    dedup (es.flatMap fun e =>
      (match browseName e.ref with
       | none => [match e.ref.id with
           | .numeric _ => if e.ref.ns = 0 then "pr-panic-numeric-unknown" else "pr-panic-numeric-nsN"
           | _ => "pr-panic-guid-or-bytes"]
       | some bn =>
         (match printRefType e with
          | some ['/'] => ["pr-slash"]
          | some ['.'] => ["pr-dot"]
          | _ => [match e.subtypes, e.inverse with
              | true, false => "pr-angle" | false, false => "pr-angle-hash" | true, true => "pr-angle-bang" | false, true => "pr-angle-hashbang",
              if e.ref.ns = 0 then "pr-ref-ns0" else "pr-ref-nsN",
              match e.ref.id with
              | .numeric _ => "pr-ref-std"
              | _ => if bn.isEmpty then "pr-ref-empty-name" else if bn.any (fun c => reserved.contains c) then "pr-ref-reserved" else "pr-ref-plain"])) ++
      [match e.target.name with
       | none => if e.target.ns = 0 then "pr-target-null" else "pr-target-null-nsN"
       | some n => if n.isEmpty then "pr-target-empty" else if n.any (fun c => reserved.contains c) then "pr-target-reserved" else "pr-target-plain"])

def armsOf (toks : List String) : List String :=
  match toks with
  | ["rt", p] =>
    match (treeOf p).bind pathOf with
    | none => []
    | some p => armsPrint p ++ (match printPath p with
      | some text => armsText text
      | none => [])
  | ["parse", t] => (strTok? t).elim [] armsText
  | ["parsenr", t] => (strTok? t).elim [] fun cs =>
      [if (parsePathWith { current with noResolver := true } cs).isSome then "nr-ok"
       else if (parsePath cs).isSome then "nr-err-unresolved" else "nr-err-syntax"]
  | ["elem", t] => (strTok? t).elim [] fun cs => "elem-direct" :: armsElem cs
  | _ => []

def dstep (s : Unit) (toks : List String) : Unit × String :=
  let r := (dstep0 s toks).2
  let arms := dedup (armsOf toks)
  (s, if r = "bad-op" ∨ arms.isEmpty then r else r ++ " @@ " ++ ",".intercalate arms)

def driver : Driver := { σ := Unit, init := (), step := dstep }

end OpcuaVerif.C05
