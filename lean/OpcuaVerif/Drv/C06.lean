import OpcuaVerif.Common
import OpcuaVerif.Model.C06

namespace OpcuaVerif.C06

def parseNT? (s : String) : Option NT :=
  match s with
  | "bool" => some .boolean
  | "i8" => some .sbyte
  | "u8" => some .byte
  | "i16" => some .int16
  | "u16" => some .uint16
  | "i32" => some .int32
  | "u32" => some .uint32
  | "i64" => some .int64
  | "u64" => some .uint64
  | "f32" => some .float
  | "f64" => some .double
  | _ => none

def ntStr : NT → String
  | .boolean => "bool"
  | .sbyte => "i8"
  | .byte => "u8"
  | .int16 => "i16"
  | .uint16 => "u16"
  | .int32 => "i32"
  | .uint32 => "u32"
  | .int64 => "i64"
  | .uint64 => "u64"
  | .float => "f32"
  | .double => "f64"

def natOfBytes (bs : List Nat) : Nat := bs.foldl (fun acc b => acc * 256 + b) 0

def bytesOfNat (n : Nat) (b : Nat) : List Nat :=
  (List.range n).reverse.map (fun i => b / 256 ^ i % 256)

/-- `f<16 hex>` for f64, `g<8 hex>` for f32, decimal otherwise -/
def parseVal? (t : NT) (s : String) : Option Val :=
  if t.isFloat then
    let (pre, n) := if t = .float then ('g', 4) else ('f', 8)
    match s.toList with
    | c :: rest =>
      if c = pre then
        match hexToBytes (String.ofList rest) with
        | some bs => if bs.length = n then some (.flt (ofBits (fmtOf t) (natOfBytes bs))) else none
        | none => none
      else none
    | [] => none
  else
    (parseInt? s).map .int

def isNan : Fl → Bool
  | .nan => true
  | _ => false

def showVal (d : NT) : Val → String
  | .int x => if d.isInt then s!"{ntStr d}:{x}" else "?"
  | .flt x =>
    if !d.isFloat then "?"
    else if isNan x then s!"{ntStr d}:nan"
    else if d = .float then s!"f32:g{bytesToHex (bytesOfNat 4 (toBits fmt32 x))}"
    else s!"f64:f{bytesToHex (bytesOfNat 8 (toBits fmt64 x))}"

def showRes (d : NT) : Option Val → String
  | none => "ok -"
  | some v => "ok " ++ showVal d v

def dstep (_ : Unit) (toks : List String) : Unit × String :=
  match toks with
  | ["reset"] => ((), "ok")
  | [op, s, d, v] =>
    match parseNT? s, parseNT? d with
    | some s, some d =>
      match parseVal? s v with
      | some v =>
        if !wellTyped s v then ((), "bad-op")
        else if op = "convert" then ((), showRes d (convert s d v))
        else if op = "cast" then ((), showRes d (cast s d v))
        else ((), "bad-op")
      | none => ((), "bad-op")
    | _, _ => ((), "bad-op")
  | _ => ((), "bad-op")

def driver : Driver := { σ := Unit, init := (), step := dstep }

end OpcuaVerif.C06
