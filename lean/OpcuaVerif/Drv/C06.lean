import OpcuaVerif.Common
import OpcuaVerif.Model.C06

namespace OpcuaVerif.C06

def parseNT? (s : String) : Option NT :=
  match s with
  | "bool" => some .boolean
  | "i8" => some .sbyte
  | "u8" => some .byte
  | "i16" => some .int16
  | "u16" => some .uint16
  | "i32" => some .int32
  | "u32" => some .uint32
  | "i64" => some .int64
  | "u64" => some .uint64
  | "f32" => some .float
  | "f64" => some .double
  | _ => none

def ntStr : NT → String
  | .boolean => "bool"
  | .sbyte => "i8"
  | .byte => "u8"
  | .int16 => "i16"
  | .uint16 => "u16"
  | .int32 => "i32"
  | .uint32 => "u32"
  | .int64 => "i64"
  | .uint64 => "u64"
  | .float => "f32"
  | .double => "f64"

def natOfBytes (bs : List Nat) : Nat := bs.foldl (fun acc b => acc * 256 + b) 0

def bytesOfNat (n : Nat) (b : Nat) : List Nat :=
  (List.range n).reverse.map (fun i => b / 256 ^ i % 256)

/-- `f<16 hex>` for f64, `g<8 hex>` for f32, decimal otherwise -/
def parseVal? (t : NT) (s : String) : Option Val :=
  if t.isFloat then
    let (pre, n) := if t = .float then ('g', 4) else ('f', 8)
    match s.toList with
    | c :: rest =>
      if c = pre then
        match hexToBytes (String.ofList rest) with
        | some bs => if bs.length = n then some (.flt (ofBits (fmtOf t) (natOfBytes bs))) else none
        | none => none
      else none
    | [] => none
  else
    (parseInt? s).map .int

def isNan : Fl → Bool
  | .nan => true
  | _ => false

def showVal (d : NT) : Val → String
  | .int x => if d.isInt then s!"{ntStr d}:{x}" else "?"
  | .flt x =>
    if !d.isFloat then "?"
    else if isNan x then s!"{ntStr d}:nan"
    else if d = .float then s!"f32:g{bytesToHex (bytesOfNat 4 (toBits fmt32 x))}"
    else s!"f64:f{bytesToHex (bytesOfNat 8 (toBits fmt64 x))}"

def showRes (d : NT) : Option Val → String
  | none => "ok -"
  | some v => "ok " ++ showVal d v

/-! ### Arm tags (which branch of the model an op took) and the list of all reachable arms -/

/-- relation of `x` to the boundaries of the interval `[lo, hi]` -/
def rel (lo hi x : Int) : String :=
  if x < lo - 1 then "lt-min" else if x = lo - 1 then "min-1" else if x = lo then "min"
  else if x = hi + 1 then "max+1" else if x > hi + 1 then "gt-max" else if x = hi then "max" else "mid"

/-- how `rneShift m s` rounds -/
def rneArm (m s : Nat) : String :=
  let g := 2 ^ s
  let r := m % g
  if r = 0 then "exact" else if 2 * r < g then "down" else if 2 * r > g then "up"
  else if m / g % 2 = 1 then "tie-up" else "tie-down"

def intToFlArm (f : Fmt) (x : Int) : String :=
  let m := x.natAbs
  let sign := if x < 0 then "n-" else "p-"
  if m = 0 then "zero"
  else
    let l := bitLen m
    let p := f.mbits + 1
    if l ≤ p then sign ++ "fits"
    else
      let a := rneArm m (l - p)
      sign ++ a ++ (if rneShift m (l - p) = 2 ^ p then "-carry" else "")

def flClass (f : Fmt) : Fl → String
  | .nan => "nan"
  | .inf neg => if neg then "ninf" else "pinf"
  | .fin neg m e =>
    (if neg then "n" else "p") ++
      (if m = 0 then "zero" else if (e : Int) + bitLen m ≤ f.qmin + f.mbits then "sub" else "norm")

def convertArm (s d : NT) (v : Val) : String :=
  if s = d then "same"
  else match convertKind s d, v with
    | .none, _ => "none"
    | .wrap, .int x => "wrap-" ++ (if x = s.minV then "srcmin" else if x = s.maxV then "srcmax" else "mid")
    | .guardNeg, .int x =>
      "guard-" ++ (if x < -1 then "neg" else if x = -1 then "m1" else if x = 0 then "zero"
        else if x = s.maxV then "srcmax" else "pos")
    | .checked, .int x => "chk-" ++ rel d.minV d.maxV x
    | .toFloat, .int x => "tofl-" ++ intToFlArm (fmtOf d) x
    | .fwiden, .flt x => "widen-" ++ flClass fmt32 x
    | _, _ => "?"

def narrowArm (x : Fl) : String :=
  match x with
  | .nan => "nan"
  | .inf _ => "inf"
  | .fin _ m e =>
    if m = 0 then "zero"
    else match roundFmt fmt32 false m e with
      | .inf _ => "ovf"
      | .fin _ m' q =>
        let exact := decide ((if q ≤ e then m * 2 ^ (e - q).toNat = m' else m = m' * 2 ^ (q - e).toNat))
        if m' = 0 then "uflow0"
        else (if (q : Int) + bitLen m' ≤ fmt32.qmin + fmt32.mbits then "sub-" else "norm-") ++
          (if exact then "exact" else "round")
      | .nan => "?"

def boolIntArm (x : Int) : String :=
  if x = 1 then "one" else if x = 0 then "zero" else if x = 2 then "two" else if x = -1 then "m1"
  else if x < 0 then "neg" else "big"

def floatToIntArm (d : NT) (x : Fl) : String :=
  match x with
  | .nan => "nan"
  | .inf neg => if neg then "ninf" else "pinf"
  | .fin neg m e =>
    let round :=
      if e ≥ 0 then "int"
      else
        let g := 2 ^ (-e).toNat
        let fr := m % g
        if fr = 0 then "int" else if 2 * fr < g then "down" else if 2 * fr > g then "up" else "tie"
    let r := match flRound x with
      | .fin n k q => truncInt n k q
      | _ => 0
    (if neg then "n" else "p") ++ round ++ "-" ++
      (if r > i128Max ∨ r < i128Min then "huge" else rel d.minV d.maxV r)

def explicitArm (s d : NT) (v : Val) : String :=
  match castKind s d, v with
  | .none, _ => "none"
  | .toBool, .int x => "bool-" ++ boolIntArm x
  | .toBool, .flt x =>
    (match x with
     | .nan => "bool-nan"
     | .inf _ => "bool-inf"
     | .fin neg m e => "bool-" ++ (if neg then "n" else "p") ++ (if e < 0 ∧ m % 2 ^ (-e).toNat ≠ 0 then "frac-" else "int-")
          ++ boolIntArm (satCast i64Min i64Max x))
  | .toInt, .int x => "int-" ++ rel d.minV d.maxV x
  | .toInt, .flt x => "flt-" ++ floatToIntArm d x
  | .narrow, .flt x => "narrow-" ++ narrowArm x
  | _, _ => "?"

def opArms (op : String) (s d : NT) (v : Val) : List String :=
  let pair := ntStr s ++ ">" ++ ntStr d
  if op = "convert" then [s!"cv:{pair}:{convertArm s d v}"]
  else
    match convert s d v with
    | some _ => [s!"ct:{pair}:c-{convertArm s d v}"]
    | none => [s!"ct:{pair}:c-{convertArm s d v}/x-{explicitArm s d v}"]

/-- is the dyadic ±m·2^e a value of the format? -/
def representable (f : Fmt) (m : Nat) (e : Int) : Bool :=
  match roundFmt f false m e with
  | .fin _ m' q => if q ≤ e then m * 2 ^ (e - q).toNat == m' else m == m' * 2 ^ (q - e).toNat
  | _ => false

def intTypes : List NT := [.boolean, .sbyte, .byte, .int16, .uint16, .int32, .uint32, .int64, .uint64]

/-- boundary candidates for an integer source type -/
def intCands (s d : NT) : List Int :=
  let bounds := intTypes.flatMap fun t => [t.minV - 1, t.minV, t.minV + 1, t.maxV - 1, t.maxV, t.maxV + 1]
  let rounding := [24, 53].flatMap fun (p : Nat) =>
    let b : Int := 2 ^ p
    [b - 1, b, b + 1, b + 2, b + 3, 2 * b + 1, 2 * b + 2, 2 * b + 3, 2 * b + 6, 4 * b + 4, 4 * b + 12]
  -- midpoints ± 1 for every bit length (double-rounding-sensitive values)
  let mids : List Int := (if d.isFloat then [(24, 64), (53, 64)] else []).flatMap fun ((p, lmax) : Nat × Nat) =>
    (List.range (lmax + 1)).flatMap fun l =>
      if l < p + 2 then [] else
        let top : Int := 2 ^ (l - 1)
        let half : Int := 2 ^ (l - p - 1)
        let ulp : Int := 2 * half
        [top + half + 1, top + half - 1, top + ulp + half - 1, top + ulp + half + 1, top + half, top + ulp + half]
  let all := [-3, -2, -1, 0, 1, 2, 3] ++ bounds ++ rounding ++ rounding.map (fun x => -x) ++ mids ++ mids.map (fun x => -x)
  (all.filter fun x => decide (inRange s x)).eraseDups

/-- boundary candidates for a float source type (exact values) -/
def fltCands (f : Fmt) (d : NT) : List Fl :=
  let quarter (n : Int) : Option Fl :=          -- n/4
    if representable f n.natAbs (-2) then some (.fin (decide (n < 0)) n.natAbs (-2)) else none
  let bounds := (if d.isInt && d != .boolean then [d] else []).flatMap fun t =>
    [t.minV - 1, t.minV, t.maxV, t.maxV + 1].flatMap fun b =>
      ((List.range 21).map fun (i : Nat) => (i : Int) - 10).filterMap fun k => quarter (4 * b + k)
  let small := ([-14, -13, -12, -10, -7, -6, -5, -4, -3, -2, -1, 1, 2, 3, 4, 5, 6, 7, 10, 12, 13, 14] : List Int).filterMap quarter
  let pow (neg : Bool) (k : Int) : Option Fl := if representable f 1 k then some (.fin neg 1 k) else none
  let pows := ([100, 126, 127, 128, 130, 200, -30, -126, -127, -140, -149, -150, -160, -1074] : List Int).flatMap fun k =>
    [pow false k, pow true k].filterMap id
  let odd : List Fl :=     -- values that need rounding when narrowed to f32
    ([(16777217, 0), (16777219, 0), (33554434, 0), (33554438, 0), (16777217, 104), (16777215, 104),
      (16777217, -170), (3, -150), (1, -150), (16777217, -173), (3, 127), (16777215, 105), (16777217, 105)] : List (Nat × Int)).filterMap fun (m, e) =>
      if representable f m e then some (.fin false m e) else none
  let odd := odd ++ odd.map fun x => match x with | .fin _ m e => .fin true m e | y => y
  [.nan, .inf false, .inf true, .fin false 0 0, .fin true 0 0] ++ bounds ++ small ++ pows ++ odd

def candsOf (s d : NT) : List Val :=
  if s = .float then (fltCands fmt32 d).map .flt
  else if s = .double then (fltCands fmt64 d).map .flt
  else (intCands s d).map .int

/-- every arm tag that the boundary candidates of every type pair reach (the declared arms) -/
def allArms : List String :=
  (NT.all.flatMap fun s => NT.all.flatMap fun d => (candsOf s d).flatMap fun v =>
    opArms "convert" s d v ++ opArms "cast" s d v)

def dstep (_ : Unit) (toks : List String) : Unit × String :=
  match toks with
  | ["reset"] => ((), "ok")
  | ["arms"] => ((), "ok " ++ " ".intercalate allArms)      -- developer op: lists the declared arms
  | [op, s, d, v] =>
    match parseNT? s, parseNT? d with
    | some s, some d =>
      match parseVal? s v with
      | some v =>
        if !wellTyped s v then ((), "bad-op")
        else if op = "convert" then
          ((), showRes d (convert s d v) ++ " @@ " ++ ",".intercalate (opArms op s d v))
        else if op = "cast" then
          ((), showRes d (cast s d v) ++ " @@ " ++ ",".intercalate (opArms op s d v))
        else ((), "bad-op")
      | none => ((), "bad-op")
    | _, _ => ((), "bad-op")
  | _ => ((), "bad-op")

def driver : Driver := { σ := Unit, init := (), step := dstep }

end OpcuaVerif.C06
