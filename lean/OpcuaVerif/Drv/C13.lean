import OpcuaVerif.Common
import OpcuaVerif.Model.C13

namespace OpcuaVerif.C13

def parsePolicy? (s : String) : Option Policy :=
  if s = "none" then some .none
  else if s = "basic128rsa15" then some .basic128Rsa15
  else if s = "basic256" then some .basic256
  else if s = "basic256sha256" then some .basic256Sha256
  else if s = "aes128sha256rsaoaep" then some .aes128Sha256RsaOaep
  else if s = "aes256sha256rsapss" then some .aes256Sha256RsaPss
  else if s = "unknown" then some .unknown
  else Option.none

def parseAlg? (s : String) : Option HashAlg :=
  if s = "sha1" then some .sha1 else if s = "sha256" then some .sha256 else Option.none

def hx (b : Bytes) : String := "x" ++ bytesToHex b

def showKeys (k : Keys) : String := hx k.signing ++ "," ++ hx k.encrypting ++ "," ++ hx k.iv

def dstep (s : Unit) (toks : List String) : Unit × String :=
  match toks with
  | ["reset"] => (s, "ok")
  | ["keys", p, a, b] =>
    match parsePolicy? p, hexToBytes a, hexToBytes b with
    | some p, some secret, some seed =>
      match makeKeys realH p secret seed with
      | .ok k => (s, "ok " ++ showKeys k)
      | .panic => (s, "panic")
      | .diverge => (s, "timeout")
    | _, _, _ => (s, "bad-op")
  | ["chan", p, a, b] =>
    match parsePolicy? p, hexToBytes a, hexToBytes b with
    | some p, some ln, some rn =>
      match deriveKeys realH p ln rn with
      | .ok (l, r) => (s, "ok l=" ++ showKeys l ++ " r=" ++ showKeys r)
      | .panic => (s, "panic")
      | .diverge => (s, "timeout")
    | _, _, _ => (s, "bad-op")
  | ["psha", alg, a, b, n] =>
    match parseAlg? alg, hexToBytes a, hexToBytes b, n.toNat? with
    | some alg, some secret, some seed, some n =>
      match pSha (realH alg) secret seed n with
      | .ok r => (s, "ok " ++ hx r)
      | .panic => (s, "panic")
      | .diverge => (s, "timeout")
    | _, _, _, _ => (s, "bad-op")
  | ["hmac", alg, a, b] =>
    match parseAlg? alg, hexToBytes a, hexToBytes b with
    | some alg, some key, some data =>
      match hmacVecCur (realH alg) key data with
      | .ok r => (s, "ok " ++ hx r)
      | .panic => (s, "panic")
      | .diverge => (s, "timeout")
    | _, _, _ => (s, "bad-op")
  | _ => (s, "bad-op")

def driver : Driver := { σ := Unit, init := (), step := dstep }

end OpcuaVerif.C13
