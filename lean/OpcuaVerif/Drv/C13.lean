import OpcuaVerif.Common
import OpcuaVerif.Model.C13

namespace OpcuaVerif.C13

def parsePolicy? (s : String) : Option Policy :=
  if s = "none" then some .none
  else if s = "basic128rsa15" then some .basic128Rsa15
  else if s = "basic256" then some .basic256
  else if s = "basic256sha256" then some .basic256Sha256
  else if s = "aes128sha256rsaoaep" then some .aes128Sha256RsaOaep
  else if s = "aes256sha256rsapss" then some .aes256Sha256RsaPss
  else if s = "unknown" then some .unknown
  else Option.none

def parseAlg? (s : String) : Option HashAlg :=
  if s = "sha1" then some .sha1 else if s = "sha256" then some .sha256 else Option.none

def hx (b : Bytes) : String := "x" ++ bytesToHex b

def showKeys (k : Keys) : String := hx k.signing ++ "," ++ hx k.encrypting ++ "," ++ hx k.iv

def policyName : Policy → String
  | .none => "none" | .basic128Rsa15 => "basic128rsa15" | .basic256 => "basic256"
  | .basic256Sha256 => "basic256sha256" | .aes128Sha256RsaOaep => "aes128sha256rsaoaep"
  | .aes256Sha256RsaPss => "aes256sha256rsapss" | .unknown => "unknown"

def algName : HashAlg → String
  | .sha1 => "sha1" | .sha256 => "sha256"

def hashLen : HashAlg → Nat
  | .sha1 => 20 | .sha256 => 32

/-- nonce length of the policy (`secure_channel_nonce_length`), only for tagging -/
def policyNonceLen : Policy → Nat
  | .basic128Rsa15 => 16 | _ => 32

def lenClass (pre : String) (l ref : Nat) : String :=
  pre ++ (if l = 0 then "empty" else if l < ref then "lt" else if l = ref then "eq" else if l = ref + 1 then "eq-plus1" else "gt")

def keysArms (kind : String) (p : Policy) (a b : Bytes) : List String :=
  [kind ++ "-" ++ policyName p, lenClass "secret-len-" a.length (policyNonceLen p), lenClass "seed-len-" b.length (policyNonceLen p),
   if a = b then "nonces-equal" else if a.length = b.length then "nonces-differ-same-length" else "nonces-differ-in-length"]

def pshaArms (alg : HashAlg) (secret seed : Bytes) (n : Nat) : List String :=
  let h := hashLen alg
  ["psha-" ++ algName alg,
   "psha-len-" ++ (if n = 0 then "0" else if n < h then "lt-hash" else if n = h then "eq-hash" else if n = h + 1 then "eq-hash-plus1"
     else if n % h = 0 then "multiple-of-hash" else if n % h = 1 then "multiple-plus1" else if n % h = h - 1 then "multiple-minus1" else "other"),
   "psha-iterations-" ++ (let k := (n + h - 1) / h; if k = 0 then "0" else if k = 1 then "1" else if k = 2 then "2" else "3plus"),
   if secret.isEmpty then "psha-secret-empty" else "psha-secret-nonempty",
   if seed.isEmpty then "psha-seed-empty" else "psha-seed-nonempty"]

def hmacArms (alg : HashAlg) (key data : Bytes) : List String :=
  ["hmac-" ++ algName alg, lenClass "hmac-key-len-vs-block-" key.length 64,
   -- Merkle–Damgård padding of the inner hash: 64 key-block bytes + data; 55/56 is where one more block is needed
   "hmac-data-rem-" ++ (let r := data.length % 64; if r = 0 then "0" else if r = 55 then "55" else if r = 56 then "56"
      else if r = 63 then "63" else if r < 55 then "lt55" else "gt56"),
   if data.length < 64 then "hmac-data-one-block" else "hmac-data-more-blocks"]

def withArms (res : String) (arms : List String) : String :=
  if arms.isEmpty then res else res ++ " @@ " ++ ",".intercalate arms.eraseDups

def dstep (s : Unit) (toks : List String) : Unit × String :=
  match toks with
  | ["reset"] => (s, "ok")
  | ["keys", p, a, b] =>
    match parsePolicy? p, hexToBytes a, hexToBytes b with
    | some p, some secret, some seed =>
      match makeKeys realH p secret seed with
      | .ok k => (s, withArms ("ok " ++ showKeys k) (keysArms "keys" p secret seed))
      | .panic => (s, withArms "panic" ("keys-panic" :: keysArms "keys" p secret seed))
      | .diverge => (s, "timeout")
    | _, _, _ => (s, "bad-op")
  | ["chan", p, a, b] =>
    match parsePolicy? p, hexToBytes a, hexToBytes b with
    | some p, some ln, some rn =>
      match deriveKeys realH p ln rn with
      | .ok (l, r) => (s, withArms ("ok l=" ++ showKeys l ++ " r=" ++ showKeys r) (keysArms "chan" p ln rn))
      | .panic => (s, withArms "panic" ("chan-panic" :: keysArms "chan" p ln rn))
      | .diverge => (s, "timeout")
    | _, _, _ => (s, "bad-op")
  | ["psha", alg, a, b, n] =>
    match parseAlg? alg, hexToBytes a, hexToBytes b, n.toNat? with
    | some alg, some secret, some seed, some n =>
      match pSha (realH alg) secret seed n with
      | .ok r => (s, withArms ("ok " ++ hx r) (pshaArms alg secret seed n))
      | .panic => (s, "panic")
      | .diverge => (s, "timeout")
    | _, _, _, _ => (s, "bad-op")
  | ["hmac", alg, a, b] =>
    match parseAlg? alg, hexToBytes a, hexToBytes b with
    | some alg, some key, some data =>
      match hmacVecCur (realH alg) key data with
      | .ok r => (s, withArms ("ok " ++ hx r) (hmacArms alg key data))
      | .panic => (s, "panic")
      | .diverge => (s, "timeout")
    | _, _, _ => (s, "bad-op")
  | _ => (s, "bad-op")

def driver : Driver := { σ := Unit, init := (), step := dstep }

end OpcuaVerif.C13
