import OpcuaVerif.Common
import OpcuaVerif.Model.C27
import OpcuaVerif.Drv.C22

namespace OpcuaVerif.C27

open OpcuaVerif.C22 (stateNum msgStr)

def showEntry (x : Entry) : String :=
  s!"{x.id}:p{x.prio}:{stateNum x.s.state}:{x.s.life}:{x.s.ka}:{x.s.notifs.length}"

def showResps (out : List MResp) : String :=
  "[" ++ ",".intercalate (out.map fun r => s!"{r.rid}:{r.sub}:{msgStr r.kind}:{r.seq}") ++ "]"

def showSess (z : MSess) (out : List MResp) : String :=
  "subs=[" ++ ",".intercalate (z.subs.map showEntry) ++ "] rq=" ++ natList z.reqs ++ " resp=" ++ showResps out

def mkEntries : List Nat → List Nat → List Nat → Nat → Nat → List Entry
  | i :: is, p :: ps, t :: ts, ka, life =>
    insertById { id := i, prio := p, s := C22.mk life ka true (t != 0) } (mkEntries is ps ts ka life)
  | _, _, _, _, _ => []

/-! ### arm tags -/

def bucket (n top : Nat) : String := if n ≥ top then s!"{top}+" else toString n

def tickTags (pre : String) (z : MSess) (r : Option (MSess × List MResp × List (Entry × Bool))) : List String :=
  let order := sortBy true z.subs
  let prios := z.subs.map (·.prio)
  [s!"{pre}:n{bucket z.subs.length 4}",
   if order.map (·.id) == z.subs.map (·.id) then s!"{pre}:order-as-map" else s!"{pre}:order-reordered",
   if prios.eraseDups.length == prios.length then s!"{pre}:distinct" else s!"{pre}:ties"]
  ++ (if prios.contains 0 then ["prio:0"] else []) ++ (if prios.contains 255 then ["prio:255"] else [])
  ++ match r with
    | none => [s!"{pre}:panic"]
    | some (z', out, offs) =>
      [s!"{pre}:resp{bucket out.length 2}",
       if offs.all (·.2) then s!"{pre}:offer-all" else if offs.any (·.2) then s!"{pre}:offer-ran-out" else s!"{pre}:offer-none"]
      ++ (if z'.subs.length < z.subs.length then [s!"{pre}:closed-removed"] else [])
      ++ (if (out.map (·.sub)).eraseDups.length ≥ 2 then [s!"{pre}:several-answered"] else [])

def tagStr (tags : List String) : String := " @@ " ++ ",".intercalate tags.eraseDups

def dstep (z : MSess) (toks : List String) : MSess × String :=
  match toks with
  | ["reset", ids, prios, items, ka, life] =>
    match parseNatList? ids, parseNatList? prios, parseNatList? items, ka.toNat?, life.toNat? with
    | some ids, some prios, some items, some ka, some life =>
      if ids.length = prios.length ∧ ids.length = items.length then
        let z : MSess := { subs := mkEntries ids prios items ka life, reqs := [] }
        (z, "ok " ++ showSess z [])
      else (z, "bad-op")
    | _, _, _, _, _ => (z, "bad-op")
  | ["timer", e, w] =>
    match parseBool? e, parseBool? w with
    | some e, some w =>
      let zz := if w then write z else z
      let r := tick zz true e
      let tags := tickTags "t" zz r ++ [if e then "t:el" else "t:notel"] ++ (if w then ["t:write"] else [])
      match r with
      | some (z', out, _) => (z', "ok " ++ showSess z' out ++ tagStr tags)
      | none => (z, "panic" ++ tagStr tags)
    | _, _ => (z, "bad-op")
  | ["pub", r] =>
    match r.toNat? with
    | some r =>
      let full := decide (z.reqs.length ≥ 2 * z.subs.length)
      let r1 := if full then tick z false false else none
      let t1 := if full then tickTags "p" z r1 ++ ["pub:queue-full"] else []
      let z1 := match r1 with | some (z1, _, _) => z1 | none => z
      let fits := decide (z1.reqs.length < 2 * z.subs.length)
      let zq := { z1 with reqs := z1.reqs ++ [r] }
      let t2 := if fits then tickTags "p" zq (tick zq false false) else []
      match publish z r with
      | .ok z' out => (z', "ok res=ok " ++ showSess z' out ++ tagStr (t1 ++ t2 ++ ["pub:ok"]))
      | .tooMany z' out => (z', "ok res=toomany " ++ showSess z' out ++ tagStr (t1 ++ ["pub:toomany"]))
      | .panic => (z, "panic" ++ tagStr (t1 ++ t2))
    | none => (z, "bad-op")
  | ["setprio", i, p] =>
    match i.toNat?, p.toNat? with
    | some i, some p =>
      match setPrio z i p with
      | some z' =>
        let same := (sortBy true z.subs).map (·.id) == (sortBy true z'.subs).map (·.id)
        let unchanged := z.subs.any fun x => x.id == i && x.prio == p
        (z', "ok " ++ showSess z' [] ++ tagStr ["setprio:ok",
          if unchanged then "setprio:same-value" else if same then "setprio:order-unchanged" else "setprio:order-changed"])
      | none => (z, "err nosub" ++ tagStr ["setprio:nosub"])
    | _, _ => (z, "bad-op")
  | ["remove", i] =>
    match i.toNat? with
    | some i =>
      let (z', was) := remove z i
      (z', s!"ok res={if was then "removed" else "none"} " ++ showSess z' []
        ++ tagStr [if was then "remove:removed" else "remove:none"] )
    | none => (z, "bad-op")
  | ["add", i, p, t, ka, life] =>
    match i.toNat?, p.toNat?, t.toNat?, ka.toNat?, life.toNat? with
    | some i, some p, some t, some ka, some life =>
      let z' := add z { id := i, prio := p, s := C22.mk life ka true (t != 0) }
      (z', "ok " ++ showSess z' [] ++ tagStr [if z.subs.any (fun x => x.id == i) then "add:replace" else "add:new"])
    | _, _, _, _, _ => (z, "bad-op")
  | _ => (z, "bad-op")

def driver : Driver := { σ := MSess, init := { subs := [], reqs := [] }, step := dstep }

end OpcuaVerif.C27
