import OpcuaVerif.Common
import OpcuaVerif.Model.C27
import OpcuaVerif.Drv.C22

namespace OpcuaVerif.C27

open OpcuaVerif.C22 (stateNum msgStr)

def showEntry (x : Entry) : String :=
  s!"{x.id}:p{x.prio}:{stateNum x.s.state}:{x.s.life}:{x.s.ka}:{x.s.notifs.length}"

def showResps (out : List MResp) : String :=
  "[" ++ ",".intercalate (out.map fun r => s!"{r.rid}:{r.sub}:{msgStr r.kind}:{r.seq}") ++ "]"

def showSess (z : MSess) (out : List MResp) : String :=
  "subs=[" ++ ",".intercalate (z.subs.map showEntry) ++ "] rq=" ++ natList z.reqs ++ " resp=" ++ showResps out

def mkEntries : List Nat → List Nat → List Nat → Nat → Nat → List Entry
  | i :: is, p :: ps, t :: ts, ka, life =>
    insertById { id := i, prio := p, s := C22.mk life ka true (t != 0) } (mkEntries is ps ts ka life)
  | _, _, _, _, _ => []

def dstep (z : MSess) (toks : List String) : MSess × String :=
  match toks with
  | ["reset", ids, prios, items, ka, life] =>
    match parseNatList? ids, parseNatList? prios, parseNatList? items, ka.toNat?, life.toNat? with
    | some ids, some prios, some items, some ka, some life =>
      if ids.length = prios.length ∧ ids.length = items.length then
        let z : MSess := { subs := mkEntries ids prios items ka life, reqs := [] }
        (z, "ok " ++ showSess z [])
      else (z, "bad-op")
    | _, _, _, _, _ => (z, "bad-op")
  | ["timer", e, w] =>
    match parseBool? e, parseBool? w with
    | some e, some w =>
      match tick (if w then write z else z) true e with
      | some (z', out, _) => (z', "ok " ++ showSess z' out)
      | none => (z, "panic")
    | _, _ => (z, "bad-op")
  | ["pub", r] =>
    match r.toNat? with
    | some r =>
      match publish z r with
      | .ok z' out => (z', "ok res=ok " ++ showSess z' out)
      | .tooMany z' out => (z', "ok res=toomany " ++ showSess z' out)
      | .panic => (z, "panic")
    | none => (z, "bad-op")
  | ["setprio", i, p] =>
    match i.toNat?, p.toNat? with
    | some i, some p =>
      match setPrio z i p with
      | some z' => (z', "ok " ++ showSess z' [])
      | none => (z, "err nosub")
    | _, _ => (z, "bad-op")
  | ["remove", i] =>
    match i.toNat? with
    | some i =>
      let (z', was) := remove z i
      (z', s!"ok res={if was then "removed" else "none"} " ++ showSess z' [])
    | none => (z, "bad-op")
  | ["add", i, p, t, ka, life] =>
    match i.toNat?, p.toNat?, t.toNat?, ka.toNat?, life.toNat? with
    | some i, some p, some t, some ka, some life =>
      let z' := add z { id := i, prio := p, s := C22.mk life ka true (t != 0) }
      (z', "ok " ++ showSess z' [])
    | _, _, _, _, _ => (z, "bad-op")
  | _ => (z, "bad-op")

def driver : Driver := { σ := MSess, init := { subs := [], reqs := [] }, step := dstep }

end OpcuaVerif.C27
