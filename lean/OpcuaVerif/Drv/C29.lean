import OpcuaVerif.Common
import OpcuaVerif.Model.C29
import OpcuaVerif.Drv.C28

namespace OpcuaVerif.C29
open OpcuaVerif.C28

/-- ordinary nodes the observation ranges over -/
def obsNodes : List Nat := [100, 101, 102, 103, 104, 105, 106, 107]

/-- `Aggregates` and its subtypes in the standard reference type hierarchy (the harness installs
exactly these HasSubtype references): HasProperty, HasComponent, HasOrderedComponent,
HasHistoricalConfiguration -/
def aggStd (t : Nat) : Bool := t == 44 || t == 46 || t == 47 || t == 49 || t == 56

def obsFwd (s : Refs) : List (Nat × Nat × Nat) :=
  obsNodes.flatMap fun a =>
    match findRefs s drvFuel a none with
    | some (some l) => (sortPairs l).map fun (t, b) => (a, t, b)
    | _ => []

def obsInv (s : Refs) : List (Nat × Nat × Nat) :=
  obsNodes.flatMap fun b =>
    match findInv s drvFuel b none with
    | some (some l) => (sortPairs l).map fun (t, a) => (a, t, b)
    | _ => []

def obs (sp : Space) : String :=
  s!"N={natList (obsNodes.filter fun n => sp.nodes.contains n)} F={showTriples (obsFwd sp.refs)} I={showTriples (obsInv sp.refs)}"

def dstep (sp : Space) (toks : List String) : Space × String :=
  match toks with
  | ["reset"] => (emptySpace, "ok")
  | ["node", n] =>
    match n.toNat? with
    | some n => let (sp', b) := insertNode sp n; (sp', s!"ok {boolStr b}")
    | none => (sp, "bad-op")
  | ["ref", a, b, t] =>
    match a.toNat?, b.toNat?, t.toNat? with
    | some a, some b, some t =>
      match insertRef sp.refs a b t with
      | some r => ({ sp with refs := r }, "ok")
      | none => (sp, "panic")
    | _, _, _ => (sp, "bad-op")
  | ["unref", a, b, t] =>
    match a.toNat?, b.toNat?, t.toNat? with
    | some a, some b, some t =>
      let (r, d) := deleteRef sp.refs a b t
      ({ sp with refs := r }, s!"ok {boolStr d}")
    | _, _, _ => (sp, "bad-op")
  | ["delete", n, d] =>
    match n.toNat?, parseBool? d with
    | some n, some d =>
      match delete aggStd sp n d with
      | some (sp', b) => (sp', s!"ok {boolStr b} " ++ obs sp')
      | none => (sp, "abort")
    | _, _ => (sp, "bad-op")
  | ["exists", n] =>
    match n.toNat? with
    | some n => (sp, s!"ok {boolStr (sp.nodes.contains n)}")
    | none => (sp, "bad-op")
  | ["aggs", n] =>
    match n.toNat? with
    | some n => (sp, "ok " ++ natList ((aggregatesOf aggStd sp n).mergeSort (fun a b => a ≤ b)))
    | none => (sp, "bad-op")
  | ["obs"] => (sp, "ok " ++ obs sp)
  | _ => (sp, "bad-op")

def driver : Driver := { σ := Space, init := emptySpace, step := dstep }

end OpcuaVerif.C29
