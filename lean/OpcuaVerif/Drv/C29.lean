import OpcuaVerif.Common
import OpcuaVerif.Model.C29
import OpcuaVerif.Drv.C28

namespace OpcuaVerif.C29
open OpcuaVerif.C28

/-- ordinary nodes the observation ranges over -/
def obsNodes : List Nat := [100, 101, 102, 103, 104, 105, 106, 107]

/-- `Aggregates` and its subtypes in the standard reference type hierarchy (the harness installs
exactly these HasSubtype references): HasProperty, HasComponent, HasOrderedComponent,
HasHistoricalConfiguration -/
def aggStd (t : Nat) : Bool := t == 44 || t == 46 || t == 47 || t == 49 || t == 56

def obsFwd (s : Refs) : List (Nat × Nat × Nat) :=
  obsNodes.flatMap fun a =>
    match findRefs s drvFuel a none with
    | some (some l) => (sortPairs l).map fun (t, b) => (a, t, b)
    | _ => []

def obsInv (s : Refs) : List (Nat × Nat × Nat) :=
  obsNodes.flatMap fun b =>
    match findInv s drvFuel b none with
    | some (some l) => (sortPairs l).map fun (t, a) => (a, t, b)
    | _ => []

def obs (sp : Space) : String :=
  s!"N={natList (obsNodes.filter fun n => sp.nodes.contains n)} F={showTriples (obsFwd sp.refs)} I={showTriples (obsInv sp.refs)}"

/-! ### arm tags -/

/-- aggregation closure of `n` by iteration (the universe has at most a dozen nodes) -/
def closureOf (sp : Space) (n : Nat) : List Nat :=
  let step := fun (acc : List Nat) =>
    acc.foldl (fun a x => (aggregatesOf aggStd sp x).foldl (fun a c => if a.contains c then a else a ++ [c]) a) acc
  (List.range 12).foldl (fun acc _ => step acc) [n]

def deleteArms (sp : Space) (n : Nat) (dtr flag : Bool) : String :=
  let cl := closureOf sp n
  let kids := aggregatesOf aggStd sp n
  let cyclic := cl.any fun x => (aggregatesOf aggStd sp x).any fun c => (closureOf sp c).contains x
  let parentsOf := fun c => (cl.filter fun x => (aggregatesOf aggStd sp x).contains c).length
  let shared := cl.any fun c => parentsOf c > 1
  let shape := if cyclic then "cycle" else if shared then "shared" else if cl.length > 1 then "tree" else "leaf"
  let selfCycle := kids.any fun c => (closureOf sp c).contains n
  s!"delete-{shape}-dtr{boolStr dtr}" ++
  (if sp.nodes.contains n then ",delete-node-existing" else ",delete-node-absent") ++
  (if flag then ",delete-flag-1" else ",delete-flag-0") ++
  (if kids.length = 0 then ",delete-children-0" else if kids.length = 1 then ",delete-children-1" else ",delete-children-many") ++
  (if selfCycle then ",delete-on-cycle" else "") ++
  (if cl.any (fun x => !sp.nodes.contains x) then ",delete-closure-has-absent-node" else "") ++
  (if cl.length ≥ 4 then ",delete-closure-4plus" else "") ++
  (if (sp.refs.inv.get n).isSome then ",delete-referenced" else ",delete-unreferenced") ++
  (if kids.any (fun c => (kids.filter (· == c)).length > 1) then ",delete-child-twice" else "")

def dstep (sp : Space) (toks : List String) : Space × String :=
  match toks with
  | ["reset"] => (emptySpace, "ok")
  | ["node", n] =>
    match n.toNat? with
    | some n => let (sp', b) := insertNode sp n; (sp', s!"ok {boolStr b} @@ node-{boolStr b}")
    | none => (sp, "bad-op")
  | ["ref", a, b, t] =>
    match a.toNat?, b.toNat?, t.toNat? with
    | some a, some b, some t =>
      match insertRef sp.refs a b t with
      | some r => ({ sp with refs := r }, "ok @@ " ++ (if aggStd t then s!"ref-agg-{t}" else s!"ref-nonagg-{t}"))
      | none => (sp, "panic")
    | _, _, _ => (sp, "bad-op")
  | ["refs", l] =>
    match parseTriples? l with
    | some l =>
      match insertReferences sp l with
      | some sp' => (sp', "ok " ++ obs sp' ++ " @@ " ++ batchArms "refs" sp.refs l)
      | none => (sp, "panic")
    | none => (sp, "bad-op")
  | ["nodewith", n, l] =>
    match n.toNat?, parseEntries? l with
    | some n, some l =>
      match insertNodeWith sp n l with
      | some (sp', b) => (sp', s!"ok {boolStr b} " ++ obs sp' ++ " @@ " ++ (if b then "nodewith-new," else "nodewith-refused,") ++
          batchArms "nodewith" sp.refs (l.map fun (node, t, inv) => if inv then (node, n, t) else (n, node, t)))
      | none => (sp, "panic")
    | _, _ => (sp, "bad-op")
  | ["unref", a, b, t] =>
    match a.toNat?, b.toNat?, t.toNat? with
    | some a, some b, some t =>
      let (r, d) := deleteRef sp.refs a b t
      ({ sp with refs := r }, s!"ok {boolStr d} @@ unref-{boolStr d}")
    | _, _, _ => (sp, "bad-op")
  | ["delete", n, d] =>
    match n.toNat?, parseBool? d with
    | some n, some d =>
      match delete aggStd sp n d with
      | some (sp', b) => (sp', s!"ok {boolStr b} " ++ obs sp' ++ " @@ " ++ deleteArms sp n d b)
      | none => (sp, "abort")
    | _, _ => (sp, "bad-op")
  | ["exists", n] =>
    match n.toNat? with
    | some n => (sp, s!"ok {boolStr (sp.nodes.contains n)} @@ exists-{boolStr (sp.nodes.contains n)}")
    | none => (sp, "bad-op")
  | ["aggs", n] =>
    match n.toNat? with
    | some n => (sp, "ok " ++ natList ((aggregatesOf aggStd sp n).mergeSort (fun a b => a ≤ b)) ++
        (if (aggregatesOf aggStd sp n).isEmpty then " @@ aggs-empty" else " @@ aggs-some"))
    | none => (sp, "bad-op")
  | ["obs"] => (sp, "ok " ++ obs sp)
  | _ => (sp, "bad-op")

def driver : Driver := { σ := Space, init := emptySpace, step := dstep }

end OpcuaVerif.C29
