import OpcuaVerif.Common
import OpcuaVerif.Model.C25

namespace OpcuaVerif.C25

structure DState where
  it : Option Item

def hexNatAux : List Char → Nat → Option Nat
  | [], acc => some acc
  | c :: r, acc => match hexDigit c with
    | some d => hexNatAux r (16 * acc + d)
    | none => none

/-- `f3ff0…` → the number after the one-letter prefix; exactly `width` hex digits required -/
def hexNat? (s : String) (width : Nat) : Option Nat :=
  let cs := s.toList.drop 1
  if cs.length = width then hexNatAux cs 0 else none

def hexFixedAux : Nat → Nat → List Char → List Char
  | 0, _, acc => acc
  | w + 1, n, acc => hexFixedAux w (n / 16) (nibble (n % 16) :: acc)

def hexFixed (n width : Nat) : String := String.ofList (hexFixedAux width n [])

def parseVal? (s : String) : Option Val :=
  match s.toList with
  | ['-'] => some .null
  | 'i' :: r =>
    match (String.ofList r).splitOn ":" with
    | [k, v] => match k.toNat?, parseInt? v with
      | some k, some v => some (.int k v)
      | _, _ => none
    | _ => none
  | 'g' :: _ => (hexNat? s 8).map .flt
  | 'f' :: _ => (hexNat? s 16).map .dbl
  | 's' :: r => (hexToBytes (String.ofList r)).map .str
  | ['b', '0'] => some (.bool false)
  | ['b', '1'] => some (.bool true)
  | _ => none

def showVal : Val → String
  | .null => "-"
  | .int k v => s!"i{k}:{v}"
  | .flt b => "g" ++ hexFixed b 8
  | .dbl b => "f" ++ hexFixed b 16
  | .str bs => "s" ++ bytesToHex bs
  | .bool b => if b then "b1" else "b0"

def parseOptNat? (s : String) : Option (Option Nat) :=
  if s = "-" then some none else s.toNat?.map some

def parseOptInt? (s : String) : Option (Option Int) :=
  if s = "-" then some none else (parseInt? s).map some

def showOpt {α} [ToString α] : Option α → String
  | none => "-"
  | some x => toString x

def showSample (s : Sample) : String :=
  showOpt s.status ++ "/" ++ showVal s.value ++ "/" ++ showOpt s.src ++ "/" ++ showOpt s.srv

def showOptSample : Option Sample → String
  | none => "none"
  | some s => showSample s

def parseFilter? (fk tr dt dv : String) : Option (Option DCF) :=
  if fk = "none" then some none
  else if fk = "dcf" then
    match tr.toNat?, dt.toNat?, hexNat? dv 16 with
    | some tr, some dt, some dv => some (some { trigger := tr, dbType := dt, dbVal := dv })
    | _, _, _ => none
  else none

def errName : CreateErr → String
  | .unexpected => "BadUnexpectedError"
  | .unsupported => "BadMonitoredItemFilterUnsupported"
  | .deadbandInvalid => "BadDeadbandFilterInvalid"

def dstep (s : DState) (toks : List String) : DState × String :=
  match toks with
  | ["reset", ttr, fk, tr, dt, dv] =>
    match ttr.toNat?, parseFilter? fk tr dt dv with
    | some ttr, some f =>
      match create current ttr f with
      | .ok it => ({ it := some it }, "ok")
      | .error e => ({ it := none }, "err " ++ errName e)
    | _, _ => ({ it := none }, "bad-op")
  | ["modify", ttr, fk, tr, dt, dv] =>
    match s.it, ttr.toNat?, parseFilter? fk tr dt dv with
    | some it, some ttr, some f =>
      match modify current it ttr f with
      | (it, none) => ({ it := some it }, "ok")
      | (it, some e) => ({ it := some it }, "err " ++ errName e)
    | none, some _, some _ => (s, "err no-item")
    | _, _, _ => (s, "bad-op")
  | ["sample", st, v, src, srv] =>
    match parseOptNat? st, parseVal? v, parseOptInt? src, parseOptInt? srv with
    | some st, some v, some src, some srv =>
      match s.it with
      | none => (s, "err no-item")
      | some it =>
        let (it', n) := sample current it { status := st, value := v, src := src, srv := srv }
        ({ it := some it' },
          s!"ok rep={boolStr n.isSome} n={showOptSample n} last={showOptSample it'.last}")
    | _, _, _, _ => (s, "bad-op")
  | _ => (s, "bad-op")

def driver : Driver := { σ := DState, init := { it := none }, step := dstep }

end OpcuaVerif.C25
