import OpcuaVerif.Common
import OpcuaVerif.Model.C25

namespace OpcuaVerif.C25

structure DState where
  it : Option Item

def hexNatAux : List Char → Nat → Option Nat
  | [], acc => some acc
  | c :: r, acc => match hexDigit c with
    | some d => hexNatAux r (16 * acc + d)
    | none => none

/-- `f3ff0…` → the number after the one-letter prefix; exactly `width` hex digits required -/
def hexNat? (s : String) (width : Nat) : Option Nat :=
  let cs := s.toList.drop 1
  if cs.length = width then hexNatAux cs 0 else none

def hexFixedAux : Nat → Nat → List Char → List Char
  | 0, _, acc => acc
  | w + 1, n, acc => hexFixedAux w (n / 16) (nibble (n % 16) :: acc)

def hexFixed (n width : Nat) : String := String.ofList (hexFixedAux width n [])

def parseVal? (s : String) : Option Val :=
  match s.toList with
  | ['-'] => some .null
  | 'i' :: r =>
    match (String.ofList r).splitOn ":" with
    | [k, v] => match k.toNat?, parseInt? v with
      | some k, some v => some (.int k v)
      | _, _ => none
    | _ => none
  | 'g' :: _ => (hexNat? s 8).map .flt
  | 'f' :: _ => (hexNat? s 16).map .dbl
  | 's' :: r => (hexToBytes (String.ofList r)).map .str
  | ['b', '0'] => some (.bool false)
  | ['b', '1'] => some (.bool true)
  | _ => none

def showVal : Val → String
  | .null => "-"
  | .int k v => s!"i{k}:{v}"
  | .flt b => "g" ++ hexFixed b 8
  | .dbl b => "f" ++ hexFixed b 16
  | .str bs => "s" ++ bytesToHex bs
  | .bool b => if b then "b1" else "b0"

def parseOptNat? (s : String) : Option (Option Nat) :=
  if s = "-" then some none else s.toNat?.map some

def parseOptInt? (s : String) : Option (Option Int) :=
  if s = "-" then some none else (parseInt? s).map some

def showOpt {α} [ToString α] : Option α → String
  | none => "-"
  | some x => toString x

def showSample (s : Sample) : String :=
  showOpt s.status ++ "/" ++ showVal s.value ++ "/" ++ showOpt s.src ++ "/" ++ showOpt s.srv

def showOptSample : Option Sample → String
  | none => "none"
  | some s => showSample s

def parseFilter? (fk tr dt dv : String) : Option FilterReq :=
  if fk = "none" then some .none
  else match tr.toNat?, dt.toNat?, hexNat? dv 16 with
    | some tr, some dt, some dv =>
      let f : DCF := { trigger := tr, dbType := dt, dbVal := dv }
      if fk = "dcf" then some (.dcf f)
      else if fk = "badtype" then some .otherObject
      else if fk = "nonobj" then some .notObject
      else if fk = "nobody" then some (.noBody f)
      else if fk.startsWith "len" then ((fk.drop 3).toNat?).map (fun n => .sized f n)
      else none
    | _, _, _ => none

def errName : CreateErr → String
  | .unexpected => "BadUnexpectedError"
  | .unsupported => "BadMonitoredItemFilterUnsupported"
  | .deadbandInvalid => "BadDeadbandFilterInvalid"
  | .notAllowed => "BadFilterNotAllowed"
  | .decoding => "BadDecodingError"

/-! ### arm tags (which branches of the model an op took; see GUIDE "Arm coverage") -/

def fClass : F → String
  | .nan => "nan"
  | .inf _ => "inf"
  | .fin _ m _ => if m = 0 then "zero" else "fin"

/-- how the rounding of an exact dyadic went -/
def roundClass (m : Nat) (e : Int) : String :=
  if m = 0 then "r-zero"
  else
    let q : Int := max (e + Int.ofNat (bitlen m) - 53) (-1074)
    if q ≤ e then (if e + Int.ofNat (bitlen m) > 1024 then "r-overflow" else "r-exact")
    else
      let sh := (q - e).toNat
      let mant := m / 2 ^ sh
      let rem := m % 2 ^ sh
      let half := 2 ^ (sh - 1)
      let mant' := if rem > half ∨ (rem = half ∧ mant % 2 = 1) then mant + 1 else mant
      if q + Int.ofNat (bitlen mant') > 1024 then "r-overflow"
      else if rem = 0 then "r-exact-shift" else if rem = half then "r-tie" else if rem > half then "r-up" else "r-down"

def subRoundClass : F → F → String
  | .fin n1 m1 e1, .fin n2 m2 e2 =>
    let lo := min e1 e2
    let d : Int := signed n1 (scale m1 e1 lo) - signed n2 (scale m2 e2 lo)
    roundClass d.natAbs lo
  | _, _ => "r-special"

def kindTag : Val → String
  | .null => "k-null"
  | .int k v => s!"k-int{k}" ++ (if v.natAbs > 2 ^ 53 then ",k-int-beyond-2^53" else "")
  | .flt _ => "k-flt"
  | .dbl _ => "k-dbl"
  | .str _ => "k-str"
  | .bool _ => "k-bool"

/-- arms of `compare_value_option` / `compare_value` / `abs_compare` -/
def valueArms (f : DCF) (v l : Val) : String :=
  match v, l with
  | .null, .null => "v-null-null"
  | .null, _ => "v-null-some"
  | _, .null => "v-some-null"
  | v, l =>
    if f.dbType = 0 then (if veq v l then (if v = l then "v-plain-eq" else "v-plain-eq,v-plain-eq-other-bits") else "v-plain-ne")
    else match asF64 v, asF64 l with
      | some a, some b =>
        let d := decode64 f.dbVal
        if flt0 d then "v-err-negative"
        else if f.dbType = 1 then
          let diff := fabs (fsub a b)
          let cls :=
            if diff = .nan then "v-abs-nan"
            else if fle diff d && fle d diff then "v-abs-eq-deadband"
            else if fle diff d then "v-abs-within"
            else "v-abs-beyond"
          cls ++ "," ++ subRoundClass a b ++ ",d-" ++ fClass d
        else "v-err-type"
      | some _, none => "v-mixed-" ++ (if veq v l then "eq" else "ne")
      | none, some _ => "v-mixed-" ++ (if veq v l then "eq" else "ne")
      | none, none => if veq v l then "v-nonnum-eq" else "v-nonnum-ne"

def sampleArms (it : Item) (s : Sample) (reported : Bool) : String :=
  let base := kindTag s.value ++ "," ++ (if reported then s!"rep,ttr{min it.ttr 4}" else "norep")
  match it.last with
  | none => base ++ ",s-first"
  | some l =>
    match it.filter with
    | .none => base ++ ",nf-" ++ (if optEq s.value l.value then "same" else "diff")
    | .dcf f =>
      let st := if s.status = l.status then "st-same" else "st-diff"
      let t := s!"t{f.trigger}"
      if f.trigger = 0 then base ++ s!",{t},{st}"
      else
        let va := if s.status = l.status then "," ++ valueArms f s.value l.value else ""
        let ts := if f.trigger = 2 ∧ s.status = l.status ∧ compareValueOption current f s.value l.value then
            (if s.src ≠ l.src then ",ts-src-diff" else if s.srv ≠ l.srv then ",ts-srv-diff" else ",ts-same")
          else ""
        base ++ s!",{t},{st}" ++ va ++ ts

def dcfArms (f : DCF) : String :=
  let d := decode64 f.dbVal
  let tr := if f.trigger > 2 then "f-trigger-bad" else s!"f-trigger{f.trigger}"
  let ty := if f.dbType = 0 then "f-db-none" else if f.dbType = 1 then "f-db-abs"
    else if f.dbType = 2 then "f-db-percent" else "f-db-unknown"
  let dv := if f.dbType = 0 then "" else
    "," ++ (match d with
      | .nan => "f-d-nan"
      | .inf n => if n then "f-d-neginf" else "f-d-posinf"
      | .fin n m _ => if m = 0 then (if n then "f-d-negzero" else "f-d-zero") else if n then "f-d-negative" else "f-d-positive")
  tr ++ "," ++ ty ++ dv

def filterArms : FilterReq → String
  | .none => "f-none"
  | .dcf f => dcfArms f
  | .otherObject => "f-other-object"
  | .notObject => "f-not-object"
  | .noBody _ => "f-no-body"
  | .sized f len =>
    (if len < 4 then "f-len-lt4" else if len < 16 then (if len = 15 then "f-len-15" else "f-len-4to14")
     else if len = 16 then "f-len-16" else "f-len-gt16") ++ "," ++ dcfArms f

def dstep (s : DState) (toks : List String) : DState × String :=
  match toks with
  | ["reset", ttr, fk, tr, dt, dv] =>
    match ttr.toNat?, parseFilter? fk tr dt dv with
    | some ttr, some f =>
      match createReq current ttr f with
      | .ok it => ({ it := some it }, "ok @@ cr-ok," ++ filterArms f)
      | .error e => ({ it := none }, "err " ++ errName e ++ " @@ cr-err-" ++ errName e ++ "," ++ filterArms f)
    | _, _ => ({ it := none }, "bad-op")
  | ["modify", ttr, fk, tr, dt, dv] =>
    match s.it, ttr.toNat?, parseFilter? fk tr dt dv with
    | some it, some ttr, some f =>
      match modifyReq current it ttr f with
      | (it, none) => ({ it := some it }, "ok @@ mod-ok," ++ filterArms f)
      | (it, some e) => ({ it := some it }, "err " ++ errName e ++ " @@ mod-err-" ++ errName e ++ "," ++ filterArms f)
    | none, some _, some _ => (s, "err no-item @@ mod-no-item")
    | _, _, _ => (s, "bad-op")
  | ["sample", st, v, src, srv] =>
    match parseOptNat? st, parseVal? v, parseOptInt? src, parseOptInt? srv with
    | some st, some v, some src, some srv =>
      match s.it with
      | none => (s, "err no-item @@ s-no-item")
      | some it =>
        let smp : Sample := { status := st, value := v, src := src, srv := srv }
        let (it', n) := sample current it smp
        ({ it := some it' },
          s!"ok rep={boolStr n.isSome} n={showOptSample n} last={showOptSample it'.last} @@ " ++
            sampleArms it smp n.isSome)
    | _, _, _, _ => (s, "bad-op")
  | _ => (s, "bad-op")

def driver : Driver := { σ := DState, init := { it := none }, step := dstep }

end OpcuaVerif.C25
