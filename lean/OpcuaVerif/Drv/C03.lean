import OpcuaVerif.Drv.EncDrv

/-! C03 — driver: the shared codec driver (`Drv/EncDrv.lean`). -/
namespace OpcuaVerif.C03

def driver : OpcuaVerif.Driver := OpcuaVerif.Enc.encDriver

end OpcuaVerif.C03
