import OpcuaVerif.Drv.EncArms

/-! C03 — driver: the shared codec driver (`Drv/EncDrv.lean`) with arm tags (`Drv/EncArms.lean`). -/
namespace OpcuaVerif.C03

def driver : OpcuaVerif.Driver := OpcuaVerif.Enc.encDriverA

end OpcuaVerif.C03
