import OpcuaVerif.Common
import OpcuaVerif.Model.C20

namespace OpcuaVerif.C20

structure DState where
  st : St
  pol : Nat

def bit (bits k : Nat) : Bool := bits / 2 ^ k % 2 == 1

/-- the configuration universe of the harness (`harness/src/props/c20.rs::install_config`):
token ids 0 = ANONYMOUS, 1..3 = user/password users, 4..5 = x509 users, 6 = an id without a user
entry; iteration order of the endpoint's BTreeSet of id strings is ANONYMOUS, ghost, u1, u2, u3, x1, x2 -/
def mkCfg (pol bits : Nat) : Cfg :=
  let ids := (if bit bits 0 then [0] else []) ++ (if bit bits 6 then [6] else []) ++
    (if bit bits 1 then [1] else []) ++ (if bit bits 2 then [2] else []) ++ (if bit bits 3 then [3] else []) ++
    (if bit bits 4 then [4] else []) ++ (if bit bits 5 then [5] else [])
  { endpointOk := !bit bits 7,
    tokenIds := ids,
    users := [(1, .userpass 1 (some 1)), (2, .userpass 2 none), (3, .userpass 3 (some 2)),
              (4, .x509 (if bit bits 11 then none else some 1)), (5, .x509 (some 2))],
    pwPolicyId := if bit bits 8 then 3 else (if pol = 0 then 1 else if pol = 1 then 2 else 3),
    hasKey := !bit bits 9,
    hasCert := !bit bits 10,
    secured := pol != 0 }

def Status.name : Status → String
  | .BadTcpEndpointUrlInvalid => "BadTcpEndpointUrlInvalid"
  | .BadIdentityTokenInvalid => "BadIdentityTokenInvalid"
  | .BadIdentityTokenRejected => "BadIdentityTokenRejected"
  | .BadUserAccessDenied => "BadUserAccessDenied"
  | .BadDecodingError => "BadDecodingError"
  | .BadSecurityChecksFailed => "BadSecurityChecksFailed"
  | .BadUnexpectedError => "BadUnexpectedError"
  | .BadCertificateInvalid => "BadCertificateInvalid"
  | .BadSessionIdInvalid => "BadSessionIdInvalid"

/-- nonce index of an op → nonce value (an index not handed out yet is a nonce the server never issued) -/
def nonceAt (s : St) (k : Nat) : Nat :=
  match s.handed[k]? with
  | some v => v
  | none => 1000000 + k

/-- nonce argument of an op: `c` = the current nonce of session `i`, a number = index into the
nonces handed out so far -/
def nonceSpec? (s : St) (i : Nat) (a : String) : Option Nat :=
  if a = "c" then (s.sessions[i]?).map (·.nonce) else a.toNat?.map (nonceAt s)

def parseAlg? (s : String) : Option Alg :=
  if s = "0" then some .rsa15 else if s = "1" then some .oaep else if s = "2" then some .oaep256
  else if s = "3" then some .unknown else none

def parseTok? (s : St) (i : Nat) : List String → Option IdTok
  | ["empty"] => some .empty
  | ["anon", pid] => pid.toNat?.map .anon
  | ["user", pid, name, "p", pw, e] => do
    let name ← name.toNat?
    some (.user (← pid.toNat?) (if name = 0 then none else some name) (.plain (← pw.toNat?) (e == "1")))
  | ["user", pid, name, "b"] => do
    let name ← name.toNat?
    some (.user (← pid.toNat?) (if name = 0 then none else some name) .plainBad)
  | ["user", pid, name, "e", d, u, pw, k] => do
    let name ← name.toNat?
    some (.user (← pid.toNat?) (if name = 0 then none else some name)
      (.enc (← parseAlg? d) (← parseAlg? u) (← pw.toNat?) (← nonceSpec? s i k)))
  | ["x509", pid, cert, "s", key, k] => do
    let cert ← cert.toNat?
    some (.x509 (← pid.toNat?) (if cert = 0 then none else some cert) (.by (← key.toNat?) (← nonceSpec? s i k)))
  | ["x509", pid, cert, "g"] => do
    let cert ← cert.toNat?
    some (.x509 (← pid.toNat?) (if cert = 0 then none else some cert) .garbage)
  | ["x509", pid, cert, "n"] => do
    let cert ← cert.toNat?
    some (.x509 (← pid.toNat?) (if cert = 0 then none else some cert) .null)
  | ["invalid"] => some .invalid
  | ["invalid", _] => some .invalid
  | _ => none

def showNonce (pol : Nat) (v : Nat) : String :=
  if v = 0 then "null" else if pol = 1 then "len=16" else "len=32"

/-- index of the latest handed-out nonce equal to `v` -/
def lastIdx (l : List Nat) (v : Nat) : Option Nat :=
  let r := l.reverse.findIdx? (· == v)
  r.map (fun i => l.length - 1 - i)

def probe (s : St) : String :=
  "[" ++ ",".intercalate (s.sessions.map fun x =>
    boolStr x.activated ++ ":" ++ (match lastIdx s.handed x.nonce with
      | some k => toString k
      | none => "?")) ++ "]"

/-! ### arm tags: which guard of `activate_session` / `authenticate_endpoint` decided (mirrors the
order of `activateStatus` / `authTok`; used only to measure what the generated ops reach) -/

def nonceKind (st : St) (x : Sess) (v : Nat) : String :=
  if v = x.nonce then "current"
  else if v ≥ 1000000 then "unissued"
  else if st.sessions.any (fun y => y.nonce == v) then "other-session"
  else "earlier"

def algName : Alg → String
  | .rsa15 => "rsa15" | .oaep => "oaep" | .oaep256 => "oaep256" | .unknown => "unknown"

def userReason (c : Cfg) (nm p : Nat) : String :=
  match matchUser c nm p c.tokenIds with
  | .ok _ => if p = 0 then "user-ok-empty-password" else "user-ok"
  | .error _ =>
    if c.tokenIds.any (fun id => match lookupUser c id with
        | some (.userpass n _) => n == nm
        | _ => false)
    then "user-wrong-password"
    else if c.users.any (fun u => match u.2 with
        | .userpass n _ => n == nm
        | _ => false) then "user-not-on-endpoint" else "user-unknown"

def tokReason (st : St) (c : Cfg) (x : Sess) : IdTok → List String
  | .invalid => ["tok-invalid"]
  | .empty => [if supportsAnonymous c then "empty-ok" else "empty-anon-not-allowed"]
  | .anon pid =>
    [if pid ≠ pidAnonymous then "anon-wrong-policy-id"
     else if supportsAnonymous c then "anon-ok" else "anon-not-allowed"]
  | .user pid name pw =>
    let pwTags : List String := match pw with
      | .plain _ e => [if e then "pw-plain-empty-alg" else "pw-plain"]
      | .plainBad => ["pw-plain-not-utf8"]
      | .enc d u _ n => ["pw-enc-decl-" ++ algName d, "pw-enc-used-" ++ algName u, "pw-enc-nonce-" ++ nonceKind st x n]
    pwTags ++
    [if !supportsUserPass c then "user-kind-not-allowed"
     else if pid ≠ c.pwPolicyId then "user-wrong-policy-id"
     else match name with
      | none => "user-name-null"
      | some nm =>
        match clearPassword c x.nonce pw with
        | .error .BadIdentityTokenInvalid => (match pw with
            | .enc d _ _ _ => if !c.hasKey then "pw-no-server-key" else if d = .unknown then "pw-unknown-algorithm" else "pw-invalid"
            | _ => "pw-no-server-key")
        | .error _ => (match pw with
            | .plainBad => "pw-not-utf8"
            | .enc d u _ n => if d ≠ u then "pw-padding-mismatch" else if n ≠ x.nonce then "pw-wrong-nonce" else "pw-decode-error"
            | _ => "pw-decode-error")
        | .ok p => userReason c nm p]
  | .x509 pid cert sig =>
    (match sig with
     | .by k n => ["sig-by-" ++ (if some k = cert then "own-key" else "other-key"), "sig-nonce-" ++ nonceKind st x n]
     | .garbage => ["sig-garbage"]
     | .null => ["sig-null"]) ++
    [if !supportsX509 c then "x509-kind-not-allowed"
     else if pid ≠ pidX509 then "x509-wrong-policy-id"
     else if !c.hasCert then "x509-no-server-cert"
     else match cert with
      | none => "x509-cert-unparsable"
      | some t =>
        if !sigValid sig t x.nonce then "x509-signature-invalid"
        else match matchThumb c t c.tokenIds with
          | .ok _ => "x509-ok"
          | .error _ => if c.users.any (fun u => u.2 == .x509 (some t)) then "x509-not-on-endpoint" else "x509-unknown-cert"]

def actTags (d : DState) (i : Nat) (cs : ClientSig) (tok : IdTok) : List String :=
  let c := d.st.cfg
  match d.st.sessions[i]? with
  | none => ["act-no-session"]
  | some x =>
    [s!"pol-{d.pol}", if x.activated then "act-again" else "act-first", s!"act-session-{min i 1}"] ++
    (if !c.endpointOk then ["endpoint-missing"]
     else
      (if c.secured then
        (if !c.hasCert then ["clientsig-no-server-cert"]
         else match cs with
          | .null => ["clientsig-null"]
          | .over n => [if n = x.nonce then "clientsig-current" else "clientsig-" ++ nonceKind d.st x n])
       else ["clientsig-not-needed"]) ++
      (if clientSigStatus c x.nonce cs = none then tokReason d.st c x tok else []))

def tagged (r : String) (tags : List String) : String :=
  if tags.isEmpty then r else r ++ " @@ " ++ ",".intercalate tags

def dstep (d : DState) (toks : List String) : DState × String :=
  match toks with
  | ["reset", pol, _mode, bits] =>
    match pol.toNat?, bits.toNat? with
    | some pol, some bits =>
      let st := St.init (mkCfg (min pol 5) bits)
      ({ st := st, pol := min pol 5 }, tagged ("ok | " ++ probe st)
        ((List.range 12).filterMap (fun k => if bit bits k then some s!"cfg-bit-{k}" else none)))
    | _, _ => (d, "bad-op")
  | ["create"] =>
    match step d.st .create with
    | (st, .created i k) => ({ d with st := st }, s!"ok {i} n{k} {showNonce d.pol (nonceAt st k)} | " ++ probe st)
    | (st, .fault e) => ({ d with st := st }, "err " ++ e.name ++ " | " ++ probe st)
    | (st, _) => ({ d with st := st }, "bad-op")
  | "act" :: i :: cs :: tok =>
    match i.toNat?.bind (fun i => (parseTok? d.st i tok).map (fun t => (i, t))) with
    | some (i, tok) =>
      let cs? : Option ClientSig := if cs = "x" then some .null else (nonceSpec? d.st i cs).map (fun v =>
        -- the harness cannot sign a null nonce: it then sends no signature
        if v = 0 then .null else .over v)
      match cs? with
      | none => (d, "bad-op")
      | some cs =>
        let tags := actTags d i cs tok
        match step d.st (.activate i cs tok) with
        | (st, .activated k) => ({ d with st := st }, tagged (s!"ok n{k} {showNonce d.pol (nonceAt st k)} | " ++ probe st) (tags ++ ["act-ok"]))
        | (st, .fault e) => ({ d with st := st }, tagged ("err " ++ e.name ++ " | " ++ probe st) (tags ++ ["act-" ++ e.name]))
        | (st, _) => ({ d with st := st }, "bad-op")
    | none => (d, "bad-op")
  | _ => (d, "bad-op")

def driver : Driver :=
  { σ := DState, init := { st := St.init (mkCfg 0 0), pol := 0 }, step := dstep }

end OpcuaVerif.C20
