import OpcuaVerif.Common
import OpcuaVerif.Model.C20

namespace OpcuaVerif.C20

structure DState where
  st : St
  pol : Nat

def bit (bits k : Nat) : Bool := bits / 2 ^ k % 2 == 1

/-- the configuration universe of the harness (`harness/src/props/c20.rs::install_config`):
token ids 0 = ANONYMOUS, 1..3 = user/password users, 4..5 = x509 users, 6 = an id without a user
entry; iteration order of the endpoint's BTreeSet of id strings is ANONYMOUS, ghost, u1, u2, u3, x1, x2 -/
def mkCfg (pol bits : Nat) : Cfg :=
  let ids := (if bit bits 0 then [0] else []) ++ (if bit bits 6 then [6] else []) ++
    (if bit bits 1 then [1] else []) ++ (if bit bits 2 then [2] else []) ++ (if bit bits 3 then [3] else []) ++
    (if bit bits 4 then [4] else []) ++ (if bit bits 5 then [5] else [])
  { endpointOk := !bit bits 7,
    tokenIds := ids,
    users := [(1, .userpass 1 (some 1)), (2, .userpass 2 none), (3, .userpass 3 (some 2)),
              (4, .x509 (if bit bits 11 then none else some 1)), (5, .x509 (some 2))],
    pwPolicyId := if bit bits 8 then 3 else (if pol = 0 then 1 else if pol = 1 then 2 else 3),
    hasKey := !bit bits 9,
    hasCert := !bit bits 10,
    secured := pol != 0 }

def Status.name : Status → String
  | .BadTcpEndpointUrlInvalid => "BadTcpEndpointUrlInvalid"
  | .BadIdentityTokenInvalid => "BadIdentityTokenInvalid"
  | .BadIdentityTokenRejected => "BadIdentityTokenRejected"
  | .BadUserAccessDenied => "BadUserAccessDenied"
  | .BadDecodingError => "BadDecodingError"
  | .BadSecurityChecksFailed => "BadSecurityChecksFailed"
  | .BadUnexpectedError => "BadUnexpectedError"
  | .BadCertificateInvalid => "BadCertificateInvalid"
  | .BadSessionIdInvalid => "BadSessionIdInvalid"

/-- nonce index of an op → nonce value (an index not handed out yet is a nonce the server never issued) -/
def nonceAt (s : St) (k : Nat) : Nat :=
  match s.handed[k]? with
  | some v => v
  | none => 1000000 + k

/-- nonce argument of an op: `c` = the current nonce of session `i`, a number = index into the
nonces handed out so far -/
def nonceSpec? (s : St) (i : Nat) (a : String) : Option Nat :=
  if a = "c" then (s.sessions[i]?).map (·.nonce) else a.toNat?.map (nonceAt s)

def parseAlg? (s : String) : Option Alg :=
  if s = "0" then some .rsa15 else if s = "1" then some .oaep else if s = "2" then some .oaep256
  else if s = "3" then some .unknown else none

def parseTok? (s : St) (i : Nat) : List String → Option IdTok
  | ["empty"] => some .empty
  | ["anon", pid] => pid.toNat?.map .anon
  | ["user", pid, name, "p", pw, e] => do
    let name ← name.toNat?
    some (.user (← pid.toNat?) (if name = 0 then none else some name) (.plain (← pw.toNat?) (e == "1")))
  | ["user", pid, name, "b"] => do
    let name ← name.toNat?
    some (.user (← pid.toNat?) (if name = 0 then none else some name) .plainBad)
  | ["user", pid, name, "e", d, u, pw, k] => do
    let name ← name.toNat?
    some (.user (← pid.toNat?) (if name = 0 then none else some name)
      (.enc (← parseAlg? d) (← parseAlg? u) (← pw.toNat?) (← nonceSpec? s i k)))
  | ["x509", pid, cert, "s", key, k] => do
    let cert ← cert.toNat?
    some (.x509 (← pid.toNat?) (if cert = 0 then none else some cert) (.by (← key.toNat?) (← nonceSpec? s i k)))
  | ["x509", pid, cert, "g"] => do
    let cert ← cert.toNat?
    some (.x509 (← pid.toNat?) (if cert = 0 then none else some cert) .garbage)
  | ["x509", pid, cert, "n"] => do
    let cert ← cert.toNat?
    some (.x509 (← pid.toNat?) (if cert = 0 then none else some cert) .null)
  | ["invalid"] => some .invalid
  | _ => none

def showNonce (pol : Nat) (v : Nat) : String :=
  if v = 0 then "null" else if pol = 1 then "len=16" else "len=32"

/-- index of the latest handed-out nonce equal to `v` -/
def lastIdx (l : List Nat) (v : Nat) : Option Nat :=
  let r := l.reverse.findIdx? (· == v)
  r.map (fun i => l.length - 1 - i)

def probe (s : St) : String :=
  "[" ++ ",".intercalate (s.sessions.map fun x =>
    boolStr x.activated ++ ":" ++ (match lastIdx s.handed x.nonce with
      | some k => toString k
      | none => "?")) ++ "]"

def dstep (d : DState) (toks : List String) : DState × String :=
  match toks with
  | ["reset", pol, _mode, bits] =>
    match pol.toNat?, bits.toNat? with
    | some pol, some bits =>
      let st := St.init (mkCfg (min pol 5) bits)
      ({ st := st, pol := min pol 5 }, "ok | " ++ probe st)
    | _, _ => (d, "bad-op")
  | ["create"] =>
    match step d.st .create with
    | (st, .created i k) => ({ d with st := st }, s!"ok {i} n{k} {showNonce d.pol (nonceAt st k)} | " ++ probe st)
    | (st, .fault e) => ({ d with st := st }, "err " ++ e.name ++ " | " ++ probe st)
    | (st, _) => ({ d with st := st }, "bad-op")
  | "act" :: i :: cs :: tok =>
    match i.toNat?.bind (fun i => (parseTok? d.st i tok).map (fun t => (i, t))) with
    | some (i, tok) =>
      let cs? : Option ClientSig := if cs = "x" then some .null else (nonceSpec? d.st i cs).map (fun v =>
        -- the harness cannot sign a null nonce: it then sends no signature
        if v = 0 then .null else .over v)
      match cs? with
      | none => (d, "bad-op")
      | some cs =>
        match step d.st (.activate i cs tok) with
        | (st, .activated k) => ({ d with st := st }, s!"ok n{k} {showNonce d.pol (nonceAt st k)} | " ++ probe st)
        | (st, .fault e) => ({ d with st := st }, "err " ++ e.name ++ " | " ++ probe st)
        | (st, _) => ({ d with st := st }, "bad-op")
    | none => (d, "bad-op")
  | _ => (d, "bad-op")

def driver : Driver :=
  { σ := DState, init := { st := St.init (mkCfg 0 0), pol := 0 }, step := dstep }

end OpcuaVerif.C20
