import OpcuaVerif.Common
import OpcuaVerif.Model.C38
import OpcuaVerif.Generated.LockEdges

namespace OpcuaVerif.C38

def decodeName (s : String) : Option String :=
  match s.toList with
  | 's' :: r => (hexToBytes (String.ofList r)).map (fun bs => String.ofList (bs.map Char.ofNat))
  | _ => none

def kinds : List String :=
  ["attr", "view", "subs", "nodes", "method", "two", "drop", "history", "items", "discovery", "transfer", "races",
   "close-race", "reconnect", "restart"]

def dstep (s : Unit) (toks : List String) : Unit × String :=
  match toks with
  | ["reset"] => (s, "ok")
  | ["work", k, tag] => (s, if kinds.contains k ∧ tag.toNat?.isSome then "ok" else "bad-op")
  | ["edge", h, a] =>
    match decodeName h, decodeName a with
    | some h, some a =>
      match classId Gen.classNames h, classId Gen.classNames a with
      | some h, some a =>
        match checkEdge Gen.rankTable h a with
        | .ranked => (s, "ok ranked")
        | .unranked => (s, "ok unranked")
        | .unknown => (s, "ok unknown")
      | _, _ => (s, "ok unknown")
    | _, _ => (s, "bad-op")
  | _ => (s, "bad-op")

def driver : Driver := { σ := Unit, init := (), step := dstep }

end OpcuaVerif.C38
