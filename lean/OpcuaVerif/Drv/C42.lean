import OpcuaVerif.Common
import OpcuaVerif.Model.TextIO
import OpcuaVerif.Model.C42

/-
Driver of C42.  Values and JSON trees travel as one token in a small term notation
`name` | `name(t1,t2,…)` | `name()`; see harness/src/props/c42.rs for the same notation.
-/
namespace OpcuaVerif.C42
open OpcuaVerif.Text OpcuaVerif.C04

def leafStr (n : List Char) : String := String.ofList n

/-! ### JSON trees -/

def hexNat (cs : List Char) : Option Nat :=
  cs.foldlM (fun a c => (hexDigit c).map fun d => 16 * a + d) 0

def hexPad (w n : Nat) : String :=
  let ds := (Nat.toDigits 16 n)
  String.ofList (List.replicate (w - ds.length) '0' ++ ds)

mutual
  def jsonOf : Tree → Option Json
    | .node ['n'] [] => some .null
    | .node ['t'] [] => some (.bool true)
    | .node ['f'] [] => some (.bool false)
    | .node ('i' :: r) [] => (parseInt? (String.ofList r)).map fun z => .num (.int z)
    | .node ('d' :: r) [] => (hexNat r).map fun b => .num (.flt b)
    | .node ('s' :: r) [] => (strTok? (String.ofList ('s' :: r))).map Json.str
    | .node ['a'] ks => (jsonList ks).map Json.arr
    | .node ['o'] ks => (jsonPairs ks).map Json.obj
    | _ => none
  def jsonList : List Tree → Option (List Json)
    | [] => some []
    | t :: ts =>
      match jsonOf t, jsonList ts with
      | some j, some js => some (j :: js)
      | _, _ => none
  def jsonPairs : List Tree → Option (List (List Char × Json))
    | [] => some []
    | [_] => none
    | .node k [] :: v :: ts =>
      match strTok? (String.ofList k), jsonOf v, jsonPairs ts with
      | some k, some j, some r => some ((k, j) :: r)
      | _, _, _ => none
    | _ :: _ :: _ => none
end

/-- insertion of a key/value into a list sorted by key (code point order, as `BTreeMap<String,_>`) -/
def insertKV (k : List Char) (v : String) : List (List Char × String) → List (List Char × String)
  | [] => [(k, v)]
  | (k', v') :: r => if k.map Char.toNat < k'.map Char.toNat then (k, v) :: (k', v') :: r else (k', v') :: insertKV k v r

mutual
  def jsonOut : Json → String
    | .null => "n"
    | .bool true => "t"
    | .bool false => "f"
    | .num (.int z) => s!"i{z}"
    | .num (.flt b) => "d" ++ hexPad 16 b
    | .str s => strOut s
    | .arr l => "a(" ++ ",".intercalate (jsonOutList l) ++ ")"
    | .obj kv =>
      let sorted := (jsonOutPairs kv).foldl (fun acc (k, v) => insertKV k v acc) []
      "o(" ++ ",".intercalate (sorted.map fun (k, v) => strOut k ++ "," ++ v) ++ ")"
  def jsonOutList : List Json → List String
    | [] => []
    | j :: js => jsonOut j :: jsonOutList js
  def jsonOutPairs : List (List Char × Json) → List (List Char × String)
    | [] => []
    | (k, j) :: r => (k, jsonOut j) :: jsonOutPairs r
end

/-! ### typed values -/

def natOf (n : List Char) : Option Nat := (String.ofList n).toNat?
def intOf (n : List Char) : Option Int := parseInt? (String.ofList n)

def optStrOf : Tree → Option (Option (List Char))
  | .node n [] => optStrTok? (String.ofList n)
  | _ => none

def optBytesOf : Tree → Option (Option (List Nat))
  | .node n [] => optBytesTok? (String.ofList n)
  | _ => none

def guidOf : Tree → Option (List Nat)
  | .node n [] => (bytesTok? (String.ofList n)).bind fun b => if b.length = 16 then some b else none
  | _ => none

def identOf (k v : Tree) : Option Ident :=
  match k with
  | .node ['i'] [] => match v with
    | .node n [] => (natOf n).map Ident.numeric
    | _ => none
  | .node ['s'] [] => (optStrOf v).map Ident.str
  | .node ['g'] [] => (guidOf v).map Ident.guid
  | .node ['b'] [] => (optBytesOf v).map Ident.bytes
  | _ => none

def nodeIdOf : Tree → Option NodeId
  | .node ['N'] [.node ns [], k, v] =>
    match natOf ns, identOf k v with
    | some ns, some i => some ⟨ns, i⟩
    | _, _ => none
  | _ => none

def expOf : Tree → Option ExpNodeId
  | .node ['E'] [.node svr [], uri, .node ns [], k, v] =>
    match natOf svr, optStrOf uri, natOf ns, identOf k v with
    | some svr, some uri, some ns, some i => some ⟨⟨ns, i⟩, uri, svr⟩
    | _, _, _, _ => none
  | _ => none

def dtOf : Tree → Option DT
  | .node ['T'] [.node s [], .node n []] =>
    match intOf s, natOf n with
    | some s, some n => some ⟨s, n⟩
    | _, _ => none
  | _ => none

def qnOf : Tree → Option QName
  | .node ['Q'] [.node ns [], name] =>
    match natOf ns, optStrOf name with
    | some ns, some name => some ⟨ns, name⟩
    | _, _ => none
  | _ => none

def ltOf : Tree → Option LText
  | .node ['L'] [l, t] =>
    match optStrOf l, optStrOf t with
    | some l, some t => some ⟨l, t⟩
    | _, _ => none
  | _ => none

def optOf {α : Type} (f : Tree → Option α) : Tree → Option (Option α)
  | .node ['-'] [] => some none
  | t => (f t).map some

def natLeaf : Tree → Option Nat
  | .node n [] => natOf n
  | _ => none

def intLeaf : Tree → Option Int
  | .node n [] => intOf n
  | _ => none

def hexLeaf : Tree → Option Nat
  | .node n [] => hexNat n
  | _ => none

mutual
  def varOf : Tree → Option Var
    | .node ['e'] [] => some .empty
    | .node ['b'] [.node ['1'] []] => some (.bool true)
    | .node ['b'] [.node ['0'] []] => some (.bool false)
    | .node ['i', '8'] [v] => (intLeaf v).map Var.sbyte
    | .node ['u', '8'] [v] => (intLeaf v).map Var.byte
    | .node ['i', '1', '6'] [v] => (intLeaf v).map Var.i16
    | .node ['u', '1', '6'] [v] => (intLeaf v).map Var.u16
    | .node ['i', '3', '2'] [v] => (intLeaf v).map Var.i32
    | .node ['u', '3', '2'] [v] => (intLeaf v).map Var.u32
    | .node ['i', '6', '4'] [v] => (intLeaf v).map Var.i64
    | .node ['u', '6', '4'] [v] => (intLeaf v).map Var.u64
    | .node ['f', '3', '2'] [v] => (hexLeaf v).map Var.float
    | .node ['f', '6', '4'] [v] => (hexLeaf v).map Var.double
    | .node ['s', 't', 'r'] [v] => (optStrOf v).map Var.string
    | .node ['d', 't'] [v] => (dtOf v).map Var.dateTime
    | .node ['g', 'u', 'i', 'd'] [v] => (guidOf v).map Var.guid
    | .node ['b', 's'] [v] => (optBytesOf v).map Var.byteString
    | .node ['x', 'm', 'l'] [v] => (optStrOf v).map Var.xml
    | .node ['n', 'i', 'd'] [v] => (nodeIdOf v).map Var.nodeId
    | .node ['x', 'n', 'i', 'd'] [v] => (expOf v).map Var.expNodeId
    | .node ['s', 'c'] [v] => (natLeaf v).map Var.status
    | .node ['q', 'n'] [v] => (qnOf v).map Var.qname
    | .node ['l', 't'] [v] => (ltOf v).map Var.ltext
    | .node ['d', 'v'] [v] => (dvalOf v).map Var.dataValue
    | .node ['v', 'a', 'r'] [v] => (varOf v).map Var.variant
    | .node ['a', 'r', 'r'] [] => some .array
    | _ => none
  def dvalOf : Tree → Option DVal
    | .node ['D'] [.node ['-'] [], st, sts, sp, vts, vp] =>
      match optOf natLeaf st, optOf dtOf sts, optOf natLeaf sp, optOf dtOf vts, optOf natLeaf vp with
      | some st, some sts, some sp, some vts, some vp => some (.mk none st sts sp vts vp)
      | _, _, _, _, _ => none
    | .node ['D'] [v, st, sts, sp, vts, vp] =>
      match varOf v, optOf natLeaf st, optOf dtOf sts, optOf natLeaf sp, optOf dtOf vts, optOf natLeaf vp with
      | some v, some st, some sts, some sp, some vts, some vp => some (.mk (some v) st sts sp vts vp)
      | _, _, _, _, _, _ => none
    | _ => none
end

def identOut : Ident → String
  | .numeric n => s!"i,{n}"
  | .str s => "s," ++ optStrOut s
  | .guid g => "g," ++ bytesOut g
  | .bytes b => "b," ++ optBytesOut b

def nodeIdOut (n : NodeId) : String := s!"N({n.ns}," ++ identOut n.id ++ ")"
def expOut (e : ExpNodeId) : String :=
  s!"E({e.svr}," ++ optStrOut e.uri ++ s!",{e.node.ns}," ++ identOut e.node.id ++ ")"
def dtOut (d : DT) : String := s!"T({d.secs},{d.nanos})"
def qnOut (q : QName) : String := s!"Q({q.ns}," ++ optStrOut q.name ++ ")"
def ltOut (l : LText) : String := "L(" ++ optStrOut l.locale ++ "," ++ optStrOut l.text ++ ")"
def optOut {α : Type} (f : α → String) : Option α → String
  | none => "-"
  | some a => f a

def f32Out (b : Nat) : String :=
  match classify32 b with
  | .nan => "nan"
  | _ => hexPad 8 b

def f64Out (b : Nat) : String :=
  match classify64 b with
  | .nan => "nan"
  | _ => hexPad 16 b

mutual
  def varOut : Var → String
    | .empty => "e"
    | .bool b => if b then "b(1)" else "b(0)"
    | .sbyte v => s!"i8({v})" | .byte v => s!"u8({v})" | .i16 v => s!"i16({v})" | .u16 v => s!"u16({v})"
    | .i32 v => s!"i32({v})" | .u32 v => s!"u32({v})" | .i64 v => s!"i64({v})" | .u64 v => s!"u64({v})"
    | .float b => "f32(" ++ f32Out b ++ ")"
    | .double b => "f64(" ++ f64Out b ++ ")"
    | .string s => "str(" ++ optStrOut s ++ ")"
    | .dateTime d => "dt(" ++ dtOut d ++ ")"
    | .guid g => "guid(" ++ bytesOut g ++ ")"
    | .byteString b => "bs(" ++ optBytesOut b ++ ")"
    | .xml s => "xml(" ++ optStrOut s ++ ")"
    | .nodeId n => "nid(" ++ nodeIdOut n ++ ")"
    | .expNodeId e => "xnid(" ++ expOut e ++ ")"
    | .status c => s!"sc({c})"
    | .qname q => "qn(" ++ qnOut q ++ ")"
    | .ltext l => "lt(" ++ ltOut l ++ ")"
    | .dataValue d => "dv(" ++ dvalOut d ++ ")"
    | .variant v => "var(" ++ varOut v ++ ")"
    | .array => "arr"
  def dvalOut : DVal → String
    | .mk (some v) st sts sp vts vp =>
      "D(" ++ varOut v ++ "," ++ optOut toString st ++ "," ++ optOut dtOut sts ++ "," ++ optOut toString sp ++ "," ++
        optOut dtOut vts ++ "," ++ optOut toString vp ++ ")"
    | .mk none st sts sp vts vp =>
      "D(-," ++ optOut toString st ++ "," ++ optOut dtOut sts ++ "," ++ optOut toString sp ++ "," ++
        optOut dtOut vts ++ "," ++ optOut toString vp ++ ")"
end

/-! ### the eleven serialisable types behind one interface -/

/-- (to_value, from_value ∘ to-text) for a type tag -/
def serOf (mask : Nat) (ty : String) (t : Tree) : Option (Res Json) :=
  match ty with
  | "str" => (optStrOf t).map fun s => .ok (optStrJ s)
  | "bs" => (optBytesOf t).map fun b => .ok (byteStringJ b)
  | "guid" => (guidOf t).map fun g => .ok (.str (printGuid g))
  | "dt" => (dtOf t).map fun d => .ok (.str (printDtMillis d))
  | "sc" => (natLeaf t).map fun c => .ok (natJ c)
  | "nid" => (nodeIdOf t).map fun n => .ok (nodeIdJ n)
  | "xnid" => (expOf t).map fun e => .ok (expNodeIdJ true e)
  | "qn" => (qnOf t).map fun q => .ok (qnameJ q)
  | "lt" => (ltOf t).map fun l => .ok (ltextJ l)
  | "dv" => (dvalOf t).map (dvalJ (current mask))
  | "var" => (varOf t).map (varJ (current mask))
  | _ => none

def fuelMax : Nat := 64

def optRes {α : Type} (f : α → String) : Option α → String
  | some a => f a
  | none => "err"

def resStr {α : Type} (f : α → String) : Res α → String
  | .ok a => f a
  | .err => "err"
  | .panic => "panic"

def deOf (mask : Nat) (ty : String) (j : Json) : Option String :=
  match ty with
  | "str" => some (optRes optStrOut (uaStringJ (some j)))
  | "bs" => some (optRes optBytesOut (byteStringFromJ (some j)))
  | "guid" => some (optRes bytesOut ((asStr j).bind fun s => parseGuid (utf8 s)))
  | "dt" => some (optRes dtOut (dtFromJ j))
  | "sc" => some (optRes toString (statusFromJ mask j))
  | "nid" => some (optRes nodeIdOut (nodeIdFromJ j))
  | "xnid" => some (optRes expOut (expNodeIdFromJ true j))
  | "qn" => some (optRes qnOut (qnameFromJ j))
  | "lt" => some (optRes ltOut (ltextFromJ j))
  | "dv" => some (resStr dvalOut (dvalFromJ (current mask) fuelMax j))
  | "var" => some (resStr varOut (varFromJ (current mask) fuelMax j))
  | _ => none

structure DState where
  mask : Nat

def dstep (s : DState) (toks : List String) : DState × String :=
  match toks with
  | ["reset", m] =>
    match m.toNat? with
    | some m => ({ mask := m }, "ok")
    | none => (s, "bad-op")
  | ["rt", ty, v] =>
    (s, match (treeOf v).bind (serOf s.mask ty) with
      | none => "bad-op"
      | some .panic => "panic"
      | some .err => "err"
      | some (.ok j) =>
        match deOf s.mask ty j with
        | some r => "ok j=" ++ jsonOut j ++ " r=" ++ r
        | none => "bad-op")
  | ["de", ty, v] =>
    (s, match (treeOf v).bind jsonOf with
      | none => "bad-op"
      | some j =>
        match deOf s.mask ty j with
        | some "err" => "err"
        | some r => "ok " ++ r
        | none => "bad-op")
  | _ => (s, "bad-op")

def driver : Driver := { σ := DState, init := { mask := 0 }, step := dstep }

end OpcuaVerif.C42
