import OpcuaVerif.Common
import OpcuaVerif.Model.TextIO
import OpcuaVerif.Model.C42

/-
Driver of C42.  Values and JSON trees travel as one token in a small term notation
`name` | `name(t1,t2,…)` | `name()`; see harness/src/props/c42.rs for the same notation.
-/
namespace OpcuaVerif.C42
open OpcuaVerif.Text OpcuaVerif.C04

def leafStr (n : List Char) : String := String.ofList n

/-! ### JSON trees -/

def hexNat (cs : List Char) : Option Nat :=
  cs.foldlM (fun a c => (hexDigit c).map fun d => 16 * a + d) 0

def hexPad (w n : Nat) : String :=
  let ds := (Nat.toDigits 16 n)
  String.ofList (List.replicate (w - ds.length) '0' ++ ds)

mutual
  def jsonOf : Tree → Option Json
    | .node ['n'] [] => some .null
    | .node ['t'] [] => some (.bool true)
    | .node ['f'] [] => some (.bool false)
    | .node ('i' :: r) [] => (parseInt? (String.ofList r)).map fun z => .num (.int z)
    | .node ('d' :: r) [] => (hexNat r).map fun b => .num (.flt b)
    | .node ('s' :: r) [] => (strTok? (String.ofList ('s' :: r))).map Json.str
    | .node ['a'] ks => (jsonList ks).map Json.arr
    | .node ['o'] ks => (jsonPairs ks).map Json.obj
    | _ => none
  def jsonList : List Tree → Option (List Json)
    | [] => some []
    | t :: ts =>
      match jsonOf t, jsonList ts with
      | some j, some js => some (j :: js)
      | _, _ => none
  def jsonPairs : List Tree → Option (List (List Char × Json))
    | [] => some []
    | [_] => none
    | .node k [] :: v :: ts =>
      match strTok? (String.ofList k), jsonOf v, jsonPairs ts with
      | some k, some j, some r => some ((k, j) :: r)
      | _, _, _ => none
    | _ :: _ :: _ => none
end

/-- insertion of a key/value into a list sorted by key (code point order, as `BTreeMap<String,_>`) -/
def insertKV (k : List Char) (v : String) : List (List Char × String) → List (List Char × String)
  | [] => [(k, v)]
  | (k', v') :: r => if k.map Char.toNat < k'.map Char.toNat then (k, v) :: (k', v') :: r else (k', v') :: insertKV k v r

mutual
  def jsonOut : Json → String
    | .null => "n"
    | .bool true => "t"
    | .bool false => "f"
    | .num (.int z) => s!"i{z}"
    | .num (.flt b) => "d" ++ hexPad 16 b
    | .str s => strOut s
    | .arr l => "a(" ++ ",".intercalate (jsonOutList l) ++ ")"
    | .obj kv =>
      let sorted := (jsonOutPairs kv).foldl (fun acc (k, v) => insertKV k v acc) []
      "o(" ++ ",".intercalate (sorted.map fun (k, v) => strOut k ++ "," ++ v) ++ ")"
  def jsonOutList : List Json → List String
    | [] => []
    | j :: js => jsonOut j :: jsonOutList js
  def jsonOutPairs : List (List Char × Json) → List (List Char × String)
    | [] => []
    | (k, j) :: r => (k, jsonOut j) :: jsonOutPairs r
end

/-! ### typed values -/

def natOf (n : List Char) : Option Nat := (String.ofList n).toNat?
def intOf (n : List Char) : Option Int := parseInt? (String.ofList n)

def optStrOf : Tree → Option (Option (List Char))
  | .node n [] => optStrTok? (String.ofList n)
  | _ => none

def optBytesOf : Tree → Option (Option (List Nat))
  | .node n [] => optBytesTok? (String.ofList n)
  | _ => none

def guidOf : Tree → Option (List Nat)
  | .node n [] => (bytesTok? (String.ofList n)).bind fun b => if b.length = 16 then some b else none
  | _ => none

def identOf (k v : Tree) : Option Ident :=
  match k with
  | .node ['i'] [] => match v with
    | .node n [] => (natOf n).map Ident.numeric
    | _ => none
  | .node ['s'] [] => (optStrOf v).map Ident.str
  | .node ['g'] [] => (guidOf v).map Ident.guid
  | .node ['b'] [] => (optBytesOf v).map Ident.bytes
  | _ => none

def nodeIdOf : Tree → Option NodeId
  | .node ['N'] [.node ns [], k, v] =>
    match natOf ns, identOf k v with
    | some ns, some i => some ⟨ns, i⟩
    | _, _ => none
  | _ => none

def expOf : Tree → Option ExpNodeId
  | .node ['E'] [.node svr [], uri, .node ns [], k, v] =>
    match natOf svr, optStrOf uri, natOf ns, identOf k v with
    | some svr, some uri, some ns, some i => some ⟨⟨ns, i⟩, uri, svr⟩
    | _, _, _, _ => none
  | _ => none

def dtOf : Tree → Option DT
  | .node ['T'] [.node s [], .node n []] =>
    match intOf s, natOf n with
    | some s, some n => some ⟨s, n⟩
    | _, _ => none
  | _ => none

def qnOf : Tree → Option QName
  | .node ['Q'] [.node ns [], name] =>
    match natOf ns, optStrOf name with
    | some ns, some name => some ⟨ns, name⟩
    | _, _ => none
  | _ => none

def ltOf : Tree → Option LText
  | .node ['L'] [l, t] =>
    match optStrOf l, optStrOf t with
    | some l, some t => some ⟨l, t⟩
    | _, _ => none
  | _ => none

def optOf {α : Type} (f : Tree → Option α) : Tree → Option (Option α)
  | .node ['-'] [] => some none
  | t => (f t).map some

def natLeaf : Tree → Option Nat
  | .node n [] => natOf n
  | _ => none

def intLeaf : Tree → Option Int
  | .node n [] => intOf n
  | _ => none

def hexLeaf : Tree → Option Nat
  | .node n [] => hexNat n
  | _ => none

mutual
  def varOf : Tree → Option Var
    | .node ['e'] [] => some .empty
    | .node ['b'] [.node ['1'] []] => some (.bool true)
    | .node ['b'] [.node ['0'] []] => some (.bool false)
    | .node ['i', '8'] [v] => (intLeaf v).map Var.sbyte
    | .node ['u', '8'] [v] => (intLeaf v).map Var.byte
    | .node ['i', '1', '6'] [v] => (intLeaf v).map Var.i16
    | .node ['u', '1', '6'] [v] => (intLeaf v).map Var.u16
    | .node ['i', '3', '2'] [v] => (intLeaf v).map Var.i32
    | .node ['u', '3', '2'] [v] => (intLeaf v).map Var.u32
    | .node ['i', '6', '4'] [v] => (intLeaf v).map Var.i64
    | .node ['u', '6', '4'] [v] => (intLeaf v).map Var.u64
    | .node ['f', '3', '2'] [v] => (hexLeaf v).map Var.float
    | .node ['f', '6', '4'] [v] => (hexLeaf v).map Var.double
    | .node ['s', 't', 'r'] [v] => (optStrOf v).map Var.string
    | .node ['d', 't'] [v] => (dtOf v).map Var.dateTime
    | .node ['g', 'u', 'i', 'd'] [v] => (guidOf v).map Var.guid
    | .node ['b', 's'] [v] => (optBytesOf v).map Var.byteString
    | .node ['x', 'm', 'l'] [v] => (optStrOf v).map Var.xml
    | .node ['n', 'i', 'd'] [v] => (nodeIdOf v).map Var.nodeId
    | .node ['x', 'n', 'i', 'd'] [v] => (expOf v).map Var.expNodeId
    | .node ['s', 'c'] [v] => (natLeaf v).map Var.status
    | .node ['q', 'n'] [v] => (qnOf v).map Var.qname
    | .node ['l', 't'] [v] => (ltOf v).map Var.ltext
    | .node ['d', 'v'] [v] => (dvalOf v).map Var.dataValue
    | .node ['v', 'a', 'r'] [v] => (varOf v).map Var.variant
    | .node ['a', 'r', 'r'] [] => some .array
    | _ => none
  def dvalOf : Tree → Option DVal
    | .node ['D'] [.node ['-'] [], st, sts, sp, vts, vp] =>
      match optOf natLeaf st, optOf dtOf sts, optOf natLeaf sp, optOf dtOf vts, optOf natLeaf vp with
      | some st, some sts, some sp, some vts, some vp => some (.mk none st sts sp vts vp)
      | _, _, _, _, _ => none
    | .node ['D'] [v, st, sts, sp, vts, vp] =>
      match varOf v, optOf natLeaf st, optOf dtOf sts, optOf natLeaf sp, optOf dtOf vts, optOf natLeaf vp with
      | some v, some st, some sts, some sp, some vts, some vp => some (.mk (some v) st sts sp vts vp)
      | _, _, _, _, _, _ => none
    | _ => none
end

def identOut : Ident → String
  | .numeric n => s!"i,{n}"
  | .str s => "s," ++ optStrOut s
  | .guid g => "g," ++ bytesOut g
  | .bytes b => "b," ++ optBytesOut b

def nodeIdOut (n : NodeId) : String := s!"N({n.ns}," ++ identOut n.id ++ ")"
def expOut (e : ExpNodeId) : String :=
  s!"E({e.svr}," ++ optStrOut e.uri ++ s!",{e.node.ns}," ++ identOut e.node.id ++ ")"
def dtOut (d : DT) : String := s!"T({d.secs},{d.nanos})"
def qnOut (q : QName) : String := s!"Q({q.ns}," ++ optStrOut q.name ++ ")"
def ltOut (l : LText) : String := "L(" ++ optStrOut l.locale ++ "," ++ optStrOut l.text ++ ")"
def optOut {α : Type} (f : α → String) : Option α → String
  | none => "-"
  | some a => f a

def f32Out (b : Nat) : String :=
  match classify32 b with
  | .nan => "nan"
  | _ => hexPad 8 b

def f64Out (b : Nat) : String :=
  match classify64 b with
  | .nan => "nan"
  | _ => hexPad 16 b

mutual
  def varOut : Var → String
    | .empty => "e"
    | .bool b => if b then "b(1)" else "b(0)"
    | .sbyte v => s!"i8({v})" | .byte v => s!"u8({v})" | .i16 v => s!"i16({v})" | .u16 v => s!"u16({v})"
    | .i32 v => s!"i32({v})" | .u32 v => s!"u32({v})" | .i64 v => s!"i64({v})" | .u64 v => s!"u64({v})"
    | .float b => "f32(" ++ f32Out b ++ ")"
    | .double b => "f64(" ++ f64Out b ++ ")"
    | .string s => "str(" ++ optStrOut s ++ ")"
    | .dateTime d => "dt(" ++ dtOut d ++ ")"
    | .guid g => "guid(" ++ bytesOut g ++ ")"
    | .byteString b => "bs(" ++ optBytesOut b ++ ")"
    | .xml s => "xml(" ++ optStrOut s ++ ")"
    | .nodeId n => "nid(" ++ nodeIdOut n ++ ")"
    | .expNodeId e => "xnid(" ++ expOut e ++ ")"
    | .status c => s!"sc({c})"
    | .qname q => "qn(" ++ qnOut q ++ ")"
    | .ltext l => "lt(" ++ ltOut l ++ ")"
    | .dataValue d => "dv(" ++ dvalOut d ++ ")"
    | .variant v => "var(" ++ varOut v ++ ")"
    | .array => "arr"
  def dvalOut : DVal → String
    | .mk (some v) st sts sp vts vp =>
      "D(" ++ varOut v ++ "," ++ optOut toString st ++ "," ++ optOut dtOut sts ++ "," ++ optOut toString sp ++ "," ++
        optOut dtOut vts ++ "," ++ optOut toString vp ++ ")"
    | .mk none st sts sp vts vp =>
      "D(-," ++ optOut toString st ++ "," ++ optOut dtOut sts ++ "," ++ optOut toString sp ++ "," ++
        optOut dtOut vts ++ "," ++ optOut toString vp ++ ")"
end

/-! ### the eleven serialisable types behind one interface -/

/-- (to_value, from_value ∘ to-text) for a type tag -/
def serOf (mask : Nat) (ty : String) (t : Tree) : Option (Res Json) :=
  match ty with
  | "str" => (optStrOf t).map fun s => .ok (optStrJ s)
  | "bs" => (optBytesOf t).map fun b => .ok (byteStringJ b)
  | "guid" => (guidOf t).map fun g => .ok (.str (printGuid g))
  | "dt" => (dtOf t).map fun d => .ok (.str (printDtMillis d))
  | "sc" => (natLeaf t).map fun c => .ok (natJ c)
  | "nid" => (nodeIdOf t).map fun n => .ok (nodeIdJ n)
  | "xnid" => (expOf t).map fun e => .ok (expNodeIdJ true e)
  | "qn" => (qnOf t).map fun q => .ok (qnameJ q)
  | "lt" => (ltOf t).map fun l => .ok (ltextJ l)
  | "dv" => (dvalOf t).map (dvalJ (current mask))
  | "var" => (varOf t).map (varJ (current mask))
  | _ => none

def fuelMax : Nat := 64

def optRes {α : Type} (f : α → String) : Option α → String
  | some a => f a
  | none => "err"

def resStr {α : Type} (f : α → String) : Res α → String
  | .ok a => f a
  | .err => "err"
  | .panic => "panic"

def deOf (mask : Nat) (ty : String) (j : Json) : Option String :=
  match ty with
  | "str" => some (optRes optStrOut (uaStringJ (some j)))
  | "bs" => some (optRes optBytesOut (byteStringFromJ (some j)))
  | "guid" => some (optRes bytesOut ((asStr j).bind fun s => parseGuid (utf8 s)))
  | "dt" => some (optRes dtOut (dtFromJ j))
  | "sc" => some (optRes toString (statusFromJ mask j))
  | "nid" => some (optRes nodeIdOut (nodeIdFromJ j))
  | "xnid" => some (optRes expOut (expNodeIdFromJ true j))
  | "qn" => some (optRes qnOut (qnameFromJ j))
  | "lt" => some (optRes ltOut (ltextFromJ j))
  | "dv" => some (resStr dvalOut (dvalFromJ (current mask) fuelMax j))
  | "var" => some (resStr varOut (varFromJ (current mask) fuelMax j))
  | _ => none

structure DState where
  mask : Nat

def dstep0 (s : DState) (toks : List String) : DState × String :=
  match toks with
  | ["reset", m] =>
    match m.toNat? with
    | some m => ({ mask := m }, "ok")
    | none => (s, "bad-op")
  | ["rt", ty, v] =>
    (s, match (treeOf v).bind (serOf s.mask ty) with
      | none => "bad-op"
      | some .panic => "panic"
      | some .err => "err"
      | some (.ok j) =>
        match deOf s.mask ty j with
        | some r => "ok j=" ++ jsonOut j ++ " r=" ++ r
        | none => "bad-op")
  | ["de", ty, v] =>
    (s, match (treeOf v).bind jsonOf with
      | none => "bad-op"
      | some j =>
        match deOf s.mask ty j with
        | some "err" => "err"
        | some r => "ok " ++ r
        | none => "bad-op")
  | _ => (s, "bad-op")


/-! ### arm tags -/

def armsStruct (pref : String) (n : Nat) (j : Json) : List String :=
  match j with
  | .obj _ => [pref ++ "-obj"]
  | .arr l => [if l.length = n then pref ++ "-arr-exact" else pref ++ "-arr-wronglen"]
  | .null => [pref ++ "-null"]
  | _ => [pref ++ "-notstruct"]

def armsIntBody (name : String) (signed : Bool) (lo hi : Int) (body : Option Json) : List String :=
  match body with
  | none => [name ++ "-body-missing"]
  | some (.num (.int v)) =>
    if (signed ∧ (v < -9223372036854775808 ∨ v > 9223372036854775807)) ∨ (¬ signed ∧ (v < 0 ∨ v > 18446744073709551615)) then
      [if v < 0 then name ++ "-neg-not-u64" else name ++ "-beyond-64bit"]
    else if v < lo then [if v = lo - 1 then name ++ "-min-1" else name ++ "-below-min"]
    else if v > hi then [if v = hi + 1 then name ++ "-max+1" else name ++ "-above-max"]
    else if v = lo then [name ++ "-at-min"] else if v = hi then [name ++ "-at-max"] else [name ++ "-inside"]
  | some (.num (.flt _)) => [name ++ "-float"]
  | some _ => [name ++ "-nonnumber"]

def armsFloatBody (cfg : Cfg) (isF32 : Bool) (body : Option Json) : List String :=
  let n := if isF32 then "f32" else "f64"
  match body with
  | none => [n ++ "-body-missing"]
  | some (.str s) =>
    [if s = ['I', 'n', 'f', 'i', 'n', 'i', 't', 'y'] then n ++ "-str-inf"
     else if s = ['-', 'I', 'n', 'f', 'i', 'n', 'i', 't', 'y'] then n ++ "-str-neginf"
     else if s = ['N', 'a', 'N'] then n ++ "-str-nan" else n ++ "-str-other"]
  | some j =>
    match asF64 j with
    | none => [n ++ "-notnumber"]
    | some b =>
      (match j with
       | .num (.int _) => [n ++ "-from-int"]
       | _ => [n ++ "-from-float"]) ++
      (if isF32 then
        match classify64 b with
        | .fin _ m e =>
          (if leScaled m e (2 ^ 24 - 1) 104 ∧ leScaled (2 ^ 24 - 1) 104 m e then ["f32-exactly-max"]
           else if !inF32Range m e then
             [if (floatBody cfg body).isSome then "f32-above-max-rounds-to-max" else "f32-overflow"]
           else if narrow b < 2 ^ 23 ∨ (narrow b ≥ 2 ^ 31 ∧ narrow b < 2 ^ 31 + 2 ^ 23) then
             [if m = 0 then "f32-zero" else "f32-subnormal-or-underflow"]
           else [match classify32 (narrow b) with
                 | .fin neg m2 e2 => if toFloatBits 53 11 neg m2 e2 = b then "f32-exact" else "f32-rounded"
                 | _ => "f32-rounded"])
        | _ => []
       else [])

def armsStrNum (name : String) (signed : Bool) (body : Option Json) : List String :=
  match body with
  | none => [name ++ "-body-missing"]
  | some (.str s) =>
    if signed then
      match parseI64 s with
      | some v => [if v = -9223372036854775808 then name ++ "-min" else if v = 9223372036854775807 then name ++ "-max"
                   else if s.head? = some '+' then name ++ "-plus" else if v < 0 then name ++ "-neg" else name ++ "-ok"]
      | none => [if s.head? = some '-' then name ++ "-err-neg" else name ++ "-err"]
    else
      match parseUnsigned 18446744073709551615 s with
      | some v => [if v = 18446744073709551615 then name ++ "-max" else if s.head? = some '+' then name ++ "-plus" else name ++ "-ok"]
      | none => [if !s.isEmpty ∧ (stripPlus s).all isDigit then name ++ "-overflow" else name ++ "-err"]
  | some _ => [name ++ "-notstring"]

def armsDt (s : List Char) : List String :=
  match parseDtJ s with
  | none => ["dtj-err"]
  | some d =>
    (if d = ⟨0, 0⟩ then ["dtj-at-or-below-epoch"] else if d = ⟨endSecs, 0⟩ then ["dtj-at-or-above-end"] else ["dtj-inside"]) ++
    (if d.nanos ≥ 1000000000 then ["dtj-leap-second"] else []) ++
    (match s.drop 10 with
     | 'T' :: _ => ["dtj-sep-T"] | 't' :: _ => ["dtj-sep-t"] | ' ' :: _ => ["dtj-sep-space"] | _ => []) ++
    (match s.drop 19 with
     | '.' :: r => [if (spanP isDigit r).1.length > 9 then "dtj-frac-gt9" else if (spanP isDigit r).1.length = 9 then "dtj-frac-9" else "dtj-frac-1to8"]
     | _ => ["dtj-frac-none"]) ++
    (match s.getLast? with
     | some 'Z' => ["dtj-zone-Z"] | some 'z' => ["dtj-zone-z"]
     | _ => [if s.contains (Char.ofNat 0x2212) then "dtj-zone-u2212" else if (s.drop 19).contains '+' then "dtj-zone-plus" else "dtj-zone-minus"])

def armsDtJ (pref : String) (j : Option Json) : List String :=
  match j with
  | none => [pref ++ "-absent"]
  | some (.str s) => armsDt s
  | some _ => [pref ++ "-notstring"]

def armsIdentJ (t : Option Json) (id : Option Json) : List String :=
  let tt : Option Nat := match optPresent t with
    | none => some 0
    | some j => uintJ 4294967295 j
  match tt, id with
  | none, _ => ["nj-type-invalid"]
  | _, none => ["nj-id-missing"]
  | some 0, some id =>
    (if (optPresent t).isSome then ["nj-type-0-explicit"] else ["nj-type-absent"]) ++
    [match asU64 id with
     | some v => if v > 4294967295 then "nj-numeric-truncated" else if v = 4294967295 then "nj-numeric-max" else "nj-numeric"
     | none => "nj-numeric-notu64"]
  | some 1, some id => [match asStr id with | some s => if s.isEmpty then "nj-string-empty" else "nj-string" | none => "nj-string-nostr"]
  | some 2, some id => [match asStr id with
     | some s => if s.isEmpty then "nj-guid-empty" else if (parseGuid (utf8 s)).isSome then "nj-guid" else "nj-guid-bad"
     | none => "nj-guid-nostr"]
  | some 3, some id => [match asStr id with
     | some s => if s.isEmpty then "nj-bytes-empty" else if (b64Decode (utf8 s)).isSome then "nj-bytes" else "nj-bytes-bad"
     | none => "nj-bytes-nostr"]
  | some _, _ => ["nj-type-other"]

def armsIndex (pref : String) (max : Nat) (o : Option Json) : List String :=
  match optPresent o with
  | none => [pref ++ "-absent"]
  | some j =>
    match asU64 j with
    | some v => [if v > max then (if v = max + 1 then pref ++ "-max+1" else pref ++ "-overflow") else if v = max then pref ++ "-max"
                 else if v = 0 then pref ++ "-zero-explicit" else pref ++ "-num"]
    | none => [match j with | .str _ => pref ++ "-string" | _ => pref ++ "-notnum"]

def armsNodeIdJ (j : Json) : List String :=
  armsStruct "nj" 3 j ++
  (match structFields [kType, kId, kNamespace] j with
   | some [t, id, ns] => armsIdentJ t id ++ armsIndex "nj-ns" 65535 ns
   | _ => [])

def armsExpJ (j : Json) : List String :=
  armsStruct "xj" 4 j ++
  (match structFields [kType, kId, kNamespace, kServerUri] j with
   | some [t, id, ns, su] => armsIdentJ t id ++ armsIndex "xj-ns" 65535 ns ++ armsIndex "xj-svr" 4294967295 su
   | _ => [])

def armsUaStr (pref : String) (o : Option Json) : List String :=
  match o with
  | none => [pref ++ "-absent"]
  | some .null => [pref ++ "-null"]
  | some (.str s) => [if s.isEmpty then pref ++ "-empty" else pref]
  | some _ => [pref ++ "-notstring"]

def armsStatus (j : Json) : List String :=
  match j with
  | .num (.int z) => [if z < 0 then "sc-negative" else if z > 4294967295 then (if z = 4294967296 then "sc-max+1" else "sc-overflow")
                      else if z = 4294967295 then "sc-max" else if z = 0 then "sc-good" else "sc-ok"]
  | .num (.flt _) => ["sc-float"]
  | _ => ["sc-notnumber"]

mutual
  def armsVar (cfg : Cfg) : Nat → Json → List String
    | 0, _ => ["var-fuel"]
    | _ + 1, .null => ["var-null"]
    | fuel + 1, j =>
      armsStruct "var" 3 j ++
      (match structFields [kType, kBody, kDimensions] j with
       | some [t, body, dims] =>
         match t.bind (uintJ 4294967295) with
         | none => [if t.isNone then "var-type-missing" else "var-type-invalid"]
         | some t =>
           let body := optPresent body
           (if (optPresent dims).isSome then ["var-dims-present"] else
            s!"vt-{if t ≤ 25 then t else 26}" ::
            (match t with
             | 0 => [if body.isSome then "empty-with-body" else "empty-ok"]
             | 1 => [match body with | some (.bool _) => "bool-ok" | none => "bool-missing" | _ => "bool-notbool"]
             | 2 => armsIntBody "i8" true (-128) 127 body
             | 3 => armsIntBody "u8" false 0 255 body
             | 4 => armsIntBody "i16" true (-32768) 32767 body
             | 5 => armsIntBody "u16" false 0 65535 body
             | 6 => armsIntBody "i32" true (-2147483648) 2147483647 body
             | 7 => armsIntBody "u32" false 0 4294967295 body
             | 8 => armsStrNum "i64" true body
             | 9 => armsStrNum "u64" false body
             | 10 => armsFloatBody cfg true body
             | 11 => armsFloatBody cfg false body
             | 12 => armsUaStr "vstr" body
             | 13 => armsDtJ "vdt" body
             | 14 => [match body with
                      | some (.str s) => if (parseGuid (utf8 s)).isSome then "vguid-ok" else "vguid-bad"
                      | none => "vguid-missing" | _ => "vguid-notstring"]
             | 15 => [match body with
                      | none => "vbs-null" | some (.str s) => if (b64Decode (utf8 s)).isSome then (if s.isEmpty then "vbs-empty" else "vbs-ok") else "vbs-bad"
                      | _ => "vbs-notstring"]
             | 16 => armsUaStr "vxml" body
             | 17 => (match body with | none => ["vnid-missing"] | some b => armsNodeIdJ b)
             | 18 => (match body with | none => ["vxnid-missing"] | some b => armsExpJ b)
             | 19 => (match body with | none => ["vsc-missing"] | some b => armsStatus b)
             | 20 => (match body with | none => ["vqn-missing"] | some b => armsStruct "qn" 2 b)
             | 21 => (match body with | none => ["vlt-missing"] | some b => armsStruct "lt" 2 b)
             | 23 => (match body with | none => ["vdv-missing"] | some b => armsDv cfg fuel b)
             | 24 => (match body with | none => ["vvar-missing"] | some b => "vvar-nested" :: armsVar cfg fuel b)
             | _ => []))
       | _ => [])
  def armsDv (cfg : Cfg) : Nat → Json → List String
    | 0, _ => ["dv-fuel"]
    | fuel + 1, j =>
      armsStruct "dv" 6 j ++
      (match structFields [kValue, kStatus, kSourceTimestamp, kSourcePicoseconds, kServerTimestamp, kServerPicoseconds] j with
       | some [v, st, sts, sp, vts, vp] =>
         (match optPresent v with | none => ["dv-value-absent"] | some jv => "dv-value" :: armsVar cfg fuel jv) ++
         (match optPresent st with | none => ["dv-status-absent"] | some j => "dv-status" :: armsStatus j) ++
         (match optPresent sts with | none => ["dv-srcts-absent"] | some j => "dv-srcts" :: armsDtJ "dvts" (some j)) ++
         (match optPresent vts with | none => ["dv-srvts-absent"] | some j => "dv-srvts" :: armsDtJ "dvts" (some j)) ++
         armsIndex "dv-srcpico" 65535 sp ++ armsIndex "dv-srvpico" 65535 vp
       | _ => [])
end

def armsF32Val (b : Nat) : List String :=
  match classify32 b with
  | .nan => ["ser-f32-nan"] | .inf false => ["ser-f32-inf"] | .inf true => ["ser-f32-neginf"]
  | .fin _ m e => [if m = 0 then "ser-f32-zero" else if m = 2 ^ 24 - 1 ∧ e = 104 then "ser-f32-max" else if m < 2 ^ 23 then "ser-f32-subnormal"
                   else if m = 2 ^ 23 then "ser-f32-power-of-two" else "ser-f32-normal"]

def armsF64Val (b : Nat) : List String :=
  match classify64 b with
  | .nan => ["ser-f64-nan"] | .inf false => ["ser-f64-inf"] | .inf true => ["ser-f64-neginf"]
  | .fin _ m _ => [if m = 0 then "ser-f64-zero" else if m < 2 ^ 52 then "ser-f64-subnormal" else "ser-f64-normal"]

def armsOptS (pref : String) : Option (List Char) → String
  | none => pref ++ "-null"
  | some s => if s.isEmpty then pref ++ "-empty" else pref

def armsIdentV (i : Ident) : String :=
  match i with
  | .numeric _ => "ser-id-numeric"
  | .str s => armsOptS "ser-id-string" s
  | .guid _ => "ser-id-guid"
  | .bytes none => "ser-id-bytes-null"
  | .bytes (some b) => if b.isEmpty then "ser-id-bytes-empty" else "ser-id-bytes"

def armsDTv (d : DT) : List String :=
  [if d.nanos % 1000000 = 0 then "ser-dt-ms" else "ser-dt-subms",
   if d.secs = 0 then "ser-dt-epoch" else if d.secs = endSecs then "ser-dt-end" else "ser-dt-inside"]

mutual
  def armsVarV : Var → List String
    | .empty => ["ser-empty"] | .bool _ => ["ser-bool"]
    | .sbyte _ => ["ser-i8"] | .byte _ => ["ser-u8"] | .i16 _ => ["ser-i16"] | .u16 _ => ["ser-u16"]
    | .i32 _ => ["ser-i32"] | .u32 _ => ["ser-u32"]
    | .i64 v => [if v < 0 then "ser-i64-neg" else "ser-i64"] | .u64 _ => ["ser-u64"]
    | .float b => armsF32Val b | .double b => armsF64Val b
    | .string s => [armsOptS "ser-str" s] | .dateTime d => "ser-vdt" :: armsDTv d | .guid _ => ["ser-guid"]
    | .byteString none => ["ser-bs-null"] | .byteString (some b) => [if b.isEmpty then "ser-bs-empty" else "ser-bs"]
    | .xml s => [armsOptS "ser-xml" s]
    | .nodeId n => ["ser-nid", if n.ns = 0 then "ser-ns0" else "ser-nsN", armsIdentV n.id]
    | .expNodeId e => ["ser-xnid", if e.node.ns = 0 then "ser-ns0" else "ser-nsN", armsIdentV e.node.id,
        armsOptS "ser-xnid-uri" e.uri, if e.svr = 0 then "ser-svr0" else "ser-svrN"]
    | .status _ => ["ser-sc"] | .qname q => ["ser-qn", armsOptS "ser-qn-name" q.name]
    | .ltext l => ["ser-lt", armsOptS "ser-lt-locale" l.locale, armsOptS "ser-lt-text" l.text]
    | .dataValue d => "ser-vdv" :: armsDvV d
    | .variant v => "ser-vvar" :: armsVarV v
    | .array => ["ser-array"]
  def armsDvV : DVal → List String
    | .mk (some v) st sts sp vts vp => "ser-dv-value" :: armsVarV v ++ armsDvRest st sts sp vts vp
    | .mk none st sts sp vts vp => "ser-dv-novalue" :: armsDvRest st sts sp vts vp
  def armsDvRest (st : Option Nat) (sts : Option DT) (sp : Option Nat) (vts : Option DT) (vp : Option Nat) : List String :=
    (if st.isSome then ["ser-dv-status"] else []) ++ (if sts.isSome then ["ser-dv-srcts"] else []) ++
    (if sp.isSome then ["ser-dv-srcpico"] else []) ++ (if vts.isSome then ["ser-dv-srvts"] else []) ++
    (if vp.isSome then ["ser-dv-srvpico"] else [])
end

def dedupS : List String → List String
  | [] => []
  | x :: r => if r.contains x then dedupS r else x :: dedupS r

def armsJson (mask : Nat) (ty : String) (j : Json) : List String :=
  match ty with
  | "str" => armsUaStr "dstr" (some j)
  | "bs" => [match j with | .null => "dbs-null" | .str s => if (b64Decode (utf8 s)).isSome then "dbs-ok" else "dbs-bad" | _ => "dbs-notstring"]
  | "guid" => [match j with
      | .str s => if (parseGuid (utf8 s)).isSome then s!"dguid-ok-len{(utf8 s).length}" else "dguid-bad"
      | _ => "dguid-notstring"]
  | "dt" => armsDtJ "ddt" (some j)
  | "sc" => armsStatus j
  | "nid" => armsNodeIdJ j
  | "xnid" => armsExpJ j
  | "qn" => armsStruct "qn" 2 j ++ (match structFields [kUri, kName] j with
      | some [u, n] => armsIndex "qn-uri" 65535 u ++ armsUaStr "qn-name" n
      | _ => [])
  | "lt" => armsStruct "lt" 2 j ++ (match structFields [kLocale, kText] j with
      | some [l, t] => armsUaStr "lt-locale" l ++ armsUaStr "lt-text" t
      | _ => [])
  | "dv" => armsDv (current mask) 8 j
  | "var" => armsVar (current mask) 8 j
  | _ => []

def armsTyped (ty : String) (t : Tree) : List String :=
  match ty with
  | "str" => (optStrOf t).elim [] fun s => [armsOptS "ser-str" s]
  | "bs" => (optBytesOf t).elim [] fun b => [match b with | none => "ser-bs-null" | some b => if b.isEmpty then "ser-bs-empty" else "ser-bs"]
  | "guid" => ["ser-guid"]
  | "dt" => (dtOf t).elim [] armsDTv
  | "sc" => ["ser-sc"]
  | "nid" => (nodeIdOf t).elim [] fun n => armsVarV (.nodeId n)
  | "xnid" => (expOf t).elim [] fun e => armsVarV (.expNodeId e)
  | "qn" => (qnOf t).elim [] fun q => armsVarV (.qname q)
  | "lt" => (ltOf t).elim [] fun l => armsVarV (.ltext l)
  | "dv" => (dvalOf t).elim [] armsDvV
  | "var" => (varOf t).elim [] armsVarV
  | _ => []

def armsOf (mask : Nat) (toks : List String) : List String :=
  match toks with
  | ["rt", ty, v] => (treeOf v).elim [] (armsTyped ty)
  | ["de", ty, v] => ((treeOf v).bind jsonOf).elim [] (armsJson mask ty)
  | _ => []

def dstep (s : DState) (toks : List String) : DState × String :=
  let (s', r) := dstep0 s toks
  let arms := dedupS (armsOf s.mask toks)
  (s', if r = "bad-op" ∨ arms.isEmpty then r else r ++ " @@ " ++ ",".intercalate arms)

def driver : Driver := { σ := DState, init := { mask := 0 }, step := dstep }

end OpcuaVerif.C42
