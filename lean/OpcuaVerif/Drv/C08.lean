import OpcuaVerif.Drv.C09

/-! C08 uses the receive-path model and line protocol of C09 unchanged. -/
namespace OpcuaVerif.C08

def driver : OpcuaVerif.Driver := OpcuaVerif.C09.driver

end OpcuaVerif.C08
