import OpcuaVerif.Drv.EncArms

/-! C02 — driver: the shared codec driver (`Drv/EncDrv.lean`) with arm tags (`Drv/EncArms.lean`). -/
namespace OpcuaVerif.C02

def driver : OpcuaVerif.Driver := OpcuaVerif.Enc.encDriverA

end OpcuaVerif.C02
