import OpcuaVerif.Drv.EncDrv

/-! C02 — driver: the shared codec driver (`Drv/EncDrv.lean`). -/
namespace OpcuaVerif.C02

def driver : OpcuaVerif.Driver := OpcuaVerif.Enc.encDriver

end OpcuaVerif.C02
