import OpcuaVerif.Common
import OpcuaVerif.Model.C34
import OpcuaVerif.Drv.C28

namespace OpcuaVerif.C34
open OpcuaVerif.C28 OpcuaVerif.C29

/-- observation universe: BaseObjectType, BaseDataVariableType, the Objects folder and twelve ids
of the internal namespace starting at the id counter's value -/
def obsNodes : List Nat := [58, 63, 85] ++ (List.range 12).map (· + idBase)

/-- HierarchicalReferences and its subtypes / Aggregates and its subtypes (standard nodeset) among
the reference types the generator uses -/
def hierStd (t : Nat) : Bool := [33, 34, 35, 36, 44, 46, 47, 48, 49, 56].contains t
def aggStd (t : Nat) : Bool := [44, 46, 47, 49, 56].contains t

def initNS (canModify : Bool) : NS :=
  { sp := { nodes := [58, 63, 85], refs := C28.empty },
    info := [(58, (clsObjectType, 9058)), (63, (clsVariableType, 9063)), (85, (clsObject, 9085))],
    next := 0, canModify := canModify }

def obsFwd (s : Refs) : List (Nat × Nat × Nat) :=
  obsNodes.flatMap fun a =>
    match findRefs s drvFuel a none with
    | some (some l) => ((sortPairs l).filter fun (_, b) => obsNodes.contains b).map fun (t, b) => (a, t, b)
    | _ => []

def obsInv (s : Refs) : List (Nat × Nat × Nat) :=
  obsNodes.flatMap fun b =>
    match findInv s drvFuel b none with
    | some (some l) => ((sortPairs l).filter fun (_, a) => obsNodes.contains a).map fun (t, a) => (a, t, b)
    | _ => []

def obsInfo (s : NS) : String :=
  "[" ++ ",".intercalate ((obsNodes.filter fun n => n ≥ idBase && exists? s n).map fun n =>
    match s.info.get n with
    | some (c, nm) => s!"{n}:{c}:{nm}"
    | none => s!"{n}:?") ++ "]"

def obs (s : NS) : String :=
  s!"N={natList (obsNodes.filter fun n => exists? s n)} B={obsInfo s} F={showTriples (obsFwd s.sp.refs)} I={showTriples (obsInv s.sp.refs)}"

def optNat? (s : String) : Option (Option Nat) :=
  if s = "-" || s = "x" then some none else s.toNat?.map some

def showOpt (o : Option Nat) : String := match o with | some n => toString n | none => "-"

/-- how many consecutive ids directly ahead of the counter are taken (capped at `cap`) -/
def runAhead (s : NS) : Nat → Nat → Nat
  | 0, _ => 0
  | cap + 1, next => if exists? s (idBase + next) then 1 + runAhead s cap (next + 1) else 0

def runClass (n : Nat) : String :=
  if n = 0 then "0" else if n = 1 then "1" else if n < 15 then "2to14" else if n = 15 then "15"
  else if n = 16 then "16" else if n = 17 then "17" else if n < 41 then "18to40"
  else if n < 100 then "41to99" else if n < 1000 then "100to999" else "1000plus"

def clsTag (c : Nat) : String :=
  if c = 0 then "unspecified" else if c = 1 then "object" else if c = 2 then "variable" else "other"

/-- model branches an AddNodes item took -/
def addArms (s : NS) (it : AddNodesItem) (st : Status) : String :=
  let base := s!"addnode-{st.name},addnode-cls-{clsTag it.nodeClass}"
  let idArm := match it.requested with
    | some r => if !inRegisteredNs r then ",req-unregistered-ns" else if exists? s r then ",req-taken" else ",req-free"
    | none => ",req-null"
  let runArm :=
    if it.requested.isNone && (st == .good || st == .badTypeDefinitionInvalid || st == .badParentNodeIdInvalid
        || st == .badNodeAttributesInvalid) then ",auto-run-" ++ runClass (runAhead s 1001 s.next) else ""
  let tdArm := match it.typeDef with
    | none => ",td-null"
    | some t => match classOf s t with
      | none => ",td-missing"
      | some c => if c = clsObjectType then ",td-objecttype" else if c = clsVariableType then ",td-variabletype" else ",td-nottype"
  let parArm := if exists? s it.parent then ",parent-exists" else ",parent-missing"
  let rtArm := match it.refType with
    | none => ",rt-invalid"
    | some t => if hierStd t then ",rt-hier" else ",rt-nonhier"
  let dupArm := match it.name with
    | none => ",name-null"
    | some nm => if nameTaken hierStd s it.parent nm then ",name-taken" else ",name-free"
  base ++ idArm ++ runArm ++ tdArm ++ parArm ++ rtArm ++ dupArm ++
    (if it.attrsFit then ",attrs-fit" else ",attrs-misfit") ++ (if it.serverIndex = 0 then "" else ",req-server-index")

def addRefArms (s : NS) (it : AddReferencesItem) (st : Status) : String :=
  s!"addref-{st.name}" ++ (if it.isForward then ",addref-forward" else ",addref-inverse") ++
    (if it.source = it.target then ",addref-self" else "") ++
    (match it.refType with
     | some t => if hasRef s.sp.refs it.target it.source t then ",addref-opposite-exists" else ""
     | none => ",rt-invalid") ++
    (if classOf s it.target == some it.targetClass then ",addref-class-ok" else ",addref-class-differs")

def delNodeArms (s : NS) (n : Nat) (dtr : Bool) (st : Status) : String :=
  s!"delnode-{st.name}" ++ (if dtr then ",delnode-dtr1" else ",delnode-dtr0") ++
    (if exists? s n then ",delnode-existing" else ",delnode-absent") ++
    (if (aggregatesOf aggStd s.sp n).isEmpty then ",delnode-leaf" else ",delnode-with-children") ++
    (if s.sp.refs.fwd.get n |>.isSome then ",delnode-has-fwd" else "") ++
    (if s.sp.refs.inv.get n |>.isSome then ",delnode-has-inv" else "")

def delRefArms (s : NS) (it : DeleteReferencesItem) (st : Status) : String :=
  s!"delref-{st.name}" ++
    (if it.bidirectional then ",delref-bidi" else if it.isForward then ",delref-forward" else ",delref-inverse") ++
    (match it.refType with
     | some t =>
       (if hasRef s.sp.refs it.source it.target t then ",delref-fwd-present" else ",delref-fwd-absent") ++
       (if hasRef s.sp.refs it.target it.source t then ",delref-inv-present" else ",delref-inv-absent")
     | none => ",rt-invalid") ++
    (if it.sourceNull then ",delref-source-null" else "") ++ (if it.targetNull then ",delref-target-null" else "")

/-- `fill a n`: `n` AddNodes items with the requested ids `a`, `a+1`, … (objects, Organizes, each the
child of the one before; the first under the Objects folder): occupies a run of ids -/
def fillLoop : Nat → NS → Nat → Nat → Nat → NS × Nat
  | 0, s, _, _, good => (s, good)
  | n + 1, s, a, parent, good =>
    match addNode hierStd s (AddNodesItem.mk (some a) 0 parent (some 35) (some a) clsObject (some 58) true) with
    | .ok s' st _ => fillLoop n s' (a + 1) a (if st == .good then good + 1 else good)
    | .panic => (s, good)

/-! ### multi-item requests -/

def parseAddNode? (t : List String) : Option AddNodesItem :=
  match t with
  | [req, si, parent, rt, name, cls, td, attrs] =>
    match optNat? req, si.toNat?, parent.toNat?, optNat? rt, optNat? name, cls.toNat?, optNat? td, parseBool? attrs with
    | some req, some si, some parent, some rt, some name, some cls, some td, some attrs =>
      some (AddNodesItem.mk req si parent rt name cls td attrs)
    | _, _, _, _, _, _, _, _ => none
  | _ => none

def parseAddRef? (t : List String) : Option AddReferencesItem :=
  match t with
  | [src, tgt, si, uri, rt, fwd, tcls] =>
    match src.toNat?, tgt.toNat?, si.toNat?, parseBool? uri, optNat? rt, parseBool? fwd, tcls.toNat? with
    | some src, some tgt, some si, some uri, some rt, some fwd, some tcls =>
      some (AddReferencesItem.mk src tgt si uri rt fwd tcls)
    | _, _, _, _, _, _, _ => none
  | _ => none

def parseDelNode? (t : List String) : Option (Nat × Bool) :=
  match t with
  | [n, d] => match n.toNat?, parseBool? d with
    | some n, some d => some (n, d)
    | _, _ => none
  | _ => none

def parseDelRef? (t : List String) : Option DeleteReferencesItem :=
  match t with
  | [src, tgt, si, rt, fwd, bidi] =>
    match optNat? src, optNat? tgt, si.toNat?, optNat? rt, parseBool? fwd, parseBool? bidi with
    | some src, some tgt, some si, some rt, some fwd, some bidi =>
      some (DeleteReferencesItem.mk (src.getD 0) (tgt.getD 0) si rt fwd bidi src.isNone tgt.isNone)
    | _, _, _, _, _, _ => none
  | _ => none

/-- cut `toks` into `n` items of `k` tokens each -/
def chunks (k : Nat) : Nat → List String → Option (List (List String))
  | 0, [] => some []
  | 0, _ => none
  | n + 1, toks => if toks.length < k then none else (chunks k n (toks.drop k)).map ((toks.take k) :: ·)

def parseItems {ι : Type} (k : Nat) (p : List String → Option ι) (n : String) (toks : List String) :
    Option (Option (List ι)) :=
  if n = "null" then (if toks.isEmpty then some none else none)
  else match n.toNat? with
    | some n => match chunks k n toks with
      | some cs => (cs.mapM p).map some
      | none => none
    | none => none

def sizeArm (kind : String) (limit : Nat) {ι : Type} (items : Option (List ι)) : String :=
  match items with
  | none => s!"multi-{kind}-null"
  | some l =>
    if l.length = 0 then s!"multi-{kind}-empty"
    else if l.length < limit then s!"multi-{kind}-lt-limit"
    else if l.length = limit then s!"multi-{kind}-eq-limit"
    else s!"multi-{kind}-gt-limit"

def showReq {α : Type} (sh : α → String) (s : NS) (o : ReqOut α) (arm : String) : NS × String :=
  match o with
  | .fault st => (s, s!"fault {st.name} " ++ obs s ++ " @@ " ++ arm ++ s!",fault-{st.name}")
  | .results s' rs => (s', "ok [" ++ ",".intercalate (rs.map sh) ++ "] " ++ obs s' ++ " @@ " ++ arm ++
      (if rs.length > 1 then ",multi-several-items" else ""))
  | .panic => (s, "panic")

def dstep (s : NS) (toks : List String) : NS × String :=
  match toks with
  | ["reset", c, full] =>
    match parseBool? c with
    | some c => (initNS c, "ok @@ " ++ (if c then "session-can-modify" else "session-read-only") ++
        (if full = "1" then ",space-full-nodeset" else ",space-small"))
    | none => (s, "bad-op")
  | ["addnode", req, si, parent, rt, name, cls, td, attrs] =>
    match optNat? req, si.toNat?, parent.toNat?, optNat? rt, optNat? name, cls.toNat?, optNat? td, parseBool? attrs with
    | some req, some si, some parent, some rt, some name, some cls, some td, some attrs =>
      let it := AddNodesItem.mk req si parent rt name cls td attrs
      match addNode hierStd s it with
      | .ok s' st id => (s', s!"ok {st.name} {showOpt id} " ++ obs s' ++ " @@ " ++ addArms s it st)
      | .panic => (s, "panic")
    | _, _, _, _, _, _, _, _ => (s, "bad-op")
  | ["addref", src, tgt, si, uri, rt, fwd, tcls] =>
    match src.toNat?, tgt.toNat?, si.toNat?, parseBool? uri, optNat? rt, parseBool? fwd, tcls.toNat? with
    | some src, some tgt, some si, some uri, some rt, some fwd, some tcls =>
      let it := AddReferencesItem.mk src tgt si uri rt fwd tcls
      match addReference s it with
      | .ok s' st _ => (s', s!"ok {st.name} " ++ obs s' ++ " @@ " ++ addRefArms s it st)
      | .panic => (s, "panic")
    | _, _, _, _, _, _, _ => (s, "bad-op")
  | ["delnode", n, d] =>
    match n.toNat?, parseBool? d with
    | some n, some d =>
      match deleteNode aggStd s n d with
      | some (s', st) => (s', s!"ok {st.name} " ++ obs s' ++ " @@ " ++ delNodeArms s n d st)
      | none => (s, "abort")
    | _, _ => (s, "bad-op")
  | ["delref", src, tgt, si, rt, fwd, bidi] =>
    match optNat? src, optNat? tgt, si.toNat?, optNat? rt, parseBool? fwd, parseBool? bidi with
    | some src, some tgt, some si, some rt, some fwd, some bidi =>
      let it := DeleteReferencesItem.mk (src.getD 0) (tgt.getD 0) si rt fwd bidi src.isNone tgt.isNone
      let (s', st) := deleteReference s it
      (s', s!"ok {st.name} " ++ obs s' ++ " @@ " ++ delRefArms s it st)
    | _, _, _, _, _, _ => (s, "bad-op")
  | "multi" :: kind :: limit :: n :: rest =>
    match limit.toNat? with
    | none => (s, "bad-op")
    | some limit =>
      if kind = "addnode" then
        match parseItems 8 parseAddNode? n rest with
        | some items => showReq (fun (r : Status × Option Nat) => s!"{r.1.name}:{showOpt r.2}") s
            (addNodesReq hierStd limit s items) (sizeArm kind limit items)
        | none => (s, "bad-op")
      else if kind = "addref" then
        match parseItems 7 parseAddRef? n rest with
        | some items => showReq (fun (r : Status) => r.name) s (addReferencesReq limit s items) (sizeArm kind limit items)
        | none => (s, "bad-op")
      else if kind = "delnode" then
        match parseItems 2 parseDelNode? n rest with
        | some items => showReq (fun (r : Status) => r.name) s (deleteNodesReq aggStd limit s items) (sizeArm kind limit items)
        | none => (s, "bad-op")
      else if kind = "delref" then
        match parseItems 6 parseDelRef? n rest with
        | some items => showReq (fun (r : Status) => r.name) s (deleteReferencesReq limit s items) (sizeArm kind limit items)
        | none => (s, "bad-op")
      else (s, "bad-op")
  | ["fill", a, n] =>
    match a.toNat?, n.toNat? with
    | some a, some n =>
      let (s', good) := fillLoop n s a 85 0
      (s', s!"ok {good} " ++ obs s' ++ " @@ fill")
    | _, _ => (s, "bad-op")
  | ["obs"] => (s, "ok " ++ obs s)
  | _ => (s, "bad-op")

def driver : Driver := { σ := NS, init := initNS true, step := dstep }

end OpcuaVerif.C34
