import OpcuaVerif.Common
import OpcuaVerif.Model.C34
import OpcuaVerif.Drv.C28

namespace OpcuaVerif.C34
open OpcuaVerif.C28 OpcuaVerif.C29

/-- observation universe: BaseObjectType, BaseDataVariableType, the Objects folder and twelve ids
of the internal namespace starting at the id counter's value -/
def obsNodes : List Nat := [58, 63, 85] ++ (List.range 12).map (· + idBase)

/-- HierarchicalReferences and its subtypes / Aggregates and its subtypes (standard nodeset) among
the reference types the generator uses -/
def hierStd (t : Nat) : Bool := [33, 34, 35, 36, 44, 46, 47, 48, 49, 56].contains t
def aggStd (t : Nat) : Bool := [44, 46, 47, 49, 56].contains t

def initNS (canModify : Bool) : NS :=
  { sp := { nodes := [58, 63, 85], refs := C28.empty },
    info := [(58, (clsObjectType, 9058)), (63, (clsVariableType, 9063)), (85, (clsObject, 9085))],
    next := 0, canModify := canModify }

def obsFwd (s : Refs) : List (Nat × Nat × Nat) :=
  obsNodes.flatMap fun a =>
    match findRefs s drvFuel a none with
    | some (some l) => ((sortPairs l).filter fun (_, b) => obsNodes.contains b).map fun (t, b) => (a, t, b)
    | _ => []

def obsInv (s : Refs) : List (Nat × Nat × Nat) :=
  obsNodes.flatMap fun b =>
    match findInv s drvFuel b none with
    | some (some l) => ((sortPairs l).filter fun (_, a) => obsNodes.contains a).map fun (t, a) => (a, t, b)
    | _ => []

def obsInfo (s : NS) : String :=
  "[" ++ ",".intercalate ((obsNodes.filter fun n => n ≥ idBase && exists? s n).map fun n =>
    match s.info.get n with
    | some (c, nm) => s!"{n}:{c}:{nm}"
    | none => s!"{n}:?") ++ "]"

def obs (s : NS) : String :=
  s!"N={natList (obsNodes.filter fun n => exists? s n)} B={obsInfo s} F={showTriples (obsFwd s.sp.refs)} I={showTriples (obsInv s.sp.refs)}"

def optNat? (s : String) : Option (Option Nat) :=
  if s = "-" || s = "x" then some none else s.toNat?.map some

def showOpt (o : Option Nat) : String := match o with | some n => toString n | none => "-"

def dstep (s : NS) (toks : List String) : NS × String :=
  match toks with
  | ["reset", c, _full] =>
    match parseBool? c with
    | some c => (initNS c, "ok")
    | none => (s, "bad-op")
  | ["addnode", req, si, parent, rt, name, cls, td, attrs] =>
    match optNat? req, si.toNat?, parent.toNat?, optNat? rt, optNat? name, cls.toNat?, optNat? td, parseBool? attrs with
    | some req, some si, some parent, some rt, some name, some cls, some td, some attrs =>
      match addNode hierStd s (AddNodesItem.mk req si parent rt name cls td attrs) with
      | .ok s' st id => (s', s!"ok {st.name} {showOpt id} " ++ obs s')
      | .panic => (s, "panic")
    | _, _, _, _, _, _, _, _ => (s, "bad-op")
  | ["addref", src, tgt, si, uri, rt, fwd, tcls] =>
    match src.toNat?, tgt.toNat?, si.toNat?, parseBool? uri, optNat? rt, parseBool? fwd, tcls.toNat? with
    | some src, some tgt, some si, some uri, some rt, some fwd, some tcls =>
      match addReference s (AddReferencesItem.mk src tgt si uri rt fwd tcls) with
      | .ok s' st _ => (s', s!"ok {st.name} " ++ obs s')
      | .panic => (s, "panic")
    | _, _, _, _, _, _, _ => (s, "bad-op")
  | ["delnode", n, d] =>
    match n.toNat?, parseBool? d with
    | some n, some d =>
      match deleteNode aggStd s n d with
      | some (s', st) => (s', s!"ok {st.name} " ++ obs s')
      | none => (s, "abort")
    | _, _ => (s, "bad-op")
  | ["delref", src, tgt, si, rt, fwd, bidi] =>
    match optNat? src, optNat? tgt, si.toNat?, optNat? rt, parseBool? fwd, parseBool? bidi with
    | some src, some tgt, some si, some rt, some fwd, some bidi =>
      let (s', st) := deleteReference s
        (DeleteReferencesItem.mk (src.getD 0) (tgt.getD 0) si rt fwd bidi src.isNone tgt.isNone)
      (s', s!"ok {st.name} " ++ obs s')
    | _, _, _, _, _, _ => (s, "bad-op")
  | ["obs"] => (s, "ok " ++ obs s)
  | _ => (s, "bad-op")

def driver : Driver := { σ := NS, init := initNS true, step := dstep }

end OpcuaVerif.C34
