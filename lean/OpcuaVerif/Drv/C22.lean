import OpcuaVerif.Common
import OpcuaVerif.Model.C22

namespace OpcuaVerif.C22

def stateNum : SState → Nat
  | .closed => 0 | .creating => 1 | .normal => 2 | .late => 3 | .keepAlive => 4

def msgStr : Msg → String
  | .keepAlive => "ka" | .data => "dc" | .statusChange => "sc"

def actStr : Action → String
  | .none => "none" | .keepAlive => "keepAlive" | .notifications => "notifications"
  | .created => "created" | .expired => "expired"

def showResps (out : List Resp) : String :=
  "[" ++ ",".intercalate (out.map fun (r, k, n) => toString r ++ ":" ++ msgStr k ++ ":" ++ toString n) ++ "]"

def showSess (z : Sess) (out : List Resp) : String :=
  let sub := match z.sub with
    | none => "st=-"
    | some s => s!"st={stateNum s.state} life={s.life} ka={s.ka} sent={boolStr s.sent} nq={s.notifs.length}"
  s!"{sub} rq={natList z.reqs} resp={showResps out}"

def dstep (z : Sess) (toks : List String) : Sess × String :=
  match toks with
  | ["reset", k, l, e, i] =>
    match k.toNat?, l.toNat?, parseBool? e, parseBool? i with
    | some k, some l, some e, some i =>
      let z : Sess := { sub := some (mk l k e i), reqs := [] }
      (z, "ok " ++ showSess z [])
    | _, _, _, _ => (z, "bad-op")
  | ["timer", e, w] =>
    match parseBool? e, parseBool? w with
    | some e, some w =>
      match sessTick (if w then write z else z) true e with
      | some (z', out) => (z', "ok " ++ showSess z' out)
      | none => (z, "panic")
    | _, _ => (z, "bad-op")
  | ["pub", r] =>
    match r.toNat? with
    | some r =>
      match publish z r with
      | .ok z' out => (z', "ok res=ok " ++ showSess z' out)
      | .tooMany z' out => (z', "ok res=toomany " ++ showSess z' out)
      | .panic => (z, "panic")
    | none => (z, "bad-op")
  | ["us", st, life, ka, sent, en, ml, mka, t, na, more, req, ex] =>
    -- ONE call of `update_state` from an arbitrary position (the session is not touched)
    match st.toNat?, life.toNat?, ka.toNat?, parseBool? sent, parseBool? en, ml.toNat?, mka.toNat? with
    | some st, some life, some ka, some sent, some en, some ml, some mka =>
      match parseBool? t, parseBool? na, parseBool? more, parseBool? req, parseBool? ex with
      | some t, some na, some more, some req, some ex =>
        let state : SState := match st with
          | 0 => .closed | 1 => .creating | 2 => .normal | 3 => .late | _ => .keepAlive
        let s : Subn := { mk ml mka en false with state := state, life := life, ka := ka, sent := sent }
        match updateState s t { na := na, more := more, req := req, expired := ex } with
        | some (s', row, a) =>
          (z, s!"ok row={row} act={actStr a} st={stateNum s'.state} life={s'.life} ka={s'.ka} sent={boolStr s'.sent}")
        | none => (z, "ok row=panic")
      | _, _, _, _, _ => (z, "bad-op")
    | _, _, _, _, _, _, _ => (z, "bad-op")
  | _ => (z, "bad-op")

def driver : Driver :=
  { σ := Sess, init := { sub := some (mk 30 10 true false), reqs := [] }, step := dstep }

end OpcuaVerif.C22
