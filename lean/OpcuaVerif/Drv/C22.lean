import OpcuaVerif.Common
import OpcuaVerif.Model.C22
import OpcuaVerif.Model.C23

namespace OpcuaVerif.C22

def stateNum : SState → Nat
  | .closed => 0 | .creating => 1 | .normal => 2 | .late => 3 | .keepAlive => 4

def msgStr : Msg → String
  | .keepAlive => "ka" | .data => "dc" | .statusChange => "sc"

def actStr : Action → String
  | .none => "none" | .keepAlive => "keepAlive" | .notifications => "notifications"
  | .created => "created" | .expired => "expired"

def showResps (out : List Resp) : String :=
  "[" ++ ",".intercalate (out.map fun (r, k, n) => toString r ++ ":" ++ msgStr k ++ ":" ++ toString n) ++ "]"

def showSess (z : Sess) (out : List Resp) : String :=
  let sub := match z.sub with
    | none => "st=-"
    | some s => s!"st={stateNum s.state} life={s.life} ka={s.ka} sent={boolStr s.sent} nq={s.notifs.length} it={boolStr s.hasItem}"
  s!"{sub} rq={natList z.reqs} resp={showResps out}"

/-! ### arm tags (`result @@ tags`): which rows / guard outcomes / handler arms an op took -/

def bucket (n : Nat) (top : Nat) : String := if n ≥ top then s!"{top}+" else toString n

/-- tags of ONE `Subscriptions::tick` of session `z` (`pre` = "t" timer tick, "p" tick made for an
arriving publish request) -/
def tickTags (pre : String) (z : Sess) (timer e : Bool) : List String :=
  match z.sub with
  | none => [s!"{pre}:nosub"]
  | some s =>
    let q := !z.reqs.isEmpty
    let el := timer && (decide (s.state = .creating) || e)
    let sample := el && decide (s.state ≠ .closed) && decide (s.state ≠ .creating) && s.hasItem
    let notif : Option Nat := if sample && s.pending then some s.seq else none
    let s1 : Subn := if sample then { s with pending := false, seq := if s.pending then succ32 s.seq else s.seq } else s
    let na := !s1.notifs.isEmpty || notif.isSome
    let more := decide (s1.notifs.length > 1)
    let live := decide (s.state = .normal ∨ s.state = .late ∨ s.state = .keepAlive)
    let base := [s!"{pre}:st{stateNum s.state}", if q then s!"{pre}:req" else s!"{pre}:noreq"]
      ++ (if live then [s!"{pre}:life{bucket s.life 3}", if na then s!"{pre}:na" else s!"{pre}:nona",
                        if s.enabled then s!"{pre}:en" else s!"{pre}:dis",
                        if s.sent then s!"{pre}:sent" else s!"{pre}:unsent"] else [])
      ++ (if live && more then [s!"{pre}:more"] else [])
      ++ (if timer && live then [if el then "t:el" else "t:notel",
                                 if sample then (if notif.isSome then "t:sample-data" else "t:sample-nodata") else "t:nosample"] else [])
      ++ (if timer && el && decide (s.state = .keepAlive) then
            [s!"t:ka{bucket s.ka 2}-{if q then "req" else "noreq"}-{if na then "na" else "nona"}"] else [])
    if na || el || q then
      match updateState s1 timer { na := na, more := more, req := q, expired := el } with
      | none => base ++ [s!"{pre}:panic"]
      | some (s2, row, a) =>
        let h := match a, notif with
          | .none, some _ => if current.keepOnNone && s2.enabled then "h:none-keep" else "h:none-drop"
          | .none, none => "h:none"
          | .keepAlive, some _ => "h:ka-drop"
          | .keepAlive, none => "h:ka"
          | .notifications, some _ => "h:notif-new"
          | .notifications, none => "h:notif-queued"
          | .created, _ => "h:created"
          | .expired, some _ => "h:expired-drop"
          | .expired, none => "h:expired"
        base ++ [s!"{pre}:r{row}", h]
    else base ++ [s!"{pre}:skip"]

def outTags (pre : String) (z' : Sess) (out : List Resp) : List String :=
  [s!"{pre}:resp{bucket out.length 2}"] ++ (if z'.sub.isNone then [s!"{pre}:gone"] else [])

def tagStr (tags : List String) : String := " @@ " ++ ",".intercalate tags.eraseDups

def dstep (z : Sess) (toks : List String) : Sess × String :=
  match toks with
  | ["reset", k, l, e, i] =>
    match k.toNat?, l.toNat?, parseBool? e, parseBool? i with
    | some k, some l, some e, some i =>
      let z : Sess := { sub := some (mk l k e i), reqs := [] }
      (z, "ok " ++ showSess z [])
    | _, _, _, _ => (z, "bad-op")
  | ["timer", e, w] =>
    match parseBool? e, parseBool? w with
    | some e, some w =>
      let zz := if w then write z else z
      let tags := tickTags "t" zz true e ++ (if w then ["t:write"] else [])
      match sessTick zz true e with
      | some (z', out) => (z', "ok " ++ showSess z' out ++ tagStr (tags ++ outTags "t" z' out))
      | none => (z, "panic" ++ tagStr tags)
    | _, _ => (z, "bad-op")
  | ["pub", r] =>
    match r.toNat? with
    | some r =>
      -- the ticks `enqueue_publish_request` makes: one first if the queue is full, one after queueing
      let full := decide (z.reqs.length ≥ maxPublishRequests z)
      let t1 := if full then tickTags "p" z false false ++ ["pub:queue-full"] else []
      let z1 := if full then (match sessTick z false false with | some (z1, _) => z1 | none => z) else z
      let fits := decide (z1.reqs.length < maxPublishRequests z)
      let t2 := if fits then tickTags "p" { z1 with reqs := z1.reqs ++ [r] } false false else []
      match publish z r with
      | .ok z' out => (z', "ok res=ok " ++ showSess z' out ++ tagStr (t1 ++ t2 ++ ["pub:ok"] ++ outTags "p" z' out))
      | .tooMany z' out => (z', "ok res=toomany " ++ showSess z' out ++ tagStr (t1 ++ ["pub:toomany"] ++ outTags "p" z' out))
      | .panic => (z, "panic" ++ tagStr (t1 ++ t2))
    | none => (z, "bad-op")
  | ["setinterval", i] =>
    -- ModifySubscription that only changes the publishing interval (the counts are re-applied, both
    -- counters reset); "interval elapsed" of later ticks refers to the NEW interval
    match i.toNat?, z.sub with
    | some _, some s =>
      match C23.revise { minPub := 0x4059000000000000, minSamp := 0x4059000000000000, defaultKa := 10,
                         maxKa := 30000, maxLife := 90000, maxQueue := 10 } 0x40f86a0000000000 s.maxKa s.maxLife with
      | some (_, k', l') =>
        let z' := { z with sub := some (modifySub s k' l') }
        (z', "ok " ++ showSess z' [] ++ tagStr ["svc:setinterval", s!"svc:setinterval-st{stateNum s.state}"])
      | none => (z, "panic")
    | some _, none => (z, "err nosub" ++ tagStr ["svc:setinterval-nosub"])
    | none, _ => (z, "bad-op")
  | ["modify", k, l, _i] =>
    -- the real ModifySubscription service; the server revises the counts first (default limits);
    -- the requested interval (>= the minimum) only changes what "interval elapsed" means afterwards
    match k.toNat?, l.toNat?, z.sub with
    | some k, some l, some s =>
      match C23.revise { minPub := 0x4059000000000000, minSamp := 0x4059000000000000, defaultKa := 10,
                         maxKa := 30000, maxLife := 90000, maxQueue := 10 } 0x40f86a0000000000 k l with
      | some (_, k', l') =>
        let z' := { z with sub := some (modifySub s k' l') }
        (z', "ok " ++ showSess z' [] ++ tagStr ["svc:modify", s!"svc:modify-st{stateNum s.state}"])
      | none => (z, "panic")
    | some _, some _, none => (z, "err nosub" ++ tagStr ["svc:modify-nosub"])
    | _, _, _ => (z, "bad-op")
  | ["enable", b] =>
    match parseBool? b, z.sub with
    | some b, some s =>
      let z' := { z with sub := some (setEnabled s b) }
      (z', "ok " ++ showSess z' [] ++ tagStr [if b then "svc:enable" else "svc:disable", s!"svc:mode-st{stateNum s.state}"])
    | some _, none => (z, "err nosub" ++ tagStr ["svc:mode-nosub"])
    | none, _ => (z, "bad-op")
  | ["touch"] =>
    match z.sub with
    | some s =>
      let z' := { z with sub := some (touch s) }
      (z', "ok " ++ showSess z' [] ++ tagStr ["svc:touch", s!"svc:touch-st{stateNum s.state}"])
    | none => (z, "err nosub" ++ tagStr ["svc:touch-nosub"])
  | ["us", st, life, ka, sent, en, ml, mka, t, na, more, req, ex] =>
    -- ONE call of `update_state` from an arbitrary position (the session is not touched)
    match st.toNat?, life.toNat?, ka.toNat?, parseBool? sent, parseBool? en, ml.toNat?, mka.toNat? with
    | some st, some life, some ka, some sent, some en, some ml, some mka =>
      match parseBool? t, parseBool? na, parseBool? more, parseBool? req, parseBool? ex with
      | some t, some na, some more, some req, some ex =>
        let state : SState := match st with
          | 0 => .closed | 1 => .creating | 2 => .normal | 3 => .late | _ => .keepAlive
        let s : Subn := { mk ml mka en false with state := state, life := life, ka := ka, sent := sent }
        match updateState s t { na := na, more := more, req := req, expired := ex } with
        | some (s', row, a) =>
          (z, s!"ok row={row} act={actStr a} st={stateNum s'.state} life={s'.life} ka={s'.ka} sent={boolStr s'.sent}"
            ++ tagStr [s!"us:r{row}", s!"us:st{stateNum state}-ka{ka}", s!"us:st{stateNum state}-life{life}"])
        | none => (z, "ok row=panic" ++ tagStr ["us:panic"])
      | _, _, _, _, _ => (z, "bad-op")
    | _, _, _, _, _, _, _ => (z, "bad-op")
  | _ => (z, "bad-op")

def driver : Driver :=
  { σ := Sess, init := { sub := some (mk 30 10 true false), reqs := [] }, step := dstep }

end OpcuaVerif.C22
