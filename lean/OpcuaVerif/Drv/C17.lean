import OpcuaVerif.Common
import OpcuaVerif.Model.C17

namespace OpcuaVerif.C17

structure DState where
  w : World
  policy : Policy
  signer : Nat
  sd : SigData

def parsePolicy? (s : String) : Option Policy :=
  if s = "none" then some .none
  else if s = "basic128rsa15" then some .basic128Rsa15
  else if s = "basic256" then some .basic256
  else if s = "basic256sha256" then some .basic256Sha256
  else if s = "aes128sha256rsaoaep" then some .aes128Sha256RsaOaep
  else if s = "aes256sha256rsapss" then some .aes256Sha256RsaPss
  else if s = "unknown" then some .unknown
  else Option.none

/-- key sizes (bytes) of the harness' key pool: 1024, 2048, 2048, 4096 bits -/
def poolKs (i : Nat) : Nat := [128, 256, 256, 512].getD i 256

/-- stand-in for the DER bytes of pool certificate `c` with mutation `m` (0 = unchanged):
equal length and a length prefix, hence prefix-free like DER -/
def toyCert (c m : Nat) : Bytes := [48, 4, c, m / 65536 % 256, m / 256 % 256, m % 256]

/-- the signature bytes the toy key holder produces for its `n`-th signature -/
def toySig (ks n : Nat) : Bytes := [n % 256 + 1, 165] ++ List.replicate (ks - 2) 90

def mutSig (kind : String) (p : Nat) (s : Option Bytes) : Option (Option Bytes) :=
  match s with
  | Option.none => if kind = "none" ∨ kind = "null" then some Option.none else some Option.none
  | some s =>
    if kind = "none" then some (some s)
    else if kind = "null" then some Option.none
    else if kind = "flip" then
      some (some (s.mapIdx fun k b => if k = (p % (8 * s.length)) / 8 then b ^^^ (1 <<< (p % 8)) else b))
    else if kind = "trunc" then some (some (s.take (s.length - p)))
    else if kind = "extend" then some (some (s ++ List.replicate p 0))
    else if kind = "zero" then some (some (List.replicate s.length 0))
    else Option.none

def statusName : Status → String
  | .good => "Good"
  | .badSecurityChecksFailed => "BadSecurityChecksFailed"
  | .badUnexpectedError => "BadUnexpectedError"

def strHex (s : String) : String := "s" ++ bytesToHex (s.toUTF8.toList.map (·.toNat))

def parseOptBytes (s : String) : Option (Option Bytes) :=
  if s = "-" then some Option.none else (hexToBytes s).map some

def dstep (s : DState) (toks : List String) : DState × String :=
  match toks with
  | ["reset", p, k] =>
    match parsePolicy? p, k.toNat? with
    | some p, some k => ({ w := [], policy := p, signer := k, sd := ⟨Option.none, Option.none⟩ }, "ok")
    | _, _ => (s, "bad-op")
  | ["create", c, n] =>
    let cert : Option (Option Bytes) := if c = "-" then some Option.none else c.toNat?.map (fun c => some (toyCert c 0))
    match cert, parseOptBytes n with
    | some cert, some nonce =>
      let ks := poolKs s.signer
      match create s.w s.signer ks (toySig ks s.w.length) s.policy cert nonce with
      | .ok (w, sd) =>
        let a := match sd.algorithm with | some u => strHex u | Option.none => "-"
        let l := match sd.signature with | some b => toString b.length | Option.none => "-"
        ({ s with w := w, sd := sd }, s!"ok alg={a} siglen={l}")
      | .err e => (s, "err " ++ statusName e)
      | .panic => (s, "panic")
    | _, _ => (s, "bad-op")
  | ["verify", p, k, c, m, n, kind, prm] =>
    match parsePolicy? p, k.toNat?, c.toNat?, m.toNat?, hexToBytes n, prm.toNat? with
    | some p, some k, some c, some m, some nonce, some prm =>
      match mutSig kind prm s.sd.signature with
      | some sig =>
        match verify s.w { s.sd with signature := sig } p (some k) (toyCert c m) nonce with
        | .ok st => (s, "ok " ++ statusName st)
        | .err e => (s, "err " ++ statusName e)
        | .panic => (s, "panic")
      | Option.none => (s, "bad-op")
    | _, _, _, _, _, _ => (s, "bad-op")
  | _ => (s, "bad-op")

def driver : Driver :=
  { σ := DState, init := { w := [], policy := .none, signer := 0, sd := ⟨Option.none, Option.none⟩ }, step := dstep }

end OpcuaVerif.C17
