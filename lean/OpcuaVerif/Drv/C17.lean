import OpcuaVerif.Common
import OpcuaVerif.Model.C17

namespace OpcuaVerif.C17

/-- key sizes (bytes) of the harness' key pool: 1024, 2048, 2048, 4096 bits -/
def poolKs (i : Nat) : Nat := [128, 256, 256, 512].getD i 256

structure DState where
  w : World
  policy : Policy
  signer : Nat
  sd : SigData
  /-- what the signature was made over: (certificate index, nonce) -/
  made : Option (Nat × Bytes) := Option.none

def policyName : Policy → String
  | .none => "none" | .basic128Rsa15 => "basic128rsa15" | .basic256 => "basic256"
  | .basic256Sha256 => "basic256sha256" | .aes128Sha256RsaOaep => "aes128sha256rsaoaep"
  | .aes256Sha256RsaPss => "aes256sha256rsapss" | .unknown => "unknown"

/-- which input of a verification differs from what was signed (arm tags) -/
def verifyArms (s : DState) (p : Policy) (k c m : Nat) (nonce : Bytes) (kind : String) : List String :=
  let base := ["vpol-" ++ policyName p, "vkey-" ++ toString (poolKs k)]
  match s.made with
  | Option.none => base ++ ["v-nothing-signed"]
  | some (c0, n0) =>
    let diffs :=
      (if k ≠ s.signer then [if poolKs k = poolKs s.signer then "v-other-signer-same-size" else "v-other-signer"] else []) ++
      (if c ≠ c0 then ["v-other-cert"] else if m ≠ 0 then ["v-cert-byte-changed"] else []) ++
      (if nonce = n0 then [] else if nonce.length = n0.length then ["v-nonce-changed-same-length"]
       else if nonce.length < n0.length then ["v-nonce-shorter"] else ["v-nonce-longer"]) ++
      (if kind = "none" then [] else ["v-sig-" ++ kind]) ++
      (if p = s.policy then [] else if p.sigAlg? = s.policy.sigAlg? then ["v-policy-other-name-same-algorithm"]
       else ["v-policy-other-algorithm"])
    base ++ (if diffs.isEmpty then ["v-same"] else diffs)

def withArms (res : String) (arms : List String) : String :=
  if arms.isEmpty then res else res ++ " @@ " ++ ",".intercalate arms.eraseDups

def parsePolicy? (s : String) : Option Policy :=
  if s = "none" then some .none
  else if s = "basic128rsa15" then some .basic128Rsa15
  else if s = "basic256" then some .basic256
  else if s = "basic256sha256" then some .basic256Sha256
  else if s = "aes128sha256rsaoaep" then some .aes128Sha256RsaOaep
  else if s = "aes256sha256rsapss" then some .aes256Sha256RsaPss
  else if s = "unknown" then some .unknown
  else Option.none


/-- stand-in for the DER bytes of pool certificate `c` with mutation `m` (0 = unchanged):
equal length and a length prefix, hence prefix-free like DER -/
def toyCert (c m : Nat) : Bytes := [48, 4, c, m / 65536 % 256, m / 256 % 256, m % 256]

/-- the signature bytes the toy key holder produces for its `n`-th signature -/
def toySig (ks n : Nat) : Bytes := [n % 256 + 1, 165] ++ List.replicate (ks - 2) 90

def mutSig (kind : String) (p : Nat) (s : Option Bytes) : Option (Option Bytes) :=
  match s with
  | Option.none => if kind = "none" ∨ kind = "null" then some Option.none else some Option.none
  | some s =>
    if kind = "none" then some (some s)
    else if kind = "null" then some Option.none
    else if kind = "flip" then
      some (some (s.mapIdx fun k b => if k = (p % (8 * s.length)) / 8 then b ^^^ (1 <<< (p % 8)) else b))
    else if kind = "trunc" then some (some (s.take (s.length - p)))
    else if kind = "extend" then some (some (s ++ List.replicate p 0))
    else if kind = "zero" then some (some (List.replicate s.length 0))
    else Option.none

def statusName : Status → String
  | .good => "Good"
  | .badSecurityChecksFailed => "BadSecurityChecksFailed"
  | .badUnexpectedError => "BadUnexpectedError"
  | .badCertificateInvalid => "BadCertificateInvalid"

def strHex (s : String) : String := "s" ++ bytesToHex (s.toUTF8.toList.map (·.toNat))

def parseOptBytes (s : String) : Option (Option Bytes) :=
  if s = "-" then some Option.none else (hexToBytes s).map some

def dstep (s : DState) (toks : List String) : DState × String :=
  match toks with
  | ["reset", p, k] =>
    match parsePolicy? p, k.toNat? with
    | some p, some k => ({ w := [], policy := p, signer := k, sd := ⟨Option.none, Option.none⟩ },
        withArms "ok" ["cfg-" ++ policyName p ++ "-" ++ toString (poolKs k)])
    | _, _ => (s, "bad-op")
  | ["create", c, n] =>
    let cert : Option (Option Bytes) := if c = "-" then some Option.none else c.toNat?.map (fun c => some (toyCert c 0))
    match cert, parseOptBytes n with
    | some cert, some nonce =>
      let ks := poolKs s.signer
      match create s.w s.signer ks (toySig ks s.w.length) s.policy cert nonce with
      | .ok (w, sd) =>
        let a := match sd.algorithm with | some u => strHex u | Option.none => "-"
        let l := match sd.signature with | some b => toString b.length | Option.none => "-"
        let made := match cert, nonce, sd.signature with
          | some _, some n, some _ => some (c.toNat?.getD 0, n)
          | _, _, _ => Option.none
        let arm :=
          if cert.isNone then "create-null-cert" else if nonce.isNone then "create-null-nonce"
          else if sd.signature.isNone then "create-no-signature-" ++ policyName s.policy
          else "create-sign-" ++ policyName s.policy
        ({ s with w := w, sd := sd, made := made }, withArms s!"ok alg={a} siglen={l}" [arm])
      | .err e => (s, "err " ++ statusName e)
      | .panic => (s, "panic")
    | _, _ => (s, "bad-op")
  | ["verify", p, k, c, m, n, kind, prm] =>
    match parsePolicy? p, k.toNat?, c.toNat?, m.toNat?, hexToBytes n, prm.toNat? with
    | some p, some k, some c, some m, some nonce, some prm =>
      match mutSig kind prm s.sd.signature with
      | some sig =>
        let arms := verifyArms s p k c m nonce kind
        match verify s.w { s.sd with signature := sig } p (some k) (toyCert c m) nonce with
        | .ok st => (s, withArms ("ok " ++ statusName st) (("verify-" ++ statusName st) :: arms))
        | .err e => (s, "err " ++ statusName e)
        | .panic => (s, withArms "panic" ("verify-panic" :: arms))
      | Option.none => (s, "bad-op")
    | _, _, _, _, _, _ => (s, "bad-op")
  | ["vx509", p, tk, c, n] =>
    -- `verify_x509_identity_token`: the signing certificate comes out of the token (`g` = garbage, `-` = null)
    match parsePolicy? p, c.toNat?, hexToBytes n with
    | some p, some c, some nonce =>
      let tokenKey : Option (Option Nat) :=
        if tk = "g" ∨ tk = "-" then some Option.none else tk.toNat?.map some
      match tokenKey with
      | some tokenKey =>
        let arm := if tk = "g" then "x509-token-cert-garbage" else if tk = "-" then "x509-token-cert-null" else "x509-token-cert-parses"
        match verifyX509Token s.w s.sd p tokenKey (toyCert c 0) nonce with
        | .ok st => (s, withArms ("ok " ++ statusName st) [arm, "x509-" ++ statusName st])
        | .err e => (s, "err " ++ statusName e)
        | .panic => (s, withArms "panic" [arm, "x509-panic"])
      | Option.none => (s, "bad-op")
    | _, _, _ => (s, "bad-op")
  | ["signbuf", p, k, len] =>
    -- `SecurityPolicy::asymmetric_sign` into a caller-supplied buffer of `len` bytes
    match parsePolicy? p, k.toNat?, len.toNat? with
    | some p, some k, some len =>
      let ks := poolKs k
      let arm := if len < ks then "signbuf-short" else if len = ks then "signbuf-exact" else "signbuf-long"
      match p with
      | .none | .unknown => (s, withArms "panic" ["signbuf-invalid-policy"])
      | _ =>
        match create [] k len (toySig ks 0) p (some []) (some []) with
        | .ok _ => (s, withArms s!"ok {ks}" [arm])
        | .err e => (s, "err " ++ statusName e)
        | .panic => (s, withArms "panic" [arm])
    | _, _, _ => (s, "bad-op")
  | _ => (s, "bad-op")

def driver : Driver :=
  { σ := DState, init := { w := [], policy := .none, signer := 0, sd := ⟨Option.none, Option.none⟩ }, step := dstep }

end OpcuaVerif.C17
