import OpcuaVerif.Common
import OpcuaVerif.Model.C15
import OpcuaVerif.Drv.C12

namespace OpcuaVerif.C15
open OpcuaVerif.C12

def showOut : Out → String
  | .ack => "ok ack"
  | .opnResponse ch tk r => s!"ok opn chan={ch} token={tk} req={r}"
  | .service .getEndpoints r => s!"ok service GetEndpointsResponse req={r}"
  | .service .createSession r => s!"ok service CreateSessionResponse req={r}"
  | .closeErr e => s!"err {e}"
  | .ignored => "err closed"

def ci? (s : String) : Option CI :=
  match parseCI? s with
  | some (some c) => some c
  | _ => none

def parseFrame? : List String → Option Frame
  | ["hel", "valid"] => some (.hel .valid)
  | ["hel", "badurl"] => some (.hel .badUrl)
  | ["hel", "smallbuf"] => some (.hel .smallBuffers)
  | ["hel", "proto1"] => some (.hel .protocol1)
  | ["ack"] => some .ack
  | ["opn", "issue", c] => (ci? c).map (.opn false)
  | ["opn", "renew", c] => (ci? c).map (.opn true)
  | ["msg", "ge", c] => (ci? c).map (.msg .getEndpoints)
  | ["msg", "cs", c] => (ci? c).map (.msg .createSession)
  | ["clo", c] => (ci? c).map .clo
  | _ => none

/-- what a client sees over the socket: a response frame, or the connection going away -/
def showSock : Out → String
  | .ack => "ack"
  | .opnResponse ch tk r => s!"opn_chan={ch}_token={tk}_req={r}"
  | .service .getEndpoints r => s!"service_GetEndpointsResponse_req={r}"
  | .service .createSession r => s!"service_CreateSessionResponse_req={r}"
  | .closeErr _ => "eof"
  | .ignored => "eof"

def dstep (c : Conn) (toks : List String) : Conn × String :=
  match toks with
  | ["reset"] => (Conn.init, "ok")
  | ["sock", specs] =>
    match (specs.splitOn ",").mapM (fun sp => parseFrame? (sp.splitOn ".")) with
    | some fs => (c, "ok [" ++ ",".intercalate ((run Conn.init fs).map showSock) ++ "]")
    | none => (c, "bad-op")
  | _ =>
    match parseFrame? toks with
    | some f => match step c f with
      | (c', o) => (c', showOut o)
    | none => (c, "bad-op")

def driver : Driver := { σ := Conn, init := Conn.init, step := dstep }

end OpcuaVerif.C15
