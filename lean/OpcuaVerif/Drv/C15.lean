import OpcuaVerif.Common
import OpcuaVerif.Model.C15
import OpcuaVerif.Drv.SrvConn

/-! C15 is decided on the shared model of one server connection (`Model/SrvConn.lean`). -/
namespace OpcuaVerif.C15

def driver : Driver := { σ := SrvConn.Conn, init := SrvConn.conn0, step := SrvConn.dstep }

end OpcuaVerif.C15
