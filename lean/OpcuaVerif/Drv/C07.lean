import OpcuaVerif.Common
import OpcuaVerif.Drv.C09
import OpcuaVerif.Model.C07

/-!
Driver for C07.

    reset <policy> <mode> <client|server> <senderCertLen> <senderKeySize> <recvKeySize> <chanId> <tokenId> […]
    rt <msg|opn|clo> <seq> <req> <maxMsg> <maxChunk> <strLen> <msgLen> <nodeIdLen>

`rt` runs the whole pipeline of the model — `encode`, `applySecurity` per chunk, the receive path
`C09.recv` per chunk, `reassemble` — with toy primitives (sizes, offsets and accept/reject do not
depend on the primitives) on a synthetic message of `nodeIdLen + msgLen` bytes, and prints the
numbers the harness measures on the real code.
-/
namespace OpcuaVerif.C07
open OpcuaVerif.C09

def parseKind? : String → Option MType
  | "msg" => some .msg | "opn" => some .opn | "clo" => some .clo | _ => none

def defaultSender : Sender :=
  { policy := .none, mode := .none, isClient := true, chanId := 0, tokenId := 0, cert := [],
    ownKey := 128, remoteKey := 128, thumb := List.replicate 20 1 }

def parseResetS? (toks : List String) : Option Sender :=
  match toks with
  | p :: m :: role :: cl :: sk :: rk :: ci :: ti :: _ => do
    let p ← parsePolicy? p
    let m ← parseMode? m
    let cl ← cl.toNat?
    let sk ← sk.toNat?
    let rk ← rk.toNat?
    let ci ← ci.toNat?
    let ti ← ti.toNat?
    let s0 : Sender := { defaultSender with policy := p, mode := m, isClient := (role == "client") }
    let s1 : Sender := { s0 with chanId := ci, tokenId := ti, cert := List.replicate cl 48 }
    some { s1 with ownKey := sk, remoteKey := rk }
  | _ => none

/-- receive all chunks in order: the verified chunks, or the index and status of the first failure -/
def recvAllS (C : Crypto) : Chan → Nat → List Bytes → Except String (List Bytes)
  | _, _, [] => .ok []
  | ch, i, w :: ws =>
    match recv C ch w with
    | (ch', .ok d) => (recvAllS C ch' (i + 1) ws).map (d :: ·)
    | (_, .err st) => .error s!"err{i}:{st.name}"
    | (_, .panic _) => .error s!"panic{i}"
    | (_, .fuel) => .error "fuel"

def flagsOf (cs : List Bytes) : String :=
  String.ofList (cs.map fun c => Char.ofNat ((c.drop 3).headD 63))

def seqAt (off : Nat) (c : Bytes) : Nat :=
  match c.drop off with
  | a :: b :: c :: d :: _ => le32 a b c d
  | _ => 0

/-- arm tags of one `rt`/`sz` op (coverage accounting only) -/
def armsRt (s : Sender) (t : MType) (maxMsg maxChunk msgLen dataLen : Nat) (res : EncRes) : List String :=
  let kind := match t with | .msg => "kind-msg" | .opn => "kind-opn" | .clo => "kind-clo"
  let cfg := "cfg-" ++ s.policy.name ++ "-" ++ modeName s.mode
  let role := if s.isClient then "role-client" else "role-server"
  let mm := if maxMsg = 0 then "maxmsg-off" else cmp3 "msglen-vs-maxmsg" msgLen maxMsg
  let mc := if maxChunk = 0 then "chunk-off" else cmp3 "maxchunk-vs-8196" maxChunk 8196
  [kind, cfg, role, mm, mc] ++
  match res with
  | .err true => ["enc-too-large"]
  | .err false => ["enc-below-min-chunk"]
  | .panic => ["enc-panic"]
  | .chunks cs =>
    let n := cs.length
    let cnt := if n = 1 then "chunks-1" else if n = 2 then "chunks-2" else "chunks-3plus"
    let sec := if secured s then "secured" else "unsecured"
    let extra :=
      if maxChunk = 0 then [] else
      match maxBody s t maxChunk with
      | none => []
      | some mb =>
        [if mb < maxChunk - overhead s t then "budget-shrunk" else "budget-exact",
         if mb = 0 then "budget-zero" else if dataLen % mb = 0 then "last-chunk-full" else "last-chunk-partial",
         cmp3 "datalen-vs-budget" dataLen mb]
    let pad :=
      if ¬ secured s then [] else
      let hdr := 12 + (secHdr s t).length + 8
      let last := (cs.getLast?.map List.length).getD hdr - hdr
      let (ps, mp) := paddingSize s t last
      [if ps = 0 then "pad-none" else if ps = mp then "pad-min" else if t ≠ .opn ∧ ps = 16 then "pad-max" else "pad-mid"] ++
      (if t = .opn then
         (if mp = 2 then
            -- the two length bytes at their carries: n = ps - 2 is what they encode
            let n := ps - 2
            ["opn-extra-padding-byte",
             if n < 255 then "pad2-n-lt-255" else if n = 255 then "pad2-n-255-lo-ff-hi-0"
             else if n = 256 then "pad2-n-256-lo-00-hi-1" else if n = 257 then "pad2-n-257-lo-01-hi-1"
             else "pad2-n-gt-257",
             if n = 0 then "pad2-n-0" else if n = 1 then "pad2-n-1" else "pad2-n-ge-2",
             cmp3 "pad2-ps-vs-257" ps 257]
          else ["opn-one-padding-byte"])
       else [])
    [cnt, sec] ++ extra ++ pad

def rtStep (s : Sender) (t : MType) (seq req maxMsg maxChunk msgLen nidLen : Nat) : String :=
  let data := List.replicate (nidLen + msgLen) 97
  match encode s t seq req maxMsg maxChunk msgLen data with
  | .err true => if s.isClient then "err BadRequestTooLarge" else "err BadResponseTooLarge"
  | .err false => "err BadTcpInternalError"
  | .panic => "panic"
  | .chunks cs =>
    let SC := toySC s.remoteKey s.ownKey
    let wire := cs.map (applySecurity SC s t)
    let hdr := 12 + (secHdr s t).length
    let plainL := natList (cs.map List.length)
    let secL := natList (wire.map List.length)
    let seqL := natList (cs.map (seqAt hdr))
    let reqL := natList (cs.map (seqAt (hdr + 4)))
    let head := s!"ok n={cs.length} plain={plainL} sec={secL} flags={flagsOf cs} seq={seqL} req={reqL}"
    match recvAllS (toyRC s.ownKey) (receiverOf s) 0 wire with
    | .error e => head ++ " recv=" ++ e
    | .ok ds =>
      let rc := receiverOf s
      let bodies := ds.map fun d => match bodyOf rc d with
        | some (_, b) => b.length
        | none => 0
      match reassemble rc ds with
      | none => head ++ " recv=ok body=" ++ natList bodies ++ " asm=err"
      | some r => head ++ " recv=ok body=" ++ natList bodies ++ s!" asm={r.length} pre=" ++ boolStr (data.isPrefixOf r)

def dstep (s : Sender) (toks : List String) : Sender × String :=
  match toks with
  | "reset" :: rest =>
    match parseResetS? rest with
    | some s' => (s', "ok")
    | none => (s, "bad-op")
  | [op, kind, seq, req, maxMsg, maxChunk, _, msgLen, nidLen] =>
    if op ≠ "rt" ∧ op ≠ "sz" then (s, "bad-op") else
    match parseKind? kind, seq.toNat?, req.toNat?, maxMsg.toNat?, maxChunk.toNat?, msgLen.toNat?, nidLen.toNat? with
    | some t, some seq, some req, some mm, some mc, some ml, some nl =>
      let out := rtStep s t seq req mm mc ml nl
      let res := encode s t seq req mm mc ml (List.replicate (nl + ml) 97)
      let tail := if (out.splitOn " recv=ok").length > 1 then
          ["recv-ok", if (out.splitOn " pre=1").length > 1 then "prefix-yes" else "prefix-no"]
        else if (out.splitOn " recv=").length > 1 then ["recv-rejected"] else []
      (s, out ++ " @@ " ++ ",".intercalate (armsRt s t mm mc ml (nl + ml) res ++ tail))
    | _, _, _, _, _, _, _ => (s, "bad-op")
  | _ => (s, "bad-op")

def driver : Driver := { σ := Sender, init := defaultSender, step := dstep }

end OpcuaVerif.C07
