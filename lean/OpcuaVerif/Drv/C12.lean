import OpcuaVerif.Common
import OpcuaVerif.Model.C12
import OpcuaVerif.Model.C12Client
import OpcuaVerif.Drv.C11
import OpcuaVerif.Drv.SrvConn

namespace OpcuaVerif.C12
open OpcuaVerif.C11

inductive DState where
  | idle
  | conn (c : SrvConn.Conn)
  | tx (st : C11.DState)
  | mw (c : Chan) (client : Bool) (s : MW)
  | cli (s : Cli)

def parseCI? (s : String) : Option (Option CI) :=
  if s = "bad" then some none else
  match (s.splitOn ":").map String.toNat? with
  | [some a, some b, some c] => some (some { chan := a, seq := b, req := c })
  | _ => none

def parseCIList? (s : String) : Option (List (Option CI)) :=
  let inner := String.ofList ((s.toList.drop 1).dropLast)
  if inner.isEmpty then some [] else (inner.splitOn ",").mapM parseCI?

def showV : VOut → String
  | .ok l => s!"ok {l}"
  | .err e => s!"err {e}"
  | .panic => "panic"

def cliTail (s : Cli) : String :=
  let ps := s.states.map fun p => s!"{p.1}:{p.2.length}"
  s!"last={s.last} pend=[{",".intercalate ps}]"

def showCOut : COut → String
  | .ignored => "ok ignored"
  | .stored => "ok stored"
  | .dropped e => s!"ok dropped {e}"
  | .aborted => "ok aborted"
  | .completed r => s!"ok completed req={r}"
  | .closedErr e => s!"err {e}"
  | .closed => "err closed"
  | .panic => "panic"


/-! ### arm tags (coverage only) -/

/-- the comparison `first < start` and the u32 bound of `first + len - 1`, at their boundaries -/
def validateArms (start chanId : Nat) (chunks : List (Option CI)) : List String :=
  match chunks with
  | [] => ["v-empty"]
  | none :: _ => ["v-first-unreadable"]
  | some c0 :: rest =>
    let cmp := if c0.seq + 1 < start then "v-first-lt-start" else if c0.seq + 1 = start then "v-first-eq-start-minus1"
      else if c0.seq = start then "v-first-eq-start" else "v-first-gt-start"
    if c0.seq < start then [cmp]
    else
      let lastN := c0.seq + rest.length
      let ov := if lastN + 1 < 4294967296 then "v-last-lt-max" else if lastN = 4294967295 then "v-last-eq-max"
        else if lastN = 4294967296 then "v-last-eq-max-plus1" else "v-last-gt-max"
      let n := if rest.isEmpty then "v-one-chunk" else "v-many-chunks"
      let ch := if chanId = 0 then "v-chan-unset" else "v-chan-set"
      let res := match validateChunks start chanId chunks with
        | .ok _ => "v-ok"
        | .err e => s!"v-err-{e}"
        | .panic => "v-panic"
      -- which chunk failed which check
      let rec firstBad (i : Nat) : List (Option CI) → String
        | [] => "v-all-pass"
        | none :: _ => if i = 0 then "v-first-unreadable" else "v-later-unreadable"
        | some c :: r =>
          if chanId ≠ 0 ∧ c.chan ≠ chanId then (if i = 0 then "v-chan-mismatch-first" else "v-chan-mismatch-later")
          else if c.seq ≠ c0.seq + i then
            (if c.seq + 1 = c0.seq + i then "v-seq-one-below" else if c.seq = c0.seq + i + 1 then "v-seq-one-above" else "v-seq-off")
          else if i ≠ 0 ∧ c.req ≠ c0.req then "v-req-mismatch"
          else firstBad (i + 1) r
      [cmp, ov, n, ch, res] ++ (if lastN < 4294967296 then [firstBad 0 chunks] else [])

def cliArms (s : Cli) (ci : CI) (f : Fin) : List String :=
  if s.closed then ["c-closed"] else
  match lookupReq ci.req s.states with
  | none => ["c-unknown-request"]
  | some chunks =>
    let lim := if s.maxPending = 0 then "c-nolimit"
      else if chunks.length + 2 < s.maxPending + 1 then "c-len-lt-limit"
      else if chunks.length + 1 = s.maxPending then "c-len-eq-limit"
      else if chunks.length = s.maxPending then "c-len-eq-limit-plus1"
      else "c-len-gt-limit"
    match f with
    | .intermediate => ["c-intermediate", lim]
    | .abort => [if chunks.isEmpty then "c-abort-empty" else "c-abort-nonempty"]
    | .final =>
      let all := chunks ++ [⟨ci, f⟩]
      let base := [if chunks.isEmpty then "c-final-single" else "c-final-multi",
                   if s.last = 4294967295 then "c-mark-at-max" else "c-mark-below-max",
                   if s.chanId = 0 then "c-chan-unset" else "c-chan-set"]
      match mergeChunks true all with
      | none => base ++ ["c-merge-panic"]
      | some ret =>
        let m := if all.length = 1 then "c-merge-single"
          else if ret.length = all.length then (if sortBySeq all = all then "c-merge-in-order" else "c-merge-reordered")
          else "c-merge-skipped"
        let w := if all.length > 1 ∧ ret.any (fun c => c.ci.seq = 4294967295) then ["c-merge-wrap"] else []
        let r := match recvWith true s.last s.chanId (ret.map fun c => some c.ci) with
          | .ok _ => if flagsOk ret then "c-completed" else "c-flags-bad"
          | .err e => s!"c-recv-{e}"
          | .panic => "c-recv-panic"
        base ++ [m] ++ w ++ [r]

def mwArms (s : MW) (nid : Nat) (msg : Bytes) : List String :=
  let body := msg.length - nid
  let a := if s.maxMsg = 0 then "mw-nolimit" else if body + 1 = s.maxMsg then "mw-eq-maxmsg-minus1"
    else if body = s.maxMsg then "mw-eq-maxmsg" else if body = s.maxMsg + 1 then "mw-eq-maxmsg-plus1"
    else if body < s.maxMsg then "mw-lt-maxmsg" else "mw-gt-maxmsg"
  let sz := 24 + msg.length
  let b := if sz + 1 = s.bufLen + 1024 then "mw-chunk-eq-scratch-minus1" else if sz = s.bufLen + 1024 then "mw-chunk-eq-scratch"
    else if sz = s.bufLen + 1025 then "mw-chunk-eq-scratch-plus1" else if sz < s.bufLen + 1024 then "mw-chunk-lt-scratch"
    else "mw-chunk-gt-scratch"
  let g := if s.out.length + sz > s.bufLen then "mw-buffer-grows" else "mw-buffer-fits"
  [a, b, g, if s.maxChunks = 0 then "mw-maxchunks-0" else "mw-maxchunks-set"]

def tag (l : List String) : String := " @@ " ++ ",".intercalate l

def dstep (st : DState) (toks : List String) : DState × String :=
  match toks with
  | ["reset", "cli", mp, ch] =>
    match mp.toNat?, ch.toNat? with
    | some mp, some ch => (.cli (Cli.init mp ch), "ok")
    | _, _ => (st, "bad-op")
  | ["req"] =>
    match st with
    | .cli s => match s.request with
      | (s', id) => (.cli s', s!"ok id={id}")
    | _ => (st, "bad-op")
  | ["cchunk", ci, f] =>
    match st, parseCI? ci with
    | .cli s, some (some c) =>
      let fin : Option Fin := if f = "F" then some .final else if f = "C" then some .intermediate
        else if f = "A" then some .abort else none
      match fin with
      | none => (st, "bad-op")
      | some fin =>
        let t := tag (cliArms s c fin)
        match s.chunk true c fin with
        | (_, .panic) => (st, "panic" ++ t)
        | (s', .closed) => (.cli s', "err closed" ++ t)
        | (s', o) => (.cli s', showCOut o ++ " " ++ cliTail s' ++ t)
    | _, _ => (st, "bad-op")
  | "reset" :: "conn" :: _ =>
    match SrvConn.dstep SrvConn.conn0 toks with
    | (c', o) => (.conn c', o)
  | "reset" :: "tx" :: _ =>
    match C11.dstep .idle toks with
    | (s', o) => (.tx s', o)
  | ["reset", "mw", bs, mm, mc, ch, tk, cl] =>
    match bs.toNat?, mm.toNat?, mc.toNat?, ch.toNat?, tk.toNat?, parseBool? cl with
    | some bs, some mm, some mc, some ch, some tk, some cl =>
      (.mw { channelId := ch, tokenId := tk } cl (MW.new bs mm mc), "ok")
    | _, _, _, _, _, _ => (st, "bad-op")
  | ["reset", "val"] => (.idle, "ok")
  | ["validate", start, chan, l] =>
    match start.toNat?, chan.toNat?, parseCIList? l with
    | some start, some chan, some cs => (st, showV (validateChunks start chan cs) ++ tag (validateArms start chan cs))
    | _, _, _ => (st, "bad-op")
  | ["setctr", a, b] =>
    match st, a.toNat?, b.toNat? with
    | .tx (.tx c cl s), some a, some b => (.tx (.tx c cl { s with lastReq := a, lastSeq := b }), "ok")
    | _, _, _ => (st, "bad-op")
  | ["mwrite", req, nid, h] =>
    match st, req.toNat?, nid.toNat?, hexToBytes h with
    | .mw c cl s, some req, some nid, some msg =>
      let t := tag (mwArms s nid msg)
      match s.write c cl req nid msg with
      | .ok s' => (.mw c cl s', "ok" ++ t)
      | .err s' e => (.mw c cl s', s!"err {e}" ++ t)
      | .panic => (st, "panic" ++ t)
    | _, _, _, _ => (st, "bad-op")
  | ["mtake"] =>
    match st with
    | .mw c cl s => match s.take with
      | (s', b) => (.mw c cl s', s!"ok x{bytesToHex b}")
    | _ => (st, "bad-op")
  | ["mnext"] =>
    match st with
    | .mw c cl s =>
      match s.nextRequestId with
      | some (s', r) => (.mw c cl s', s!"ok {r}")
      | none => (st, "panic")
    | _ => (st, "bad-op")
  | _ =>
    match st with
    | .tx s =>
      match C11.dstep s toks with
      | (s', o) => (.tx s', o)
    | .conn c =>
      match SrvConn.dstep c toks with
      | (c', o) => (.conn c', o)
    | _ => (st, "bad-op")

def driver : Driver := { σ := DState, init := .idle, step := dstep }

end OpcuaVerif.C12
