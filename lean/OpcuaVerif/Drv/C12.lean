import OpcuaVerif.Common
import OpcuaVerif.Model.C12
import OpcuaVerif.Model.C12Client
import OpcuaVerif.Drv.C11
import OpcuaVerif.Drv.SrvConn

namespace OpcuaVerif.C12
open OpcuaVerif.C11

inductive DState where
  | idle
  | conn (c : SrvConn.Conn)
  | tx (st : C11.DState)
  | mw (c : Chan) (client : Bool) (s : MW)
  | cli (s : Cli)

def parseCI? (s : String) : Option (Option CI) :=
  if s = "bad" then some none else
  match (s.splitOn ":").map String.toNat? with
  | [some a, some b, some c] => some (some { chan := a, seq := b, req := c })
  | _ => none

def parseCIList? (s : String) : Option (List (Option CI)) :=
  let inner := String.ofList ((s.toList.drop 1).dropLast)
  if inner.isEmpty then some [] else (inner.splitOn ",").mapM parseCI?

def showV : VOut → String
  | .ok l => s!"ok {l}"
  | .err e => s!"err {e}"
  | .panic => "panic"

def cliTail (s : Cli) : String :=
  let ps := s.states.map fun p => s!"{p.1}:{p.2.length}"
  s!"last={s.last} pend=[{",".intercalate ps}]"

def showCOut : COut → String
  | .ignored => "ok ignored"
  | .stored => "ok stored"
  | .dropped e => s!"ok dropped {e}"
  | .aborted => "ok aborted"
  | .completed r => s!"ok completed req={r}"
  | .closedErr e => s!"err {e}"
  | .closed => "err closed"
  | .panic => "panic"

def dstep (st : DState) (toks : List String) : DState × String :=
  match toks with
  | ["reset", "cli", mp, ch] =>
    match mp.toNat?, ch.toNat? with
    | some mp, some ch => (.cli (Cli.init mp ch), "ok")
    | _, _ => (st, "bad-op")
  | ["req"] =>
    match st with
    | .cli s => match s.request with
      | (s', id) => (.cli s', s!"ok id={id}")
    | _ => (st, "bad-op")
  | ["cchunk", ci, f] =>
    match st, parseCI? ci with
    | .cli s, some (some c) =>
      let fin : Option Fin := if f = "F" then some .final else if f = "C" then some .intermediate
        else if f = "A" then some .abort else none
      match fin with
      | none => (st, "bad-op")
      | some fin =>
        match s.chunk true c fin with
        | (_, .panic) => (st, "panic")
        | (s', .closed) => (.cli s', "err closed")
        | (s', o) => (.cli s', showCOut o ++ " " ++ cliTail s')
    | _, _ => (st, "bad-op")
  | "reset" :: "conn" :: _ =>
    match SrvConn.dstep SrvConn.conn0 toks with
    | (c', o) => (.conn c', o)
  | "reset" :: "tx" :: _ =>
    match C11.dstep .idle toks with
    | (s', o) => (.tx s', o)
  | ["reset", "mw", bs, mm, mc, ch, tk, cl] =>
    match bs.toNat?, mm.toNat?, mc.toNat?, ch.toNat?, tk.toNat?, parseBool? cl with
    | some bs, some mm, some mc, some ch, some tk, some cl =>
      (.mw { channelId := ch, tokenId := tk } cl (MW.new bs mm mc), "ok")
    | _, _, _, _, _, _ => (st, "bad-op")
  | ["reset", "val"] => (.idle, "ok")
  | ["validate", start, chan, l] =>
    match start.toNat?, chan.toNat?, parseCIList? l with
    | some start, some chan, some cs => (st, showV (validateChunks start chan cs))
    | _, _, _ => (st, "bad-op")
  | ["setctr", a, b] =>
    match st, a.toNat?, b.toNat? with
    | .tx (.tx c cl s), some a, some b => (.tx (.tx c cl { s with lastReq := a, lastSeq := b }), "ok")
    | _, _, _ => (st, "bad-op")
  | ["mwrite", req, nid, h] =>
    match st, req.toNat?, nid.toNat?, hexToBytes h with
    | .mw c cl s, some req, some nid, some msg =>
      match s.write c cl req nid msg with
      | .ok s' => (.mw c cl s', "ok")
      | .err s' e => (.mw c cl s', s!"err {e}")
      | .panic => (st, "panic")
    | _, _, _, _ => (st, "bad-op")
  | ["mtake"] =>
    match st with
    | .mw c cl s => match s.take with
      | (s', b) => (.mw c cl s', s!"ok x{bytesToHex b}")
    | _ => (st, "bad-op")
  | ["mnext"] =>
    match st with
    | .mw c cl s =>
      match s.nextRequestId with
      | some (s', r) => (.mw c cl s', s!"ok {r}")
      | none => (st, "panic")
    | _ => (st, "bad-op")
  | _ =>
    match st with
    | .tx s =>
      match C11.dstep s toks with
      | (s', o) => (.tx s', o)
    | .conn c =>
      match SrvConn.dstep c toks with
      | (c', o) => (.conn c', o)
    | _ => (st, "bad-op")

def driver : Driver := { σ := DState, init := .idle, step := dstep }

end OpcuaVerif.C12
