import OpcuaVerif.Common
import OpcuaVerif.Model.C26
import OpcuaVerif.Drv.C22

namespace OpcuaVerif.C26

structure DState where
  st : St
  samp : Int
  itemLast : Int

/-- timestamps far outside anything `now` can reach stand for DateTime::null() and endtimes() -/
def parseTs? (s : String) : Option Int :=
  if s = "null" then some (-(10 : Int) ^ 18) else if s = "end" then some ((10 : Int) ^ 18) else parseInt? s

def showSt (s : St) (to : List Nat) (out : List C22.Resp) : String :=
  let last := if s.z.sub.isSome then toString s.last else "-"
  s!"ok last={last} {C22.showSess s.z out} to={natList to}"

def initSt (timeout : Int) (interval : Nat) : Option St :=
  let z0 := { sub := some (C22.mk 60 5 true false), reqs := [] : C22.Sess }
  match C22.sessTick z0 true true with
  | none => none
  | some (z1, _) =>
    match C22.sessTick z1 true true with
    | none => none
    | some (z2, _) => some { z := z2, hdrs := [], last := 0, interval := interval, timeout := timeout }

def dstep (d : DState) (toks : List String) : DState × String :=
  match toks with
  | ["reset", t, i, sm] =>
    match parseInt? t, i.toNat?, parseInt? sm with
    | some t, some i, some sm =>
      match initSt t (i * 1000) with
      | some s => ({ st := s, samp := sm * 1000, itemLast := 0 }, showSt s [] [])
      | none => (d, "panic")
    | _, _, _ => (d, "bad-op")
  | ["cycle", n] =>
    match parseInt? n with
    | some n =>
      match cycle true d.st n with
      | some (s, o) => ({ d with st := s }, showSt s o.timedOut o.resps)
      | none => (d, "panic")
    | none => (d, "bad-op")
  | ["expire", n] =>
    match parseInt? n with
    | some n =>
      match expireStep true d.st n with
      | some (s, to) => ({ d with st := s }, showSt s to [])
      | none => (d, "panic")
    | none => (d, "bad-op")
  | ["pub", r, ts, h, _n] =>
    match r.toNat?, parseTs? ts, h.toNat? with
    | some r, some ts, some h =>
      match publish d.st { rid := r, ts := ts, hint := h } with
      | .ok s out => ({ d with st := s }, "ok res=ok " ++ (showSt s [] out).drop 3)
      | .tooMany s out => ({ d with st := s }, "ok res=toomany " ++ (showSt s [] out).drop 3)
      | .panic => (d, "panic")
    | _, _, _ => (d, "bad-op")
  | ["itick", n, e] =>
    match parseInt? n, parseBool? e with
    | some n, some e =>
      match itemTick true d.samp d.itemLast n e with
      | some (r, l) => ({ d with itemLast := l }, s!"ok r={r} last={l}")
      | none => (d, "panic")
    | _, _ => (d, "bad-op")
  | _ => (d, "bad-op")

def driver : Driver :=
  { σ := DState,
    init := { st := { z := { sub := none, reqs := [] }, hdrs := [], last := 0, interval := 1000000, timeout := 30000 },
              samp := 0, itemLast := 0 },
    step := dstep }

end OpcuaVerif.C26
