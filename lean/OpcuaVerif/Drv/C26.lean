import OpcuaVerif.Common
import OpcuaVerif.Model.C26
import OpcuaVerif.Drv.C22

namespace OpcuaVerif.C26

structure DState where
  st : St
  samp : Int
  itemLast : Int
  prevInterval : Nat := 0      -- the interval before the last `setinterval` (0 = never changed); tags only

/-- timestamps far outside anything `now` can reach stand for DateTime::null() and endtimes() -/
def parseTs? (s : String) : Option Int :=
  if s = "null" then some (-(10 : Int) ^ 18) else if s = "end" then some ((10 : Int) ^ 18) else parseInt? s

def showSt (s : St) (to : List Nat) (out : List C22.Resp) : String :=
  let last := if s.z.sub.isSome then toString s.last else "-"
  s!"ok last={last} {C22.showSess s.z out} to={natList to}"

/-! ### arm tags -/

def cmp3i (name : String) (a b : Int) : String :=
  if a < b then s!"{name}:lt" else if a = b then s!"{name}:eq" else s!"{name}:gt"

/-- per queued request: the hint rule and the expiry comparison at its boundary -/
def expireTags (s : St) (now : Int) : List String :=
  (s.z.reqs.map (lookup s.hdrs)).flatMap fun r =>
    [if r.hint = 0 then "hint:zero" else cmp3i "hint-vs-timeout" r.hint s.timeout,
     if now < r.ts then "expire:timestamp-ahead"
     else cmp3i "expire:elapsed-vs-timeout" (now - r.ts) ((effTimeout s.timeout r.hint : Int) * 1000)]
    ++ (if r.ts = -(10 : Int) ^ 18 then ["ts:null"] else if r.ts = (10 : Int) ^ 18 then ["ts:end"] else [])

def elapsedTags (s : St) (now : Int) : List String :=
  match s.z.sub with
  | none => ["tick:nosub"]
  | some sub =>
    if sub.state = .creating then ["tick:creating"]
    else if now < s.last then ["tick:clock-backwards"]
    else [cmp3i "tick:elapsed-vs-interval" (now - s.last) s.interval]

/-- after an interval change: where the tick falls relative to the OLD interval as well -/
def oldIntervalTags (s : St) (prev : Nat) (now : Int) : List String :=
  match s.z.sub with
  | none => []
  | some sub =>
    if prev = 0 ∨ prev = s.interval ∨ sub.state = .creating ∨ now < s.last then []
    else [cmp3i "tick:elapsed-vs-old-interval" (now - s.last) prev]

def itemTags (samp last now : Int) (e : Bool) : List String :=
  if samp < 0 then [if e then "item:minus1-elapsed" else "item:minus1-notelapsed"]
  else if samp = 0 then ["item:zero"]
  else if now < last then ["item:clock-backwards"]
  else [cmp3i "item:elapsed-vs-sampling" (now - last) samp]

def tagStr (tags : List String) : String := " @@ " ++ ",".intercalate tags.eraseDups

def initSt (timeout : Int) (interval : Nat) : Option St :=
  let z0 := { sub := some (C22.mk 60 5 true false), reqs := [] : C22.Sess }
  match C22.sessTick z0 true true with
  | none => none
  | some (z1, _) =>
    match C22.sessTick z1 true true with
    | none => none
    | some (z2, _) => some { z := z2, hdrs := [], last := 0, interval := interval, timeout := timeout }

def dstep (d : DState) (toks : List String) : DState × String :=
  match toks with
  | ["reset", t, i, sm] =>
    match parseInt? t, i.toNat?, parseInt? sm with
    | some t, some i, some sm =>
      match initSt t (i * 1000) with
      | some s => ({ st := s, samp := sm * 1000, itemLast := 0 }, showSt s [] [])
      | none => (d, "panic")
    | _, _, _ => (d, "bad-op")
  | ["cycle", n] =>
    match parseInt? n with
    | some n =>
      let tags := expireTags d.st n ++
        (match expireStep true d.st n with | some (s1, _) => elapsedTags s1 n ++ oldIntervalTags s1 d.prevInterval n | none => [])
        ++ (if d.st.z.reqs.isEmpty then ["expire:queue-empty"] else [])
      match cycle true d.st n with
      | some (s, o) => ({ d with st := s }, showSt s o.timedOut o.resps
          ++ tagStr (tags ++ [if o.timedOut.isEmpty then "cycle:no-timeout" else "cycle:timeout",
                              if o.resps.isEmpty then "cycle:no-response" else "cycle:response"]))
      | none => (d, "panic" ++ tagStr tags)
    | none => (d, "bad-op")
  | ["expire", n] =>
    match parseInt? n with
    | some n =>
      let tags := expireTags d.st n ++ (if d.st.z.reqs.isEmpty then ["expire:queue-empty"] else [])
      match expireStep true d.st n with
      | some (s, to) => ({ d with st := s }, showSt s to [] ++ tagStr (tags ++ [s!"expire:out{min to.length 2}"]))
      | none => (d, "panic" ++ tagStr tags)
    | none => (d, "bad-op")
  | ["pub", r, ts, h, _n] =>
    match r.toNat?, parseTs? ts, h.toNat? with
    | some r, some ts, some h =>
      match publish d.st { rid := r, ts := ts, hint := h } with
      | .ok s out => ({ d with st := s }, "ok res=ok " ++ (showSt s [] out).drop 3 ++ tagStr ["pub:ok"])
      | .tooMany s out => ({ d with st := s }, "ok res=toomany " ++ (showSt s [] out).drop 3 ++ tagStr ["pub:toomany"])
      | .panic => (d, "panic")
    | _, _, _ => (d, "bad-op")
  | ["setinterval", ms] =>
    -- ModifySubscription with a new publishing interval (counts unchanged)
    match ms.toNat? with
    | some ms =>
      if d.st.z.sub.isNone then (d, "err nosub" ++ tagStr ["setinterval:nosub"])
      else
        let s := setInterval d.st (ms * 1000)
        ({ d with st := s, prevInterval := d.st.interval },
          showSt s [] [] ++ tagStr [if ms * 1000 < d.st.interval then "setinterval:shrink"
                                    else if ms * 1000 = d.st.interval then "setinterval:same" else "setinterval:grow"])
    | none => (d, "bad-op")
  | ["itick", n, e] =>
    match parseInt? n, parseBool? e with
    | some n, some e =>
      match itemTick true d.samp d.itemLast n e with
      | some (r, l) => ({ d with itemLast := l }, s!"ok r={r} last={l}" ++ tagStr (itemTags d.samp d.itemLast n e))
      | none => (d, "panic")
    | _, _ => (d, "bad-op")
  | _ => (d, "bad-op")

def driver : Driver :=
  { σ := DState,
    init := { st := { z := { sub := none, reqs := [] }, hdrs := [], last := 0, interval := 1000000, timeout := 30000 },
              samp := 0, itemLast := 0 },
    step := dstep }

end OpcuaVerif.C26
