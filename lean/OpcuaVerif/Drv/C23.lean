import OpcuaVerif.Common
import OpcuaVerif.Model.C23

namespace OpcuaVerif.C23

/-- `f3ff0000000000000` → the 64-bit pattern -/
def parseF? (s : String) : Option Nat :=
  match s.toList with
  | 'f' :: r =>
    if r.length = 16 then
      r.foldl (fun acc c => match acc, hexDigit c with
        | some a, some d => some (16 * a + d)
        | _, _ => none) (some 0)
    else none
  | _ => none

def hex16 (n : Nat) : String :=
  String.ofList ((List.range 16).reverse.map fun i => nibble (n / 16 ^ i % 16))

def showF (n : Nat) : String := "f" ++ hex16 n

structure DState where
  lim : Limits
  hasSub : Bool

/-! ### arm tags: every comparison of the three functions below / at / above its threshold -/

def cmp3 (name : String) (a b : Nat) : String :=
  if a < b then s!"{name}:lt" else if a = b then s!"{name}:eq" else s!"{name}:gt"

def fcmp3 (name : String) (a b : Nat) : String :=
  if isNaN a then s!"{name}:nan" else if isNaN b then s!"{name}:limit-nan"
  else if flt a b then s!"{name}:lt" else if feq a b then s!"{name}:eq" else s!"{name}:gt"

def reviseTags (l : Limits) (i k life : Nat) : List String :=
  let k' := reviseKa l k
  [fcmp3 "interval-vs-min" i l.minPub, cmp3 "ka-vs-max" k l.maxKa, if k = 0 then "ka:zero" else "ka:nonzero"]
  ++ (if k' * 3 ≥ 2 ^ 32 then ["life:overflow"] else
        [cmp3 "life-vs-3ka" life (k' * 3), cmp3 "life-vs-max" life l.maxLife])

def sampTags (l : Limits) (x : Nat) : List String :=
  [fcmp3 "samp-vs-zero" x zero, fcmp3 "samp-vs-min" x l.minSamp]
  ++ (if x = 0x8000000000000000 then ["samp:negative-zero"] else [])
  ++ (if x / 2 ^ 52 % 2048 = 2047 ∧ x % 2 ^ 52 = 0 then ["samp:infinite"] else [])

def queueTags (l : Limits) (n : Nat) : List String :=
  [if n = 0 then "queue:0" else if n = 1 then "queue:1" else "queue:2+", cmp3 "queue-vs-max" n l.maxQueue]

def tagStr (tags : List String) : String := " @@ " ++ ",".intercalate tags.eraseDups

def dstep (s : DState) (toks : List String) : DState × String :=
  match toks with
  | ["reset", a, b, c, d, e, q] =>
    match parseF? a, parseF? b, c.toNat?, d.toNat?, e.toNat?, q.toNat? with
    | some a, some b, some c, some d, some e, some q =>
      ({ lim := { minPub := a, minSamp := b, defaultKa := c, maxKa := d, maxLife := e, maxQueue := q },
         hasSub := false }, "ok")
    | _, _, _, _, _, _ => (s, "bad-op")
  | [op, i, k, l] =>
    if op = "rev" ∨ op = "create" ∨ op = "modify" then
      match parseF? i, k.toNat?, l.toNat? with
      | some i, some k, some l =>
        if op = "modify" ∧ !s.hasSub then (s, "err nosub" ++ tagStr ["op:modify-nosub"])
        else
          let tags := s!"op:{op}" :: reviseTags s.lim i k l
          match revise s.lim i k l with
          | some (i', k', l') =>
            ({ s with hasSub := s.hasSub || op = "create" }, s!"ok {showF i'} {k'} {l'}" ++ tagStr tags)
          | none => (s, "panic" ++ tagStr tags)
      | _, _, _ => (s, "bad-op")
    else (s, "bad-op")
  | ["samp", x] =>
    match parseF? x with
    | some x => (s, "ok " ++ showF (sanitizeSampling s.lim x) ++ tagStr ("op:samp" :: sampTags s.lim x))
    | none => (s, "bad-op")
  | ["queue", n] =>
    match n.toNat? with
    | some n => (s, s!"ok {sanitizeQueue s.lim n}" ++ tagStr ("op:queue" :: queueTags s.lim n))
    | none => (s, "bad-op")
  | [op, x, n] =>
    if op = "item" ∨ op = "mitem" ∨ op = "moditem" ∨ op = "mmitem" then
      match parseF? x, n.toNat? with
      | some x, some n => (s, s!"ok {showF (sanitizeSampling s.lim x)} {sanitizeQueue s.lim n}"
          ++ tagStr (s!"op:{op}" :: (sampTags s.lim x ++ queueTags s.lim n)))
      | _, _ => (s, "bad-op")
    else (s, "bad-op")
  | _ => (s, "bad-op")

def driver : Driver :=
  { σ := DState,
    init := { lim := { minPub := 0x4059000000000000, minSamp := 0x4059000000000000, defaultKa := 10,
                       maxKa := 30000, maxLife := 90000, maxQueue := 10 }, hasSub := false },
    step := dstep }

end OpcuaVerif.C23
