import OpcuaVerif.Common
import OpcuaVerif.Model.C23

namespace OpcuaVerif.C23

/-- `f3ff0000000000000` → the 64-bit pattern -/
def parseF? (s : String) : Option Nat :=
  match s.toList with
  | 'f' :: r =>
    if r.length = 16 then
      r.foldl (fun acc c => match acc, hexDigit c with
        | some a, some d => some (16 * a + d)
        | _, _ => none) (some 0)
    else none
  | _ => none

def hex16 (n : Nat) : String :=
  String.ofList ((List.range 16).reverse.map fun i => nibble (n / 16 ^ i % 16))

def showF (n : Nat) : String := "f" ++ hex16 n

structure DState where
  lim : Limits
  hasSub : Bool

def dstep (s : DState) (toks : List String) : DState × String :=
  match toks with
  | ["reset", a, b, c, d, e, q] =>
    match parseF? a, parseF? b, c.toNat?, d.toNat?, e.toNat?, q.toNat? with
    | some a, some b, some c, some d, some e, some q =>
      ({ lim := { minPub := a, minSamp := b, defaultKa := c, maxKa := d, maxLife := e, maxQueue := q },
         hasSub := false }, "ok")
    | _, _, _, _, _, _ => (s, "bad-op")
  | [op, i, k, l] =>
    if op = "rev" ∨ op = "create" ∨ op = "modify" then
      match parseF? i, k.toNat?, l.toNat? with
      | some i, some k, some l =>
        if op = "modify" ∧ !s.hasSub then (s, "err nosub")
        else
          match revise s.lim i k l with
          | some (i', k', l') =>
            ({ s with hasSub := s.hasSub || op = "create" }, s!"ok {showF i'} {k'} {l'}")
          | none => (s, "panic")
      | _, _, _ => (s, "bad-op")
    else (s, "bad-op")
  | ["samp", x] =>
    match parseF? x with
    | some x => (s, "ok " ++ showF (sanitizeSampling s.lim x))
    | none => (s, "bad-op")
  | ["queue", n] =>
    match n.toNat? with
    | some n => (s, s!"ok {sanitizeQueue s.lim n}")
    | none => (s, "bad-op")
  | [op, x, n] =>
    if op = "item" ∨ op = "mitem" ∨ op = "moditem" ∨ op = "mmitem" then
      match parseF? x, n.toNat? with
      | some x, some n => (s, s!"ok {showF (sanitizeSampling s.lim x)} {sanitizeQueue s.lim n}")
      | _, _ => (s, "bad-op")
    else (s, "bad-op")
  | _ => (s, "bad-op")

def driver : Driver :=
  { σ := DState,
    init := { lim := { minPub := 0x4059000000000000, minSamp := 0x4059000000000000, defaultKa := 10,
                       maxKa := 30000, maxLife := 90000, maxQueue := 10 }, hasSub := false },
    step := dstep }

end OpcuaVerif.C23
