import OpcuaVerif.Common
import OpcuaVerif.Model.C11

namespace OpcuaVerif.C11

inductive DState where
  | idle
  | rx (o : Opts) (s : RState)
  | tx (c : Chan) (client : Bool) (s : SB)

def hexO : Option Bytes → String
  | none => "-"
  | some b => "x" ++ bytesToHex b

def showFrame : Frame → String
  | .hello pv rbs sbs mms mcc url => s!"H:{pv}:{rbs}:{sbs}:{mms}:{mcc}:{hexO url}"
  | .ack pv rbs sbs mms mcc => s!"A:{pv}:{rbs}:{sbs}:{mms}:{mcc}"
  | .error code reason => s!"E:{code}:{hexO reason}"
  | .chunk d => "C:x" ++ bytesToHex d

def showFrames (fs : List Frame) : String := "[" ++ ",".intercalate (fs.map showFrame) ++ "]"

def showBuf : RState → String
  | none => "-"
  | some b => toString b.length

/-- split `s` into segments of the given sizes; what is left over is the last segment -/
def cutUp : List Nat → Bytes → List Bytes
  | [], s => if s.isEmpty then [] else [s]
  | k :: ks, s => if s.isEmpty then [] else s.take k :: cutUp ks (s.drop k)

def txFlags (s : SB) : String :=
  s!"cr={boolStr s.canRead} se={boolStr s.shouldEncode}"

/-- repeated `poll` with the given writer capacities; stops at the first error -/
def pump (s : SB) : List Nat → Bytes → SB × Bytes × String
  | [], acc => (s, acc, "ok")
  | k :: ks, acc =>
    match s.poll k with
    | .ok s' w => pump s' ks (acc ++ w)
    | .err s' e => (s', acc, "err " ++ e)
    | .panic => (s, acc, "panic")


/-! ### arm tags (coverage only) -/

def cmpTag (pre : String) (x lim : Nat) : String :=
  if x + 1 < lim then pre ++ "-lt" else if x + 1 = lim then pre ++ "-eq-minus1"
  else if x = lim then pre ++ "-eq" else if x = lim + 1 then pre ++ "-eq-plus1" else pre ++ "-gt"

/-- which branch of the UTF-8 validator rejects / the classes of sequences seen -/
def utf8Arms : Bytes → List String
  | [] => []
  | b0 :: r =>
    if b0 < 128 then "u8-ascii" :: utf8Arms r
    else if 194 ≤ b0 && b0 ≤ 223 then
      match r with
      | b1 :: r' => if cont b1 then "u8-2" :: utf8Arms r' else ["u8-2-badcont"]
      | _ => ["u8-2-trunc"]
    else if 224 ≤ b0 && b0 ≤ 239 then
      match r with
      | b1 :: b2 :: r' =>
        let lo := if b0 = 224 then 160 else 128
        let hi := if b0 = 237 then 159 else 191
        let cls := if b0 = 224 then "u8-3-e0" else if b0 = 237 then "u8-3-ed" else "u8-3"
        if ¬ (lo ≤ b1 && b1 ≤ hi) then [cls ++ "-bad2nd"]
        else if ¬ cont b2 then [cls ++ "-badcont"]
        else cls :: utf8Arms r'
      | _ => ["u8-3-trunc"]
    else if 240 ≤ b0 && b0 ≤ 244 then
      match r with
      | b1 :: b2 :: b3 :: r' =>
        let lo := if b0 = 240 then 144 else 128
        let hi := if b0 = 244 then 143 else 191
        let cls := if b0 = 240 then "u8-4-f0" else if b0 = 244 then "u8-4-f4" else "u8-4"
        if ¬ (lo ≤ b1 && b1 ≤ hi) then [cls ++ "-bad2nd"]
        else if ¬ (cont b2 && cont b3) then [cls ++ "-badcont"]
        else cls :: utf8Arms r'
      | _ => ["u8-4-trunc"]
    else [if b0 < 194 then "u8-lead-80-c1" else "u8-lead-f5-ff"]

def stringArms (o : Opts) (b : Bytes) : List String :=
  match readU32 b with
  | none => ["str-no-length"]
  | some (n, r) =>
    if n = 4294967295 then ["str-null"]
    else if n ≥ 2147483648 then [if n = 4294967294 then "str-len-minus2" else "str-len-negative"]
    else
      let a := cmpTag "str-len-vs-max" n o.maxStr
      if n > o.maxStr then [a]
      else if r.length < n then [a, if r.length + 1 = n then "str-short-by-1" else "str-short"]
      else [a, if n = 0 then "str-empty" else "str-nonempty", if r.length = n then "str-ends-frame" else "str-trailing-bytes"]
        ++ (utf8Arms (r.take n)).eraseDups

def tyTag : MType → String
  | .invalid => "invalid" | .hello => "hello" | .ack => "ack" | .chunk => "chunk" | .error => "error"

/-- one call of `decode` -/
def decodeArms (o : Opts) (b : Bytes) : List String :=
  if b.length < 8 then ["buf-lt8"] else if b.length = 8 then ["buf-eq8"] else
  match b with
  | t0 :: t1 :: t2 :: t3 :: r =>
    match readU32 r with
    | none => []
    | some (size, _) =>
      let ty := mtype t0 t1 t2 t3
      let base := ["ty-" ++ tyTag ty, if b.length = 9 then "buf-eq9" else "buf-gt9",
        if o.maxMsg = 0 then "size-nolimit" else cmpTag "size-vs-max" size o.maxMsg]
      if o.early = true ∧ o.maxMsg > 0 ∧ size > o.maxMsg then base
      else
        let base := base ++ [cmpTag "len-vs-size" b.length size]
        if b.length < size then base
        else
          let fb := b.take size
          let szc := if size = 0 then "size-0" else if size < 8 then "size-1-7" else if size = 8 then "size-8"
            else if size < 12 then "size-9-11" else if size = 12 then "size-12" else "size-gt12"
          let detail := match ty with
            | .hello => if size < 28 then ["hel-short"] else stringArms o (fb.drop 28)
            | .error => if size < 12 then ["err-short"] else stringArms o (fb.drop 12)
            | .ack => [if size < 28 then "ack-short" else if size = 28 then "ack-exact" else "ack-trailing"]
            | .chunk => [if size < 12 then "chunk-short" else "chunk-ok"]
            | .invalid => [if t3 = 70 ∨ t3 = 67 ∨ t3 = 65 then "invalid-type-code" else "invalid-final-flag"]
          let res := match parse o ty fb with
            | some _ => "parse-ok"
            | none => "parse-fail"
          base ++ [szc, res] ++ detail
  | _ => []

/-- all `decode` calls of one drain -/
def drainArms (o : Opts) : Nat → Bytes → List String
  | 0, _ => []
  | fuel + 1, b =>
    match decodeStep o b with
    | .frame _ r => decodeArms o b ++ "more-in-buffer-after-frame" :: drainArms o fuel r
    | _ => decodeArms o b

def feedArms (o : Opts) (s : RState) (seg : Bytes) : List String :=
  match s with
  | none => ["feed-after-error"]
  | some buf => (if seg.isEmpty then ["seg-empty"] else if seg.length = 1 then ["seg-1byte"] else ["seg-many"]) ++
      (if buf.isEmpty then ["buf-was-empty"] else ["buf-had-rest"]) ++ (drainArms o (buf.length + seg.length + 1) (buf ++ seg)).eraseDups

def writeArms (s : SB) (nid : Nat) (msg : Bytes) : List String :=
  if s.reading.isSome then ["w-while-reading"] else
  let body := msg.length - nid
  let a := if s.maxMsg = 0 then "w-maxmsg-0" else cmpTag "w-body-vs-maxmsg" body s.maxMsg
  if s.maxMsg > 0 ∧ body > s.maxMsg then [a]
  else if s.sendSize = 0 then [a, "w-unchunked"]
  else if s.sendSize < 8196 then [a, cmpTag "w-bufsize-vs-min" s.sendSize 8196]
  else
    let cap := s.sendSize - 24
    let n := (msg.length + cap - 1) / cap
    let fit := if msg.length % cap = 0 then "w-last-chunk-full" else if msg.length % cap = 1 then "w-last-chunk-1byte" else "w-last-chunk-partial"
    let c := if s.maxChunks = 0 then "w-maxchunks-0" else cmpTag "w-chunks-vs-max" n s.maxChunks
    [a, cmpTag "w-bufsize-vs-min" s.sendSize 8196, if n = 1 then "w-1-chunk" else if n = 2 then "w-2-chunks" else "w-3plus-chunks", fit, c,
     if s.queue.isEmpty then "w-queue-empty" else "w-queue-nonempty"]

def encArms (s : SB) : List String :=
  if s.reading.isSome then ["e-while-reading"] else
  match s.queue with
  | [] => ["e-queue-empty"]
  | ch :: q => [cmpTag "e-chunk-vs-buffer" ch.length s.cap, if q.isEmpty then "e-last-queued" else "e-more-queued"]

def sinkArms (s : SB) (k : Nat) : List String :=
  match s.reading with
  | none => ["s-nothing-to-send"]
  | some e =>
    let left := e - s.pos
    [if s.pos = 0 then "s-from-start" else "s-continues", if k = 0 then "s-accepts-0" else cmpTag "s-accept-vs-left" k left]

def tag (l : List String) : String := " @@ " ++ ",".intercalate l

def dstep (st : DState) (toks : List String) : DState × String :=
  match toks with
  | ["reset", "rx", m, l] =>
    match m.toNat?, l.toNat? with
    | some m, some l => (.rx { maxMsg := m, maxStr := l } (some []), "ok")
    | _, _ => (st, "bad-op")
  | ["reset", "tx", bs, mm, mc, ch, tk, cl] =>
    match bs.toNat?, mm.toNat?, mc.toNat?, ch.toNat?, tk.toNat?, parseBool? cl with
    | some bs, some mm, some mc, some ch, some tk, some cl =>
      (.tx { channelId := ch, tokenId := tk } cl (SB.new bs mm mc), "ok")
    | _, _, _, _, _, _ => (st, "bad-op")
  | ["feed", h] =>
    match st, hexToBytes h with
    | .rx o s, some seg =>
      match feed o s seg with
      | (s', fs, e) => (.rx o s', s!"ok f={showFrames fs} e={boolStr e} buf={showBuf s'}" ++ tag (feedArms o s seg))
    | _, _ => (st, "bad-op")
  | ["eof"] =>
    match st with
    | .rx _ s => (st, s!"ok clean={boolStr (eofClean s)}" ++
        tag [match s with | none => "eof-after-error" | some [] => "eof-clean" | some _ => "eof-leftover"])
    | _ => (st, "bad-op")
  | ["stream", cuts, h] =>
    match st, parseNatList? cuts, hexToBytes h with
    | .rx o _, some cuts, some bytes =>
      match feedAll o (some []) (cutUp cuts bytes) with
      | (fs, s') => (.rx o s', s!"ok f={showFrames fs} e={boolStr s'.isNone} clean={boolStr (eofClean s')}" ++
          tag ((drainArms o (bytes.length + 1) bytes).eraseDups ++
               [if cuts.isEmpty then "stream-one-read" else if cuts.all (· = 1) then "stream-bytewise" else "stream-cut"]))
    | _, _, _ => (st, "bad-op")
  | ["write", req, nid, h] =>
    match st, req.toNat?, nid.toNat?, hexToBytes h with
    | .tx c cl s, some req, some nid, some msg =>
      let t := tag (writeArms s nid msg)
      match s.write c cl req nid msg with
      | .ok s' cs => (.tx c cl s', s!"ok n={cs.length} {txFlags s'}" ++ t)
      | .err e => (st, s!"err {e}" ++ t)
      | .panic => (st, "panic" ++ t)
    | _, _, _, _ => (st, "bad-op")
  | ["nextid"] =>
    match st with
    | .tx c cl s =>
      match s.nextRequestId with
      | some (s', r) => (.tx c cl s', s!"ok {r}")
      | none => (st, "panic")
    | _ => (st, "bad-op")
  | ["enc"] =>
    match st with
    | .tx c cl s =>
      match s.encodeNext with
      | .ok s' => (.tx c cl s', s!"ok {txFlags s'}" ++ tag (encArms s))
      | .err s' e => (.tx c cl s', s!"err {e}" ++ tag (encArms s))
    | _ => (st, "bad-op")
  | ["sink", k] =>
    match st, k.toNat? with
    | .tx c cl s, some k =>
      match s.sink k with
      | .ok s' w => (.tx c cl s', s!"ok x{bytesToHex w} {txFlags s'}" ++ tag (sinkArms s k))
      | .panic => (st, "panic")
    | _, _ => (st, "bad-op")
  | ["pump", ks] =>
    match st, parseNatList? ks with
    | .tx c cl s, some ks =>
      match pump s ks [] with
      | (s', w, status) =>
        if status = "panic" then (st, "panic")
        else (.tx c cl s', s!"{status} x{bytesToHex w} {txFlags s'}")
    | _, _ => (st, "bad-op")
  | _ => (st, "bad-op")

def driver : Driver := { σ := DState, init := .idle, step := dstep }

end OpcuaVerif.C11
