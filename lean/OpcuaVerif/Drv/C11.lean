import OpcuaVerif.Common
import OpcuaVerif.Model.C11

namespace OpcuaVerif.C11

inductive DState where
  | idle
  | rx (o : Opts) (s : RState)
  | tx (c : Chan) (client : Bool) (s : SB)

def hexO : Option Bytes → String
  | none => "-"
  | some b => "x" ++ bytesToHex b

def showFrame : Frame → String
  | .hello pv rbs sbs mms mcc url => s!"H:{pv}:{rbs}:{sbs}:{mms}:{mcc}:{hexO url}"
  | .ack pv rbs sbs mms mcc => s!"A:{pv}:{rbs}:{sbs}:{mms}:{mcc}"
  | .error code reason => s!"E:{code}:{hexO reason}"
  | .chunk d => "C:x" ++ bytesToHex d

def showFrames (fs : List Frame) : String := "[" ++ ",".intercalate (fs.map showFrame) ++ "]"

def showBuf : RState → String
  | none => "-"
  | some b => toString b.length

/-- split `s` into segments of the given sizes; what is left over is the last segment -/
def cutUp : List Nat → Bytes → List Bytes
  | [], s => if s.isEmpty then [] else [s]
  | k :: ks, s => if s.isEmpty then [] else s.take k :: cutUp ks (s.drop k)

def txFlags (s : SB) : String :=
  s!"cr={boolStr s.canRead} se={boolStr s.shouldEncode}"

/-- repeated `poll` with the given writer capacities; stops at the first error -/
def pump (s : SB) : List Nat → Bytes → SB × Bytes × String
  | [], acc => (s, acc, "ok")
  | k :: ks, acc =>
    match s.poll k with
    | .ok s' w => pump s' ks (acc ++ w)
    | .err s' e => (s', acc, "err " ++ e)
    | .panic => (s, acc, "panic")

def dstep (st : DState) (toks : List String) : DState × String :=
  match toks with
  | ["reset", "rx", m, l] =>
    match m.toNat?, l.toNat? with
    | some m, some l => (.rx { maxMsg := m, maxStr := l } (some []), "ok")
    | _, _ => (st, "bad-op")
  | ["reset", "tx", bs, mm, mc, ch, tk, cl] =>
    match bs.toNat?, mm.toNat?, mc.toNat?, ch.toNat?, tk.toNat?, parseBool? cl with
    | some bs, some mm, some mc, some ch, some tk, some cl =>
      (.tx { channelId := ch, tokenId := tk } cl (SB.new bs mm mc), "ok")
    | _, _, _, _, _, _ => (st, "bad-op")
  | ["feed", h] =>
    match st, hexToBytes h with
    | .rx o s, some seg =>
      match feed o s seg with
      | (s', fs, e) => (.rx o s', s!"ok f={showFrames fs} e={boolStr e} buf={showBuf s'}")
    | _, _ => (st, "bad-op")
  | ["eof"] =>
    match st with
    | .rx _ s => (st, s!"ok clean={boolStr (eofClean s)}")
    | _ => (st, "bad-op")
  | ["stream", cuts, h] =>
    match st, parseNatList? cuts, hexToBytes h with
    | .rx o _, some cuts, some bytes =>
      match feedAll o (some []) (cutUp cuts bytes) with
      | (fs, s') => (.rx o s', s!"ok f={showFrames fs} e={boolStr s'.isNone} clean={boolStr (eofClean s')}")
    | _, _, _ => (st, "bad-op")
  | ["write", req, nid, h] =>
    match st, req.toNat?, nid.toNat?, hexToBytes h with
    | .tx c cl s, some req, some nid, some msg =>
      match s.write c cl req nid msg with
      | .ok s' cs => (.tx c cl s', s!"ok n={cs.length} {txFlags s'}")
      | .err e => (st, s!"err {e}")
      | .panic => (st, "panic")
    | _, _, _, _ => (st, "bad-op")
  | ["nextid"] =>
    match st with
    | .tx c cl s =>
      match s.nextRequestId with
      | some (s', r) => (.tx c cl s', s!"ok {r}")
      | none => (st, "panic")
    | _ => (st, "bad-op")
  | ["enc"] =>
    match st with
    | .tx c cl s =>
      match s.encodeNext with
      | .ok s' => (.tx c cl s', s!"ok {txFlags s'}")
      | .err s' e => (.tx c cl s', s!"err {e}")
    | _ => (st, "bad-op")
  | ["sink", k] =>
    match st, k.toNat? with
    | .tx c cl s, some k =>
      match s.sink k with
      | .ok s' w => (.tx c cl s', s!"ok x{bytesToHex w} {txFlags s'}")
      | .panic => (st, "panic")
    | _, _ => (st, "bad-op")
  | ["pump", ks] =>
    match st, parseNatList? ks with
    | .tx c cl s, some ks =>
      match pump s ks [] with
      | (s', w, status) =>
        if status = "panic" then (st, "panic")
        else (.tx c cl s', s!"{status} x{bytesToHex w} {txFlags s'}")
    | _, _ => (st, "bad-op")
  | _ => (st, "bad-op")

def driver : Driver := { σ := DState, init := .idle, step := dstep }

end OpcuaVerif.C11
