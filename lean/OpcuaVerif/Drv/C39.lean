import OpcuaVerif.Common
import OpcuaVerif.Model.C39
import OpcuaVerif.Drv.C06

namespace OpcuaVerif.C39

open OpcuaVerif.C06 (parseNT? parseVal? showVal)

def parseOp? (s : String) : Option FOp :=
  match s with
  | "eq" => some .equals
  | "isnull" => some .isNull
  | "gt" => some .gt
  | "lt" => some .lt
  | "gte" => some .gte
  | "lte" => some .lte
  | "like" => some .like
  | "not" => some .not
  | "between" => some .between
  | "inlist" => some .inList
  | "and" => some .and
  | "or" => some .or
  | "cast" => some .cast
  | "inview" => some .inView
  | "oftype" => some .ofType
  | "relatedto" => some .relatedTo
  | "bitand" => some .bitAnd
  | "bitor" => some .bitOr
  | _ => none

/-- the string alphabet of the op vocabulary: a b c % _ . * ? + ( ) $ ^ [ ] - \ and newline -/
def allowedChar (c : Nat) : Bool :=
  c = 97 || c = 98 || c = 99 || c = 37 || c = 95 || c = 46 || c = 42 || c = 63 || c = 43 || c = 40 ||
  c = 41 || c = 36 || c = 94 || c = 91 || c = 93 || c = 45 || c = 92 || c = 10

/-- `s<hex>` → bytes (all from the alphabet) -/
def parseStr? (s : String) : Option (List Nat) :=
  match s.toList with
  | 's' :: rest =>
    match hexToBytes (String.ofList rest) with
    | some bs => if bs.all allowedChar then some bs else none
    | none => none
  | _ => none

def dataTypeId : C06.NT → Nat
  | .boolean => 1
  | .sbyte => 2
  | .byte => 3
  | .int16 => 4
  | .uint16 => 5
  | .int32 => 6
  | .uint32 => 7
  | .int64 => 8
  | .uint64 => 9
  | .float => 10
  | .double => 11

def parseOperand? (tok : String) : Option Operand :=
  if tok = "a" then some .attr
  else if tok = "x" then some .undecodable
  else if tok = "s" then some (.simple true)
  else if tok = "s0" then some (.simple false)
  else if tok = "n" then some (.lit .empty)
  else
    match tok.splitOn ":" with
    | [one] =>
      match one.toList with
      | 'e' :: ds =>
        match (String.ofList ds).toNat? with
        | some i => if i < 4294967296 then some (.elem i) else none
        | none => none
      | _ => none
    | [ty, val] =>
      if ty = "str" then
        if val = "-" then some (.lit (.str none))
        else (parseStr? val).map fun bs => .lit (.str (some bs))
      else if ty = "nid" then
        if val = "bad" then some (.lit (.nid 9999))
        else (parseNT? val).map fun t => .lit (.nid (dataTypeId t))
      else
        match parseNT? ty with
        | some t =>
          match parseVal? t val with
          | some v => if C06.wellTyped t v then some (.lit (.num t v)) else none
          | none => none
        | none => none
    | _ => none

def showV : V → String
  | .empty => "-"
  | .num t x => showVal t x
  | .str none => "str:-"
  | .str (some bs) => "str:s" ++ bytesToHex bs
  | .nid _ => "other"

def codeStr : Code → String
  | .operandCountMismatch => "BadFilterOperandCountMismatch"
  | .operandInvalid => "BadFilterOperandInvalid"
  | .operatorUnsupported => "BadFilterOperatorUnsupported"
  | .operatorInvalid => "BadFilterOperatorInvalid"
  | .good => "Good"
  | .outOfFuel => "model-out-of-fuel"
  | .unsupportedPattern => "model-unsupported"

def showRes : Res → String
  | .ok v => "ok " ++ showV v
  | .err c => "err " ++ codeStr c
  | .panic => "panic"

def dstep (elems : List Element) (toks : List String) : List Element × String :=
  match toks with
  | ["reset"] => ([], "ok")
  | "elem" :: op :: rest =>
    match parseOp? op with
    | none => (elems, "bad-op")
    | some op =>
      if rest = ["-"] then
        let es := elems ++ [{ op := op, operands := none }]
        (es, s!"ok {es.length}")
      else
        match rest.mapM parseOperand? with
        | some os =>
          let es := elems ++ [{ op := op, operands := some os }]
          (es, s!"ok {es.length}")
        | none => (elems, "bad-op")
  | ["validate"] =>
    (elems, "ok [" ++ ",".intercalate ((validateClause elems).map codeStr) ++ "]")
  | ["eval"] => (elems, showRes (evalClause false elems))
  | ["likere", p] =>
    match parseStr? p with
    | some bs =>
      let r := likeToRegex bs
      match parseRegex r with
      | .ok _ _ => (elems, "ok s" ++ bytesToHex r)
      | .error => (elems, "ok -")
      | .unsupported => (elems, "ok unsupported")
    | none => (elems, "bad-op")
  | _ => (elems, "bad-op")

def driver : Driver := { σ := List Element, init := [], step := dstep }

end OpcuaVerif.C39
