import OpcuaVerif.Common
import OpcuaVerif.Model.C39
import OpcuaVerif.Drv.C06

namespace OpcuaVerif.C39

open OpcuaVerif.C06 (parseNT? parseVal? showVal)

def parseOp? (s : String) : Option FOp :=
  match s with
  | "eq" => some .equals
  | "isnull" => some .isNull
  | "gt" => some .gt
  | "lt" => some .lt
  | "gte" => some .gte
  | "lte" => some .lte
  | "like" => some .like
  | "not" => some .not
  | "between" => some .between
  | "inlist" => some .inList
  | "and" => some .and
  | "or" => some .or
  | "cast" => some .cast
  | "inview" => some .inView
  | "oftype" => some .ofType
  | "relatedto" => some .relatedTo
  | "bitand" => some .bitAnd
  | "bitor" => some .bitOr
  | _ => none

/-- the string alphabet of the op vocabulary: a b c % _ . * ? + ( ) $ ^ [ ] - \ and newline -/
def allowedChar (c : Nat) : Bool :=
  c = 97 || c = 98 || c = 99 || c = 37 || c = 95 || c = 46 || c = 42 || c = 63 || c = 43 || c = 40 ||
  c = 41 || c = 36 || c = 94 || c = 91 || c = 93 || c = 45 || c = 92 || c = 10

/-- `s<hex>` → bytes (all from the alphabet) -/
def parseStr? (s : String) : Option (List Nat) :=
  match s.toList with
  | 's' :: rest =>
    match hexToBytes (String.ofList rest) with
    | some bs => if bs.all allowedChar then some bs else none
    | none => none
  | _ => none

def dataTypeId : C06.NT → Nat
  | .boolean => 1
  | .sbyte => 2
  | .byte => 3
  | .int16 => 4
  | .uint16 => 5
  | .int32 => 6
  | .uint32 => 7
  | .int64 => 8
  | .uint64 => 9
  | .float => 10
  | .double => 11

def parseOperand? (tok : String) : Option Operand :=
  if tok = "a" then some .attr
  else if tok = "x" then some .undecodable
  else if tok = "s" then some (.simple true)
  else if tok = "s0" then some (.simple false)
  else if tok = "n" then some (.lit .empty)
  -- SimpleAttributeOperands that resolve to a property of the event: its value, like a literal
  else if tok = "sv:sev" then some (.lit (.num .uint16 (.int 7)))
  else if tok = "sv:src" then some (.lit (.str (some [97, 98, 99])))
  else
    match tok.splitOn ":" with
    | [one] =>
      match one.toList with
      | 'e' :: ds =>
        match (String.ofList ds).toNat? with
        | some i => if i < 4294967296 then some (.elem i) else none
        | none => none
      | _ => none
    | [ty, val] =>
      if ty = "str" then
        if val = "-" then some (.lit (.str none))
        else (parseStr? val).map fun bs => .lit (.str (some bs))
      else if ty = "nid" then
        if val = "bad" then some (.lit (.nid 9999))
        else (parseNT? val).map fun t => .lit (.nid (dataTypeId t))
      else
        match parseNT? ty with
        | some t =>
          match parseVal? t val with
          | some v => if C06.wellTyped t v then some (.lit (.num t v)) else none
          | none => none
        | none => none
    | _ => none

def showV : V → String
  | .empty => "-"
  | .num t x => showVal t x
  | .str none => "str:-"
  | .str (some bs) => "str:s" ++ bytesToHex bs
  | .nid _ => "other"

def codeStr : Code → String
  | .operandCountMismatch => "BadFilterOperandCountMismatch"
  | .operandInvalid => "BadFilterOperandInvalid"
  | .operatorUnsupported => "BadFilterOperatorUnsupported"
  | .operatorInvalid => "BadFilterOperatorInvalid"
  | .good => "Good"
  | .outOfFuel => "model-out-of-fuel"
  | .unsupportedPattern => "model-unsupported"

def showRes : Res → String
  | .ok v => "ok " ++ showV v
  | .err c => "err " ++ codeStr c
  | .panic => "panic"

/-! ### Arm tags: which branches of the model an `eval` / `validate` / `likere` op went through -/

def opStr : FOp → String
  | .equals => "eq" | .isNull => "isnull" | .gt => "gt" | .lt => "lt" | .gte => "gte" | .lte => "lte"
  | .like => "like" | .not => "not" | .between => "between" | .inList => "inlist" | .and => "and"
  | .or => "or" | .cast => "cast" | .inView => "inview" | .ofType => "oftype" | .relatedTo => "relatedto"
  | .bitAnd => "bitand" | .bitOr => "bitor"

def vClass : V → String
  | .empty => "null"
  | .num .boolean _ => "bool"
  | .num .float _ | .num .double _ => "flt"
  | .num _ _ => "int"
  | .str none => "nullstr"
  | .str (some _) => "str"
  | .nid _ => "nid"

def resClass : Res → String
  | .ok .empty => "null"
  | .ok (.num .boolean (.int 1)) => "true"
  | .ok (.num .boolean _) => "false"
  | .ok _ => "value"
  | .err .operandCountMismatch => "err-count"
  | .err .operandInvalid => "err-invalid"
  | .err .operatorUnsupported => "err-unsupported"
  | .err _ => "err-model"
  | .panic => "panic"

def triClass : V → String
  | .num .boolean (.int 1) => "t"
  | .num .boolean _ => "f"
  | _ => "n"

def cmpStr : Cmp → String
  | .lt => "lt" | .eq => "eq" | .gt => "gt" | .ne => "ne" | .error => "error"

/-- tags of the translation `like_to_regex` (one per branch of the character loop) -/
def likeTrArms : List Nat → Bool → Bool → List String
  | [], _, esc => if esc then ["lr:trailing-backslash"] else []
  | c :: rest, inList, esc =>
    let next : Bool := !esc && c == 92
    if inList then
      if c = 93 ∧ esc = false then "lr:list-close" :: likeTrArms rest false next
      else if esc then
        (if c = 93 then "lr:list-escaped-bracket" else if regexEscapes c then "lr:list-esc-special" else "lr:list-esc-plain")
          :: likeTrArms rest true next
      else if isRegexMeta c then "lr:list-meta" :: likeTrArms rest true next
      else (if c = 92 then "lr:list-backslash" else "lr:list-other") :: likeTrArms rest true next
    else if esc then
      (if regexEscapes c then "lr:esc-special" else if c = 37 ∨ c = 95 then "lr:esc-wildcard" else "lr:esc-plain")
        :: likeTrArms rest false next
    else if isRegexMeta c ∨ c = 94 then "lr:meta" :: likeTrArms rest false next
    else if c = 91 then "lr:list-open" :: likeTrArms rest true next
    else if c = 37 then "lr:percent" :: likeTrArms rest false next
    else if c = 95 then "lr:underscore" :: likeTrArms rest false next
    else (if c = 92 then "lr:backslash" else "lr:plain") :: likeTrArms rest false next

def chClass (c : Nat) : String :=
  if c = 92 then "bs" else if c = 93 then "rbr" else if c = 91 then "lbr" else if c = 37 then "pct"
  else if c = 95 then "und" else if c = 94 then "caret" else if c = 45 then "dash"
  else if isRegexMeta c then "meta" else "plain"

/-- the state space of the `like_to_regex` loop: in-list × how the previous character left the
`escaped` flag (start / after an unescaped backslash / after an escaped backslash / other) × class
of the current character -/
def likeStateArms : List Nat → Bool → Bool → String → List String
  | [], _, _, _ => []
  | c :: rest, inList, esc, prev =>
    let next : Bool := !esc && c == 92
    let inNext : Bool :=
      if inList then !(c = 93 ∧ esc = false) else (!esc && c == 91)
    let prevNext := if c = 92 then (if esc then "bsesc" else "bsraw") else "other"
    s!"ls:{if inList then "in" else "out"}-{prev}-{chClass c}" :: likeStateArms rest inNext next prevNext

def hasInfix (pat : List Nat) : List Nat → Bool
  | [] => pat.isEmpty
  | c :: rest => (pat.isPrefixOf (c :: rest)) || hasInfix pat rest

/-- tags of the regex parse (what the regex crate has to understand) -/
def likeParseArms (p : List Nat) : List String :=
  let r := likeToRegex p
  let feat : List String :=
    (if hasInfix [63, 63] r then ["lp:lazy-opt"] else []) ++
    (if hasInfix [46, 42, 63] r then ["lp:lazy-star"] else []) ++
    (if hasInfix [91, 94] r then ["lp:class-neg"] else []) ++
    (if hasInfix [91, 93] r ∨ hasInfix [91, 94, 93] r then ["lp:class-leading-bracket"] else []) ++
    (if hasInfix [45, 93] r then ["lp:class-trailing-dash"] else [])
  match parseRegex r with
  | .ok anch items =>
    [if anch then "lp:anchored" else "lp:unanchored"] ++ feat ++
      (if items.any (fun it => match it.atom with | .cls _ rs => rs.any (fun (a, b) => a < b) | _ => false)
        then ["lp:class-range"] else []) ++
      (if items.any (fun it => it.q = .opt) then ["lp:opt"] else []) ++
      (if items.any (fun it => it.q = .star ∧ it.atom ≠ .any) then ["lp:star-on-nonany"] else [])
  | .error => "lp:error" :: feat
  | .unsupported => ["lp:unsupported"]

/-- the operands an operator fetches, in order (stops after the first that does not evaluate) -/
def fetched (op : FOp) (os : List Operand) (vo : Operand → Res) : List Operand :=
  let rec pref : List Operand → List Operand
    | [] => []
    | o :: r => match vo o with
      | .ok _ => o :: pref r
      | _ => [o]
  match op with
  | .isNull | .not => pref (os.take 1)
  | .between =>
    match os with
    | a :: b :: r =>
      match compareOperands false vo a b with
      | .inr c => if c = .gt ∨ c = .eq then [a, b] ++ pref (r.take 1) else [a, b]
      | .inl _ => pref [a, b]
    | _ => pref os
  | .inList =>
    match os with
    | a :: r =>
      -- up to and including the first operand that Equals operand[0]
      let rec upto : List Operand → List Operand
        | [] => []
        | o :: t => match compareOperands false vo a o with
          | .inr .eq => [o]
          | _ => o :: upto t
      a :: upto r
    | [] => []
  | .inView | .ofType | .relatedTo => []
  | _ => pref (os.take 2)

def operandArm (elems : List Element) (used : List Nat) : Operand → String
  | .elem i =>
    if used.head? = some i then "vo:elem-self"
    else if used.contains i then "vo:elem-ancestor"
    else if i = elems.length then "vo:elem-eq-len"
    else if i = 4294967295 then "vo:elem-u32max"
    else if i > elems.length then "vo:elem-gt-len"
    else if i + 1 = elems.length then "vo:elem-last"
    else "vo:elem-ok"
  | .lit v => "vo:lit-" ++ vClass v
  | .attr => "vo:attr"
  | .simple p => if p then "vo:simple-path" else "vo:simple-nopath"
  | .undecodable => "vo:undecodable"

def cntArm (e : Element) : String :=
  "cnt:" ++ opStr e.op ++ ":" ++
    match e.operands with
    | none => "none"
    | some os =>
      if os.isEmpty then "zero" else if os.length < minOperands e.op then "lt"
      else if os.length = minOperands e.op then "eq" else "gt"

/-- tags of the evaluation of one element and, recursively, of the elements it fetches -/
def traceElem : Nat → List Element → List Nat → Element → List String
  | 0, _, _, _ => []
  | fuel + 1, elems, used, e =>
    let res := evalElem false (elems.length + 1) elems used e
    let here := [cntArm e, "el:" ++ opStr e.op ++ ":" ++ resClass res]
    match e.operands with
    | none => here
    | some os =>
      if os.isEmpty then here
      else if os.any (· = .undecodable) then here ++ ["vo:undecodable"]
      else if os.length < minOperands e.op then here
      else
        let vo := valueOfWith false (evalElem false (elems.length + 1) elems) elems used
        let fs := fetched e.op os vo
        let opTags := fs.map (operandArm elems used)
        let vals : List V := fs.filterMap fun o => match vo o with | .ok v => some v | _ => none
        let sem : List String :=
          match e.op, vals with
          | .equals, [a, b] | .gt, [a, b] | .lt, [a, b] | .gte, [a, b] | .lte, [a, b] =>
            let dir := if a.typeId = b.typeId then "same"
              else if a.typeId.precedence < b.typeId.precedence then "conv-right" else "conv-left"
            (match compareValues false a b with
             | some c => [s!"cmp:{vClass a}-{vClass b}:{cmpStr c}", "cmpdir:" ++ dir ++ (if c = .error then "-error" else "")]
             | none => [])
          | .and, [a, b] => [s!"and:{triClass (convertV a (.num .boolean))}-{triClass (convertV b (.num .boolean))}"]
          | .or, [a, b] => [s!"or:{triClass (convertV a (.num .boolean))}-{triClass (convertV b (.num .boolean))}"]
          | .not, [a] => [s!"not:{triClass (convertV a (.num .boolean))}"]
          | .bitAnd, [a, b] | .bitOr, [a, b] =>
            [s!"bit:{vClass a}-{vClass b}:{resClass res}"]
          | .like, [a, b] =>
            (match strOf (convertV a .string), strOf (convertV b .string) with
             | some _, some p => [s!"like:{vClass a}-{vClass b}"] ++ likeTrArms p false false ++ likeStateArms p false false "start" ++ likeParseArms p
             | _, _ => [s!"like:nonstring:{vClass a}-{vClass b}"])
          | .cast, [_, b] =>
            (match b with
             | .nid id => [if (dataTypeOfNode id).isSome then "cast:type-known" else if id = 2 then "cast:type-sbyte" else "cast:type-unknown"]
             | _ => ["cast:not-a-nodeid"])
          | .between, a :: b :: r =>
            (match compareValues false a b with
             | some c => if c = .gt ∨ c = .eq then
                  (match r with
                   | d :: _ => (match compareValues false a d with
                      | some c2 => ["between:low-" ++ cmpStr c ++ "/high-" ++ cmpStr c2]
                      | none => [])
                   | [] => [])
                else ["between:low-" ++ cmpStr c]
             | none => [])
          | .inList, a :: r =>
            let hits := r.map fun v => decide (compareValues false a v = some .eq)
            [if hits.isEmpty then "inlist:nothing-compared"
             else if hits.getLast? = some true then (if hits.length = os.length - 1 then "inlist:match-last" else "inlist:match-early")
             else "inlist:no-match"]
          | _, _ => []
        let rec_ := fs.flatMap fun o =>
          match o with
          | .elem i =>
            if used.contains i then []
            else match elems[i]? with
              | some e' => traceElem fuel elems (i :: used) e'
              | none => []
          | _ => []
        here ++ opTags ++ sem ++ rec_

def evalArms (elems : List Element) : List String :=
  match elems with
  | [] => ["ev:empty-clause"]
  | e :: _ => ("ev:" ++ resClass (evalClause false elems)) :: traceElem (elems.length + 1) elems [0] e

def validateArms (elems : List Element) : List String :=
  elems.flatMap fun e =>
    match e.operands with
    | none => ["val:no-operands"]
    | some os =>
      let cnt := if !supportedOp e.op then "val:unsupported-operator"
        else if os.length < minOperands e.op then "val:count-lt" else if os.length = minOperands e.op then "val:count-eq"
        else "val:count-gt"
      cnt :: os.map fun o => match o with
        | .elem i => if i + 1 = elems.length then "val:elem-last" else if i = elems.length then "val:elem-eq-len"
            else if i > elems.length then "val:elem-gt-len" else "val:elem-ok"
        | .lit _ => "val:lit"
        | .attr => "val:attr"
        | .simple _ => "val:simple"
        | .undecodable => "val:undecodable"

def withArms (r : String) (arms : List String) : String :=
  if arms.isEmpty then r else r ++ " @@ " ++ ",".intercalate arms.eraseDups

def dstep (elems : List Element) (toks : List String) : List Element × String :=
  match toks with
  | ["reset"] => ([], "ok")
  | "elem" :: op :: rest =>
    match parseOp? op with
    | none => (elems, "bad-op")
    | some op =>
      if rest = ["-"] then
        let es := elems ++ [{ op := op, operands := none }]
        (es, s!"ok {es.length}")
      else
        match rest.mapM parseOperand? with
        | some os =>
          let es := elems ++ [{ op := op, operands := some os }]
          (es, s!"ok {es.length}")
        | none => (elems, "bad-op")
  | ["validate"] =>
    (elems, withArms ("ok [" ++ ",".intercalate ((validateClause elems).map codeStr) ++ "]")
      (validateArms elems ++ (validateClause elems).map (fun c => "vs:" ++ codeStr c)))
  | ["eval"] => (elems, withArms (showRes (evalClause false elems)) (evalArms elems))
  | ["nullclause"] => (elems, "ok bool:1 none @@ ev:null-clause")
  | ["evalevent"] =>
    -- `event_filter::evaluate`: the event passes iff the where clause is `Ok(Boolean(true))`
    let r := evalClause false elems
    (elems, withArms (if r = .ok (boolV true) then "ok 1" else "ok 0")
      [match r with
       | .ok (.num .boolean (.int 1)) => "ee:pass"
       | .ok (.num .boolean _) => "ee:reject-false"
       | .ok .empty => "ee:reject-null"
       | .ok _ => "ee:reject-value"
       | _ => "ee:reject-error"])
  | ["likere", p] =>
    match parseStr? p with
    | some bs =>
      let r := likeToRegex bs
      match parseRegex r with
      | .ok _ _ => (elems, withArms ("ok s" ++ bytesToHex r) (likeTrArms bs false false ++ likeStateArms bs false false "start" ++ likeParseArms bs))
      | .error => (elems, withArms "ok -" (likeTrArms bs false false ++ likeStateArms bs false false "start" ++ likeParseArms bs))
      | .unsupported => (elems, "ok unsupported")
    | none => (elems, "bad-op")
  | _ => (elems, "bad-op")

def driver : Driver := { σ := List Element, init := [], step := dstep }

end OpcuaVerif.C39
