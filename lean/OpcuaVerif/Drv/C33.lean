import OpcuaVerif.Common
import OpcuaVerif.Model.C33
import OpcuaVerif.Model.C33Filter

namespace OpcuaVerif.C33

structure DState where
  as : AS
  added : List NodeRef      -- nodes added (Good) by this case, in order
  canModify : Bool := true  -- `Session::can_modify_address_space` of the case's sessions

/-- what the model knows of the standard address space (nodes the harness refers to) -/
def fixtureAS : AS :=
  let n (id cls bn : Nat) : Node := ⟨⟨0, id⟩, cls, 0, bn⟩
  { nodes := [n 84 1 100, n 85 1 1, n 2253 1 0, n 2256 2 2, n 58 8 101, n 61 8 102, n 63 16 103,
              n 24 64 104, n 35 32 105, n 33 32 106,
              -- the three objects the harness creates for every case (tokens o0..o2)
              ⟨⟨3, 700000⟩, 1, 0, 3⟩, ⟨⟨3, 700001⟩, 1, 0, 4⟩, ⟨⟨3, 700002⟩, 1, 0, 5⟩],
    refs := [⟨⟨0, 84⟩, ⟨0, 85⟩, 35⟩, ⟨⟨0, 85⟩, ⟨0, 2253⟩, 35⟩, ⟨⟨0, 2253⟩, ⟨0, 2256⟩, 47⟩,
             ⟨⟨0, 85⟩, ⟨3, 700000⟩, 35⟩, ⟨⟨0, 85⟩, ⟨3, 700001⟩, 35⟩, ⟨⟨0, 85⟩, ⟨3, 700002⟩, 35⟩],
    -- model namespace indices: 0, 1 standard; 2 internal; 3 = the harness's registered namespace;
    -- 4 = first unregistered; the real indices differ, only "registered or not" matters
    namespaces := 4, nextAuto := 1000, internalNs := 2 }

def Status.name : Status → String
  | .Good => "Good" | .BadUserAccessDenied => "BadUserAccessDenied" | .BadNodeIdRejected => "BadNodeIdRejected"
  | .BadNodeClassInvalid => "BadNodeClassInvalid" | .BadNodeIdExists => "BadNodeIdExists"
  | .BadBrowseNameInvalid => "BadBrowseNameInvalid" | .BadBrowseNameDuplicated => "BadBrowseNameDuplicated"
  | .BadTypeDefinitionInvalid => "BadTypeDefinitionInvalid" | .BadParentNodeIdInvalid => "BadParentNodeIdInvalid"
  | .BadNodeAttributesInvalid => "BadNodeAttributesInvalid" | .BadReferenceTypeIdInvalid => "BadReferenceTypeIdInvalid"
  | .BadServerUriInvalid => "BadServerUriInvalid" | .BadReferenceLocalOnly => "BadReferenceLocalOnly"
  | .BadSourceNodeIdInvalid => "BadSourceNodeIdInvalid" | .BadTargetNodeIdInvalid => "BadTargetNodeIdInvalid"
  | .BadDuplicateReferenceNotAllowed => "BadDuplicateReferenceNotAllowed"
  | .BadReferenceNotAllowed => "BadReferenceNotAllowed" | .BadNothingToDo => "BadNothingToDo"
  | .BadTooManyOperations => "BadTooManyOperations"

def dropFirst (s : String) : String := String.ofList (s.toList.drop 1)

def parseNode? (d : DState) (t : String) : Option NodeRef :=
  if t = "-" then some .null else
  match t.toList with
  | 's' :: r => (String.ofList r).toNat?.map (fun n => ⟨0, n⟩)
  | 'm' :: r => (String.ofList r).toNat?.map (fun n => ⟨0, 900000 + n⟩)
  | 'o' :: r => (String.ofList r).toNat?.map (fun n => ⟨3, 700000 + n⟩)
  | 'a' :: r => (String.ofList r).toNat?.map (fun i => match d.added[i]? with
      | some x => x
      | none => ⟨0, 800000 + i⟩)
  | 'f' :: k :: r => (String.ofList r).toNat?.map (fun i =>
      let ns := if k = 'r' then 3 else if k = 'l' then 4 else if k = 'u' then 5 else 65535
      ⟨ns, 5000000 + i⟩)
  | _ => none

def parseRefType? (t : String) : Option (Option Nat) :=
  if t = "x" then some none else t.toNat?.map (fun n => if knownRefTypes.contains n then some n else none)

def parseAddNode? (d : DState) : List String → Option AddNodeReq
  | [reqid, sidx, cls, bn, parent, psidx, rt, td, attrs] => do
    let cls ← cls.toNat?
    let (bnNull, bnNs, bnIdx) ← (
      if bn = "-" then some (true, 0, 0)
      else if bn.startsWith "e" then (dropFirst bn).toNat?.map (fun ns => (true, ns, 0))
      else match bn.splitOn ":" with
        | [ns, idx] => do some (false, ← ns.toNat?, ← idx.toNat?)
        | _ => none)
    let attrs : Attrs ← (
      if attrs = "ok" then some (if cls = 1 ∨ cls = 2 ∨ cls = 8 ∨ cls = 16 ∨ cls = 32 then Attrs.fits cls false else .unusable)
      else if attrs = "null" ∨ attrs = "junk" ∨ attrs = "mask0" then some .unusable
      else if attrs = "vdim" then some (.fits 2 true)
      else if attrs = "tdim" then some (.fits 16 true)
      else if attrs.startsWith "c" then (dropFirst attrs).toNat?.map (Attrs.fits · false)
      else none)
    some { reqId := ← parseNode? d reqid, reqServerIndex := ← sidx.toNat?, cls := cls,
           bnNull := bnNull, bnNs := bnNs, bn := bnIdx, bnParses := true,
           parent := ← parseNode? d parent, parentServerIndex := ← psidx.toNat?,
           refType := ← parseRefType? rt, typeDef := ← parseNode? d td, attrs := attrs }
  | _ => none

def parseAddRef? (d : DState) : List String → Option AddRefReq
  | [src, tgt, tsidx, uri, tclass, rt, fwd] => do
    some { src := ← parseNode? d src, tgt := ← parseNode? d tgt, tgtServerIndex := ← tsidx.toNat?,
           uriNull := uri == "1", tgtClass := ← tclass.toNat?, refType := ← parseRefType? rt,
           isForward := fwd == "1" }
  | _ => none

def showStatuses (l : List Status) : String :=
  match l with
  | s :: _ :: _ => if l.all (· == s) then s!"{s.name}*{l.length}" else ",".intercalate (l.map Status.name)
  | _ => ",".intercalate (l.map Status.name)

def showCall : CallOut → String
  | .fault s => "fault " ++ s.name
  | .results l => "ok " ++ showStatuses l
  | .panic _ => "panic"

/-- nodes added by an AddNodes call = the nodes the address space gained -/
def newNodes (before after : AS) : List NodeRef := (after.nodes.drop before.nodes.length).map (·.ref)

def doAddNodes (d : DState) (items : Option (List AddNodeReq)) : DState × String :=
  let (o, a) := addNodes repaired d.as d.canModify items
  ({ d with as := a, added := d.added ++ newNodes d.as a }, showCall o)

def doAddRefs (d : DState) (items : Option (List AddRefReq)) : DState × String :=
  let (o, a) := addReferences repaired d.as d.canModify items
  ({ d with as := a }, showCall o)

def parseFOp? (s : String) : Option FOp :=
  if s = "eq" then some .eq else if s = "isnull" then some .isNull else if s = "gt" then some .gt
  else if s = "lt" then some .lt else if s = "gte" then some .gte else if s = "lte" then some .lte
  else if s = "not" then some .not else if s = "between" then some .between else if s = "inlist" then some .inList
  else if s = "and" then some .and else if s = "or" then some .or else if s = "unsup" then some .unsupported else none

def parseOperand? (s : String) : Option Operand :=
  if s = "i" then some (.lit .int) else if s = "n" then some (.lit .empty) else if s = "a" then some .attr
  else if s.startsWith "e" then (dropFirst s).toNat?.map .elem else none

def parseElem? (s : String) : Option Elem :=
  match s.splitOn ":" with
  | [op, ops] => do
    let op ← parseFOp? op
    let operands ← ((ops.splitOn ",").filter (fun o => o ≠ "" ∧ o ≠ "-")).mapM parseOperand?
    some { op := op, operands := operands }
  | _ => none

def parseWhere? (s : String) : Option (List Elem) :=
  if s = "-" then some [] else (s.splitOn ";").mapM parseElem?

/-! ### arm tags (coverage of the model's branches by the generated ops) -/

def tagged (r : String) (tags : List String) : String :=
  if tags.isEmpty then r else r ++ " @@ " ++ ",".intercalate tags

def nsKind (d : DState) (r : NodeRef) : String :=
  if r.isNull then "null"
  else if r.ns < d.as.namespaces then "registered"
  else if r.ns = d.as.namespaces then "eq-count"
  else "gt-count"

def callTags (pfx : String) (n : Option Nat) (o : CallOut) : List String :=
  (match n with
   | none => [pfx ++ "-list-null"]
   | some k =>
     if k = 0 then [pfx ++ "-list-empty"]
     else if k < maxPerCall then [pfx ++ "-len-lt-limit"]
     else if k = maxPerCall then [pfx ++ "-len-eq-limit"]
     else [pfx ++ "-len-gt-limit"]) ++
  (match o with
   | .fault s => [pfx ++ "-fault-" ++ s.name]
   | .results l => (l.take 1).map (fun s => pfx ++ "-" ++ s.name)
   | .panic _ => [pfx ++ "-panic"])

def addNodeTags (d : DState) (r : AddNodeReq) : List String :=
  [s!"an-cls-{r.cls}", "an-reqid-" ++ nsKind d r.reqId,
   if r.reqServerIndex = 0 then "an-sidx-0" else "an-sidx-nonzero",
   if r.parentServerIndex = 0 then "an-psidx-0" else if r.parentServerIndex = 4294967295 then "an-psidx-max" else "an-psidx-other",
   if r.bnNull then "an-bn-null-or-empty" else if r.bnNs = 0 then "an-bn-ns0" else "an-bn-ns-other",
   match r.refType with
   | none => "an-rt-invalid"
   | some rt => if hierarchical.contains rt then "an-rt-hierarchical" else "an-rt-other",
   match r.attrs with
   | .unusable => "an-attrs-unusable"
   | .fits c d => if c = r.cls then (if d then "an-attrs-fit-null-dims" else "an-attrs-fit") else "an-attrs-other-class",
   if r.typeDef.isNull then "an-td-null" else if d.as.exists r.typeDef then "an-td-exists" else "an-td-missing",
   if d.as.exists r.parent then "an-parent-exists" else "an-parent-missing"]

def addRefTags (d : DState) (r : AddRefReq) : List String :=
  [if r.isForward then "ar-forward" else "ar-inverse",
   if r.src == r.tgt then "ar-self" else "ar-distinct",
   if r.uriNull then "ar-uri-null" else "ar-uri-set",
   if r.tgtServerIndex = 0 then "ar-sidx-0" else "ar-sidx-nonzero",
   s!"ar-tclass-{r.tgtClass}",
   match r.refType with
   | none => "ar-rt-invalid"
   | some _ => "ar-rt-valid",
   if d.as.classDiffers r.tgt r.tgtClass then "ar-class-differs" else "ar-class-same-or-unknown"]

def fopName : FOp → String
  | .eq => "eq" | .isNull => "isnull" | .gt => "gt" | .lt => "lt" | .gte => "gte" | .lte => "lte"
  | .not => "not" | .between => "between" | .inList => "inlist" | .and => "and" | .or => "or"
  | .unsupported => "unsup"

def evfTags (els : List Elem) : List String :=
  (match whereClausePanics false els with
   | none => ["evf-pinned-none"]
   | some .operandIndex => ["evf-pinned-operand-index"]
   | some .elementIndex => ["evf-pinned-element-index"]
   | some .attributeOperand => ["evf-pinned-attribute-operand"]
   | some .compareValues => ["evf-pinned-compare-values"]) ++
  (if els.isEmpty then ["evf-empty"] else
    match evalElem true els (els.length + 1) [0] 0 with
    | .err => ["evf-res-err"]
    | .bool => ["evf-res-bool"]
    | .val _ => ["evf-res-val"]
    | .panic _ => ["evf-res-panic"]) ++
  (els.map (fun e => "evf-op-" ++ fopName e.op)).eraseDups ++
  (els.map (fun e =>
    if e.operands.length < minOperands e.op then "evf-operands-lt-min"
    else if e.operands.length = minOperands e.op then "evf-operands-eq-min" else "evf-operands-gt-min")).eraseDups

def dstep (d : DState) (toks : List String) : DState × String :=
  match toks with
  | ["reset"] => ({ as := fixtureAS, added := [] }, tagged "ok" ["reset-can-modify"])
  | ["reset", "ro"] => ({ as := fixtureAS, added := [], canModify := false }, tagged "ok" ["reset-read-only"])
  | "addnode" :: rest =>
    match parseAddNode? d rest with
    | some r =>
      let (d', o) := doAddNodes d (some [r])
      (d', tagged o (addNodeTags d r ++ [s!"an-{(o.splitOn " ").getD 1 "?"}"]))
    | none => (d, "bad-op")
  | "addref" :: rest =>
    match parseAddRef? d rest with
    | some r =>
      let (d', o) := doAddRefs d (some [r])
      (d', tagged o (addRefTags d r ++ [s!"ar-{(o.splitOn " ").getD 1 "?"}"]))
    | none => (d, "bad-op")
  | ["addnodes", "none"] => let (d', o) := doAddNodes d none; (d', tagged o ["ans-list-null"])
  | ["addnodes", "empty"] => let (d', o) := doAddNodes d (some []); (d', tagged o ["ans-list-empty"])
  | ["addnodes", "many", n] =>
    match n.toNat?, parseAddNode? d ["-", "0", "0", "0:3", "s85", "0", "35", "-", "null"] with
    | some n, some r =>
      let (d', o) := doAddNodes d (some (List.replicate n r))
      (d', tagged o [if n < maxPerCall then "ans-len-lt-limit" else if n = maxPerCall then "ans-len-eq-limit" else "ans-len-gt-limit"])
    | _, _ => (d, "bad-op")
  | ["addrefs", "none"] => let (d', o) := doAddRefs d none; (d', tagged o ["ars-list-null"])
  | ["addrefs", "empty"] => let (d', o) := doAddRefs d (some []); (d', tagged o ["ars-list-empty"])
  | ["addrefs", "many", n] =>
    match n.toNat?, parseAddRef? d ["m0", "s85", "0", "1", "1", "35", "1"] with
    | some n, some r =>
      let (d', o) := doAddRefs d (some (List.replicate n r))
      (d', tagged o [if n < maxPerCall then "ars-len-lt-limit" else if n = maxPerCall then "ars-len-eq-limit" else "ars-len-gt-limit"])
    | _, _ => (d, "bad-op")
  | ["rq", kind, _] => (d, tagged "ok" ["rq-" ++ kind])      -- generated-request testing: the model only says "is answered"
  | ["sub"] => (d, "ok")
  | ["item", _] => (d, "ok")
  | ["setmode", _] => (d, "ok")
  | ["resend"] => (d, "ok")
  | ["getitems"] => (d, "ok")
  | ["tick"] => (d, tagged "ok" ["tick-now"])
  | ["tick", _] => (d, tagged "ok" ["tick-ahead"])
  | ["browse", _, _, _] => (d, tagged "ok" ["browse"])   -- the view service is not modelled here (C30/C31): "is answered"
  | ["evf", spec] =>
    match parseWhere? spec with
    | some els =>
      match whereClausePanics true els with
      | some _ => (d, tagged "panic" (evfTags els))
      | none => (d, tagged "ok" (evfTags els))
    | none => (d, "bad-op")
  | _ => (d, "bad-op")

def driver : Driver := { σ := DState, init := { as := fixtureAS, added := [] }, step := dstep }

end OpcuaVerif.C33
