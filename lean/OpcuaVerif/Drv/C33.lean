import OpcuaVerif.Common
import OpcuaVerif.Model.C33
import OpcuaVerif.Model.C33Filter

namespace OpcuaVerif.C33

structure DState where
  as : AS
  added : List NodeRef      -- nodes added (Good) by this case, in order

/-- what the model knows of the standard address space (nodes the harness refers to) -/
def fixtureAS : AS :=
  let n (id cls bn : Nat) : Node := ⟨⟨0, id⟩, cls, 0, bn⟩
  { nodes := [n 84 1 100, n 85 1 1, n 2253 1 0, n 2256 2 2, n 58 8 101, n 61 8 102, n 63 16 103,
              n 24 64 104, n 35 32 105, n 33 32 106,
              -- the three objects the harness creates for every case (tokens o0..o2)
              ⟨⟨3, 700000⟩, 1, 0, 3⟩, ⟨⟨3, 700001⟩, 1, 0, 4⟩, ⟨⟨3, 700002⟩, 1, 0, 5⟩],
    refs := [⟨⟨0, 84⟩, ⟨0, 85⟩, 35⟩, ⟨⟨0, 85⟩, ⟨0, 2253⟩, 35⟩, ⟨⟨0, 2253⟩, ⟨0, 2256⟩, 47⟩,
             ⟨⟨0, 85⟩, ⟨3, 700000⟩, 35⟩, ⟨⟨0, 85⟩, ⟨3, 700001⟩, 35⟩, ⟨⟨0, 85⟩, ⟨3, 700002⟩, 35⟩],
    -- model namespace indices: 0, 1 standard; 2 internal; 3 = the harness's registered namespace;
    -- 4 = first unregistered; the real indices differ, only "registered or not" matters
    namespaces := 4, nextAuto := 1000, internalNs := 2 }

def Status.name : Status → String
  | .Good => "Good" | .BadUserAccessDenied => "BadUserAccessDenied" | .BadNodeIdRejected => "BadNodeIdRejected"
  | .BadNodeClassInvalid => "BadNodeClassInvalid" | .BadNodeIdExists => "BadNodeIdExists"
  | .BadBrowseNameInvalid => "BadBrowseNameInvalid" | .BadBrowseNameDuplicated => "BadBrowseNameDuplicated"
  | .BadTypeDefinitionInvalid => "BadTypeDefinitionInvalid" | .BadParentNodeIdInvalid => "BadParentNodeIdInvalid"
  | .BadNodeAttributesInvalid => "BadNodeAttributesInvalid" | .BadReferenceTypeIdInvalid => "BadReferenceTypeIdInvalid"
  | .BadServerUriInvalid => "BadServerUriInvalid" | .BadReferenceLocalOnly => "BadReferenceLocalOnly"
  | .BadSourceNodeIdInvalid => "BadSourceNodeIdInvalid" | .BadTargetNodeIdInvalid => "BadTargetNodeIdInvalid"
  | .BadDuplicateReferenceNotAllowed => "BadDuplicateReferenceNotAllowed"
  | .BadReferenceNotAllowed => "BadReferenceNotAllowed" | .BadNothingToDo => "BadNothingToDo"
  | .BadTooManyOperations => "BadTooManyOperations"

def dropFirst (s : String) : String := String.ofList (s.toList.drop 1)

def parseNode? (d : DState) (t : String) : Option NodeRef :=
  if t = "-" then some .null else
  match t.toList with
  | 's' :: r => (String.ofList r).toNat?.map (fun n => ⟨0, n⟩)
  | 'm' :: r => (String.ofList r).toNat?.map (fun n => ⟨0, 900000 + n⟩)
  | 'o' :: r => (String.ofList r).toNat?.map (fun n => ⟨3, 700000 + n⟩)
  | 'a' :: r => (String.ofList r).toNat?.map (fun i => match d.added[i]? with
      | some x => x
      | none => ⟨0, 800000 + i⟩)
  | 'f' :: k :: r => (String.ofList r).toNat?.map (fun i =>
      let ns := if k = 'r' then 3 else if k = 'l' then 4 else if k = 'u' then 5 else 65535
      ⟨ns, 5000000 + i⟩)
  | _ => none

def parseRefType? (t : String) : Option (Option Nat) :=
  if t = "x" then some none else t.toNat?.map (fun n => if knownRefTypes.contains n then some n else none)

def parseAddNode? (d : DState) : List String → Option AddNodeReq
  | [reqid, sidx, cls, bn, parent, psidx, rt, td, attrs] => do
    let cls ← cls.toNat?
    let (bnNull, bnNs, bnIdx) ← (
      if bn = "-" then some (true, 0, 0)
      else if bn.startsWith "e" then (dropFirst bn).toNat?.map (fun ns => (true, ns, 0))
      else match bn.splitOn ":" with
        | [ns, idx] => do some (false, ← ns.toNat?, ← idx.toNat?)
        | _ => none)
    let attrs : Attrs ← (
      if attrs = "ok" then some (if cls = 1 ∨ cls = 8 ∨ cls = 32 then Attrs.fits cls else .unusable)
      else if attrs = "null" ∨ attrs = "junk" ∨ attrs = "mask0" then some .unusable
      else if attrs.startsWith "c" then (dropFirst attrs).toNat?.map Attrs.fits
      else none)
    some { reqId := ← parseNode? d reqid, reqServerIndex := ← sidx.toNat?, cls := cls,
           bnNull := bnNull, bnNs := bnNs, bn := bnIdx, bnParses := true,
           parent := ← parseNode? d parent, parentServerIndex := ← psidx.toNat?,
           refType := ← parseRefType? rt, typeDef := ← parseNode? d td, attrs := attrs }
  | _ => none

def parseAddRef? (d : DState) : List String → Option AddRefReq
  | [src, tgt, tsidx, uri, tclass, rt, fwd] => do
    some { src := ← parseNode? d src, tgt := ← parseNode? d tgt, tgtServerIndex := ← tsidx.toNat?,
           uriNull := uri == "1", tgtClass := ← tclass.toNat?, refType := ← parseRefType? rt,
           isForward := fwd == "1" }
  | _ => none

def showStatuses (l : List Status) : String :=
  match l with
  | s :: _ :: _ => if l.all (· == s) then s!"{s.name}*{l.length}" else ",".intercalate (l.map Status.name)
  | _ => ",".intercalate (l.map Status.name)

def showCall : CallOut → String
  | .fault s => "fault " ++ s.name
  | .results l => "ok " ++ showStatuses l
  | .panic _ => "panic"

/-- nodes added by an AddNodes call = the nodes the address space gained -/
def newNodes (before after : AS) : List NodeRef := (after.nodes.drop before.nodes.length).map (·.ref)

def doAddNodes (d : DState) (items : Option (List AddNodeReq)) : DState × String :=
  let (o, a) := addNodes repaired d.as true items
  ({ as := a, added := d.added ++ newNodes d.as a }, showCall o)

def doAddRefs (d : DState) (items : Option (List AddRefReq)) : DState × String :=
  let (o, a) := addReferences repaired d.as true items
  ({ d with as := a }, showCall o)

def parseFOp? (s : String) : Option FOp :=
  if s = "eq" then some .eq else if s = "isnull" then some .isNull else if s = "gt" then some .gt
  else if s = "lt" then some .lt else if s = "gte" then some .gte else if s = "lte" then some .lte
  else if s = "not" then some .not else if s = "between" then some .between else if s = "inlist" then some .inList
  else if s = "and" then some .and else if s = "or" then some .or else if s = "unsup" then some .unsupported else none

def parseOperand? (s : String) : Option Operand :=
  if s = "i" then some (.lit .int) else if s = "n" then some (.lit .empty) else if s = "a" then some .attr
  else if s.startsWith "e" then (dropFirst s).toNat?.map .elem else none

def parseElem? (s : String) : Option Elem :=
  match s.splitOn ":" with
  | [op, ops] => do
    let op ← parseFOp? op
    let operands ← ((ops.splitOn ",").filter (fun o => o ≠ "" ∧ o ≠ "-")).mapM parseOperand?
    some { op := op, operands := operands }
  | _ => none

def parseWhere? (s : String) : Option (List Elem) :=
  if s = "-" then some [] else (s.splitOn ";").mapM parseElem?

def dstep (d : DState) (toks : List String) : DState × String :=
  match toks with
  | ["reset"] => ({ as := fixtureAS, added := [] }, "ok")
  | "addnode" :: rest =>
    match parseAddNode? d rest with
    | some r => doAddNodes d (some [r])
    | none => (d, "bad-op")
  | "addref" :: rest =>
    match parseAddRef? d rest with
    | some r => doAddRefs d (some [r])
    | none => (d, "bad-op")
  | ["addnodes", "none"] => doAddNodes d none
  | ["addnodes", "empty"] => doAddNodes d (some [])
  | ["addnodes", "many", n] =>
    match n.toNat?, parseAddNode? d ["-", "0", "0", "0:3", "s85", "0", "35", "-", "null"] with
    | some n, some r => doAddNodes d (some (List.replicate n r))
    | _, _ => (d, "bad-op")
  | ["addrefs", "none"] => doAddRefs d none
  | ["addrefs", "empty"] => doAddRefs d (some [])
  | ["addrefs", "many", n] =>
    match n.toNat?, parseAddRef? d ["m0", "s85", "0", "1", "1", "35", "1"] with
    | some n, some r => doAddRefs d (some (List.replicate n r))
    | _, _ => (d, "bad-op")
  | ["rq", _, _] => (d, "ok")      -- generated-request testing: the model only says "is answered"
  | ["tick"] => (d, "ok")
  | ["browse", _, _, _] => (d, "ok")   -- the view service is not modelled here (C30/C31): "is answered"
  | ["evf", spec] =>
    match parseWhere? spec with
    | some els =>
      -- the raised event is itself a node this case added (the harness deletes it afterwards)
      match whereClausePanics true els with
      | some _ => (d, "panic")
      | none => (d, "ok")
    | none => (d, "bad-op")
  | _ => (d, "bad-op")

def driver : Driver := { σ := DState, init := { as := fixtureAS, added := [] }, step := dstep }

end OpcuaVerif.C33
