import OpcuaVerif.Common
import OpcuaVerif.Model.C32

namespace OpcuaVerif.C32

structure DState where
  nodes : List (Nat × Node)

def lookupNode : List (Nat × Node) → Nat → Option Node
  | [], _ => none
  | (i, v) :: rest, n => if i = n then some v else lookupNode rest n

def setNode : List (Nat × Node) → Nat → Node → List (Nat × Node)
  | [], n, v => [(n, v)]
  | (i, x) :: rest, n, v => if i = n then (i, v) :: rest else (i, x) :: setNode rest n v

/-! value tokens: `n` empty, `i<ty>:<int>`, `s<hex>` / `sn`, `x<hex>` / `xn`, `a<ty>:[e,e,…]` -/

def parseBytesTok (s : String) : Option (Option Bytes) :=
  if s = "n" then some none else (hexToBytes s).map some

def parseElem (s : String) : Option Elem :=
  match s.toList with
  | 'i' :: r =>
    match (String.ofList r).splitOn ":" with
    | [t, x] => match t.toNat?, parseInt? x with
      | some t, some x => if 1 ≤ t ∧ t ≤ 11 then some (.num t x) else none
      | _, _ => none
    | _ => none
  | 's' :: r => (parseBytesTok (String.ofList r)).map .str
  | 'x' :: r => (parseBytesTok (String.ofList r)).map .bstr
  | 'N' :: r => (String.ofList r).toNat?.bind fun n => if n < 4294967296 then some (.nodeId n) else none
  | ['Q'] => some .qname
  | ['L'] => some .ltext
  | 'o' :: r =>
    match (String.ofList r).splitOn ":" with
    | [t, x] => match t.toNat?, x.toNat? with
      | some t, some x => if [13, 14, 16, 18, 19, 22, 23, 24, 25].contains t ∧ x < 1000 then some (.opaque t x) else none
      | _, _ => none
    | _ => none
  | _ => none

def elemTyOk (t : Nat) : Bool := 1 ≤ t && t ≤ 25

def parseVal (s : String) : Option Val :=
  if s = "n" then some .empty else
  match s.toList with
  | 'a' :: r =>
    match (String.ofList r).splitOn ":[" with
    | [t, body] =>
      let inner := String.ofList body.toList.dropLast
      match t.toNat? with
      | some t =>
        if !elemTyOk t then none else
        if inner.isEmpty then some (.arr t []) else
        match (inner.splitOn ",").mapM parseElem with
        | some es => if es.all (fun e => e.ty == t) then some (.arr t es) else none
        | none => none
      | none => none
    | _ => none
  | _ => (parseElem s).map .one

def showBytesTok : Option Bytes → String
  | none => "n"
  | some b => bytesToHex b

def showElem : Elem → String
  | .num t x => s!"i{t}:{x}"
  | .str b => "s" ++ showBytesTok b
  | .bstr b => "x" ++ showBytesTok b
  | .nodeId n => s!"N{n}"
  | .qname => "Q"
  | .ltext => "L"
  | .opaque t x => s!"o{t}:{x}"

def showVal : Val → String
  | .empty => "n"
  | .one e => showElem e
  | .arr t vs => s!"a{t}:[" ++ ",".intercalate (vs.map showElem) ++ "]"

def showStatus : Status → String
  | .good => "Good"
  | .badNodeIdUnknown => "BadNodeIdUnknown"
  | .badAttributeIdInvalid => "BadAttributeIdInvalid"
  | .badIndexRangeInvalid => "BadIndexRangeInvalid"
  | .badIndexRangeNoData => "BadIndexRangeNoData"
  | .badNotReadable => "BadNotReadable"
  | .badNotWritable => "BadNotWritable"
  | .badWriteNotSupported => "BadWriteNotSupported"
  | .badTypeMismatch => "BadTypeMismatch"

/-- range token: `s<hex>` or `sn` (null string; parses like the empty string); second component:
the string is null -/
def parseRangeTok (s : String) : Option (Bytes × Bool) :=
  match s.toList with
  | 's' :: r => (parseBytesTok (String.ofList r)).map fun o => (o.getD [], o.isNone)
  | _ => none

def dtOk (t : Nat) : Bool := (1 ≤ t && t ≤ 25) || t == 26 || t == 27 || t == 28

def u32Ok (n : Nat) : Bool := n < 4294967296

def clsOk (c : Nat) : Bool := [1, 2, 4, 8, 16, 32, 64, 128].contains c

/-! ### arm tags (`result @@ tag,tag`): which branches of the model an op took -/

def rgShape (range : Bytes) (null : Bool) : String :=
  if null then "null" else
  match parseRange range with
  | some .none => "empty"
  | some (.index _) => "index"
  | some (.range _ _) => "range"
  | some .multi => "multi"
  | none => "invalid"

def valShape : Val → String
  | .empty => "empty"
  | .one (.num _ _) => "num"
  | .one (.str none) => "strnull"
  | .one (.str (some _)) => "str"
  | .one (.bstr none) => "bstrnull"
  | .one (.bstr (some _)) => "bstr"
  | .one _ => "other"
  | .arr _ [] => "arrempty"
  | .arr _ _ => "arr"

def cmp3 (a b : Nat) : String := if a < b then "lt" else if a = b then "eq" else "gt"

def lenOf : Val → Option (String × Nat × Bytes)
  | .arr _ vals => some ("arr", vals.length, [])
  | .one (.str (some v)) => some ("str", v.length, v)
  | .one (.bstr (some v)) => some ("bstr", v.length, [])
  | _ => none

def stTag : Status → String
  | .good => "good" | .badNodeIdUnknown => "nodeunknown" | .badAttributeIdInvalid => "attrinvalid"
  | .badIndexRangeInvalid => "rangeinvalid" | .badIndexRangeNoData => "nodata" | .badNotReadable => "notreadable"
  | .badNotWritable => "notwritable" | .badWriteNotSupported => "notsupported" | .badTypeMismatch => "mismatch"

def attrTag (a : Nat) : String := if a ≤ 28 then toString a else "big"

/-- boundary tags of an index / range against the length of the addressed value -/
def boundTags (pre : String) (v : Val) (r : NR) : List String :=
  match lenOf v, r with
  | some (k, len, bytes), .index i =>
    [s!"{pre}.idx.{k}.{cmp3 i len}"] ++
      (if k = "str" ∧ i < len then [if isBoundary bytes i ∧ isBoundary bytes (i + 1) then "str.aligned" else if !isBoundary bytes i then "str.split-min" else "str.split-max"] else [])
  | some (k, len, bytes), .range a b =>
    [s!"{pre}.min.{k}.{cmp3 a len}", s!"{pre}.max.{k}.{cmp3 (b + 1) len}"] ++
      (if k = "str" ∧ a < len then
        let m := if b ≥ len then len - 1 else b
        [if isBoundary bytes a ∧ isBoundary bytes (m + 1) then "str.aligned" else if !isBoundary bytes a then "str.split-min" else "str.split-max"] else [])
  | _, _ => []

/-- scalar kind of the stored / written value (builtin type id, 0 = Empty), and whether it is an array -/
def kindTag (pre : String) (v : Val) (rg : String) : List String :=
  match v with
  | .empty => [s!"{pre}.k0.{rg}"]
  | .one e => [s!"{pre}.k{e.ty}.{rg}"]
  | .arr t _ => [s!"{pre}a.k{t}.{rg}"]

def readTags (node : Option Node) (attr : Nat) (range : Bytes) (null : Bool) (out : ReadOut) : List String :=
  let st := match out with | .status s => stTag s | .value _ => "value" | .other => "other" | .panic => "panic"
  match node with
  | none => ["r.nonode", s!"r.st.{st}"]
  | some n =>
    [s!"r.c{n.cls}.a{attrTag attr}", s!"r.st.{st}", s!"r.rg.{rgShape range null}"] ++
    (if n.cls = 2 then [s!"r.acc{n.var.access % 4}"] else []) ++
    (if n.cls = 2 ∧ attr = 13 ∧ canRead n.var then
      match parseRange range with
      | some r => [s!"rv.{valShape n.var.value}.{rgShape range false}"] ++ kindTag "rk" n.var.value (rgShape range false) ++
          boundTags "r" n.var.value r
      | none => []
     else [])

def validateTag (v : Var) (x : Val) : String :=
  match x with
  | .empty => "val.empty"
  | .one e =>
    if e.ty = 22 then "val.scalar-notype" else
    if e.ty = v.dataType then "val.scalar-eq" else if isSubDT 4 e.ty v.dataType then "val.scalar-sub"
    else (match e with
      | .bstr _ => if v.dataType = 3 && byteArrayRank v.rank then "val.bstr-bytearray" else "val.scalar-bad"
      | _ => "val.scalar-bad")
  | .arr _ (e :: _) => if e.ty = 22 then "val.arr-notype" else if e.ty = v.dataType then "val.arr-eq" else if isSubDT 4 e.ty v.dataType then "val.arr-sub" else "val.arr-bad"
  | .arr _ [] => "val.arr-empty"

def setRangeTags (self : Val) (r : NR) (other : Val) : List String :=
  if self.arrayTy.isNone then ["sr.self-not-array"]
  else if other.arrayTy.isNone then ["sr.other-not-array"]
  else if self.arrayTy ≠ other.arrayTy then ["sr.type-differs"]
  else match self, other, r with
    | .arr _ vals, .arr _ ovals, .index i => [s!"sr.idx.{cmp3 i vals.length}", s!"sr.olen.{cmp3 ovals.length 1}"]
    | .arr _ vals, .arr _ ovals, .range a b =>
      [s!"sr.min.{cmp3 a vals.length}"] ++
      (if a < vals.length then
        -- what stops the copy loop first: end of the range, end of the destination, end of the source
        [s!"copy.src-vs-range.{cmp3 ovals.length (b + 1 - a)}", s!"copy.dst-vs-range.{cmp3 (vals.length - a) (b + 1 - a)}",
         s!"copy.src-vs-dst.{cmp3 ovals.length (vals.length - a)}"] else [])
    | _, _, .multi => ["sr.multi"]
    | _, _, _ => []

def ignoreR (_ : NR) : List String := []

def writeTags (node : Option Node) (attr : Nat) (range : Bytes) (null : Bool) (x : Option Val) (st : Status) : List String :=
  match node with
  | none => ["w.nonode", s!"w.st.{stTag st}"]
  | some n =>
    [s!"w.c{n.cls}.a{attrTag attr}", s!"w.st.{stTag st}", s!"w.rg.{rgShape range null}",
     s!"w.val.{match x with | none => "none" | some v => valShape v}"] ++
    (if n.cls = 2 ∧ attr = 13 then
      [s!"w.acc{n.var.access % 4}"] ++
      (match x, parseRange range with
       | some v, some r =>
         if canWrite n.var then
           [validateTag n.var v] ++ kindTag "wk" v (rgShape range false) ++ (ignoreR r) ++
           (if validate n.var v then
             [if convert n.var v = v then "conv.none" else (match v with | .one (.bstr none) => "conv.bstr-null" | _ => "conv.bstr")] ++
             (if r = .none then ["w.whole"] else setRangeTags n.var.value r (convert n.var v))
            else [])
         else []
       | _, _ => [])
     else if attrValid attr then
      [match n.writeMask, maskBit n.cls attr with
        | none, _ => "w.mask.none"
        | some _, none => "w.mask.nobit"
        | some m, some b => if m / 2 ^ b % 2 = 1 then "w.mask.set" else "w.mask.clear"] ++
      (if isWritable n attr ∧ attr ≠ 13 ∧ null ∧ (parseRange range).isSome then
        match x with
        | some v => [s!"set.c{n.cls}.a{attr}.{stTag (setAttribute n attr v).1}"]
        | none => []
       else [])
     else [])

def withTags (res : String) (tags : List String) : String :=
  if tags.isEmpty then res else res ++ " @@ " ++ ",".intercalate tags

def dstep (s : DState) (toks : List String) : DState × String :=
  match toks with
  | ["reset"] => ({ nodes := [] }, "ok")
  | ["var", id, dt, rank, access, v] =>
    match id.toNat?, dt.toNat?, parseInt? rank, access.toNat?, parseVal v with
    | some id, some dt, some rank, some access, some v =>
      if id = 0 ∨ !u32Ok id ∨ !dtOk dt ∨ rank < -3 ∨ rank > 3 ∨ access > 255 then (s, "bad-op") else
      match lookupNode s.nodes id with
      | some _ => (s, "ok 0")
      -- VariableBuilder::value goes through `set_value`, so a ByteString given to a Byte array is converted
      | none => ({ nodes := setNode s.nodes id ⟨2, ⟨dt, rank, access, convert ⟨dt, rank, access, .empty⟩ v⟩, none, []⟩ }, "ok 1")
    | _, _, _, _, _ => (s, "bad-op")
  | ["node", id, cls] =>
    -- a node of another class, built with the plain constructor (no optional attributes)
    match id.toNat?, cls.toNat? with
    | some id, some cls =>
      if id = 0 ∨ !u32Ok id ∨ !clsOk cls ∨ cls = 2 then (s, "bad-op") else
      match lookupNode s.nodes id with
      | some _ => (s, "ok 0")
      | none => ({ nodes := setNode s.nodes id ⟨cls, ⟨6, -1, 1, .empty⟩, none, []⟩ }, "ok 1")
    | _, _ => (s, "bad-op")
  | ["wmask", id, m] =>
    -- `set_write_mask` through the node API (setup, not a service call)
    match id.toNat?, m.toNat? with
    | some id, some m =>
      if !u32Ok id ∨ !u32Ok m then (s, "bad-op") else
      match lookupNode s.nodes id with
      | some n => ({ nodes := setNode s.nodes id { n with writeMask := some (m % 67108864) } }, "ok 1")
      | none => (s, "ok 0")
    | _, _ => (s, "bad-op")
  | ["read", id, attr, range] =>
    match id.toNat?, attr.toNat?, parseRangeTok range with
    | some id, some attr, some (range, null) =>
      if !u32Ok id ∨ !u32Ok attr then (s, "bad-op") else
      let node := lookupNode s.nodes id
      let out := readNode node attr range
      let tags := readTags node attr range null out
      match out with
      | .status st => (s, withTags ("ok " ++ showStatus st) tags)
      | .value v => (s, withTags ("ok Good " ++ showVal v) tags)
      | .other => (s, withTags "ok Good" tags)
      | .panic => (s, "panic")
    | _, _, _ => (s, "bad-op")
  | ["write", id, attr, range, v] =>
    match id.toNat?, attr.toNat?, parseRangeTok range with
    | some id, some attr, some (range, null) =>
      if !u32Ok id ∨ !u32Ok attr then (s, "bad-op") else
      let x : Option (Option Val) := if v = "-" then some none else (parseVal v).map some
      match x with
      | none => (s, "bad-op")
      | some x =>
        let node := lookupNode s.nodes id
        match writeNode node attr range null x with
        | (st, some nv) => ({ nodes := setNode s.nodes id nv }, withTags ("ok " ++ showStatus st) (writeTags node attr range null x st))
        | (st, none) => (s, withTags ("ok " ++ showStatus st) (writeTags node attr range null x st))
    | _, _, _ => (s, "bad-op")
  | _ => (s, "bad-op")

def driver : Driver := { σ := DState, init := { nodes := [] }, step := dstep }

end OpcuaVerif.C32
