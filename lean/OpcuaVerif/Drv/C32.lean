import OpcuaVerif.Common
import OpcuaVerif.Model.C32

namespace OpcuaVerif.C32

structure DState where
  vars : List (Nat × Var)

def lookupVar : List (Nat × Var) → Nat → Option Var
  | [], _ => none
  | (i, v) :: rest, n => if i = n then some v else lookupVar rest n

def setVar : List (Nat × Var) → Nat → Var → List (Nat × Var)
  | [], n, v => [(n, v)]
  | (i, x) :: rest, n, v => if i = n then (i, v) :: rest else (i, x) :: setVar rest n v

/-! value tokens: `n` empty, `i<ty>:<int>`, `s<hex>` / `sn`, `x<hex>` / `xn`, `a<ty>:[e,e,…]` -/

def parseBytesTok (s : String) : Option (Option Bytes) :=
  if s = "n" then some none else (hexToBytes s).map some

def parseElem (s : String) : Option Elem :=
  match s.toList with
  | 'i' :: r =>
    match (String.ofList r).splitOn ":" with
    | [t, x] => match t.toNat?, parseInt? x with
      | some t, some x => if 1 ≤ t ∧ t ≤ 11 then some (.num t x) else none
      | _, _ => none
    | _ => none
  | 's' :: r => (parseBytesTok (String.ofList r)).map .str
  | 'x' :: r => (parseBytesTok (String.ofList r)).map .bstr
  | _ => none

def elemTyOk (t : Nat) : Bool := (1 ≤ t && t ≤ 12) || t == 15

def parseVal (s : String) : Option Val :=
  if s = "n" then some .empty else
  match s.toList with
  | 'a' :: r =>
    match (String.ofList r).splitOn ":[" with
    | [t, body] =>
      let inner := String.ofList body.toList.dropLast
      match t.toNat? with
      | some t =>
        if !elemTyOk t then none else
        if inner.isEmpty then some (.arr t []) else
        match (inner.splitOn ",").mapM parseElem with
        | some es => if es.all (fun e => e.ty == t) then some (.arr t es) else none
        | none => none
      | none => none
    | _ => none
  | _ => (parseElem s).map .one

def showBytesTok : Option Bytes → String
  | none => "n"
  | some b => bytesToHex b

def showElem : Elem → String
  | .num t x => s!"i{t}:{x}"
  | .str b => "s" ++ showBytesTok b
  | .bstr b => "x" ++ showBytesTok b

def showVal : Val → String
  | .empty => "n"
  | .one e => showElem e
  | .arr t vs => s!"a{t}:[" ++ ",".intercalate (vs.map showElem) ++ "]"

def showStatus : Status → String
  | .good => "Good"
  | .badNodeIdUnknown => "BadNodeIdUnknown"
  | .badAttributeIdInvalid => "BadAttributeIdInvalid"
  | .badIndexRangeInvalid => "BadIndexRangeInvalid"
  | .badIndexRangeNoData => "BadIndexRangeNoData"
  | .badNotReadable => "BadNotReadable"
  | .badNotWritable => "BadNotWritable"
  | .badWriteNotSupported => "BadWriteNotSupported"
  | .badTypeMismatch => "BadTypeMismatch"

/-- range token: `s<hex>` or `sn` (null string; parses like the empty string) -/
def parseRangeTok (s : String) : Option Bytes :=
  match s.toList with
  | 's' :: r => (parseBytesTok (String.ofList r)).map fun o => o.getD []
  | _ => none

def dtOk (t : Nat) : Bool := [1, 2, 3, 4, 5, 6, 7, 8, 9, 10, 11, 12, 15, 24, 26, 27, 28].contains t

def u32Ok (n : Nat) : Bool := n < 4294967296

def dstep (s : DState) (toks : List String) : DState × String :=
  match toks with
  | ["reset"] => ({ vars := [] }, "ok")
  | ["var", id, dt, rank, access, v] =>
    match id.toNat?, dt.toNat?, parseInt? rank, access.toNat?, parseVal v with
    | some id, some dt, some rank, some access, some v =>
      if id = 0 ∨ !u32Ok id ∨ !dtOk dt ∨ rank < -3 ∨ rank > 3 ∨ access > 255 then (s, "bad-op") else
      match lookupVar s.vars id with
      | some _ => (s, "ok 0")
      | none => ({ vars := setVar s.vars id ⟨dt, rank, access, v⟩ }, "ok 1")
    | _, _, _, _, _ => (s, "bad-op")
  | ["read", id, attr, range] =>
    match id.toNat?, attr.toNat?, parseRangeTok range with
    | some id, some attr, some range =>
      if !u32Ok id ∨ !u32Ok attr then (s, "bad-op") else
      match read (lookupVar s.vars id) attr range with
      | .status st => (s, "ok " ++ showStatus st)
      | .value v => (s, "ok Good " ++ showVal v)
      | .other => (s, "ok Good")
      | .panic => (s, "panic")
    | _, _, _ => (s, "bad-op")
  | ["write", id, attr, range, v] =>
    match id.toNat?, attr.toNat?, parseRangeTok range with
    | some id, some attr, some range =>
      if !u32Ok id ∨ !u32Ok attr then (s, "bad-op") else
      let x : Option (Option Val) := if v = "-" then some none else (parseVal v).map some
      match x with
      | none => (s, "bad-op")
      | some x =>
        match write (lookupVar s.vars id) attr range x with
        | (st, some nv) => ({ vars := setVar s.vars id nv }, "ok " ++ showStatus st)
        | (st, none) => (s, "ok " ++ showStatus st)
    | _, _, _ => (s, "bad-op")
  | _ => (s, "bad-op")

def driver : Driver := { σ := DState, init := { vars := [] }, step := dstep }

end OpcuaVerif.C32
