import OpcuaVerif.Common
import OpcuaVerif.Model.C30

namespace OpcuaVerif.C30

structure DState where
  st : St
  /-- ids of continuation points whose browse was Forward-only (their order is deterministic) -/
  exact : List Nat
  /-- kind (with flag) of the last mutation that advanced `last_modified` -/
  lastMut : String := "none"
  /-- operational limit max_nodes_per_browse (MAX_NODES_PER_BROWSE after reset) -/
  blimit : Nat := 50

def showDesc (d : Desc) : String :=
  s!"{d.target}:{d.ty}:{boolStr d.fwd}:{d.cls}"

def descKey (d : Desc) : Nat :=
  ((d.target * 10000 + d.ty) * 2 + (if d.fwd then 1 else 0)) * 256 + d.cls

def insertSorted (d : Desc) : List Desc → List Desc
  | [] => [d]
  | x :: xs => if descKey d ≤ descKey x then d :: x :: xs else x :: insertSorted d xs

def sortDescs (ds : List Desc) : List Desc := ds.foldr insertSorted []

def showDescs (ds : List Desc) : String := "[" ++ ",".intercalate (ds.map showDesc) ++ "]"

/-- `exact`: print the page in order; otherwise `complete` pages are printed sorted, others not -/
def showResult (exact complete : Bool) (r : BrowseResult) : String :=
  match r.status with
  | .nodeUnknown => "BadNodeIdUnknown"
  | .cpInvalid => "BadContinuationPointInvalid"
  | .good =>
    let ds := r.refs.getD []
    let cp := match r.cp with | some i => toString i | none => "-"
    let body := if exact then "refs=" ++ showDescs ds
      else if complete ∧ r.cp.isNone then "set=" ++ showDescs (sortDescs ds) else "~"
    s!"Good n={ds.length} cp={cp} {body}"

def clsOk (c : Nat) : Bool := [1, 2, 4, 8, 16, 32, 64, 128].contains c

/-- reference types the ops may name: standard ids of the table, custom 1000..1999 (namespace 1),
9999 (namespace 0, not a reference type) -/
def tyOk (t : Nat) : Bool := isStdTy t || (1000 ≤ t && t < 2000) || t == 9999

def u32Ok (n : Nat) : Bool := n < 4294967296

/-- token: absolute number or `@k` = the k-th most recently issued continuation point -/
def parseTok (nextId : Nat) (t : String) : Option Nat :=
  match t.toList with
  | '@' :: r => (String.ofList r).toNat?.map fun k => if k + 1 < nextId then nextId - 1 - k else 0
  | _ => t.toNat?

def parseToks (nextId : Nat) (s : String) : Option (List Nat) :=
  match s.toList with
  | '[' :: r =>
    let inner := String.ofList r.dropLast
    if inner.isEmpty then some [] else (inner.splitOn ",").mapM (parseTok nextId)
  | _ => none

def showSvc : Svc → String
  | .good => "Good"
  | .badNodeIdUnknown => "BadNodeIdUnknown"
  | .badSourceNodeIdInvalid => "BadSourceNodeIdInvalid"
  | .badTargetNodeIdInvalid => "BadTargetNodeIdInvalid"
  | .badReferenceTypeIdInvalid => "BadReferenceTypeIdInvalid"
  | .badNodeClassInvalid => "BadNodeClassInvalid"
  | .badDuplicateReferenceNotAllowed => "BadDuplicateReferenceNotAllowed"

def showFlag (r : Res) : String :=
  match r with
  | .mres (.flag b) => "ok " ++ boolStr b
  | .mres .unit => "ok"
  | .mres (.flags bs) => "ok [" ++ ",".intercalate (bs.map boolStr) ++ "]"
  | .mres (.svc st) => "ok " ++ showSvc st
  | .panic => "panic"
  | _ => "bad-op"

/-- node ids of a case live below the namespace-0 offset of the model -/
def nidOk (n : Nat) : Bool := 1 ≤ n && n < 100000

def storedTyOk (t : Nat) : Bool := tyOk t && t != 45

/-- `s:t:ty` -/
def parseTriple (s : String) : Option (Nat × Nat × Nat) :=
  match s.splitOn ":" with
  | [a, b, c] => match a.toNat?, b.toNat?, c.toNat? with
    | some a, some b, some c => some (a, b, c)
    | _, _, _ => none
  | _ => none

def parseList {α : Type} (f : String → Option α) (s : String) : Option (List α) :=
  match s.toList with
  | '[' :: r =>
    let inner := String.ofList r.dropLast
    if inner.isEmpty then some [] else (inner.splitOn ",").mapM f
  | _ => none

/-- parses and validates a mutation op -/
def parseMut (toks : List String) : Option Mut :=
  match toks with
  | ["node", id, cls] =>
    match id.toNat?, cls.toNat? with
    | some id, some cls => if nidOk id ∧ clsOk cls then some (.node id cls) else none
    | _, _ => none
  | ["nodep", id, cls, parent, ty] =>
    match id.toNat?, cls.toNat?, parent.toNat?, ty.toNat? with
    | some id, some cls, some parent, some ty =>
      if nidOk id ∧ clsOk cls ∧ 1 ≤ parent ∧ parent < id ∧ storedTyOk ty then some (.nodep id cls parent ty) else none
    | _, _, _, _ => none
  | ["ref", a, b, ty] =>
    match a.toNat?, b.toNat?, ty.toNat? with
    | some a, some b, some ty => if 1 ≤ a ∧ a < b ∧ nidOk b ∧ storedTyOk ty then some (.ref a b ty) else none
    | _, _, _ => none
  | ["refs", l] =>
    match parseList parseTriple l with
    | some l => if l.all (fun r => 1 ≤ r.1 && r.1 < r.2.1 && nidOk r.2.1 && storedTyOk r.2.2) then some (.refs l) else none
    | none => none
  | ["settype", id, t] =>
    match id.toNat?, t.toNat? with
    | some id, some t => if nidOk id ∧ 1 ≤ t ∧ t < 100000 then some (.settype id t) else none
    | _, _ => none
  | ["folder", id, parent] =>
    match id.toNat?, parent.toNat? with
    | some id, some parent => if nidOk id ∧ 1 ≤ parent ∧ parent < id then some (.folder id parent) else none
    | _, _ => none
  | ["addvars", parent, ids] =>
    match parent.toNat?, parseList String.toNat? ids with
    | some parent, some ids =>
      if 1 ≤ parent ∧ ids.all (fun i => parent < i && nidOk i) then some (.addvars parent ids) else none
    | _, _ => none
  | ["delref", a, b, ty] =>
    match a.toNat?, b.toNat?, ty.toNat? with
    | some a, some b, some ty => if nidOk a ∧ nidOk b ∧ tyOk ty then some (.delref a b ty) else none
    | _, _, _ => none
  | ["delnode", id, dtr] =>
    match id.toNat?, parseBool? dtr with
    | some id, some dtr => if nidOk id then some (.delnode id dtr) else none
    | _, _ => none
  | ["sdelnode", id, dtr] =>
    match id.toNat?, parseBool? dtr with
    | some id, some dtr => if nidOk id then some (.sdelnode id dtr) else none
    | _, _ => none
  | ["sdelref", a, b, ty, fwd, bidir] =>
    match a.toNat?, b.toNat?, ty.toNat?, parseBool? fwd, parseBool? bidir with
    | some a, some b, some ty, some fwd, some bidir =>
      if nidOk a ∧ nidOk b ∧ a ≠ b ∧ tyOk ty then some (.sdelref a b ty fwd bidir) else none
    | _, _, _, _, _ => none
  | ["saddref", a, b, ty, fwd, cls] =>
    match a.toNat?, b.toNat?, ty.toNat?, parseBool? fwd, cls.toNat? with
    | some a, some b, some ty, some fwd, some cls =>
      if nidOk a ∧ nidOk b ∧ (if fwd then a < b else b < a) ∧ storedTyOk ty ∧ (cls = 0 ∨ clsOk cls)
      then some (.saddref a b ty fwd cls) else none
    | _, _, _, _, _ => none
  | _ => none

def isMutOp (t : String) : Bool :=
  ["node", "nodep", "ref", "refs", "settype", "folder", "addvars", "delref", "delnode", "sdelnode", "sdelref",
   "saddref"].contains t

def zipResults (exact : List Nat) : List Nat → List BrowseResult → List String × List Nat
  | id :: ids, r :: rs =>
    let e := exact.contains id
    let (ss, ex) := zipResults exact ids rs
    let ex := match r.cp with | some i => if e then i :: ex else ex | none => ex
    (showResult e false r :: ss, ex)
  | _, _ => ([], [])

/-! ### arm tags -/

def cmp3 (a b : Nat) : String := if a < b then "lt" else if a = b then "eq" else "gt"

def withTags (res : String) (tags : List String) : String :=
  if tags.isEmpty then res else res ++ " @@ " ++ ",".intercalate tags

def browseTags (st : St) (n dir ty : Nat) (sub : Bool) (mask rmask req : Nat) (r : BrowseResult) : List String :=
  match r.status with
  | .nodeUnknown => ["b.st.nodeunknown"]
  | .cpInvalid => []
  | .good =>
    let flt := filterOf ty sub
    let all := refsByDirection st.sp n dir none
    let kept := refsByDirection st.sp n dir flt
    let descs := (browseDescs st.sp n dir ty sub mask rmask).getD []
    let noMask := (browseDescs st.sp n dir ty sub 0 rmask).getD []
    let k := clampMax req
    ["b.st.good", s!"b.dir{dir}",
     (if ty = 0 then "b.flt.null" else if isStdTy ty then "b.flt.std" else if ty = 9999 then "b.flt.disabled-nonreftype" else "b.flt.disabled-custom"),
     (if sub then "b.sub1" else "b.sub0"),
     (if mask = 0 then "b.mask.zero" else if mask % 256 = 0 then "b.mask.truncated-zero" else "b.mask.set"),
     s!"b.rmask.ty{rmask % 2}", s!"b.rmask.fwd{rmask / 2 % 2}", s!"b.rmask.cls{rmask / 4 % 2}",
     (if req = 0 then "b.req.zero" else s!"b.req.{cmp3 req 255}255"),
     s!"b.pg.len-{cmp3 descs.length k}-k",
     s!"cp.store.{cmp3 st.se.cps.length maxCPs}-max"] ++
    (if descs.isEmpty then ["b.len.zero"] else []) ++
    (if descs.length < noMask.length then ["b.mask.filtered-some"] else []) ++
    (if kept.length < all.length then ["b.ty.excluded-some"] else []) ++
    (match flt with
      | some (f, true) => if kept.any (fun p => p.1.ty ≠ f) then ["b.ty.subtype-match"] else []
      | _ => []) ++
    (if kept.any (fun p => (nodeClass? st.sp.nodes p.1.target).isNone) then ["b.target-dangling"] else []) ++
    (if r.cp.isSome ∧ st.se.cps.length = maxCPs then ["cp.evict"] else [])

def mutKind : Mut → String
  | .node _ _ => "node" | .nodep _ _ _ _ => "nodep" | .ref _ _ _ => "ref" | .refs _ => "refs"
  | .settype _ _ => "settype" | .folder _ _ => "folder" | .addvars _ _ => "addvars" | .delref _ _ _ => "delref"
  | .delnode _ dtr => s!"delnode{boolStr dtr}" | .sdelnode _ dtr => s!"sdelnode{boolStr dtr}"
  | .sdelref _ _ _ _ _ => "sdelref" | .saddref _ _ _ _ _ => "saddref"

def svcTag : Svc → String
  | .good => "good" | .badNodeIdUnknown => "unknown" | .badSourceNodeIdInvalid => "nosource"
  | .badTargetNodeIdInvalid => "notarget" | .badReferenceTypeIdInvalid => "badtype"
  | .badNodeClassInvalid => "badclass" | .badDuplicateReferenceNotAllowed => "duplicate"

def mutTags (st : St) (m : Mut) (r : Res) : List String :=
  let ex (i : Nat) : Bool := (nodeClass? st.sp.nodes i).isSome
  let detail : String :=
    match m, r with
    | .node i _, _ => if ex i then "m.node.exists" else "m.node.new"
    | .nodep i _ _ _, _ => if ex i then "m.nodep.exists" else "m.nodep.new"
    | .ref s t ty, _ => if hasRef st.sp s t ty then "m.ref.dup" else "m.ref.new"
    | .refs l, _ => if l.isEmpty then "m.refs.empty" else "m.refs.some"
    | .settype _ _, _ => "m.settype"
    | .folder i _, _ => if ex i then "m.folder.exists" else "m.folder.new"
    | .addvars _ ids, _ => if ids.isEmpty then "m.addvars.empty" else if ids.any ex then "m.addvars.some-exist" else "m.addvars.all-new"
    | .delref s t ty, _ => if hasRef st.sp s t ty then "m.delref.hit" else "m.delref.miss"
    | .delnode i dtr, _ =>
      s!"m.delnode{boolStr dtr}." ++ (if !ex i then "missing" else if (aggregatesOf st.sp i).isEmpty then "leaf" else "parent")
    | .sdelnode _ dtr, .mres (.svc sv) => s!"m.sdelnode{boolStr dtr}.{svcTag sv}"
    | .sdelref _ _ _ fwd bidir, .mres (.svc sv) =>
      s!"m.sdelref.{svcTag sv}." ++ (if bidir then "bidir" else if fwd then "fwd" else "inv")
    | .saddref _ t _ fwd cls, .mres (.svc sv) =>
      s!"m.saddref.{svcTag sv}" ++ (if sv = .badNodeClassInvalid then (if cls = 0 then "-unspecified" else if ex t then "-mismatch" else "") else "") ++
        (if fwd then ".fwd" else ".inv")
    | _, _ => "m.other"
  let live := st.se.cps.any fun c => st.sp.lastMod ≤ c.lm
  let bumped := st.sp.lastMod < (applyMut true st.sp m).1.lastMod
  [detail] ++ (if live ∧ bumped then [s!"mlive.{mutKind m}"] else []) ++
    (if live ∧ !bumped then [s!"mlive-nobump.{mutKind m}"] else [])

def nextTags (st : St) (lastMut : String) (ids : List Nat) (rs : List BrowseResult) : List String :=
  let kept := removeExpired st.sp.lastMod st.se.cps
  let expired := st.se.cps.filter fun c => !(st.sp.lastMod ≤ c.lm)
  let per := (ids.zip rs).flatMap fun (id, r) =>
    match r.status with
    | .good =>
      (match st.se.cps.find? (fun c => c.id = id) with
       | some c => [s!"n.pg.rem-{cmp3 (c.descs.length - c.start) c.maxRefs}-k"]
       | none => []) ++ [if r.cp.isSome then "n.good.more" else "n.good.last"]
    | _ =>
      [if id ≥ st.se.nextId ∨ id = 0 then "n.inv.never-issued"
       else if expired.any (fun c => c.id = id) then s!"n.inv.expired.after-{lastMut}"
       else "n.inv.gone"]
  [if ids.length = 1 then "n.ids.one" else "n.ids.many"] ++
  (if ids.eraseDups.length < ids.length then ["n.ids.dup"] else []) ++
  (if !expired.isEmpty then ["n.expired-removed"] else []) ++
  (if kept.length = maxCPs then ["n.store-full"] else []) ++ per

def dedupStr : List String → List String
  | [] => []
  | x :: xs => if xs.contains x then dedupStr xs else x :: dedupStr xs

def dstep (s : DState) (toks : List String) : DState × String :=
  let run (op : Op) : St × Res := step s.st op
  match toks with
  | ["reset"] => ({ st := init, exact := [], lastMut := "none", blimit := 50 }, "ok")
  | ["browse", n, dir, ty, sub, mask, rmask, req] =>
    match n.toNat?, dir.toNat?, ty.toNat?, parseBool? sub, mask.toNat?, rmask.toNat?, req.toNat? with
    | some n, some dir, some ty, some sub, some mask, some rmask, some req =>
      if dir > 3 ∨ !(ty = 0 ∨ tyOk ty) ∨ !u32Ok mask ∨ !u32Ok rmask ∨ !u32Ok req then (s, "bad-op") else
      if s.blimit = 0 then (s, "err BadTooManyOperations @@ bm.n-gt-limit") else
      match run (.browse n dir ty sub mask rmask req) with
      | (st, .browse r) =>
        let e := dir = 0
        let ex := match r.cp with | some i => if e then i :: s.exact else s.exact | none => s.exact
        ({ s with st := st, exact := ex }, withTags s!"ok {showResult e true r} c={st.se.cps.length}"
          (dedupStr (browseTags s.st n dir ty sub mask rmask req r)))
      | (_, .panic) => (s, "panic")
      | _ => (s, "bad-op")
    | _, _, _, _, _, _, _ => (s, "bad-op")
  | ["blimit", l] =>
    match l.toNat? with
    | some l => if u32Ok l then ({ s with blimit := l }, "ok") else (s, "bad-op")
    | none => (s, "bad-op")
  | ["browsev", n] =>
    -- a view is specified: views are not supported, nothing is touched
    match n.toNat? with
    | some n => if u32Ok n then (s, "err BadViewIdUnknown @@ bv.view") else (s, "bad-op")
    | none => (s, "bad-op")
  | ["browsem", ns, dir, ty, sub, mask, rmask, req] =>
    match parseList String.toNat? ns, dir.toNat?, ty.toNat?, parseBool? sub, mask.toNat?, rmask.toNat?, req.toNat? with
    | some ns, some dir, some ty, some sub, some mask, some rmask, some req =>
      if dir > 3 ∨ !(ty = 0 ∨ tyOk ty) ∨ !u32Ok mask ∨ !u32Ok rmask ∨ !u32Ok req ∨ !ns.all u32Ok ∨ ns.length > 30 then (s, "bad-op") else
      let szTag := if ns.isEmpty then "bm.empty" else s!"bm.n-{cmp3 ns.length s.blimit}-limit"
      match run (.browsem ns dir ty sub mask rmask req s.blimit) with
      | (st, .nexts rs) =>
        let e := dir = 0
        let ex := rs.foldl (fun ex r => match r.cp with | some i => if e then i :: ex else ex | none => ex) s.exact
        ({ s with st := st, exact := ex },
          withTags s!"ok {" | ".intercalate (rs.map (showResult e true))} c={st.se.cps.length}"
            [szTag, if ns.length = 1 then "bm.one" else "bm.many",
             if (rs.filter fun r => r.cp.isSome).length > 1 then "bm.cps-many" else "bm.cps-le1"])
      | (_, .fault) => (s, s!"err BadNothingToDo @@ {szTag}")
      | (_, .tooMany) => (s, s!"err BadTooManyOperations @@ {szTag}")
      | (_, .panic) => (s, "panic")
      | _ => (s, "bad-op")
    | _, _, _, _, _, _, _ => (s, "bad-op")
  | ["next", ids] =>
    match parseToks s.st.se.nextId ids with
    | some ids =>
      match run (.next ids) with
      | (st, .nexts rs) =>
        let (ss, ex) := zipResults s.exact ids rs
        ({ s with st := st, exact := ex ++ s.exact }, withTags s!"ok {" | ".intercalate ss} c={st.se.cps.length}"
          (dedupStr (nextTags s.st s.lastMut ids rs)))
      | (_, .fault) => (s, "err BadNothingToDo @@ n.fault-empty")
      | (_, .panic) => (s, "panic")
      | _ => (s, "bad-op")
    | none => (s, "bad-op")
  | ["release", ids] =>
    match parseToks s.st.se.nextId ids with
    | some ids =>
      match run (.release ids) with
      | (st, .unit) => ({ s with st := st }, withTags s!"ok c={st.se.cps.length}"
          [if st.se.cps.length < s.st.se.cps.length then "rel.hit" else "rel.miss"])
      | (_, .fault) => (s, "err BadNothingToDo @@ rel.fault-empty")
      | _ => (s, "bad-op")
    | none => (s, "bad-op")
  | t :: _ =>
    if isMutOp t then
      match parseMut toks with
      | some m =>
        let (st, r) := run (.mutate m)
        let bumped := s.st.sp.lastMod < st.sp.lastMod
        ({ s with st := st, lastMut := if bumped then mutKind m else s.lastMut }, withTags (showFlag r) (mutTags s.st m r))
      | none => (s, "bad-op")
    else (s, "bad-op")
  | _ => (s, "bad-op")

def driver : Driver := { σ := DState, init := { st := init, exact := [] }, step := dstep }

end OpcuaVerif.C30
