import OpcuaVerif.Common
import OpcuaVerif.Model.C30

namespace OpcuaVerif.C30

structure DState where
  st : St
  /-- ids of continuation points whose browse was Forward-only (their order is deterministic) -/
  exact : List Nat

def showDesc (d : Desc) : String :=
  s!"{d.target}:{d.ty}:{boolStr d.fwd}:{d.cls}"

def descKey (d : Desc) : Nat :=
  ((d.target * 10000 + d.ty) * 2 + (if d.fwd then 1 else 0)) * 256 + d.cls

def insertSorted (d : Desc) : List Desc → List Desc
  | [] => [d]
  | x :: xs => if descKey d ≤ descKey x then d :: x :: xs else x :: insertSorted d xs

def sortDescs (ds : List Desc) : List Desc := ds.foldr insertSorted []

def showDescs (ds : List Desc) : String := "[" ++ ",".intercalate (ds.map showDesc) ++ "]"

/-- `exact`: print the page in order; otherwise `complete` pages are printed sorted, others not -/
def showResult (exact complete : Bool) (r : BrowseResult) : String :=
  match r.status with
  | .nodeUnknown => "BadNodeIdUnknown"
  | .cpInvalid => "BadContinuationPointInvalid"
  | .good =>
    let ds := r.refs.getD []
    let cp := match r.cp with | some i => toString i | none => "-"
    let body := if exact then "refs=" ++ showDescs ds
      else if complete ∧ r.cp.isNone then "set=" ++ showDescs (sortDescs ds) else "~"
    s!"Good n={ds.length} cp={cp} {body}"

def clsOk (c : Nat) : Bool := [1, 2, 4, 8, 16, 32, 64, 128].contains c

/-- reference types the ops may name: standard ids of the table, custom 1000..1999 (namespace 1),
9999 (namespace 0, not a reference type) -/
def tyOk (t : Nat) : Bool := isStdTy t || (1000 ≤ t && t < 2000) || t == 9999

def u32Ok (n : Nat) : Bool := n < 4294967296

/-- token: absolute number or `@k` = the k-th most recently issued continuation point -/
def parseTok (nextId : Nat) (t : String) : Option Nat :=
  match t.toList with
  | '@' :: r => (String.ofList r).toNat?.map fun k => if k + 1 < nextId then nextId - 1 - k else 0
  | _ => t.toNat?

def parseToks (nextId : Nat) (s : String) : Option (List Nat) :=
  match s.toList with
  | '[' :: r =>
    let inner := String.ofList r.dropLast
    if inner.isEmpty then some [] else (inner.splitOn ",").mapM (parseTok nextId)
  | _ => none

def showSvc : Svc → String
  | .good => "Good"
  | .badNodeIdUnknown => "BadNodeIdUnknown"
  | .badSourceNodeIdInvalid => "BadSourceNodeIdInvalid"
  | .badTargetNodeIdInvalid => "BadTargetNodeIdInvalid"
  | .badReferenceTypeIdInvalid => "BadReferenceTypeIdInvalid"
  | .badNodeClassInvalid => "BadNodeClassInvalid"
  | .badDuplicateReferenceNotAllowed => "BadDuplicateReferenceNotAllowed"

def showFlag (r : Res) : String :=
  match r with
  | .mres (.flag b) => "ok " ++ boolStr b
  | .mres .unit => "ok"
  | .mres (.flags bs) => "ok [" ++ ",".intercalate (bs.map boolStr) ++ "]"
  | .mres (.svc st) => "ok " ++ showSvc st
  | .panic => "panic"
  | _ => "bad-op"

/-- node ids of a case live below the namespace-0 offset of the model -/
def nidOk (n : Nat) : Bool := 1 ≤ n && n < 100000

def storedTyOk (t : Nat) : Bool := tyOk t && t != 45

/-- `s:t:ty` -/
def parseTriple (s : String) : Option (Nat × Nat × Nat) :=
  match s.splitOn ":" with
  | [a, b, c] => match a.toNat?, b.toNat?, c.toNat? with
    | some a, some b, some c => some (a, b, c)
    | _, _, _ => none
  | _ => none

def parseList {α : Type} (f : String → Option α) (s : String) : Option (List α) :=
  match s.toList with
  | '[' :: r =>
    let inner := String.ofList r.dropLast
    if inner.isEmpty then some [] else (inner.splitOn ",").mapM f
  | _ => none

/-- parses and validates a mutation op -/
def parseMut (toks : List String) : Option Mut :=
  match toks with
  | ["node", id, cls] =>
    match id.toNat?, cls.toNat? with
    | some id, some cls => if nidOk id ∧ clsOk cls then some (.node id cls) else none
    | _, _ => none
  | ["nodep", id, cls, parent, ty] =>
    match id.toNat?, cls.toNat?, parent.toNat?, ty.toNat? with
    | some id, some cls, some parent, some ty =>
      if nidOk id ∧ clsOk cls ∧ 1 ≤ parent ∧ parent < id ∧ storedTyOk ty then some (.nodep id cls parent ty) else none
    | _, _, _, _ => none
  | ["ref", a, b, ty] =>
    match a.toNat?, b.toNat?, ty.toNat? with
    | some a, some b, some ty => if 1 ≤ a ∧ a < b ∧ nidOk b ∧ storedTyOk ty then some (.ref a b ty) else none
    | _, _, _ => none
  | ["refs", l] =>
    match parseList parseTriple l with
    | some l => if l.all (fun r => 1 ≤ r.1 && r.1 < r.2.1 && nidOk r.2.1 && storedTyOk r.2.2) then some (.refs l) else none
    | none => none
  | ["settype", id, t] =>
    match id.toNat?, t.toNat? with
    | some id, some t => if nidOk id ∧ 1 ≤ t ∧ t < 100000 then some (.settype id t) else none
    | _, _ => none
  | ["folder", id, parent] =>
    match id.toNat?, parent.toNat? with
    | some id, some parent => if nidOk id ∧ 1 ≤ parent ∧ parent < id then some (.folder id parent) else none
    | _, _ => none
  | ["addvars", parent, ids] =>
    match parent.toNat?, parseList String.toNat? ids with
    | some parent, some ids =>
      if 1 ≤ parent ∧ ids.all (fun i => parent < i && nidOk i) then some (.addvars parent ids) else none
    | _, _ => none
  | ["delref", a, b, ty] =>
    match a.toNat?, b.toNat?, ty.toNat? with
    | some a, some b, some ty => if nidOk a ∧ nidOk b ∧ tyOk ty then some (.delref a b ty) else none
    | _, _, _ => none
  | ["delnode", id, dtr] =>
    match id.toNat?, parseBool? dtr with
    | some id, some dtr => if nidOk id then some (.delnode id dtr) else none
    | _, _ => none
  | ["sdelnode", id, dtr] =>
    match id.toNat?, parseBool? dtr with
    | some id, some dtr => if nidOk id then some (.sdelnode id dtr) else none
    | _, _ => none
  | ["sdelref", a, b, ty, fwd, bidir] =>
    match a.toNat?, b.toNat?, ty.toNat?, parseBool? fwd, parseBool? bidir with
    | some a, some b, some ty, some fwd, some bidir =>
      if nidOk a ∧ nidOk b ∧ a ≠ b ∧ tyOk ty then some (.sdelref a b ty fwd bidir) else none
    | _, _, _, _, _ => none
  | ["saddref", a, b, ty, fwd, cls] =>
    match a.toNat?, b.toNat?, ty.toNat?, parseBool? fwd, cls.toNat? with
    | some a, some b, some ty, some fwd, some cls =>
      if nidOk a ∧ nidOk b ∧ (if fwd then a < b else b < a) ∧ storedTyOk ty ∧ (cls = 0 ∨ clsOk cls)
      then some (.saddref a b ty fwd cls) else none
    | _, _, _, _, _ => none
  | _ => none

def isMutOp (t : String) : Bool :=
  ["node", "nodep", "ref", "refs", "settype", "folder", "addvars", "delref", "delnode", "sdelnode", "sdelref",
   "saddref"].contains t

def zipResults (exact : List Nat) : List Nat → List BrowseResult → List String × List Nat
  | id :: ids, r :: rs =>
    let e := exact.contains id
    let (ss, ex) := zipResults exact ids rs
    let ex := match r.cp with | some i => if e then i :: ex else ex | none => ex
    (showResult e false r :: ss, ex)
  | _, _ => ([], [])

def dstep (s : DState) (toks : List String) : DState × String :=
  let run (op : Op) : St × Res := step s.st op
  match toks with
  | ["reset"] => ({ st := init, exact := [] }, "ok")
  | ["browse", n, dir, ty, sub, mask, rmask, req] =>
    match n.toNat?, dir.toNat?, ty.toNat?, parseBool? sub, mask.toNat?, rmask.toNat?, req.toNat? with
    | some n, some dir, some ty, some sub, some mask, some rmask, some req =>
      if dir > 3 ∨ !(ty = 0 ∨ tyOk ty) ∨ !u32Ok mask ∨ !u32Ok rmask ∨ !u32Ok req then (s, "bad-op") else
      match run (.browse n dir ty sub mask rmask req) with
      | (st, .browse r) =>
        let e := dir = 0
        let ex := match r.cp with | some i => if e then i :: s.exact else s.exact | none => s.exact
        ({ st := st, exact := ex }, s!"ok {showResult e true r} c={st.se.cps.length}")
      | (_, .panic) => (s, "panic")
      | _ => (s, "bad-op")
    | _, _, _, _, _, _, _ => (s, "bad-op")
  | ["next", ids] =>
    match parseToks s.st.se.nextId ids with
    | some ids =>
      match run (.next ids) with
      | (st, .nexts rs) =>
        let (ss, ex) := zipResults s.exact ids rs
        ({ st := st, exact := ex ++ s.exact }, s!"ok {" | ".intercalate ss} c={st.se.cps.length}")
      | (_, .fault) => (s, "err BadNothingToDo")
      | (_, .panic) => (s, "panic")
      | _ => (s, "bad-op")
    | none => (s, "bad-op")
  | ["release", ids] =>
    match parseToks s.st.se.nextId ids with
    | some ids =>
      match run (.release ids) with
      | (st, .unit) => ({ s with st := st }, s!"ok c={st.se.cps.length}")
      | (_, .fault) => (s, "err BadNothingToDo")
      | _ => (s, "bad-op")
    | none => (s, "bad-op")
  | t :: _ =>
    if isMutOp t then
      match parseMut toks with
      | some m => let (st, r) := run (.mutate m); ({ s with st := st }, showFlag r)
      | none => (s, "bad-op")
    else (s, "bad-op")
  | _ => (s, "bad-op")

def driver : Driver := { σ := DState, init := { st := init, exact := [] }, step := dstep }

end OpcuaVerif.C30
