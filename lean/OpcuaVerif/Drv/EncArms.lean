import OpcuaVerif.Drv.EncDrv
import OpcuaVerif.Generated.EncTrace

/-!
Arm coverage for the codec drivers (C01 / C02 / C03).  For every op the driver answers
`result @@ tags`:

* site tags `fn#k` — the result sites of the decoders that produced the result, from the traced copy
  of the model (`Generated/EncTrace.lean`, regenerated from the model by `tools/translate/enc_trace.py`).
  The traced copy is checked against the model on every op: if their outcomes differ the result line
  becomes `trace-mismatch`, which the correspondence run reports as a disagreement.
* boundary tags — for each limit L ∈ {str, bytes, arr, depth, msg} the MODEL is re-run with L−1 / L+1 /
  unlimited: `ok:L-eq-limit` (accepted, and rejected with L−1), `ok:L-lt-limit`, `err:L-eq-limit+1`
  (rejected, accepted with L+1), `err:L-gt-limit+1` (rejected, accepted only with a larger limit).
* value tags — which kinds of values the op carried (`v:` what was encoded / decoded): every Variant
  kind at top level and as array element type, string / byte string null-empty-nonempty, NodeId forms,
  ExpandedNodeId flags, ExtensionObject bodies, every DataValue / DiagnosticInfo mask bit set and clear,
  DateTime regions, array shapes.
-/
namespace OpcuaVerif.Enc

def clsM {α : Type} : Res α → Nat × Nat
  | .ok _ r => (0, r.length)
  | .err => (1, 0)
  | .fault .stack => (2, 0)
  | .fault .alloc => (3, 0)
  | .fault .panic => (4, 0)

/-! ### value tags -/

def strTag (p : String) : UAStr → String
  | none => p ++ "-null"
  | some s => if s.isEmpty then p ++ "-empty" else p ++ "-nonempty"

def nidTags (n : NodeId) : List String :=
  match n.id with
  | .num v =>
    [if n.ns = 0 ∧ v ≤ 255 then "v:nid-2byte" else if n.ns ≤ 255 ∧ v ≤ 65535 then "v:nid-4byte" else "v:nid-full"]
    ++ (if n.ns = 0 ∧ v = 255 then ["v:nid-2byte-max"] else [])
    ++ (if n.ns = 0 ∧ v = 256 then ["v:nid-4byte-min"] else [])
    ++ (if n.ns = 255 ∧ v = 65535 then ["v:nid-4byte-max"] else [])
    ++ (if (n.ns = 256 ∧ v ≤ 65535) ∨ (n.ns ≤ 255 ∧ v = 65536) then ["v:nid-full-min"] else [])
  | .str s => [strTag "v:nid-str" s]
  | .guid _ => ["v:nid-guid"]
  | .bstr s => [strTag "v:nid-bstr" s]

def dtTag (t : Int) : String :=
  if t < 0 then "v:dt-before-1601" else if t = 0 then "v:dt-epoch"
  else if t < endTicks then "v:dt-in-range" else if t = endTicks then "v:dt-endtimes" else "v:dt-after-9999"

def scalarTags : Scalar → List String
  | .bool _ => []
  | .str s => [strTag "v:str" s]
  | .bstr s => [strTag "v:bstr" s]
  | .xml s => [strTag "v:xml" s]
  | .dateTime t => [dtTag t]
  | .nodeId n => nidTags n
  | .expNodeId n =>
    nidTags n.node ++ [strTag "v:xnid-uri" n.uri, if n.server = 0 then "v:xnid-server-0" else "v:xnid-server-set"]
  | .qname _ name => [strTag "v:qname" name]
  | .ltext l t => [strTag "v:lt-locale" l, strTag "v:lt-text" t]
  | .extObj e =>
    nidTags e.node ++ [match e.body with
      | .none => "v:eo-none"
      | .bstr s => strTag "v:eo-bstr" s
      | .xml s => strTag "v:eo-xml" s]
  | _ => []

def bitTag (p : String) (set : Bool) : String := p ++ (if set then "-set" else "-clear")

def dvRestTags (r : DVRest) : List String :=
  [bitTag "v:dv-status" r.status.isSome, bitTag "v:dv-srcTs" r.srcTs.isSome, bitTag "v:dv-srcPs" r.srcPs.isSome,
   bitTag "v:dv-srvTs" r.srvTs.isSome, bitTag "v:dv-srvPs" r.srvPs.isSome]
  ++ (if r.srcTs.isNone ∧ r.srcPs.isSome then ["v:dv-srcPs-without-ts"] else [])
  ++ (if r.srvTs.isNone ∧ r.srvPs.isSome then ["v:dv-srvPs-without-ts"] else [])
  ++ (match r.srcTs with | some t => [dtTag t] | none => [])
  ++ (match r.srvTs with | some t => [dtTag t] | none => [])

def difTags (f : DIF) : List String :=
  [bitTag "v:di-symbolic" f.symbolic.isSome, bitTag "v:di-ns" f.ns.isSome, bitTag "v:di-locale" f.locale.isSome,
   bitTag "v:di-ltext" f.ltext.isSome, bitTag "v:di-addInfo" f.addInfo.isSome,
   bitTag "v:di-innerStatus" f.innerStatus.isSome]
  ++ (match f.addInfo with | some s => [strTag "v:di-addInfo" s] | none => [])

mutual
partial def vTags (top : Bool) : V → List String
  | .empty => ["v:kind-0"]
  | .sc s => (if top then [s!"v:kind-{s.tid}"] else []) ++ scalarTags s
  | .var v => (if top then ["v:kind-24"] else []) ++ vTags true v
  | .dv d => (if top then ["v:kind-23"] else []) ++ dvTags d
  | .di d => (if top then ["v:kind-25"] else []) ++ diTags d
  | .arr ty elems dims =>
    [s!"v:elem-{ty}"]
    ++ [if elems.isEmpty then "v:arr-empty" else if elems.length = 1 then "v:arr-one" else "v:arr-many"]
    ++ [match dims with
        | none => "v:arr-nodims"
        | some ds => if elems.isEmpty then "v:arr-empty-dims" else if ds.isEmpty then "v:arr-dims-[]"
                     else if ds.length = 1 then "v:arr-dims-1" else "v:arr-dims-multi"]
    ++ (elems.map (vTags false)).flatten
partial def dvTags : DV → List String
  | .mk0 r => ["v:dv-value-clear"] ++ dvRestTags r
  | .mk1 v r => ["v:dv-value-set"] ++ vTags true v ++ dvRestTags r
partial def diTags : DI → List String
  | .leaf f => ["v:di-inner-clear"] ++ difTags f
  | .nest f i => ["v:di-inner-set"] ++ difTags f ++ diTags i
end

/-! ### boundary probes -/

structure Lens where
  name : String
  get : Opts → Nat
  set : Opts → Nat → Opts
  /-- "practically unlimited" for the probe; moderate for arrays and depth because the model recurses
  natively once per element / level (a zero-size element type makes an array cost no input bytes) -/
  big : Nat → Nat

def lenses : List Lens :=
  [⟨"str", (·.maxStr), fun o n => { o with maxStr := n }, fun _ => 1000000000⟩,
   ⟨"bytes", (·.maxBytes), fun o n => { o with maxBytes := n }, fun _ => 1000000000⟩,
   ⟨"arr", (·.maxArr), fun o n => { o with maxArr := n }, fun x => x + 3000⟩,
   ⟨"depth", (·.maxDepth), fun o n => { o with maxDepth := n }, fun x => x + 64⟩]

def strLens : Lens := ⟨"str", (·.maxStr), fun o n => { o with maxStr := n }, fun _ => 1000000000⟩

def msgLens : Lens := ⟨"msg", (·.maxMsg), fun o n => { o with maxMsg := n }, fun x => x + 100000⟩

/-- `run o` = outcome class of the MODEL under `o` -/
def probes (ls : List Lens) (run : Opts → Nat × Nat) (o : Opts) : List String :=
  let c0 := (run o).1
  (ls.map fun l =>
    let x := l.get o
    if x ≥ 1000000 then []      -- never let a probe make the model materialise a huge buffer
    else if c0 = 0 then
      (if x > 0 ∧ (run (l.set o (x - 1))).1 ≠ 0 then [s!"ok:{l.name}-eq-limit"] else [])
    else if c0 = 1 then
      (if (run (l.set o (x + 1))).1 = 0 then [s!"err:{l.name}-eq-limit+1"]
       else if (run (l.set o (l.big x))).1 = 0 then [s!"err:{l.name}-gt-limit+1"] else [])
    else []).flatten

def dedup (xs : List String) : List String := xs.foldl (fun acc x => if acc.contains x then acc else acc ++ [x]) []

def withArms (line : String) (tags : List String) : String :=
  let t := dedup tags
  if t.isEmpty then line else line ++ " @@ " ++ ",".intercalate t

/-- model class vs traced class; the line is replaced when they differ -/
def checked (line : String) (m t : Nat × Nat) : String := if m = t then line else "trace-mismatch"

def generousOpts : Opts := { maxStr := 1048576, maxBytes := 1048576, maxArr := 65536, maxDepth := 64, maxMsg := 0 }

def okTag (prefix_ : String) (c : Nat × Nat) : List String :=
  [prefix_ ++ (if c.1 = 0 then ":ok" else if c.1 = 1 then ":err" else ":fault")]

def armsStep (toks : List String) : String :=
  let line := encStep toks
  match toks with
  | "enc" :: "Variant" :: r =>
    match pV r with
    | some (v, []) => withArms line (["op:enc"] ++ vTags true v)
    | _ => line
  | "enc" :: "DataValue" :: r =>
    match pDV r with
    | some (v, []) => withArms line (["op:enc", "v:top-datavalue"] ++ dvTags v)
    | _ => line
  | "enc" :: "DiagnosticInfo" :: r =>
    match pDI r with
    | some (v, []) => withArms line (["op:enc", "v:top-diaginfo"] ++ diTags v)
    | _ => line
  | "lim" :: ty :: opts :: r =>
    match pOpts opts with
    | none => line
    | some o =>
      if ty = "Variant" then
        match pV r with
        | some (v, []) =>
          let b := encV true v
          let t := T.decV o drvCap true drvFuel 0 b
          let run := fun o' => clsM (decV o' drvCap true drvFuel 0 b)
          withArms (checked line (run o) t.cls) (okTag "op:lim" (run o) ++ t.tags ++ probes lenses run o)
        | _ => line
      else if ty = "DataValue" then
        match pDV r with
        | some (v, []) =>
          let b := encDV true v
          let t := T.decDV o drvCap true drvFuel 0 b
          let run := fun o' => clsM (decDV o' drvCap true drvFuel 0 b)
          withArms (checked line (run o) t.cls) (okTag "op:lim" (run o) ++ t.tags ++ probes lenses run o)
        | _ => line
      else if ty = "DiagnosticInfo" then
        match pDI r with
        | some (v, []) =>
          let b := encDI true v
          let t := T.decDI o drvCap true drvFuel 0 b
          let run := fun o' => clsM (decDI o' drvCap true drvFuel 0 b)
          withArms (checked line (run o) t.cls) (okTag "op:lim" (run o) ++ t.tags ++ probes lenses run o)
        | _ => line
      else line
  | "deco" :: _ => withArms line ["op:deco" ++ (if line.startsWith "ok" then ":ok" else ":err")]
  | ["srt", name, hex] => armsStepS name generousOpts hex line "op:srt"
  | ["sdec", name, opts, hex] =>
    match pOpts opts with
    | some o => armsStepS name o hex line "op:sdec"
    | none => line
  | ["msg", id, opts, hex] =>
    match id.toNat?, pOpts opts, hexToBytes hex with
    | some id, some o, some b =>
      if !Gen.objectIds.contains id then withArms line ["op:msg:noid"]
      else
        let t := T.decByObjectId o drvCap drvFuel Gen.dispatchTable id b
        let run := fun o' => clsM (decByObjectId o' drvCap drvFuel Gen.dispatchTable id b)
        withArms (checked line (run o) t.cls)
          (okTag "op:msg" (run o) ++ t.tags ++ probes lenses run o)
    | _, _, _ => line
  | ["dec", ty, opts, hex] =>
    match pOpts opts, hexToBytes hex with
    | some o, some b =>
      if ty = "Variant" then
        let t := T.decV o drvCap true drvFuel 0 b
        let r := decV o drvCap true drvFuel 0 b
        let run := fun o' => clsM (decV o' drvCap true drvFuel 0 b)
        let vt := match r with | .ok v _ => vTags true v | _ => []
        withArms (checked line (clsM r) t.cls) (okTag "op:dec" (clsM r) ++ t.tags ++ probes lenses run o ++ vt)
      else if ty = "DataValue" then
        let t := T.decDV o drvCap true drvFuel 0 b
        let r := decDV o drvCap true drvFuel 0 b
        let run := fun o' => clsM (decDV o' drvCap true drvFuel 0 b)
        let vt := match r with | .ok v _ => dvTags v | _ => []
        -- decode side: picosecond bits announced without their timestamp bit (read, then dropped)
        let mt := match r, b with
          | .ok _ _, m :: _ =>
            (if m / 16 % 2 = 1 ∧ m / 4 % 2 = 0 then ["dec:dv-srcPs-bit-without-ts-bit"] else [])
            ++ (if m / 32 % 2 = 1 ∧ m / 8 % 2 = 0 then ["dec:dv-srvPs-bit-without-ts-bit"] else [])
            ++ (if m ≥ 64 then ["dec:dv-unknown-mask-bits"] else [])
          | _, _ => []
        withArms (checked line (clsM r) t.cls) (okTag "op:dec" (clsM r) ++ t.tags ++ probes lenses run o ++ vt ++ mt)
      else if ty = "DiagnosticInfo" then
        let t := T.decDI o drvCap true drvFuel 0 b
        let r := decDI o drvCap true drvFuel 0 b
        let run := fun o' => clsM (decDI o' drvCap true drvFuel 0 b)
        let vt := match r with | .ok v _ => diTags v | _ => []
        withArms (checked line (clsM r) t.cls) (okTag "op:dec" (clsM r) ++ t.tags ++ probes lenses run o ++ vt)
      else if ty = "Chunk" then
        let t := T.decChunk o drvCap b
        let run := fun o' => clsM (decChunk o' drvCap b)
        withArms (checked line (run o) t.cls)
          (okTag "op:chunk" (run o) ++ t.tags ++ probes [msgLens] run o
            ++ (if o.maxMsg = 0 then ["chunk:unlimited"] else []))
      else if ty = "MsgHeader" then
        let t := T.decMsgHeader b
        let mt := match decMsgHeader b with | .ok h _ => [s!"tcp:type-{h.1}"] | _ => []
        withArms (checked line (clsM (decMsgHeader b)) t.cls) (t.tags ++ mt)
      else if ty = "Hello" then
        let t := T.decHello o drvCap b
        let run := fun o' => clsM (decHello o' drvCap b)
        let mt := match decHello o drvCap b with | .ok m _ => [s!"tcp:type-{m.mtype}"] | _ => []
        withArms (checked line (run o) t.cls) (okTag "op:hello" (run o) ++ t.tags ++ probes [strLens] run o ++ mt)
      else if ty = "Ack" then
        let t := T.decAck b
        withArms (checked line (clsM (decAck b)) t.cls) (okTag "op:ack" (clsM (decAck b)) ++ t.tags)
      else if ty = "Error" then
        let t := T.decErrorMsg o drvCap b
        let run := fun o' => clsM (decErrorMsg o' drvCap b)
        withArms (checked line (run o) t.cls) (okTag "op:error" (run o) ++ t.tags ++ probes [strLens] run o)
      else if ty = "ChunkHeader" then
        let t := T.decChunkHeader b
        withArms (checked line (clsM (decChunkHeader b)) t.cls) t.tags
      else if ty = "ReadBytes" then
        let t := T.readBytes true o drvCap b
        let run := fun o' => clsM (readBytes true o' drvCap b)
        withArms (checked line (run o) t.cls) (okTag "op:readbytes" (run o) ++ t.tags ++ probes [msgLens] run o)
      else line
    | _, _ => line
  | _ => line
where
  armsStepS (name : String) (o : Opts) (hex : String) (line : String) (op : String) : String :=
    match hexToBytes hex, Gen.schemas.lookup name with
    | some b, some ty =>
      let t := T.decS o drvCap drvFuel ty 0 b
      let run := fun o' => clsM (decS o' drvCap drvFuel ty 0 b)
      withArms (checked line (run o) t.cls) (okTag op (run o) ++ t.tags ++ probes lenses run o)
    | _, _ => line

def encDriverA : Driver := { σ := Unit, init := (), step := fun s toks => (s, armsStep toks) }

end OpcuaVerif.Enc
