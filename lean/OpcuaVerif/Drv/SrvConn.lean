import OpcuaVerif.Common
import OpcuaVerif.Model.SrvConn

/-! line protocol for the server connection model, shared by the C10 / C12 / C15 drivers -/
namespace OpcuaVerif.SrvConn
open OpcuaVerif.C12

def parseCI1? (s : String) : Option CI :=
  match (s.splitOn ":").map String.toNat? with
  | [some a, some b, some c] => some { chan := a, seq := b, req := c }
  | _ => none

def parseTy? : String → Option CType
  | "msg" => some .msg | "opn" => some .opn | "clo" => some .clo | _ => none

def parseFin? : String → Option Fin
  | "F" => some .final | "C" => some .intermediate | "A" => some .abort | _ => none

def parseMode? : String → Option Mode
  | "0" => some .invalid | "1" => some .none | "2" => some .sign | "3" => some .signAndEncrypt | _ => none

/-- `oi` / `or` = plain Issue / Renew; `o:<i|r>:<mode 0-3>:<s|d>:<nonce length or ->` = an
OpenSecureChannelRequest with that request type, security mode, same / different protocol version and
nonce; `obad` = one whose enum fields hold no enum value -/
def parseRk? (s : String) : Option ReqKind :=
  match s with
  | "ge" => some .getEndpoints | "cs" => some .createSession | "oi" => some .openIssue
  | "or" => some .openRenew | "cl" => some .close | "junk" => some .junk | "obad" => some .openBadEnum
  | _ =>
    match s.splitOn ":" with
    | ["o", t, m, pv, n] =>
      let renew? : Option Bool := if t = "i" then some false else if t = "r" then some true else none
      let pv? : Option Bool := if pv = "s" then some true else if pv = "d" then some false else none
      let nonce? : Option (Option Nat) := if n = "-" then some none else n.toNat?.map some
      match renew?, parseMode? m, pv?, nonce? with
      | some r, some m, some pv, some n => some (.open r m pv n)
      | _, _, _, _ => none
    | _ => none

def parseMal? : String → Option Mal
  | "ok" => some .ok | "badsize" => some .badSize | "badpolicy" => some .badPolicy | _ => none

def parseHel? : String → Option HelKind
  | "valid" => some .valid | "badurl" => some .badUrl | "smallbuf" => some .smallBuffers
  | "proto1" => some .protocol1 | _ => none

def parseFrame? (l : Lens) : List String → Option Frame
  | ["hel", k] => (parseHel? k).map .hel
  | ["ack"] => some .other
  | ["ch", ty, ci, f, n, rk, m] =>
    match parseTy? ty, parseCI1? ci, parseFin? f, n.toNat?, parseRk? rk, parseMal? m with
    | some ty, some ci, some f, some n, some rk, some m =>
      if n < overhead l ty then none else some (.chunk ⟨ty, ci, f, n, rk, m⟩)
    | _, _, _, _, _, _ => none
  | _ => none

def showOut : Out → String
  | .ack => "ok ack"
  | .opnResponse ch tk r => s!"ok opn chan={ch} token={tk} req={r}"
  | .opnFault e r => s!"ok fault-opn {e} req={r}"
  | .service n r => s!"ok service {n} req={r}"
  | .stored => "ok stored"
  | .closeErr e => s!"err {e}"
  | .ignored => "err closed"

def tail (c : Conn) : String := s!"last={c.lastSeq} pend={c.pending.length} bytes={c.bytes}"

/-- what a lock-step client sees over a socket: a response frame, the connection going away, or —
after a chunk that is not final — nothing to wait for -/
def showSock (f : Frame) (o : Out) : String :=
  let quiet : Bool := match f with
    | .chunk k => decide (k.fin ≠ .final)
    | _ => false
  if quiet then "-" else
  match o with
  | .ack => "ack"
  | .opnResponse ch tk r => s!"opn_chan={ch}_token={tk}_req={r}"
  | .opnFault e r => s!"fault-opn_{e}_req={r}"
  | .service n r => s!"service_{n}_req={r}"
  | .stored => "-"
  | .closeErr _ => "eof"
  | .ignored => "eof"

def sockRun (c : Conn) : List Frame → List String
  | [] => []
  | f :: fs => showSock f (step c f).2 :: sockRun (step c f).1 fs


/-! ### arm tags (coverage only): which branches of the model an op took, with guards at their boundary -/

def tyName : CType → String
  | .msg => "msg" | .opn => "opn" | .clo => "clo"

def finName : Fin → String
  | .final => "F" | .intermediate => "C" | .abort => "A"

def rkName : ReqKind → String
  | .getEndpoints => "ge" | .createSession => "cs" | .open _ _ _ _ => "open" | .openBadEnum => "obad" | .close => "cl" | .junk => "junk"

/-- position of `x` relative to a limit `lim` (0 = no limit): the comparison at its boundary -/
def rel (pre : String) (x lim : Nat) : String :=
  if lim = 0 then pre ++ "-nolimit"
  else if x + 1 < lim then pre ++ "-lt"
  else if x + 1 = lim then pre ++ "-eq-limit-minus1"
  else if x = lim then pre ++ "-eq-limit"
  else if x = lim + 1 then pre ++ "-eq-limit-plus1"
  else pre ++ "-gt"

def chunkArms (c : Conn) (k : Chunk) : List String :=
  let st := if c.issued then "open" else "noopen"
  let base := [s!"ch-{tyName k.ty}-{finName k.fin}-{st}"]
  if k.ty = .msg ∧ ¬ c.issued then base ++ ["guard-msg-before-open"]
  else if k.fin = .abort then base ++ [if c.pending.isEmpty then "abort-empty" else "abort-nonempty"]
  else if k.mal = .badSize then base ++ ["mal-badsize"]
  else if k.ty = .opn ∧ k.mal = .badPolicy then base ++ ["mal-badpolicy-opn"]
  else
    let m := if k.mal = .badPolicy then ["mal-badpolicy-ignored"] else []
    -- `pending.len() >= max`: compare len with the limit; `bytes + size > max`: compare the sum
    let cnt := rel "count" (c.pending.length + 1) c.maxChunks
    let base := base ++ m ++ [cnt]
    if c.maxChunks > 0 ∧ c.pending.length ≥ c.maxChunks then base
    else
      let byt := rel "bytes" (c.bytes + k.size) c.maxMsg
      let base := base ++ [byt]
      if c.maxMsg > 0 ∧ c.bytes + k.size > c.maxMsg then base
      else
        let rk := if c.pending.isEmpty then k.rk else c.curRk
        let base := base ++ [if c.pending.isEmpty then "stream-new" else "stream-continues"]
        let pend := c.pending ++ [(k.ty, k.ci, k.size)]
        let mixed := if pend.any (fun p => p.1 ≠ k.ty) then ["mixed-types"] else []
        if k.fin = .intermediate then base ++ ["stored"] ++ mixed
        else
          let base := base ++ mixed ++ [if pend.length = 1 then "final-single" else "final-multi"]
          match recv c.lastSeq c.chanId (pend.map fun p => some p.2.1) with
          | .err e => base ++ [s!"recv-{e}", if c.chanId = 0 then "chan-unset" else "chan-set"]
          | .panic => base ++ ["recv-panic"]
          | .ok _ =>
            let base := base ++ ["recv-ok", if c.chanId = 0 then "chan-unset" else "chan-set"]
            let first := match pend with
              | p :: _ => p.2.1.seq
              | [] => 0
            let base := base ++ [if first = c.lastSeq + 1 then "seq-next" else "seq-gap"]
            let body := (pend.map fun p => p.2.2 - overhead c.lens p.1).sum
            let len := reqLen c.lens rk
            let dec :=
              if rk = .junk then (if body < 2 then "dec-junk-lt2" else "dec-junk")
              else if body < 3 then "dec-lt3"
              else if body = 3 then "dec-eq3"
              else if body = 4 ∧ 4 < len then "dec-eq4"
              else if body + 1 < len then "dec-short"
              else if body + 1 = len then "dec-eq-len-minus1"
              else if body = len then "dec-eq-len"
              else "dec-gt-len"
            let base := base ++ [dec]
            match decodeErr c.lens rk body with
            | some _ => base
            | none =>
              let firstTy := headTy k.ty pend
              let d := match k.ty with
                | .clo => s!"disp-clo-{rkName rk}"
                | .opn =>
                  match rk with
                  | .open renew mode pvSame nonce =>
                    let t := if renew then "renew" else "issue"
                    let n := match nonce with
                      | none => "opn-nonce-null" | some 0 => "opn-nonce-empty" | some _ => "opn-nonce-bytes"
                    let m := match mode with
                      | .invalid => "invalid" | .none => "none" | .sign => "sign" | .signAndEncrypt => "signenc"
                    if firstTy ≠ .opn then s!"disp-opn-first-not-opn"
                    else if ¬ pvSame then s!"opn-{t}-pv-mismatch,{n}"
                    else if renew ∧ ¬ c.issued then s!"opn-renew-before-issue,{n}"
                    else
                      let again := if c.issued then "opn-channel-already-issued" else
                        (if c.lastChanId > 0 then "opn-after-refused-issue" else "opn-first-attempt")
                      s!"opn-{t}-mode-{m},{again},{n}"
                  | r => s!"disp-opn-wrong-{rkName r}"
                | .msg =>
                  match rk with
                  | .getEndpoints => "disp-msg-ge"
                  | .createSession => if c.sessions ≥ 5 then "disp-msg-cs-too-many" else
                      (if c.sessions = 4 then "disp-msg-cs-fifth" else "disp-msg-cs")
                  | r => s!"disp-msg-unsupported-{rkName r}"
              base ++ [d]

def frameArms (c : Conn) : Frame → List String
  | f =>
    match c.phase with
    | .closed => ["phase-closed"]
    | .waitingHello =>
      match f with
      | .hel .valid => ["hel-valid"]
      | .hel .badUrl => ["hel-badurl"]
      | .hel .smallBuffers => ["hel-smallbuf"]
      | .hel .protocol1 => ["hel-proto1"]
      | .other => ["prehello-other"]
      | .chunk k => [s!"prehello-chunk-{tyName k.ty}"]
    | .processing =>
      match f with
      | .hel _ => [if c.pending.isEmpty then "second-hello" else "second-hello-pending"]
      | .other => ["nonchunk-frame"]
      | .chunk k => chunkArms c k


def dstep (c : Conn) (toks : List String) : Conn × String :=
  match toks with
  | ["reset", "conn", mc, mm, ov, ge, cs, opn, clo] =>
    match mc.toNat?, mm.toNat?, ov.toNat?, ge.toNat?, cs.toNat?, opn.toNat?, clo.toNat? with
    | some mc, some mm, some ov, some ge, some cs, some opn, some clo =>
      (Conn.init { ovOpn := ov, ge := ge, cs := cs, opn := opn, clo := clo } mc mm, "ok")
    | _, _, _, _, _, _, _ => (c, "bad-op")
  | ["setlast", n] =>
    match n.toNat? with
    | some n => ({ c with lastSeq := n }, "ok")
    | none => (c, "bad-op")
  | ["sock", specs] =>
    match (specs.splitOn ",").mapM (fun sp => parseFrame? c.lens (sp.splitOn ".")) with
    | some fs =>
      let c0 := Conn.init c.lens c.maxChunks c.maxMsg
      (c, "ok [" ++ ",".intercalate (sockRun c0 fs) ++ "]")
    | none => (c, "bad-op")
  | _ =>
    match parseFrame? c.lens toks with
    | some f =>
      let tags := " @@ " ++ ",".intercalate (frameArms c f)
      match step c f with
      | (c', .ignored) => (c', "err closed" ++ tags)
      | (c', o) => (c', showOut o ++ " " ++ tail c' ++ tags)
    | none => (c, "bad-op")

def conn0 : Conn := Conn.init { ovOpn := 79, ge := 0, cs := 0, opn := 0, clo := 0 } 0 0

end OpcuaVerif.SrvConn
