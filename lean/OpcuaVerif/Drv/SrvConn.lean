import OpcuaVerif.Common
import OpcuaVerif.Model.SrvConn

/-! line protocol for the server connection model, shared by the C10 / C12 / C15 drivers -/
namespace OpcuaVerif.SrvConn
open OpcuaVerif.C12

def parseCI1? (s : String) : Option CI :=
  match (s.splitOn ":").map String.toNat? with
  | [some a, some b, some c] => some { chan := a, seq := b, req := c }
  | _ => none

def parseTy? : String → Option CType
  | "msg" => some .msg | "opn" => some .opn | "clo" => some .clo | _ => none

def parseFin? : String → Option Fin
  | "F" => some .final | "C" => some .intermediate | "A" => some .abort | _ => none

def parseRk? : String → Option ReqKind
  | "ge" => some .getEndpoints | "cs" => some .createSession | "oi" => some .openIssue
  | "or" => some .openRenew | "cl" => some .close | "junk" => some .junk | _ => none

def parseMal? : String → Option Mal
  | "ok" => some .ok | "badsize" => some .badSize | "badpolicy" => some .badPolicy | _ => none

def parseHel? : String → Option HelKind
  | "valid" => some .valid | "badurl" => some .badUrl | "smallbuf" => some .smallBuffers
  | "proto1" => some .protocol1 | _ => none

def parseFrame? (l : Lens) : List String → Option Frame
  | ["hel", k] => (parseHel? k).map .hel
  | ["ack"] => some .other
  | ["ch", ty, ci, f, n, rk, m] =>
    match parseTy? ty, parseCI1? ci, parseFin? f, n.toNat?, parseRk? rk, parseMal? m with
    | some ty, some ci, some f, some n, some rk, some m =>
      if n < overhead l ty then none else some (.chunk ⟨ty, ci, f, n, rk, m⟩)
    | _, _, _, _, _, _ => none
  | _ => none

def showOut : Out → String
  | .ack => "ok ack"
  | .opnResponse ch tk r => s!"ok opn chan={ch} token={tk} req={r}"
  | .service n r => s!"ok service {n} req={r}"
  | .stored => "ok stored"
  | .closeErr e => s!"err {e}"
  | .ignored => "err closed"

def tail (c : Conn) : String := s!"last={c.lastSeq} pend={c.pending.length} bytes={c.bytes}"

/-- what a lock-step client sees over a socket: a response frame, the connection going away, or —
after a chunk that is not final — nothing to wait for -/
def showSock (f : Frame) (o : Out) : String :=
  let quiet : Bool := match f with
    | .chunk k => decide (k.fin ≠ .final)
    | _ => false
  if quiet then "-" else
  match o with
  | .ack => "ack"
  | .opnResponse ch tk r => s!"opn_chan={ch}_token={tk}_req={r}"
  | .service n r => s!"service_{n}_req={r}"
  | .stored => "-"
  | .closeErr _ => "eof"
  | .ignored => "eof"

def sockRun (c : Conn) : List Frame → List String
  | [] => []
  | f :: fs => showSock f (step c f).2 :: sockRun (step c f).1 fs

def dstep (c : Conn) (toks : List String) : Conn × String :=
  match toks with
  | ["reset", "conn", mc, mm, ov, ge, cs, opn, clo] =>
    match mc.toNat?, mm.toNat?, ov.toNat?, ge.toNat?, cs.toNat?, opn.toNat?, clo.toNat? with
    | some mc, some mm, some ov, some ge, some cs, some opn, some clo =>
      (Conn.init { ovOpn := ov, ge := ge, cs := cs, opn := opn, clo := clo } mc mm, "ok")
    | _, _, _, _, _, _, _ => (c, "bad-op")
  | ["setlast", n] =>
    match n.toNat? with
    | some n => ({ c with lastSeq := n }, "ok")
    | none => (c, "bad-op")
  | ["sock", specs] =>
    match (specs.splitOn ",").mapM (fun sp => parseFrame? c.lens (sp.splitOn ".")) with
    | some fs =>
      let c0 := Conn.init c.lens c.maxChunks c.maxMsg
      (c, "ok [" ++ ",".intercalate (sockRun c0 fs) ++ "]")
    | none => (c, "bad-op")
  | _ =>
    match parseFrame? c.lens toks with
    | some f =>
      match step c f with
      | (c', .ignored) => (c', "err closed")
      | (c', o) => (c', showOut o ++ " " ++ tail c')
    | none => (c, "bad-op")

def conn0 : Conn := Conn.init { ovOpn := 79, ge := 0, cs := 0, opn := 0, clo := 0 } 0 0

end OpcuaVerif.SrvConn
