import OpcuaVerif.Model.C15
import OpcuaVerif.Proofs.SrvConn

/-!
C15 — No service is processed before the handshake or after channel close.
The theorems are in `Proofs/SrvConn.lean` (namespace `OpcuaVerif.SrvConn`), stated over histories
of Hello / non-chunk frames and chunks of every type and flag:
`only_hello_first`, `no_service_before_open`, `first_open_is_issue`, `clo_closes`,
`nothing_after_close`, `nothing_after_error`, `C15_counterexample_service_before_open`.
-/
