import OpcuaVerif.Model.C15

/-!
C15 — No service is processed before the handshake or after channel close.
`only_hello_first`, `no_service_before_open`, `first_open_is_issue`, `nothing_after_close`,
`clo_closes` over every frame history of one connection; counterexample for the pinned source.
-/
namespace OpcuaVerif.C15
open OpcuaVerif.C11 OpcuaVerif.C12

/-- Until the first ACK, the connection produced nothing but (at most) errors that closed it. -/
def okBeforeAck : List Out → Bool
  | [] => true
  | .ack :: _ => true
  | .closeErr _ :: r => okBeforeAck r
  | .ignored :: r => okBeforeAck r
  | _ :: _ => false

/-- No service response precedes the first OpenSecureChannel response. -/
def noServiceUntilOpen : List Out → Bool
  | [] => true
  | .opnResponse _ _ _ :: _ => true
  | .service _ _ :: _ => false
  | _ :: r => noServiceUntilOpen r

theorem closed_ignores (g : Bool) : ∀ (fs : List Frame) (c : Conn), c.phase = .closed →
    ∀ o ∈ runWith g c fs, o = .ignored := by
  intro fs
  induction fs with
  | nil => intro c _ o ho; simp [runWith] at ho
  | cons f fs ih =>
    intro c hc o ho
    have hs : stepWith g c f = (c, .ignored) := by simp [stepWith, hc]
    simp only [runWith, hs, List.mem_cons] at ho
    rcases ho with h | h
    · exact h
    · exact ih c hc o h

theorem okBeforeAck_of_ignored : ∀ (l : List Out), (∀ o ∈ l, o = .ignored) → okBeforeAck l = true := by
  intro l
  induction l with
  | nil => intro _; rfl
  | cons o r ih =>
    intro h
    have := h o (by simp)
    subst this
    exact ih (fun o ho => h o (by simp [ho]))

theorem noService_of_ignored : ∀ (l : List Out), (∀ o ∈ l, o = .ignored) → noServiceUntilOpen l = true := by
  intro l
  induction l with
  | nil => intro _; rfl
  | cons o r ih =>
    intro h
    have := h o (by simp)
    subst this
    exact ih (fun o ho => h o (by simp [ho]))

theorem closeWith_phase (c : Conn) (e : String) : (closeWith c e).1.phase = .closed ∧ (closeWith c e).2 = .closeErr e :=
  ⟨rfl, rfl⟩

/-- **Nothing but a Hello is answered first.** For every frame history on a fresh connection, the
outputs up to the first ACK are only connection-closing errors. -/
theorem only_hello_first (g : Bool) (fs : List Frame) : okBeforeAck (runWith g Conn.init fs) = true := by
  have gen : ∀ (fs : List Frame) (c : Conn), c.phase = .waitingHello → okBeforeAck (runWith g c fs) = true := by
    intro fs
    induction fs with
    | nil => intro c _; rfl
    | cons f fs ih =>
      intro c hc
      simp only [runWith]
      cases f with
      | hel k =>
        cases k <;> simp only [stepWith, hc, processHello, closeWith, okBeforeAck] <;>
          exact okBeforeAck_of_ignored _ (closed_ignores g fs _ rfl)
      | ack => simp only [stepWith, hc, closeWith, okBeforeAck]; exact okBeforeAck_of_ignored _ (closed_ignores g fs _ rfl)
      | opn r ci => simp only [stepWith, hc, closeWith, okBeforeAck]; exact okBeforeAck_of_ignored _ (closed_ignores g fs _ rfl)
      | msg s ci => simp only [stepWith, hc, closeWith, okBeforeAck]; exact okBeforeAck_of_ignored _ (closed_ignores g fs _ rfl)
      | clo ci => simp only [stepWith, hc, closeWith, okBeforeAck]; exact okBeforeAck_of_ignored _ (closed_ignores g fs _ rfl)
  exact gen fs Conn.init rfl

/-- one step of a connection on which no channel was issued: either it still is not issued and the
output is no service response, or the output is an OpenSecureChannel response -/
theorem step_not_issued (c : Conn) (f : Frame) (hi : c.issued = false) :
    (∃ a b r, (step c f).2 = .opnResponse a b r) ∨
    ((step c f).1.issued = false ∧ ∀ s r, (step c f).2 ≠ .service s r) := by
  unfold step stepWith
  cases hp : c.phase with
  | closed => right; simp [hi]
  | waitingHello =>
    right
    cases f with
    | hel k => cases k <;> simp [processHello, closeWith, hi]
    | _ => simp [closeWith, hi]
  | processing =>
    cases f with
    | hel k => right; simp [closeWith, hi]
    | ack => right; simp [closeWith, hi]
    | msg s ci => right; simp [processChunk, closeWith, hi]
    | clo ci =>
      right
      simp only [processChunk, seqCheck]
      cases recv c.lastSeq c.chanId [some ci] <;> simp [closeWith, hi]
    | opn renew ci =>
      simp only [processChunk, seqCheck]
      cases recv c.lastSeq c.chanId [some ci] with
      | ok l =>
        cases renew with
        | true => right; simp [closeWith, hi]
        | false => left; simp
      | err e => right; simp [closeWith, hi]
      | panic => right; simp [closeWith, hi]

/-- **No service before an OpenSecureChannel.** For every frame history on a fresh connection, no
response of the service layer is produced before the connection has answered an OpenSecureChannel
request. -/
theorem no_service_before_open (fs : List Frame) : noServiceUntilOpen (run Conn.init fs) = true := by
  have gen : ∀ (fs : List Frame) (c : Conn), c.issued = false → noServiceUntilOpen (run c fs) = true := by
    intro fs
    induction fs with
    | nil => intro c _; rfl
    | cons f fs ih =>
      intro c hi
      show noServiceUntilOpen ((step c f).2 :: run (step c f).1 fs) = true
      rcases step_not_issued c f hi with ⟨a, b, r, h⟩ | ⟨h1, h2⟩
      · rw [h]; rfl
      · have := ih (step c f).1 h1
        cases ho : (step c f).2 with
        | service s r => exact absurd ho (h2 s r)
        | ack => exact this
        | opnResponse a b r => rfl
        | closeErr e => exact this
        | ignored => exact this
  exact gen fs Conn.init rfl

/-- the first OpenSecureChannel response of a connection answers an Issue, never a Renew -/
theorem renew_needs_issue (c : Conn) (ci : CI) (hi : c.issued = false) :
    ∀ a b r, (step c (.opn true ci)).2 ≠ .opnResponse a b r := by
  intro a b r
  unfold step stepWith
  cases hp : c.phase with
  | closed => simp
  | waitingHello => simp [closeWith]
  | processing =>
    simp only [processChunk, seqCheck]
    cases recv c.lastSeq c.chanId [some ci] <;> simp [closeWith, hi]

/-- a CloseSecureChannel never produces a response and always leaves the connection closed -/
theorem clo_closes (g : Bool) (c : Conn) (ci : CI) :
    (stepWith g c (.clo ci)).1.phase = .closed ∧
    ((∃ e, (stepWith g c (.clo ci)).2 = .closeErr e) ∨ (stepWith g c (.clo ci)).2 = .ignored) := by
  unfold stepWith
  cases hp : c.phase with
  | closed => simp [hp]
  | waitingHello => simp [closeWith]
  | processing =>
    simp only [processChunk, seqCheck]
    cases recv c.lastSeq c.chanId [some ci] <;> simp [closeWith]

theorem runWith_length (g : Bool) : ∀ (fs : List Frame) (c : Conn), (runWith g c fs).length = fs.length := by
  intro fs
  induction fs with
  | nil => intro c; rfl
  | cons f fs ih => intro c; simp [runWith, ih]

theorem runWith_append (g : Bool) : ∀ (a b : List Frame) (c : Conn),
    runWith g c (a ++ b) = runWith g c a ++ runWith g ((a.foldl (fun c f => (stepWith g c f).1) c)) b := by
  intro a
  induction a with
  | nil => intro b c; rfl
  | cons f fs ih => intro b c; simp [runWith, ih]

/-- **Nothing after close.** Whatever came before, once a CloseSecureChannel frame has been
delivered, every later frame is ignored (no response, no processing). -/
theorem nothing_after_close (g : Bool) (pre post : List Frame) (ci : CI) (c : Conn) :
    ∃ outsPre o, runWith g c (pre ++ .clo ci :: post) = outsPre ++ o :: List.replicate post.length .ignored ∧
      outsPre.length = pre.length := by
  rw [runWith_append]
  refine ⟨runWith g c pre, (stepWith g (pre.foldl (fun c f => (stepWith g c f).1) c) (.clo ci)).2, ?_, ?_⟩
  · congr 1
    simp only [runWith]
    congr 1
    have hcl := (clo_closes g (pre.foldl (fun c f => (stepWith g c f).1) c) ci).1
    have := closed_ignores g post _ hcl
    have hlen := runWith_length g post (stepWith g (pre.foldl (fun c f => (stepWith g c f).1) c) (.clo ci)).1
    exact List.eq_replicate_iff.2 ⟨hlen, this⟩
  · exact runWith_length g pre c

/-- the same after ANY error that ended the reading loop -/
theorem nothing_after_error (g : Bool) (c : Conn) (f : Frame) (e : String) (post : List Frame)
    (h : (stepWith g c f).2 = .closeErr e) :
    runWith g (stepWith g c f).1 post = List.replicate post.length .ignored := by
  have hph : (stepWith g c f).1.phase = .closed := by
    unfold stepWith at h ⊢
    cases hp : c.phase with
    | closed => simp [hp] at h
    | waitingHello =>
      cases f with
      | hel k => cases k <;> simp_all [processHello, closeWith]
      | _ => simp [closeWith]
    | processing =>
      cases f with
      | hel k => simp [closeWith]
      | ack => simp [closeWith]
      | clo ci =>
        simp only [processChunk, seqCheck]
        cases recv c.lastSeq c.chanId [some ci] <;> simp [closeWith]
      | msg s ci =>
        simp only [hp, processChunk, seqCheck] at h ⊢
        split
        · simp [closeWith]
        · rename_i hg
          simp only [hg, ↓reduceIte] at h
          cases hr : recv c.lastSeq c.chanId [some ci] <;> simp_all [closeWith]
      | opn renew ci =>
        simp only [hp, processChunk, seqCheck] at h ⊢
        cases hr : recv c.lastSeq c.chanId [some ci] with
        | ok l =>
          simp only [hr] at h ⊢
          cases renew with
          | true =>
            simp only [↓reduceIte] at h ⊢
            split
            · simp [closeWith]
            · rename_i hh; simp [hh] at h
          | false => simp at h
        | err e => simp [closeWith]
        | panic => simp [closeWith]
  have := closed_ignores g post _ hph
  have hlen := runWith_length g post (stepWith g c f).1
  exact List.eq_replicate_iff.2 ⟨hlen, this⟩

/-- pinned source (no guard): after HEL, a GetEndpoints request is answered without any
OpenSecureChannel -/
theorem C15_counterexample_service_before_open :
    runWith false Conn.init [.hel .valid, .msg .getEndpoints ⟨0, 1, 41⟩] = [.ack, .service .getEndpoints 41] ∧
    noServiceUntilOpen (runWith false Conn.init [.hel .valid, .msg .createSession ⟨0, 1, 41⟩]) = false := by
  constructor <;> decide

/-- non-vacuity: an orderly connection does get its services answered -/
example : run Conn.init [.hel .valid, .opn false ⟨0, 1, 41⟩, .msg .getEndpoints ⟨1, 2, 42⟩, .opn true ⟨1, 3, 43⟩,
      .msg .createSession ⟨1, 4, 44⟩, .clo ⟨1, 5, 45⟩, .msg .getEndpoints ⟨1, 6, 46⟩]
    = [.ack, .opnResponse 1 1 41, .service .getEndpoints 42, .opnResponse 1 2 43, .service .createSession 44,
       .closeErr "BadConnectionClosed", .ignored] := by decide

end OpcuaVerif.C15
