import OpcuaVerif.Model.C19

/-!
C19 — Only activated sessions on their own channel can use services.
Property theorems.  The model is `OpcuaVerif.Model.C19` (`step`/`run` over request histories of one
connection).
-/
namespace OpcuaVerif.C19

/-! ### invariant of the session table -/

/-- Tokens of registered sessions are pairwise distinct, non-null, were issued on this connection,
and there are at most `MAX_SESSIONS_PER_TRANSPORT` sessions. -/
def Inv (s : St) : Prop :=
  (s.sessions.map (·.token)).Pairwise (· ≠ ·) ∧
  (∀ x ∈ s.sessions, 1 ≤ x.token ∧ x.token ≤ s.issued) ∧
  s.sessions.length ≤ maxSessions

theorem init_inv (c : Nat) : Inv (St.init c) := by
  simp [Inv, St.init]

theorem find_some {s : St} {t : Tok} {x : Sess} (h : find s t = some x) :
    x ∈ s.sessions ∧ t.matches x.token = true := by
  unfold find at h
  exact ⟨List.mem_of_find?_eq_some h, by simpa using List.find?_some h⟩

theorem find_none {s : St} {t : Tok} (h : find s t = none) :
    ∀ x ∈ s.sessions, t.matches x.token = false := by
  unfold find at h
  intro x hx
  have := List.find?_eq_none.mp h x hx
  simpa using this

theorem setSess_tokens (s : St) (n : Nat) (f : Sess → Sess) (hf : ∀ y, (f y).token = y.token) :
    (setSess s n f).sessions.map (·.token) = s.sessions.map (·.token) := by
  simp only [setSess, List.map_map]
  apply List.map_congr_left
  intro y _
  simp only [Function.comp]
  split <;> simp [hf]

theorem setSess_mem {s : St} {n : Nat} {f : Sess → Sess} {y : Sess}
    (h : y ∈ (setSess s n f).sessions) : ∃ z ∈ s.sessions, y = if z.token = n then f z else z := by
  simp only [setSess, List.mem_map] at h
  obtain ⟨z, hz, rfl⟩ := h
  exact ⟨z, hz, rfl⟩

theorem setSess_inv {s : St} (n : Nat) (f : Sess → Sess) (hf : ∀ y, (f y).token = y.token)
    (h : Inv s) : Inv (setSess s n f) := by
  obtain ⟨h1, h2, h3⟩ := h
  refine ⟨by rw [setSess_tokens s n f hf]; exact h1, ?_, by simpa [setSess] using h3⟩
  intro y hy
  obtain ⟨z, hz, rfl⟩ := setSess_mem hy
  have := h2 z hz
  split <;> simp [hf, this, setSess]

theorem perform_inv {s : St} (x : Sess) (svc : Svc) (h : Inv s) : Inv (perform s x svc).1 := by
  cases svc with
  | write v => exact h
  | read => exact h
  | browse => exact h
  | other k => exact h
  | sub => exact setSess_inv _ _ (fun _ => rfl) h

/-- **The invariant holds after every request.** -/
theorem step_inv (s : St) (op : Op) (h : Inv s) : Inv (step s op).1 := by
  cases op with
  | createBadUrl => simp only [step]; split <;> exact h
  | create bits =>
    simp only [step]
    split
    · exact h
    · rename_i hlen
      obtain ⟨h1, h2, h3⟩ := h
      refine ⟨?_, ?_, ?_⟩
      · simp only [List.map_append, List.map_cons, List.map_nil]
        rw [List.pairwise_append]
        refine ⟨h1, by simp, ?_⟩
        intro a ha b hb
        simp only [List.mem_map] at ha
        obtain ⟨x, hx, rfl⟩ := ha
        simp only [List.mem_singleton] at hb
        have := (h2 x hx).2
        omega
      · intro x hx
        simp only [List.mem_append, List.mem_singleton] at hx
        rcases hx with hx | rfl
        · have := h2 x hx; simp only []; omega
        · simp
      · simp only [List.length_append, List.length_singleton]
        unfold maxSessions at *
        omega
  | activate t c =>
    simp only [step]
    split
    · exact h
    · split
      · exact setSess_inv _ _ (fun _ => rfl) h
      · split
        · exact setSess_inv _ _ (fun _ => rfl) h
        · exact setSess_inv _ _ (fun _ => rfl) h
  | close t =>
    simp only [step]
    split
    · exact h
    · split
      · exact h
      · obtain ⟨h1, h2, h3⟩ := h
        refine ⟨?_, ?_, ?_⟩
        · exact List.Pairwise.sublist (List.Sublist.map _ (List.filter_sublist)) h1
        · intro y hy
          exact h2 y (List.mem_filter.mp hy).1
        · exact Nat.le_trans (List.length_filter_le _ _) h3
  | service t svc =>
    simp only [step]
    split
    · exact h
    · split
      · exact h
      · split
        · exact h
        · split
          · exact setSess_inv _ _ (fun _ => rfl) h
          · rename_i x _ _ _ _
            have hp := perform_inv x svc h
            generalize perform s x svc = r at *
            obtain ⟨s', o⟩ := r
            exact setSess_inv _ _ (fun _ => rfl) hp
  | discovery => exact h
  | setChan c => exact h
  | elapse ms =>
    obtain ⟨h1, h2, h3⟩ := h
    refine ⟨?_, ?_, ?_⟩
    · simpa [step, List.map_map, Function.comp_def] using h1
    · intro y hy
      simp only [step, List.mem_map] at hy
      obtain ⟨z, hz, rfl⟩ := hy
      exact h2 z hz
    · simpa [step] using h3

theorem run_inv (ops : List Op) (s : St) (h : Inv s) : Inv (run s ops) := by
  induction ops generalizing s with
  | nil => exact h
  | cons op ops ih => exact ih _ (step_inv s op h)

/-- Every history of a connection keeps the session table well formed. -/
theorem history_inv (c : Nat) (ops : List Op) : Inv (run (St.init c) ops) :=
  run_inv ops _ (init_inv c)

/-! ### a service is carried out only for a live token -/

/-- the token names a session of this connection that is activated, bound to the connection's
current secure channel and not timed out -/
def Live (s : St) (t : Tok) : Prop :=
  ∃ x ∈ s.sessions, t.matches x.token = true ∧ x.activated = true ∧ x.chan = s.chan ∧ timedOut x = false

/-- **service_only_if** — a service other than discovery and the session services answers with
something else than a ServiceFault only if the token is live. -/
theorem service_only_if (s : St) (t : Tok) (svc : Svc)
    (h : (step s (.service t svc)).2.isFault = false) : Live s t := by
  simp only [step] at h
  split at h
  · simp [Out.isFault] at h
  · rename_i x hx
    obtain ⟨hm, ht⟩ := find_some hx
    split at h
    · simp [Out.isFault] at h
    · split at h
      · simp [Out.isFault] at h
      · split at h
        · simp [Out.isFault] at h
        · rename_i h1 h2 h3
          refine ⟨x, hm, ht, ?_, ?_, ?_⟩
          · simpa using h1
          · simpa using h2
          · simpa using h3

/-- the same over whole histories of a connection -/
theorem service_only_if_history (c : Nat) (ops : List Op) (t : Tok) (svc : Svc)
    (h : (step (run (St.init c) ops) (.service t svc)).2.isFault = false) :
    Live (run (St.init c) ops) t :=
  service_only_if _ t svc h

theorem matches_unique {s : St} (h : Inv s) {t : Tok} {x y : Sess} (hx : x ∈ s.sessions)
    (hy : y ∈ s.sessions) (mx : t.matches x.token = true) (my : t.matches y.token = true) : x = y := by
  have htok : x.token = y.token := by
    cases t with
    | num n => simp [Tok.matches] at mx my; omega
    | foreign => simp [Tok.matches] at mx
  obtain ⟨h1, -, -⟩ := h
  -- two members of a list with pairwise distinct images under `token` and equal tokens are equal
  have : ∀ (l : List Sess), (l.map (·.token)).Pairwise (· ≠ ·) → x ∈ l → y ∈ l → x = y := by
    intro l
    induction l with
    | nil => intro _ hx; simp at hx
    | cons a l ih =>
      intro hp hx hy
      simp only [List.map_cons, List.pairwise_cons, List.mem_map, forall_exists_index, and_imp,
        forall_apply_eq_imp_iff₂] at hp
      simp only [List.mem_cons] at hx hy
      rcases hx with rfl | hx <;> rcases hy with rfl | hy
      · rfl
      · exact absurd htok (hp.1 y hy)
      · exact absurd htok.symm (hp.1 x hx)
      · exact ih hp.2 hx hy
  exact this _ h1 hx hy

/-- … and (given the table invariant) a live token is served: the guard is exact. -/
theorem service_if (s : St) (hinv : Inv s) (t : Tok) (svc : Svc) (h : Live s t) :
    (step s (.service t svc)).2.isFault = false := by
  obtain ⟨x, hx, hm, ha, hc, ht⟩ := h
  simp only [step]
  split
  · rename_i hn
    have := find_none hn x hx
    simp [hm] at this
  · rename_i y hy
    obtain ⟨hym, hyt⟩ := find_some hy
    have : y = x := matches_unique hinv hym hx hyt hm
    subst this
    simp only [ha, hc, ht]
    simp only [Bool.not_true, Bool.false_eq_true, ↓reduceIte, bne_self_eq_false]
    cases svc <;> simp [perform, Out.isFault]

theorem service_iff_history (c : Nat) (ops : List Op) (t : Tok) (svc : Svc) :
    (step (run (St.init c) ops) (.service t svc)).2.isFault = false ↔ Live (run (St.init c) ops) t :=
  ⟨service_only_if _ t svc, service_if _ (history_inv c ops) t svc⟩

/-! ### a ServiceFault changes nothing -/

/-- everything about a session except the `terminate_session` flag (which tells the transport to
drop the connection once the session has timed out) -/
def Sess.core (x : Sess) : Nat × Bool × Nat × Nat × Nat × Nat :=
  (x.token, x.activated, x.chan, x.idle, x.timeout, x.subs)

/-- **fault_changes_nothing** — when a service request is answered by a ServiceFault, the variable,
the channel binding, the session table (activation, channel, idle time, timeout, subscriptions of
every session) are what they were. -/
theorem fault_changes_nothing (s s' : St) (t : Tok) (svc : Svc) (e : Status)
    (h : step s (.service t svc) = (s', .fault e)) :
    s'.v = s.v ∧ s'.chan = s.chan ∧ s'.issued = s.issued ∧
      s'.sessions.map Sess.core = s.sessions.map Sess.core := by
  have key : ∀ n, (setSess s n (fun y => { y with term := true })).sessions.map Sess.core
      = s.sessions.map Sess.core := by
    intro n
    simp only [setSess, List.map_map]
    apply List.map_congr_left
    intro y _
    simp only [Function.comp]
    split <;> rfl
  simp only [step] at h
  split at h
  · cases h; simp
  · split at h
    · cases h; simp
    · split at h
      · cases h; simp
      · split at h
        · cases h
          exact ⟨rfl, rfl, rfl, key _⟩
        · rename_i x _ _ _ _
          cases svc <;> simp [perform] at h

/-! ### tokens that can never be used -/

/-- token `n` was issued on this connection and no registered session carries it (any more) -/
def Dead (n : Nat) (s : St) : Prop := n ≤ s.issued ∧ ∀ x ∈ s.sessions, x.token ≠ n

theorem setSess_dead {s : St} {n m : Nat} {f : Sess → Sess} (hf : ∀ y, (f y).token = y.token)
    (h : Dead n s) : Dead n (setSess s m f) := by
  refine ⟨by simpa [setSess] using h.1, ?_⟩
  intro y hy
  obtain ⟨z, hz, rfl⟩ := setSess_mem hy
  have := h.2 z hz
  split <;> simp [hf, this]

theorem dead_step (n : Nat) (s : St) (op : Op) (h : Dead n s) : Dead n (step s op).1 := by
  cases op with
  | createBadUrl => simp only [step]; split <;> exact h
  | create bits =>
    simp only [step]
    split
    · exact h
    · refine ⟨by simp only []; have := h.1; omega, ?_⟩
      intro x hx
      simp only [List.mem_append, List.mem_singleton] at hx
      rcases hx with hx | rfl
      · exact h.2 x hx
      · have := h.1; simp only []; omega
  | activate t c =>
    simp only [step]
    split
    · exact h
    · split
      · exact setSess_dead (fun _ => rfl) h
      · split
        · exact setSess_dead (fun _ => rfl) h
        · exact setSess_dead (fun _ => rfl) h
  | close t =>
    simp only [step]
    split
    · exact h
    · split
      · exact h
      · exact ⟨h.1, fun y hy => h.2 y (List.mem_filter.mp hy).1⟩
  | service t svc =>
    simp only [step]
    split
    · exact h
    · split
      · exact h
      · split
        · exact h
        · split
          · exact setSess_dead (fun _ => rfl) h
          · rename_i x _ _ _ _
            have hp : Dead n (perform s x svc).1 := by
              cases svc with
              | write v => exact h
              | read => exact h
              | browse => exact h
              | other k => exact h
              | sub => exact setSess_dead (fun _ => rfl) h
            generalize perform s x svc = r at *
            obtain ⟨s', o⟩ := r
            exact setSess_dead (fun _ => rfl) hp
  | discovery => exact h
  | setChan c => exact h
  | elapse ms =>
    refine ⟨h.1, ?_⟩
    intro y hy
    simp only [step, List.mem_map] at hy
    obtain ⟨z, hz, rfl⟩ := hy
    exact h.2 z hz

theorem dead_run (n : Nat) (ops : List Op) (s : St) (h : Dead n s) : Dead n (run s ops) := by
  induction ops generalizing s with
  | nil => exact h
  | cons op ops ih => exact ih _ (dead_step n s op h)

theorem dead_find (n : Nat) (s : St) (h : Dead n s) : find s (.num n) = none := by
  unfold find
  rw [List.find?_eq_none]
  intro x hx
  have := h.2 x hx
  simp only [Tok.matches, beq_iff_eq]
  omega

/-- a dead token is refused by every request that names it -/
theorem dead_refused (n : Nat) (s : St) (h : Dead n s) (svc : Svc) (c : Cred) :
    (step s (.service (.num n) svc)).2 = .fault .BadSessionIdInvalid ∧
    (step s (.activate (.num n) c)).2 = .fault .BadSessionIdInvalid ∧
    (step s (.close (.num n))).2 = .fault .BadSessionIdInvalid := by
  simp [step, dead_find n s h]

/-- **closed_token_dead** — after a CloseSession that succeeded, whatever happens next on the
connection, no service request, ActivateSession or CloseSession naming that token is accepted. -/
theorem closed_token_dead (s : St) (hinv : Inv s) (t : Tok)
    (hc : (step s (.close t)).2 = .closed) (ops : List Op) (svc : Svc) (c : Cred) :
    let s' := run (step s (.close t)).1 ops
    (step s' (.service t svc)).2 = .fault .BadSessionIdInvalid ∧
    (step s' (.activate t c)).2 = .fault .BadSessionIdInvalid ∧
    (step s' (.close t)).2 = .fault .BadSessionIdInvalid := by
  intro s'
  -- the closed token is a number, and dead right after the close
  have hd : ∃ n, t = .num n ∧ Dead n (step s (.close t)).1 := by
    simp only [step] at hc ⊢
    split at hc
    · simp at hc
    · rename_i x hx
      obtain ⟨hm, ht⟩ := find_some hx
      split at hc
      · simp at hc
      · cases t with
        | foreign => simp [Tok.matches] at ht
        | num n =>
          simp only [Tok.matches, beq_iff_eq] at ht
          refine ⟨n, rfl, ?_⟩
          rename_i hnot
          rw [if_neg hnot]
          · refine ⟨by have := (hinv.2.1 x hm).2; simp only []; omega, ?_⟩
            intro y hy
            have := (List.mem_filter.mp hy).2
            simp only [bne_iff_ne, ne_eq] at this
            omega
  obtain ⟨n, rfl, hdead⟩ := hd
  exact dead_refused n s' (dead_run n ops _ hdead) svc c

/-- **null_token_never_matches** — the null token (which `close_session` writes into a closed
session) never selects a session. -/
theorem null_token_never_matches (s : St) (hinv : Inv s) (svc : Svc) (c : Cred) :
    (step s (.service (.num 0) svc)).2 = .fault .BadSessionIdInvalid ∧
    (step s (.activate (.num 0) c)).2 = .fault .BadSessionIdInvalid ∧
    (step s (.close (.num 0))).2 = .fault .BadSessionIdInvalid := by
  apply dead_refused 0 s ⟨Nat.zero_le _, ?_⟩
  intro x hx
  have := (hinv.2.1 x hx).1
  omega

/-- a token that was never issued on this connection (another connection's, a forged one, a
session id, …) is refused -/
theorem unissued_token_refused (s : St) (hinv : Inv s) (t : Tok)
    (ht : t = .foreign ∨ ∃ n, t = .num n ∧ s.issued < n) (svc : Svc) (c : Cred) :
    (step s (.service t svc)).2 = .fault .BadSessionIdInvalid ∧
    (step s (.activate t c)).2 = .fault .BadSessionIdInvalid ∧
    (step s (.close t)).2 = .fault .BadSessionIdInvalid := by
  have : find s t = none := by
    unfold find
    rw [List.find?_eq_none]
    intro x hx
    rcases ht with rfl | ⟨n, rfl, hn⟩
    · simp [Tok.matches]
    · have := (hinv.2.1 x hx).2
      simp only [Tok.matches, beq_iff_eq]
      omega
  simp [step, this]

/-! ### timeouts -/

theorem gtScaled_mono {n m : Nat} {e : Int} (k : Nat) (h : gtScaled n m e = true) :
    gtScaled (n + k) m e = true := by
  unfold gtScaled at *
  split
  · rename_i he
    simp only [he, ↓reduceIte, decide_eq_true_eq] at h ⊢
    omega
  · rename_i he
    simp only [he, ↓reduceIte, decide_eq_true_eq] at h ⊢
    have : n * 2 ^ (-e).toNat ≤ (n + k) * 2 ^ (-e).toNat := Nat.mul_le_mul_right _ (Nat.le_add_right n k)
    omega

theorem ltNat_mono (f : F) (n k : Nat) (h : f.ltNat n = true) : f.ltNat (n + k) = true := by
  cases f with
  | nan => simp [F.ltNat] at h
  | inf neg => simpa [F.ltNat] using h
  | fin neg m e =>
    cases neg with
    | true =>
      simp only [F.ltNat, Bool.or_eq_true, decide_eq_true_eq] at h ⊢
      omega
    | false =>
      simp only [F.ltNat] at h ⊢
      exact gtScaled_mono k h

/-- idle time only makes a session more timed out -/
theorem timedOut_mono (x : Sess) (k : Nat) (h : timedOut x = true) :
    timedOut { x with idle := x.idle + k } = true := by
  simp only [timedOut, Bool.and_eq_true] at h ⊢
  exact ⟨ltNat_mono _ _ k h.1, h.2⟩

/-- every registered session with token `n` (there is at most one) is timed out -/
def TimedOutTok (n : Nat) (s : St) : Prop :=
  n ≤ s.issued ∧ ∀ x ∈ s.sessions, x.token = n → timedOut x = true

theorem setSess_other_timedOut {s : St} {n m : Nat} {f : Sess → Sess}
    (hf : ∀ y, (f y).token = y.token) (hne : m ≠ n) (h : TimedOutTok n s) :
    TimedOutTok n (setSess s m f) := by
  refine ⟨by simpa [setSess] using h.1, ?_⟩
  intro y hy hyn
  obtain ⟨z, hz, rfl⟩ := setSess_mem hy
  split at hyn
  · rename_i hzm; rw [hf] at hyn; omega
  · rename_i hzm; simp only [hzm, ↓reduceIte]; exact h.2 z hz hyn

theorem setSess_term_timedOut {s : St} {n m : Nat} (h : TimedOutTok n s) :
    TimedOutTok n (setSess s m (fun y => { y with term := true })) := by
  refine ⟨by simpa [setSess] using h.1, ?_⟩
  intro y hy hyn
  obtain ⟨z, hz, rfl⟩ := setSess_mem hy
  split at hyn
  · rename_i hzm; simp only [hzm, ↓reduceIte]; exact h.2 z hz hyn
  · rename_i hzm; simp only [hzm, ↓reduceIte]; exact h.2 z hz hyn

theorem timedOutTok_step (n : Nat) (s : St) (op : Op) (h : TimedOutTok n s) :
    TimedOutTok n (step s op).1 := by
  cases op with
  | createBadUrl => simp only [step]; split <;> exact h
  | create bits =>
    simp only [step]
    split
    · exact h
    · refine ⟨by simp only []; have := h.1; omega, ?_⟩
      intro x hx hxn
      simp only [List.mem_append, List.mem_singleton] at hx
      rcases hx with hx | rfl
      · exact h.2 x hx hxn
      · have := h.1; simp only [] at hxn; omega
  | activate t c =>
    simp only [step]
    split
    · exact h
    · rename_i x hx
      obtain ⟨hm, _⟩ := find_some hx
      split
      · exact setSess_term_timedOut h
      · rename_i hnt
        have hne : x.token ≠ n := fun hxn => hnt (h.2 x hm hxn)
        split
        · exact setSess_other_timedOut (fun _ => rfl) hne h
        · exact setSess_other_timedOut (fun _ => rfl) hne h
  | close t =>
    simp only [step]
    split
    · exact h
    · split
      · exact h
      · exact ⟨h.1, fun y hy => h.2 y (List.mem_filter.mp hy).1⟩
  | service t svc =>
    simp only [step]
    split
    · exact h
    · rename_i x hx
      obtain ⟨hm, _⟩ := find_some hx
      split
      · exact h
      · split
        · exact h
        · split
          · exact setSess_term_timedOut h
          · rename_i hnt
            have hne : x.token ≠ n := fun hxn => hnt (h.2 x hm hxn)
            have hp : TimedOutTok n (perform s x svc).1 := by
              cases svc with
              | write v => exact h
              | read => exact h
              | browse => exact h
              | other k => exact h
              | sub => exact setSess_other_timedOut (fun _ => rfl) hne h
            generalize perform s x svc = r at *
            obtain ⟨s', o⟩ := r
            exact setSess_other_timedOut (fun _ => rfl) hne hp
  | discovery => exact h
  | setChan c => exact h
  | elapse ms =>
    refine ⟨h.1, ?_⟩
    intro y hy hyn
    simp only [step, List.mem_map] at hy
    obtain ⟨z, hz, rfl⟩ := hy
    exact timedOut_mono z ms (h.2 z hz hyn)

/-- **timeout_is_final** — once a session has timed out, no history of requests brings it back:
as long as it is registered it stays timed out, so (by `service_only_if`) no service is ever
carried out for its token again. -/
theorem timeout_is_final (s : St) (hinv : Inv s) (x : Sess) (hx : x ∈ s.sessions)
    (hto : timedOut x = true) (ops : List Op) (svc : Svc) :
    (step (run s ops) (.service (.num x.token) svc)).2.isFault = true := by
  have h0 : TimedOutTok x.token s := by
    refine ⟨(hinv.2.1 x hx).2, ?_⟩
    intro y hy hyx
    have : y = x := matches_unique hinv (t := .num x.token) hy hx (by simp [Tok.matches, hyx]) (by simp [Tok.matches])
    rw [this]; exact hto
  have hrun : ∀ (ops : List Op) (s : St), TimedOutTok x.token s → TimedOutTok x.token (run s ops) := by
    intro ops
    induction ops with
    | nil => intro s h; exact h
    | cons op ops ih => intro s h; exact ih _ (timedOutTok_step _ s op h)
  have h1 := hrun ops s h0
  cases hf : (step (run s ops) (.service (.num x.token) svc)).2.isFault with
  | true => rfl
  | false =>
    obtain ⟨y, hy, hm, _, _, hnt⟩ := service_only_if _ _ _ hf
    simp only [Tok.matches, beq_iff_eq] at hm
    have := h1.2 y hy hm.symm
    simp [this] at hnt

/-- A revised timeout that is not a positive number (0, −0, negative, NaN) never expires — the
session then has no timeout at all.  (The CreateSession response tells the client exactly this
value, `create_session` only clamps from above.) -/
theorem nonpositive_timeout_never_times_out (x : Sess) (h : (F.ofBits x.timeout).gtNat 0 = false) :
    timedOut x = false := by
  simp [timedOut, h]

/-- at most `MAX_SESSIONS_PER_TRANSPORT` sessions exist on a connection, whatever the history -/
theorem session_count_bounded (c : Nat) (ops : List Op) :
    (run (St.init c) ops).sessions.length ≤ maxSessions :=
  (history_inv c ops).2.2

/-! ### non-vacuity and concrete runs -/

def bits1000 : Nat := 0x408F400000000000   -- 1000.0
def bitsNaN : Nat := 0x7FF8000000000000
def bitsNeg5 : Nat := 0xC014000000000000   -- −5.0

/-- a live session exists after create + activate + service, and the service is carried out -/
example : (step (run (St.init 7) [.create bits1000, .activate (.num 1) .anon]) (.service (.num 1) (.write 5))).2 = .wrote := by
  decide

/-- hypotheses of `closed_token_dead` are satisfiable -/
example : (step (run (St.init 7) [.create bits1000, .activate (.num 1) .anon]) (.close (.num 1))).2 = .closed := by
  decide

/-- exactly at the timeout the session is still served, one millisecond later it is not -/
example : (step (run (St.init 7) [.create bits1000, .activate (.num 1) .anon, .elapse 1000]) (.service (.num 1) .read)).2 = .readv 0 := by
  decide
example : (step (run (St.init 7) [.create bits1000, .activate (.num 1) .anon, .elapse 1001]) (.service (.num 1) .read)).2 = .fault .BadSessionIdInvalid := by
  decide

/-- hypotheses of `timeout_is_final` are satisfiable -/
example : ∃ x ∈ (run (St.init 7) [.create bits1000, .elapse 1001]).sessions, timedOut x = true := by
  decide

/-- after the channel id changed the session must be re-activated on the new channel -/
example : (run (St.init 7) [.create bits1000, .activate (.num 1) .anon, .setChan 8, .service (.num 1) (.write 3),
    .activate (.num 1) .anon, .service (.num 1) (.write 4)]).v = 4 := by decide
example : (step (run (St.init 7) [.create bits1000, .activate (.num 1) .anon, .setChan 8]) (.service (.num 1) (.write 3))).2
    = .fault .BadSessionIdInvalid := by decide

/-- NaN and negative requested timeouts are returned unrevised and never expire -/
example : reviseTimeout bitsNaN = bitsNaN ∧ reviseTimeout bitsNeg5 = bitsNeg5 := by decide
example : (step (run (St.init 7) [.create bitsNaN, .activate (.num 1) .anon, .elapse (2 ^ 40)]) (.service (.num 1) .read)).2 = .readv 0 := by
  decide

end OpcuaVerif.C19
