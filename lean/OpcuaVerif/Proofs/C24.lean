import OpcuaVerif.Model.C24

/-!
C24 — Monitored item queues keep the right values and survive resizing.
Property theorems only.  The model is `OpcuaVerif.Model.C24`.
-/
namespace OpcuaVerif.C24

/-- Operations a client/server history can apply to one monitored item. -/
inductive Op where
  | enq (x : Nat)
  | drain
  | modify (req : Nat) (discardOldest : Bool)
deriving Repr, DecidableEq

/-- One step; `none` = the implementation panicked. -/
def apply (maxQ : Nat) (it : Item) : Op → Option Item
  | .enq x => some (enqueue it x)
  | .drain => some (drain it).1
  | .modify r d => match modify maxQ it r d with
    | .ok it' => some it'
    | .panic => none

def run (maxQ : Nat) : Item → List Op → Option Item
  | it, [] => some it
  | it, op :: ops => match apply maxQ it op with
    | some it' => run maxQ it' ops
    | none => none

def Inv (it : Item) : Prop := it.queue.length ≤ it.size ∧ 1 ≤ it.size

instance (it : Item) : Decidable (Inv it) := by unfold Inv; infer_instance

theorem snoc_ind {α : Type} {P : List α → Prop} (nil : P [])
    (snoc : ∀ xs x, P xs → P (xs ++ [x])) : ∀ xs, P xs := by
  intro xs
  rw [← List.reverse_reverse xs]
  induction xs.reverse with
  | nil => simpa using nil
  | cons a l ih => simpa using snoc _ a ih

theorem sanitize_pos (maxQ req : Nat) (h : 1 ≤ maxQ) : 1 ≤ sanitize maxQ req := by
  unfold sanitize
  split
  · omega
  · split <;> omega

theorem sanitize_le (maxQ req : Nat) (h : 1 ≤ maxQ) : sanitize maxQ req ≤ maxQ := by
  unfold sanitize
  split
  · omega
  · split <;> omega

theorem mk_inv (maxQ req : Nat) (d : Bool) (h : 1 ≤ maxQ) : Inv (mk maxQ req d) := by
  simp [Inv, mk, sanitize_pos maxQ req h]

theorem enqueue_inv (it : Item) (x : Nat) (h : Inv it) : Inv (enqueue it x) := by
  unfold Inv enqueue at *
  split
  · split <;> simp <;> omega
  · simp; omega

theorem drain_inv (it : Item) (h : Inv it) : Inv (drain it).1 := by
  unfold Inv drain at *
  split <;> (try simp) <;> omega

/-- After a resize the queue holds exactly the most recent entries that fit (and the call
returns normally). -/
theorem modify_keeps_recent (maxQ : Nat) (it : Item) (req : Nat) (d : Bool) :
    ∃ it', modify maxQ it req d = .ok it' ∧ it'.size = sanitize maxQ req ∧ it'.discardOldest = d ∧
      it'.queue = it.queue.drop (it.queue.length - min (sanitize maxQ req) it.queue.length) := by
  by_cases h : it.queue.length > sanitize maxQ req
  · have h' : sanitize maxQ req ≤ it.queue.length := by omega
    refine ⟨_, by simp [modify, modifyWith, usizeSub, h, h']; rfl, rfl, rfl, ?_⟩
    simp only []
    congr 1; omega
  · refine ⟨_, by simp [modify, modifyWith, h]; rfl, rfl, rfl, ?_⟩
    have : it.queue.length - min (sanitize maxQ req) it.queue.length = 0 := by omega
    rw [this]; simp

/-- `modify` never panics (the `usize` subtraction is in the right order), for every queue
content and every requested size. -/
theorem modify_total (maxQ : Nat) (it : Item) (req : Nat) (d : Bool) :
    modify maxQ it req d ≠ .panic := by
  obtain ⟨it', h, -⟩ := modify_keeps_recent maxQ it req d
  rw [h]; simp

theorem modify_inv (maxQ : Nat) (it it' : Item) (req : Nat) (d : Bool) (hm : 1 ≤ maxQ)
    (h : modify maxQ it req d = .ok it') : Inv it' := by
  obtain ⟨it2, h2, hs, _, hq⟩ := modify_keeps_recent maxQ it req d
  rw [h2] at h; cases h
  have := sanitize_pos maxQ req hm
  unfold Inv; rw [hq, hs]; simp; omega

/-- **Invariant over every history**: the queue never holds more entries than its size, and no
history makes the item panic. -/
theorem run_inv (maxQ : Nat) (hm : 1 ≤ maxQ) (ops : List Op) (it : Item) (h : Inv it) :
    ∃ it', run maxQ it ops = some it' ∧ Inv it' := by
  induction ops generalizing it with
  | nil => exact ⟨it, rfl, h⟩
  | cons op ops ih =>
    cases op with
    | enq x => simpa [run, apply] using ih _ (enqueue_inv it x h)
    | drain => simpa [run, apply] using ih _ (drain_inv it h)
    | modify r d =>
      obtain ⟨it2, h2, -⟩ := modify_keeps_recent maxQ it r d
      have := ih it2 (modify_inv maxQ it it2 r d hm h2)
      simpa [run, apply, h2] using this

theorem len_le_size (maxQ req : Nat) (d : Bool) (hm : 1 ≤ maxQ) (ops : List Op) :
    ∃ it', run maxQ (mk maxQ req d) ops = some it' ∧ it'.queue.length ≤ it'.size := by
  obtain ⟨it', h1, h2⟩ := run_inv maxQ hm ops _ (mk_inv maxQ req d hm)
  exact ⟨it', h1, h2.1⟩

/-! ### What the queue holds after a run of samples -/

def samples (it : Item) : List Nat := it.queue.map (·.1)

def enqAll (it : Item) (xs : List Nat) : Item := xs.foldl enqueue it

/-- the last `n` entries of a list -/
def keepLast (n : Nat) (l : List α) : List α := l.drop (l.length - n)

theorem keepLast_keepLast_append (n : Nat) (a b : List α) :
    keepLast n (keepLast n a ++ b) = keepLast n (a ++ b) := by
  unfold keepLast
  by_cases h : a.length ≤ n
  · have : a.length - n = 0 := by omega
    simp [this]
  · rw [List.drop_append, List.drop_append]
    simp only [List.length_append, List.length_drop, List.drop_drop]
    congr 2 <;> omega

theorem keepLast_of_le (n : Nat) (l : List α) (h : l.length ≤ n) : keepLast n l = l := by
  unfold keepLast
  have : l.length - n = 0 := by omega
  simp [this]

theorem enqueue_size (it : Item) (x : Nat) : (enqueue it x).size = it.size := by
  unfold enqueue; split <;> rfl

theorem enqueue_discard (it : Item) (x : Nat) : (enqueue it x).discardOldest = it.discardOldest := by
  unfold enqueue; split <;> rfl

/-- one sample, discard-oldest policy -/
theorem enqueue_oldest_step (it : Item) (x : Nat) (h : Inv it) (hd : it.discardOldest = true) :
    samples (enqueue it x) = keepLast it.size (samples it ++ [x]) := by
  obtain ⟨hl, hp⟩ := h
  unfold enqueue samples keepLast
  split
  · rename_i heq
    simp only [List.map_append, List.map_cons, List.map_nil, List.map_tail,
      List.length_append, List.length_map, List.length_cons, List.length_nil]
    have e1 : it.queue.length + (0 + 1) - it.size = 1 := by omega
    rw [e1, List.drop_one, List.tail_append_of_ne_nil]
    intro hn
    have : it.queue = [] := by simpa using hn
    rw [this] at heq; simp at heq; omega
  · rename_i hne
    simp only [List.map_append, List.map_cons, List.map_nil, List.length_append, List.length_map,
      List.length_cons, List.length_nil]
    have e1 : it.queue.length + (0 + 1) - it.size = 0 := by omega
    rw [e1]; simp

/-- **Discard-oldest**: after any run of samples the queue is exactly the last `size` of
(what was queued before ++ the new samples), in order. -/
theorem discard_oldest_spec (it : Item) (xs : List Nat) (h : Inv it) (hd : it.discardOldest = true) :
    samples (enqAll it xs) = keepLast it.size (samples it ++ xs) := by
  induction xs generalizing it with
  | nil =>
    have : (samples it).length ≤ it.size := by simpa [samples] using h.1
    simp [enqAll, keepLast_of_le _ _ this]
  | cons x xs ih =>
    have hi := enqueue_inv it x h
    have := ih (enqueue it x) hi (by rw [enqueue_discard]; exact hd)
    show samples (enqAll (enqueue it x) xs) = _
    rw [this, enqueue_size, enqueue_oldest_step it x h hd, keepLast_keepLast_append]
    simp

/-- one sample, discard-newest policy: a full queue has its newest entry replaced -/
theorem enqueue_newest_step (it : Item) (x : Nat) (hd : it.discardOldest = false) :
    samples (enqueue it x) =
      (if (samples it).length = it.size then (samples it).dropLast else samples it) ++ [x] := by
  unfold enqueue samples
  split
  · rename_i heq
    simp [hd, heq, List.map_dropLast]
  · rename_i hne
    simp [hne]

theorem enqAll_snoc (it : Item) (xs : List Nat) (x : Nat) :
    enqAll it (xs ++ [x]) = enqueue (enqAll it xs) x := by
  simp [enqAll, List.foldl_append]

theorem enqAll_size (it : Item) (xs : List Nat) : (enqAll it xs).size = it.size := by
  induction xs generalizing it with
  | nil => rfl
  | cons x xs ih => show (enqAll (enqueue it x) xs).size = _; rw [ih, enqueue_size]

theorem enqAll_discard (it : Item) (xs : List Nat) : (enqAll it xs).discardOldest = it.discardOldest := by
  induction xs generalizing it with
  | nil => rfl
  | cons x xs ih => show (enqAll (enqueue it x) xs).discardOldest = _; rw [ih, enqueue_discard]

/-- **Discard-newest**: starting from an empty queue of size `n`, after the samples `xs` the queue
holds all of them while they fit, and afterwards the first `n-1` samples followed by the latest. -/
theorem discard_newest_spec (it : Item) (xs : List Nat) (h : Inv it) (hd : it.discardOldest = false)
    (he : it.queue = []) :
    samples (enqAll it xs) =
      if xs.length ≤ it.size then xs else xs.take (it.size - 1) ++ xs.getLast?.toList := by
  induction xs using snoc_ind with
  | nil => simp [enqAll, samples, he]
  | snoc xs x ih =>
    rw [enqAll_snoc, enqueue_newest_step _ _ (by rw [enqAll_discard]; exact hd), enqAll_size]
    have hp := h.2
    by_cases h1 : xs.length < it.size
    · have e : samples (enqAll it xs) = xs := by rw [ih, if_pos (by omega)]
      rw [e, if_neg (by omega), if_pos (by simp; omega)]
    · by_cases h2 : xs.length = it.size
      · have e : samples (enqAll it xs) = xs := by rw [ih, if_pos (by omega)]
        rw [e, if_pos h2, if_neg (by simp; omega)]
        rw [List.take_append_of_le_length (by omega), List.dropLast_eq_take, h2]
        simp
      · have hne : xs ≠ [] := by intro h0; subst h0; simp at h1; omega
        obtain ⟨l, hl⟩ : ∃ l, xs.getLast? = some l := by
          cases hx : xs.getLast? with
          | none => exact absurd (List.getLast?_eq_none_iff.mp hx) hne
          | some l => exact ⟨l, rfl⟩
        have e : samples (enqAll it xs) = xs.take (it.size - 1) ++ [l] := by
          rw [ih, if_neg (by omega), hl]; rfl
        have hlen : (xs.take (it.size - 1) ++ [l]).length = it.size := by
          simp; omega
        rw [e, if_pos hlen, if_neg (by simp; omega)]
        rw [List.dropLast_concat, List.take_append_of_le_length (by omega)]
        simp

/-- The overflow bit is set on a sample exactly when it displaced another one and the queue
is longer than one entry; the item's overflow flag is then raised. -/
theorem overflow_flag_iff (it : Item) (x : Nat) :
    ((enqueue it x).queue.getLast? = some (x, decide (it.queue.length = it.size ∧ it.size > 1)))
    ∧ ((enqueue it x).overflow = (it.overflow || decide (it.queue.length = it.size ∧ it.size > 1))) := by
  unfold enqueue
  split
  · rename_i h; simp [h]
  · rename_i h; simp [h]

/-- Order is preserved: whatever the history, the queued samples are a subsequence of the
samples in the order they were taken (`log` = queued-before ++ everything enqueued since). -/
def logOf : List Op → List Nat
  | [] => []
  | .enq x :: ops => x :: logOf ops
  | _ :: ops => logOf ops

theorem order_preserved (maxQ : Nat) (ops : List Op) (it it' : Item)
    (h : run maxQ it ops = some it') : (samples it').Sublist (samples it ++ logOf ops) := by
  induction ops generalizing it with
  | nil => simp [run] at h; subst h; simp [logOf]
  | cons op ops ih =>
    cases op with
    | enq x =>
      simp only [run, apply] at h
      refine (ih _ h).trans ?_
      simp only [logOf]
      rw [show samples it ++ x :: logOf ops = (samples it ++ [x]) ++ logOf ops by simp]
      refine List.Sublist.append_right ?_ _
      unfold enqueue samples
      split
      · split
        · simp only [List.map_append, List.map_cons, List.map_nil, List.map_tail]
          exact List.Sublist.append_right (List.tail_sublist _) _
        · simp only [List.map_append, List.map_cons, List.map_nil, List.map_dropLast]
          exact List.Sublist.append_right (List.dropLast_sublist _) _
      · simp
    | drain =>
      simp only [run, apply] at h
      refine (ih _ h).trans ?_
      simp only [logOf]
      refine List.Sublist.append_right ?_ _
      unfold drain samples; split <;> simp
    | modify r d =>
      obtain ⟨it2, h2, _, _, hq⟩ := modify_keeps_recent maxQ it r d
      simp only [run, apply, h2] at h
      refine (ih _ h).trans ?_
      simp only [logOf]
      refine List.Sublist.append_right ?_ _
      unfold samples; rw [hq, List.map_drop]
      exact List.drop_sublist _ _

/-! ### Non-vacuity and the defect that was repaired -/

/-- the hypotheses are satisfiable by a non-trivial reachable state -/
example : Inv (enqAll (mk 10 3 true) [1, 2, 3, 4]) ∧ samples (enqAll (mk 10 3 true) [1, 2, 3, 4]) = [2, 3, 4] := by
  decide

example : samples (enqAll (mk 10 3 false) [1, 2, 3, 4, 5]) = [1, 2, 5] := by decide

/-- The pinned source computed `queue_size - len` (operands swapped): shrinking a queue that holds
more entries than the new size panics.  Kept as the record of the repaired defect. -/
theorem C24_counterexample_shrink_swapped :
    modifyWith true 10 (enqAll (mk 10 5 true) [1, 2, 3, 4, 5]) 2 true = .panic := by decide

end OpcuaVerif.C24
